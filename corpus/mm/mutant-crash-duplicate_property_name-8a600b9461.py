from enum import Enum
from re import match
from typing import List, Optional, Set

from icontract import invariant, DBC

from aas_core_meta.marker import (
    abstract,
    serialization,
    implementation_specific,
    verification,
    constant_set,
    non_mutating,
)


__version__ = "v 3"

__xml_namespace__ = "https://example.com/aasv/0/1"


@verification
def matches_maple(value: str) -> bool:
    body = f"\\.b{{2}}[a-z]$"
    pattern = f"^{body}"
    return match(pattern, value) is not None


@verification
def is_amber(text: str) -> bool:
    return text == "Some value"


@verification
def is_ember_pearl(value: float) -> bool:
    return value >= 100.0


class Umber(Enum):
    """
    Represent an enumeration.

    This is a remark with *emphasis* and ``literal`` text.
    """

    Lit_fjord = "value_2"
    """Represent a literal."""


@invariant(lambda self: not (self.velvet is not None) or 3 == len(self.velvet), "Constraint 1 of Amber_umber")
@serialization(with_model_type=True)
class Amber_umber(DBC):
    """Represent a thing."""

    velvet: Optional[List["Willow_pearl"]]

    harbor: Optional["Dune"]

    velvet: Optional[List["Willow_pearl"]]

    def __init__(self, velvet: Optional[List["Willow_pearl"]] = None, harbor: Optional["Dune"] = None) -> None:
        self.velvet = velvet
        self.harbor = harbor


@invariant(lambda self: len(self.iris_grove) < 11, "Constraint 6 of Alpha_harbor")
@invariant(lambda self: self.iris_grove in Fjord_alpha, "Constraint 5 of Alpha_harbor")
class Alpha_harbor(DBC):
    """Represent a thing."""

    alpha_velvet: "Willow_pearl"
    """Represent a property."""

    nectar_raven: Optional[float]
    """Represent a property."""

    raven: int

    iris_grove: str
    """Represent a property."""

    def __init__(self, alpha_velvet: "Willow_pearl", raven: int, iris_grove: str, nectar_raven: Optional[float] = None) -> None:
        self.alpha_velvet = alpha_velvet
        self.nectar_raven = nectar_raven
        self.raven = raven
        self.iris_grove = iris_grove


class Dune(Enum):
    Lit_zephyr_bravo = "{x}"
    Lit_pearl = ""
    Lit_lotus_onyx = "Some value"
    """Represent a literal."""


@invariant(lambda self: self.lotus in Fjord_alpha, "Constraint 2 of Willow_pearl")
class Willow_pearl(DBC):
    """Represent a thing, see :attr:`lotus`."""

    lotus: str
    """Represent a property."""

    def __init__(self, lotus: str) -> None:
        self.lotus = lotus


@invariant(lambda self: matches_maple(self.yarrow), "Constraint 4 of Coral_lotus")
@invariant(lambda self: len(self.yarrow) == 6, "Constraint 3 of Coral_lotus")
@serialization(with_model_type=True)
class Coral_lotus(Amber_umber, DBC):
    """Represent a thing, see :class:`Willow_pearl`."""

    yarrow: str

    def __init__(self, yarrow: str, velvet: Optional[List["Willow_pearl"]] = None, harbor: Optional["Dune"] = None) -> None:
        Amber_umber.__init__(self, velvet, harbor)
        self.yarrow = yarrow


Lotus_xenon: float = constant_float(value=123456.789, description="Represent a constant.")


Jade: str = constant_str(value="\\", description="Represent a constant.")


Onyx: bool = constant_bool(value=True, description="Represent a constant.")


Zephyr: Set[float] = constant_set(
    values=[
        0.0,
        5e-324,
    ],
    description="Represent a set of values.\n\nThis is a remark with *emphasis* and ``literal`` text.",
)


Dahlia: Set[float] = constant_set(
    values=[
        0.0,
        1.7976931348623157e+308,
        5e-324,
        1e-09,
    ],
    description="Represent a set of values.",
    superset_of=[Zephyr],
)


Bravo: Set[float] = constant_set(
    values=[
        1e+22,
        5e-324,
        1.5,
        0.0,
        1.0,
        1e-09,
        1.7976931348623157e+308,
    ],
    description="Represent a set of values.\n\nThis is a remark with *emphasis* and ``literal`` text.",
    superset_of=[Dahlia],
)


Fjord_alpha: Set[str] = constant_set(
    values=[
        "{x}",
    ],
    description="Represent a set of values.",
)
