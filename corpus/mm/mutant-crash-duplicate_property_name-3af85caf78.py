"""
Provide a generated meta-model.

It exists only for testing.
"""


from enum import Enum
from re import match
from typing import List, Optional, Set

from icontract import invariant, DBC

from aas_core_meta.marker import (
    abstract,
    serialization,
    implementation_specific,
    verification,
    constant_set,
    non_mutating,
)


__version__ = "2024.1-beta"

__xml_namespace__ = "urn:aasv:test"


@verification
def matches_ember_coral(text: str) -> bool:
    """
    Check that :paramref:`text` matches the pattern.

    :param text: to be checked
    :returns: True if it matches
    """
    return match(f"^[a-zA-Z0-9](-{{2,}})$", text) is not None


@verification
def is_sable_lotus(text: str) -> bool:
    return text != "Some value"


@verification
def is_birch(text: str) -> bool:
    return len(text) < 2


class Onyx(bytearray, DBC):
    """Represent a constrained primitive."""


@invariant(lambda self: not (self.lotus is not None) or self.willow is not None, "Constraint 2 of Quartz_harbor")
@invariant(lambda self: self.willow is None or len(self.willow) < 8, "Constraint 1 of Quartz_harbor")
@abstract
@serialization(with_model_type=True)
class Quartz_harbor(DBC):
    """Represent a thing, see :class:`Lotus_zephyr`."""

    lotus: Optional["Nectar"]

    willow: Optional[List["Nectar"]]

    def __init__(self, lotus: Optional["Nectar"] = None, willow: Optional[List["Nectar"]] = None) -> None:
        self.lotus = lotus
        self.willow = willow


class Raven_cedar(Onyx, DBC):
    """Represent a constrained primitive."""


class Velvet_quartz(Raven_cedar, DBC):
    """Represent a constrained primitive."""


@invariant(lambda self: self.willow is None or any(element.willow is not None for element in self.willow), "Constraint 3 of Nectar")
@serialization(with_model_type=True)
class Nectar(Quartz_harbor, DBC):
    """Represent a thing."""

    def __init__(self, lotus: Optional["Nectar"] = None, willow: Optional[List["Nectar"]] = None) -> None:
        Quartz_harbor.__init__(self, lotus, willow)


@invariant(lambda self: not (self.willow is not None) or self.raven_coral < 13, "Constraint 7 of Zephyr")
@invariant(lambda self: self.willow is None or 5 > len(self.willow), "Constraint 6 of Zephyr")
@serialization(with_model_type=True)
class Zephyr(Nectar, DBC):
    """Represent a thing."""

    maple: Optional[str]

    maple_nectar: Optional[List["Nectar"]]
    """Represent a property."""

    raven_coral: int
    """
    Represent a property.

    This is a remark with *emphasis* and ``literal`` text.
    """

    maple: Optional[str]

    def __init__(self, raven_coral: int, lotus: Optional["Nectar"] = None, willow: Optional[List["Nectar"]] = None, maple: Optional[str] = None, maple_nectar: Optional[List["Nectar"]] = None) -> None:
        Nectar.__init__(self, lotus, willow)
        self.maple = maple
        self.maple_nectar = maple_nectar
        self.raven_coral = raven_coral


@invariant(lambda self: self.willow is not None or self.lotus is not None, "Constraint 5 of Lotus_zephyr")
@invariant(lambda self: self.willow is not None or self.lotus is not None, "Constraint 4 of Lotus_zephyr")
@serialization(with_model_type=True)
class Lotus_zephyr(Nectar, DBC):
    """Represent a thing, see :attr:`quartz_raven`."""

    quartz_raven: List["Lotus_zephyr"]
    """Represent a property."""

    def __init__(self, quartz_raven: List["Lotus_zephyr"], lotus: Optional["Nectar"] = None, willow: Optional[List["Nectar"]] = None) -> None:
        Nectar.__init__(self, lotus, willow)
        self.quartz_raven = quartz_raven


Jade: str = constant_str(value='"')


Coral_maple: int = constant_int(value=2)


Quartz_cedar: float = constant_float(value=1.7976931348623157e+308, description="Represent a constant.")


Zephyr_fjord: int = constant_int(value=2147483647, description="Represent a constant.")
