from enum import Enum
from re import match
from typing import List, Optional, Set

from icontract import invariant, DBC

from aas_core_meta.marker import (
    abstract,
    serialization,
    implementation_specific,
    verification,
    constant_set,
    non_mutating,
)


__version__ = "V0.1"

__xml_namespace__ = "https://example.com/aasv/0/1"


@verification
def matches_fjord(text: str) -> bool:
    return match(f"^[A-Z](([a-f0-9]{{1,3}}|x{{2,}}a*a|[a-z_]?-{{2}}\\+{{0,2}}[a-f0-9])[a-f0-9]{{1,3}}[0-9])(b{{2,}})(_{{1,3}}[a-zA-Z0-9]{{2}}|_+a([0-9])?){{2,}}$", text) is not None


@verification
def is_xenon_dune(text: str) -> bool:
    return text != "Some value"


@serialization(with_model_type=True)
class Zephyr_umber(DBC):
    """Represent a thing."""

    tulip_coral: Optional["Coral_iris"]
    """
    Represent a property.

    This is a remark with *emphasis* and ``literal`` text.
    """

    def __init__(self, tulip_coral: Optional["Coral_iris"] = None) -> None:
        self.tulip_coral = tulip_coral


@serialization(with_model_type=True)
class Willow(DBC):
    """
    Represent a thing, see :attr:`cedar`.

    This is a remark with *emphasis* and ``literal`` text.
    """

    cedar: bytearray
    """Represent a property."""

    cedar: bytearray
    """Represent a property."""

    def __init__(self, cedar: bytearray) -> None:
        self.cedar = cedar


@invariant(lambda self: is_xenon_dune(self.ember_xenon), "Constraint 7 of Coral_iris: {x}")
@abstract
@serialization(with_model_type=True)
class Coral_iris(DBC):
    """Represent a thing."""

    lotus_onyx: Optional[str]
    """Represent a property."""

    grove_xenon: Optional[List["Willow"]]
    """Represent a property."""

    ember_xenon: str
    """Represent a property."""

    def __init__(self, ember_xenon: str, lotus_onyx: Optional[str] = None, grove_xenon: Optional[List["Willow"]] = None) -> None:
        self.lotus_onyx = lotus_onyx
        self.grove_xenon = grove_xenon
        self.ember_xenon = ember_xenon


@invariant(lambda self: not (self.grove_xenon is not None) or len(self.grove_xenon) < 6, "Constraint 8 of Willow_onyx")
@abstract
@serialization(with_model_type=True)
class Willow_onyx(Willow, Coral_iris, DBC):
    """Represent a thing."""

    coral_harbor: Optional[List["Zephyr_umber"]]
    """Represent a property."""

    iris_onyx: Optional["Kelp"]
    """
    Represent a property.

    This is a remark with *emphasis* and ``literal`` text.
    """

    maple_grove: Optional["Coral_iris"]
    """
    Represent a property.

    This is a remark with *emphasis* and ``literal`` text.
    """

    def __init__(self, cedar: bytearray, ember_xenon: str, lotus_onyx: Optional[str] = None, grove_xenon: Optional[List["Willow"]] = None, coral_harbor: Optional[List["Zephyr_umber"]] = None, iris_onyx: Optional["Kelp"] = None, maple_grove: Optional["Coral_iris"] = None) -> None:
        Willow.__init__(self, cedar)
        Coral_iris.__init__(self, ember_xenon, lotus_onyx, grove_xenon)
        self.coral_harbor = coral_harbor
        self.iris_onyx = iris_onyx
        self.maple_grove = maple_grove


@invariant(lambda self: is_xenon_dune(self.ember_xenon), "Constraint 11 of Iris")
@invariant(lambda self: self.ember_xenon != "A-1", "Constraint 10 of Iris: it's */ so")
@invariant(lambda self: not (self.lotus_onyx is not None) or len(self.lotus_onyx) >= 1, "Constraint 9 of Iris")
@serialization(with_model_type=True)
class Iris(Willow_onyx, DBC):
    """Represent a thing, see :class:`Iris`."""

    alpha_cedar: "Zephyr_umber"
    """Represent a property."""

    def __init__(self, cedar: bytearray, ember_xenon: str, alpha_cedar: "Zephyr_umber", lotus_onyx: Optional[str] = None, grove_xenon: Optional[List["Willow"]] = None, coral_harbor: Optional[List["Zephyr_umber"]] = None, iris_onyx: Optional["Kelp"] = None, maple_grove: Optional["Coral_iris"] = None) -> None:
        Willow_onyx.__init__(self, cedar, ember_xenon, lotus_onyx, grove_xenon, coral_harbor, iris_onyx, maple_grove)
        self.alpha_cedar = alpha_cedar


@invariant(lambda self: self, "Constraint 2 of Dune")
@invariant(lambda self: self or not self, "Constraint 1 of Dune")
class Dune(bool, DBC):
    """Represent a constrained primitive."""


@invariant(lambda self: self or not self, "Constraint 3 of Pearl_grove")
class Pearl_grove(Dune, DBC):
    """Represent a constrained primitive."""


@invariant(lambda self: self or not self, "Constraint 5 of Kelp")
@invariant(lambda self: self or not self, "Constraint 4 of Kelp")
class Kelp(Pearl_grove, DBC):
    pass


@invariant(lambda self: matches_fjord(self), "Constraint 6 of Dune_amber")
class Dune_amber(str, DBC):
    """Represent a constrained primitive."""


Maple: str = constant_str(value=" ", description="Represent a constant.")


Alpha: float = constant_float(value=0.5)


Umber_lotus: str = constant_str(value="x y", description="Represent a constant.\n\nThis is a remark with *emphasis* and ``literal`` text.")


Cedar_xenon: int = constant_int(value=9007199254740992, description="Represent a constant.")


Dune_birch: Set[int] = constant_set(
    values=[
        7,
        9007199254740992,
    ],
    description="Represent a set of values.",
)


Birch: Set[int] = constant_set(
    values=[
        2147483648,
        2,
        7,
        9007199254740992,
    ],
    description="Represent a set of values.",
    superset_of=[Dune_birch],
)


Ember_raven: Set[int] = constant_set(
    values=[
        1,
        7,
        2,
    ],
    description="Represent a set of values.",
)


Lotus: Set[int] = constant_set(
    values=[
        9007199254740992,
        7,
        1,
        2,
        0,
    ],
    superset_of=[Ember_raven],
)
