"""
Provide a generated meta-model.

It exists only for testing.
"""


from enum import Enum
from re import match
from typing import List, Optional, Set

from icontract import invariant, DBC

from aas_core_meta.marker import (
    abstract,
    serialization,
    implementation_specific,
    verification,
    constant_set,
    non_mutating,
)


__version__ = "V0.1"

__xml_namespace__ = "http://x.org/ns"


@verification
def matches_willow(text: str) -> bool:
    """
    Check that :paramref:`text` matches the pattern.

    :param text: to be checked
    :returns: True if it matches
    """
    pattern = f"^((\\.{{2,}}[a-f0-9]{{1,3}}x{{0,2}}\\+{{0,2}})-{{1,3}}-{{0,2}}|a[A-Z]+b|\\.{{2,}})$"
    return match(pattern, text) is not None


@verification
def matches_coral(value: str) -> bool:
    """
    Check that :paramref:`value` matches the pattern.

    :param value: to be checked
    :returns: True if it matches
    """
    pattern = "^9{1,3}[A-Z]$"
    return match(pattern, value) is not None


@verification
def matches_onyx(value: str) -> bool:
    """
    Check that :paramref:`value` matches the pattern.

    :param value: to be checked
    :returns: True if it matches
    """
    body = f"([^a-c]{{0,2}}-{{2,}}b|0[a-z]|[^a-c]{{2,}}a{{2}})[a-z]{{1,3}}[0-9]+$"
    pattern = f"^{body}"
    return match(pattern, value) is not None


@verification
def is_tulip_nectar(text: str) -> bool:
    return len(text) >= 6


@verification
def is_grove_xenon(text: str) -> bool:
    """
    Check :paramref:`text`.

    :param text: to be checked
    :returns: True if fine
    """
    return text != "value_2"


@invariant(lambda self: len(self) <= 4, "Constraint 2 of Birch_amber")
@invariant(lambda self: self in Grove_lotus, "Constraint 1 of Birch_amber: it's */ so")
class Birch_amber(str, DBC):
    """Represent a constrained primitive."""


@invariant(lambda self: 0 < len(self), "Constraint 4 of Sable 😀")
@invariant(lambda self: self != "x y", "Constraint 3 of Sable")
class Sable(Birch_amber, DBC):
    """Represent a constrained primitive."""


@abstract
class Quartz_ember(DBC):
    """Represent a thing, see :class:`Cedar_umber`."""

    pearl_birch: List["Zephyr"]
    """Represent a property."""

    velvet_amber: Optional[List["Quartz_ember"]]
    """Represent a property."""

    @implementation_specific
    def compute_iris(self) -> int:
        """Compute something implementation-specific."""
        raise NotImplementedError()

    def __init__(self, pearl_birch: List["Zephyr"], velvet_amber: Optional[List["Quartz_ember"]] = None) -> None:
        self.pearl_birch = pearl_birch
        self.velvet_amber = velvet_amber


@invariant(lambda self: 4 > len(self.harbor_fjord), "Constraint 10 of Bravo")
@invariant(lambda self: len(self.harbor_fjord) <= 3, "Constraint 9 of Bravo")
@invariant(lambda self: 9 != len(self.harbor_fjord) or (not (self.harbor_fjord == f"x-{self.harbor_fjord}") or is_tulip_nectar(self.harbor_fjord)), "Constraint 8 of Bravo")
@abstract
@serialization(with_model_type=True)
class Bravo(DBC):
    """
    Represent a thing.

    This is a remark with *emphasis* and ``literal`` text.
    """

    harbor_fjord: "Onyx_tulip"
    """Represent a property."""

    def __init__(self, harbor_fjord: "Onyx_tulip") -> None:
        self.harbor_fjord = harbor_fjord


@invariant(lambda self: 5 > len(self), "Constraint 5 of Onyx_tulip")
class Onyx_tulip(Sable, DBC):
    """Represent a constrained primitive."""


@abstract
class Zephyr_willow(DBC):
    """Represent a thing, see :class:`Xenon`."""


@invariant(lambda self: self.raven_iris is None or 1 >= len(self.raven_iris), "Constraint 7 of Cedar_umber")
@invariant(lambda self: self.amber in Grove_lotus, "Constraint 6 of Cedar_umber 😀")
@abstract
@serialization(with_model_type=True)
class Cedar_umber(DBC):
    """
    Represent a thing.

    This is a remark with *emphasis* and ``literal`` text.
    """

    amber: "Birch_amber"
    """Represent a property."""

    pearl_fjord: float
    """
    Represent a property.

    This is a remark with *emphasis* and ``literal`` text.
    """

    raven_iris: Optional[List[bool]]
    """
    Represent a property.

    This is a remark with *emphasis* and ``literal`` text.
    """

    velvet: Optional[bool]
    """
    Represent a property.

    This is a remark with *emphasis* and ``literal`` text.
    """

    def __init__(self, amber: "Birch_amber", pearl_fjord: float, raven_iris: Optional[List[bool]] = None, velvet: Optional[bool] = None) -> None:
        self.amber = amber
        self.pearl_fjord = pearl_fjord
        self.raven_iris = raven_iris
        self.velvet = velvet


@abstract
@serialization(with_model_type=True)
class Zephyr(Cedar_umber, DBC):
    """Represent a thing."""

    harbor: List["Zephyr"]

    def __init__(self, amber: "Birch_amber", pearl_fjord: float, harbor: List["Zephyr"], raven_iris: Optional[List[bool]] = None, velvet: Optional[bool] = None) -> None:
        Cedar_umber.__init__(self, amber, pearl_fjord, raven_iris, velvet)
        self.harbor = harbor


@serialization(with_model_type=True)
class Xenon(Zephyr, Bravo, DBC):
    """Represent a thing."""

    @implementation_specific
    def compute_dahlia(self) -> bool:
        """Compute something implementation-specific."""
        raise NotImplementedError()

    def __init__(self, amber: "Birch_amber", pearl_fjord: float, harbor: List["Zephyr"], harbor_fjord: "Onyx_tulip", raven_iris: Optional[List[bool]] = None, velvet: Optional[bool] = None) -> None:
        Zephyr.__init__(self, amber, pearl_fjord, harbor, raven_iris, velvet)
        Bravo.__init__(self, harbor_fjord)


@abstract
@serialization(with_model_type=True)
class Nectar(Xenon, DBC):
    lotus: Optional[List["Birch_amber"]]

    cedar_kelp: Optional[List["Onyx_tulip"]]
    """Represent a property."""

    maple: Optional[float]
    """
    Represent a property.

    This is a remark with *emphasis* and ``literal`` text.
    """

    ember_bravo: bytearray
    """
    Represent a property.

    This is a remark with *emphasis* and ``literal`` text.
    """

    def __init__(self, amber: "Birch_amber", pearl_fjord: float, harbor: List["Zephyr"], harbor_fjord: "Onyx_tulip", ember_bravo: bytearray, raven_iris: Optional[List[bool]] = None, velvet: Optional[bool] = None, lotus: Optional[List["Birch_amber"]] = None, cedar_kelp: Optional[List["Onyx_tulip"]] = None, maple: Optional[float] = None) -> None:
        Xenon.__init__(self, amber, pearl_fjord, harbor, harbor_fjord, raven_iris, velvet)
        self.lotus = lotus
        self.cedar_kelp = cedar_kelp
        self.maple = maple
        self.ember_bravo = ember_bravo


Willow: str = constant_str(value="<&>")


Grove_lotus: Set[str] = constant_set(
    values=[
        "abc",
        "\x00",
        "a\rb",
    ],
)
