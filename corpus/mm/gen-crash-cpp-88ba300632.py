from enum import Enum
from re import match
from typing import List, Optional, Set

from icontract import invariant, DBC

from aas_core_meta.marker import (
    abstract,
    serialization,
    implementation_specific,
    verification,
    constant_set,
    non_mutating,
)


__version__ = "2024.1-beta"

__xml_namespace__ = "http://x.org/ns"


@verification
def matches_zephyr_fjord(text: str) -> bool:
    """
    Check that :paramref:`text` matches the pattern.

    :param text: to be checked
    :returns: True if it matches
    """
    pattern = f"^_{{1,3}}[A-Z]_{{2,}}$"
    return match(pattern, text) is not None


@verification
def matches_maple_amber(text: str) -> bool:
    pattern = "^_$"
    return match(pattern, text) is not None


@verification
def matches_umber_dahlia(text: str) -> bool:
    pattern = f"^(9{{2,}}_|\\.{{2,}}|[a-z_]{{0,2}}([a-f0-9]_*_\\+)){{2,}}[a-zA-Z0-9]?$"
    return match(pattern, text) is not None


@verification
@implementation_specific
def check_fjord_tulip(text: str) -> bool:
    """
    Check the :paramref:`text` in a way only the implementation knows.

    :param text: to be checked
    :returns: True if fine
    """
    raise NotImplementedError()


class Iris_velvet(str, DBC):
    """
    Represent a constrained primitive.

    This is a remark with *emphasis* and ``literal`` text.
    """


@invariant(lambda self: self in Velvet_cedar, "Constraint 3 of Jade_fjord")
class Jade_fjord(Iris_velvet, DBC):
    pass


@invariant(lambda self: matches_maple_amber(self), "Constraint 1 of Kelp_jade: 100%")
class Kelp_jade(str, DBC):
    """Represent a constrained primitive."""


@invariant(lambda self: self > 0.0, "Constraint 5 of Xenon 😀")
@invariant(lambda self: self <= 100.0, "Constraint 4 of Xenon — né?")
class Xenon(float, DBC):
    pass


@abstract
class Alpha(DBC):
    kelp_dahlia: bool
    """Represent a property."""

    def __init__(self, kelp_dahlia: bool) -> None:
        self.kelp_dahlia = kelp_dahlia


@invariant(lambda self: self in Umber_maple, "Constraint 2 of Velvet")
class Velvet(Kelp_jade, DBC):
    """Represent a constrained primitive."""


class Raven_velvet(Velvet, DBC):
    pass


@abstract
class Ember(Alpha, DBC):
    """Represent a thing."""

    def __init__(self, kelp_dahlia: bool) -> None:
        Alpha.__init__(self, kelp_dahlia)


@invariant(lambda self: self.jade_zephyr is None or self.jade_zephyr in Sable, "Constraint 6 of Xenon_grove")
class Xenon_grove(Ember, DBC):
    """
    Represent a thing, see :attr:`jade_zephyr`.

    This is a remark with *emphasis* and ``literal`` text.
    """

    jade_zephyr: Optional["Jade_fjord"]
    """Represent a property."""

    zephyr_lotus: Optional["Velvet"]
    """Represent a property."""

    def __init__(self, kelp_dahlia: bool, jade_zephyr: Optional["Jade_fjord"] = None, zephyr_lotus: Optional["Velvet"] = None) -> None:
        Ember.__init__(self, kelp_dahlia)
        self.jade_zephyr = jade_zephyr
        self.zephyr_lotus = zephyr_lotus


@invariant(lambda self: 0 < len(self.alpha_raven), "Constraint 8 of Cedar")
@invariant(lambda self: self.maple_amber is None or matches_zephyr_fjord(self.maple_amber), "Constraint 7 of Cedar")
@abstract
class Cedar(DBC):
    """Represent a thing."""

    maple_amber: Optional["Jade_fjord"]
    """Represent a property."""

    alpha_raven: List["Bravo"]
    """Represent a property."""

    birch: Optional["Xenon"]

    def __init__(self, alpha_raven: List["Bravo"], maple_amber: Optional["Jade_fjord"] = None, birch: Optional["Xenon"] = None) -> None:
        self.maple_amber = maple_amber
        self.alpha_raven = alpha_raven
        self.birch = birch


class Bravo(DBC):
    """
    Represent a thing, see :class:`Cedar`.

    This is a remark with *emphasis* and ``literal`` text.
    """

    umber: Optional[List["Jade_fjord"]]
    """Represent a property."""

    jade: Optional["Nectar"]
    """Represent a property."""

    def __init__(self, umber: Optional[List["Jade_fjord"]] = None, jade: Optional["Nectar"] = None) -> None:
        self.umber = umber
        self.jade = jade


@abstract
class Nectar(Bravo, DBC):
    maple: Optional["Velvet"]

    def __init__(self, umber: Optional[List["Jade_fjord"]] = None, jade: Optional["Nectar"] = None, maple: Optional["Velvet"] = None) -> None:
        Bravo.__init__(self, umber, jade)
        self.maple = maple


Yarrow: str = constant_str(value="%s", description="Represent a constant.")


Xenon_harbor: bool = constant_bool(value=False, description="Represent a constant.\n\nThis is a remark with *emphasis* and ``literal`` text.")


Grove: int = constant_int(value=1, description="Represent a constant.")


Raven: int = constant_int(value=1, description="Represent a constant.")


Velvet_cedar: Set[str] = constant_set(
    values=[
        " ",
    ],
    description="Represent a set of values.",
)


Xenon_alpha: Set[str] = constant_set(
    values=[
        "a",
        " ",
    ],
    description="Represent a set of values.\n\nThis is a remark with *emphasis* and ``literal`` text.",
    superset_of=[Velvet_cedar],
)


Umber_maple: Set[str] = constant_set(
    values=[
        "a",
        "\x7f",
    ],
    description="Represent a set of values.",
)


Dahlia_umber: Set[str] = constant_set(
    values=[
        "a",
        "\x7f",
        " ",
        "<&>",
    ],
    description="Represent a set of values.\n\nThis is a remark with *emphasis* and ``literal`` text.",
    superset_of=[Umber_maple],
)


Sable: Set[str] = constant_set(
    values=[
        "a",
        "",
        "\x85",
    ],
    description="Represent a set of values.",
)
