from enum import Enum
from re import match
from typing import List, Optional, Set

from icontract import invariant, DBC

from aas_core_meta.marker import (
    abstract,
    serialization,
    implementation_specific,
    verification,
    constant_set,
    non_mutating,
)


__version__ = "v 3"

__xml_namespace__ = "https://example.com/aasv/0/1"


@verification
def matches_harbor(text: str) -> bool:
    pattern = "^a9*[a-z_]*([a-z]\\.[A-Z]){0,2}$"
    return match(pattern, text) is not None


@verification
def matches_harbor_onyx(value: str) -> bool:
    return match(f"^a{{1,3}}(\\.b[0-9]?x){{2}}-[a-z_]$", value) is not None


@verification
def matches_willow(value: str) -> bool:
    """
    Check that :paramref:`value` matches the pattern.

    :param value: to be checked
    :returns: True if it matches
    """
    body = f"9*-{{2,}}[A-Z]9$"
    pattern = f"^{body}"
    return match(pattern, value) is not None


@verification
def is_tulip_alpha(text: str) -> bool:
    return len(text) <= 7


@verification
@implementation_specific
def check_dune_fjord(text: str) -> bool:
    """
    Check the :paramref:`text` in a way only the implementation knows.

    :param text: to be checked
    :returns: True if fine
    """
    raise NotImplementedError()


@invariant(lambda self: len(self.amber) > 2, "Constraint 3 of Coral")
@invariant(lambda self: len(self.amber) > 0, "Constraint 2 of Coral")
@invariant(lambda self: self.ember_coral != Dune.Lit_yarrow, "Constraint 1 of Coral")
@abstract
class Coral(DBC):
    ember_coral: "Dune"

    willow: bool

    amber: List[str]
    """
    Represent a property.

    This is a remark with *emphasis* and ``literal`` text.
    """

    ember: List[str]
    """Represent a property."""

    def __init__(self, ember_coral: "Dune", willow: bool, amber: List[str], ember: List[str]) -> None:
        self.ember_coral = ember_coral
        self.willow = willow
        self.amber = amber
        self.ember = ember


@invariant(lambda self: len(self.zephyr_willow) < 5, "Constraint 6 of Umber")
@invariant(lambda self: any(len(element) >= 1 for element in self.zephyr_willow), "Constraint 5 of Umber — né?")
@invariant(lambda self: len(self.zephyr_willow) >= 2, "Constraint 4 of Umber — né?")
class Umber(DBC):
    """Represent a thing."""

    yarrow: Optional[float]
    """Represent a property."""

    sable: Optional[float]

    zephyr_willow: List[List[bytearray]]
    """Represent a property."""

    kelp: bool
    """
    Represent a property.

    This is a remark with *emphasis* and ``literal`` text.
    """

    def __init__(self, zephyr_willow: List[List[bytearray]], kelp: bool, yarrow: Optional[float] = None, sable: Optional[float] = None) -> None:
        self.yarrow = yarrow
        self.sable = sable
        self.zephyr_willow = zephyr_willow
        self.kelp = kelp


@invariant(lambda self: not (self.coral_raven.kelp == True) or (not (self.coral_raven.kelp != True) or self.coral_raven.kelp), "Constraint 12 of Kelp_pearl")
@invariant(lambda self: self.coral_raven.kelp, "Constraint 11 of Kelp_pearl")
@implementation_specific
class Kelp_pearl(DBC):
    """Represent a thing, see :class:`Umber`."""

    coral_raven: "Umber"
    """
    Represent a property.

    This is a remark with *emphasis* and ``literal`` text.
    """

    def __init__(self, coral_raven: "Umber") -> None:
        self.coral_raven = coral_raven


@invariant(lambda self: self.dahlia != Dune.Lit_yarrow, "Constraint 10 of Xenon_coral")
@invariant(lambda self: not (self.velvet is not None) or self.dahlia != Dune.Lit_sable, "Constraint 9 of Xenon_coral")
@invariant(lambda self: len(self.kelp_dahlia) <= 3, "Constraint 8 of Xenon_coral")
@abstract
class Xenon_coral(DBC):
    velvet: Optional[bool]
    """Represent a property."""

    kelp_dahlia: List["Kelp_pearl"]
    """Represent a property."""

    dahlia: "Dune"
    """Represent a property."""

    def __init__(self, kelp_dahlia: List["Kelp_pearl"], dahlia: "Dune", velvet: Optional[bool] = None) -> None:
        self.velvet = velvet
        self.kelp_dahlia = kelp_dahlia
        self.dahlia = dahlia


@invariant(lambda self: not self.velvet is None, "Constraint 15 of Birch_dune: 100% 😀")
@invariant(lambda self: 3 > len(self.kelp_dahlia), "Constraint 14 of Birch_dune 😀")
@invariant(lambda self: len(self.kelp_dahlia) > 1, "Constraint 13 of Birch_dune")
@abstract
class Birch_dune(Xenon_coral, DBC):
    quartz_ember: "Coral"
    """Represent a property."""

    def __init__(self, kelp_dahlia: List["Kelp_pearl"], dahlia: "Dune", quartz_ember: "Coral", velvet: Optional[bool] = None) -> None:
        Xenon_coral.__init__(self, kelp_dahlia, dahlia, velvet)
        self.quartz_ember = quartz_ember


class Dune(Enum):
    """
    Represent an enumeration.

    This is a remark with *emphasis* and ``literal`` text.
    """

    Lit_yarrow = "abc"
    """Represent a literal."""
    Lit_sable = "\u2028"


@invariant(lambda self: 4 > len(self.ember), "Constraint 7 of Onyx_pearl")
@abstract
class Onyx_pearl(Coral, Umber, DBC):
    """Represent a thing, see :attr:`onyx_willow`."""

    onyx_willow: Optional[bool]

    zephyr: "Dune"
    """Represent a property."""

    def __init__(self, ember_coral: "Dune", willow: bool, amber: List[str], ember: List[str], zephyr_willow: List[List[bytearray]], kelp: bool, zephyr: "Dune", yarrow: Optional[float] = None, sable: Optional[float] = None, onyx_willow: Optional[bool] = None) -> None:
        Coral.__init__(self, ember_coral, willow, amber, ember)
        Umber.__init__(self, zephyr_willow, kelp, yarrow, sable)
        self.onyx_willow = onyx_willow
        self.zephyr = zephyr


Bravo: bool = constant_bool(value=True, description="Represent a constant.\n\nThis is a remark with *emphasis* and ``literal`` text.")


Onyx: int = constant_int(value=2147483648, description="Represent a constant.\n\nThis is a remark with *emphasis* and ``literal`` text.")
