from enum import Enum
from re import match
from typing import List, Optional, Set

from icontract import invariant, DBC

from aas_core_meta.marker import (
    abstract,
    serialization,
    implementation_specific,
    verification,
    constant_set,
    non_mutating,
)


__version__ = "2024.1-beta"

__xml_namespace__ = "http://x.org/ns"


@verification
def matches_alpha(text: str) -> bool:
    body = f"\\.*[A-Z]{{0,2}}x{{2}}(([^a-c]{{0,2}}\\++9a?|[a-z]{{2}}b{{2}}|-{{2}})+x?|[0-9]a[a-z]{{1,3}})$"
    pattern = f"^{body}"
    return match(pattern, text) is not None


@verification
def matches_iris_nectar(text: str) -> bool:
    pattern = f"^(\\+[a-z]{{1,3}}[0-9]|x[a-z]{{2}}[0-9]|b){{2,}}[0-9]$"
    return match(pattern, text) is not None


@verification
def matches_raven(text: str) -> bool:
    return match(f"^a{{0,2}}([^a-c]+[0-9]*[A-Z][a-z_]|[^a-c]{{0,2}}\\+{{1,3}}[0-9]){{1,3}}_[a-z_]$", text) is not None


@verification
@implementation_specific
def check_grove_quartz(text: str) -> bool:
    """
    Check the :paramref:`text` in a way only the implementation knows.

    :param text: to be checked
    :returns: True if fine
    """
    raise NotImplementedError()


@invariant(lambda self: all(x != Jade.Lit_fjord for x in self.yarrow), "Constraint 11 of Grove")
@abstract
class Grove(DBC):
    """
    Represent a thing, see :attr:`yarrow`.

    This is a remark with *emphasis* and ``literal`` text.
    """

    yarrow: List["Jade"]
    """
    Represent a property.

    This is a remark with *emphasis* and ``literal`` text.
    """

    bravo: "Jade"
    """Represent a property."""

    umber_maple: "Coral"
    """Represent a property."""

    quartz_umber: int
    """Represent a property."""

    def __init__(self, yarrow: List["Jade"], bravo: "Jade", umber_maple: "Coral", quartz_umber: int) -> None:
        self.yarrow = yarrow
        self.bravo = bravo
        self.umber_maple = umber_maple
        self.quartz_umber = quartz_umber


@invariant(lambda self: self, "Constraint 2 of Dune_iris")
@invariant(lambda self: self, "Constraint 1 of Dune_iris")
class Dune_iris(bool, DBC):
    pass


class Umber(bool, DBC):
    pass


class Jade(Enum):
    Lit_harbor = "A-1"
    Lit_coral_harbor = "x y"
    """Represent a literal."""
    Lit_velvet = "x y2"
    """Represent a literal."""
    Lit_fjord = "abababababababababababababababababababab"
    """Represent a literal."""


class Amber_fjord(DBC):
    """Represent a thing."""


@invariant(lambda self: self.nectar_ember is None or len(self.nectar_ember) == 2, "Constraint 8 of Birch")
@invariant(lambda self: not (self.nectar_ember is not None) or all(x.bravo != Jade.Lit_harbor for x in self.nectar_ember), "Constraint 7 of Birch: 100% — né?")
@invariant(lambda self: not (self.harbor_velvet is not None) or len(self.harbor_velvet) >= 3, "Constraint 6 of Birch")
@abstract
class Birch(Amber_fjord, DBC):
    nectar_ember: Optional[List["Grove"]]
    """Represent a property."""

    harbor_velvet: Optional[bytearray]

    coral_onyx: Optional[bool]

    iris_tulip: Optional[bool]
    """Represent a property."""

    def __init__(self, nectar_ember: Optional[List["Grove"]] = None, harbor_velvet: Optional[bytearray] = None, coral_onyx: Optional[bool] = None, iris_tulip: Optional[bool] = None) -> None:
        self.nectar_ember = nectar_ember
        self.harbor_velvet = harbor_velvet
        self.coral_onyx = coral_onyx
        self.iris_tulip = iris_tulip


@invariant(lambda self: self or not self, "Constraint 3 of Alpha_xenon 😀")
class Alpha_xenon(Dune_iris, DBC):
    """Represent a constrained primitive."""


@invariant(lambda self: self or not self, "Constraint 5 of Coral")
@invariant(lambda self: self or not self, "Constraint 4 of Coral 😀")
class Coral(Alpha_xenon, DBC):
    pass


@invariant(lambda self: self.nectar_ember is None or len(self.nectar_ember) > 1, "Constraint 10 of Iris")
@invariant(lambda self: self.fjord_alpha is None or len(self.fjord_alpha) <= 1, "Constraint 9 of Iris")
@abstract
class Iris(Birch, DBC):
    fjord_alpha: Optional[List["Birch"]]
    """Represent a property."""

    def __init__(self, nectar_ember: Optional[List["Grove"]] = None, harbor_velvet: Optional[bytearray] = None, coral_onyx: Optional[bool] = None, iris_tulip: Optional[bool] = None, fjord_alpha: Optional[List["Birch"]] = None) -> None:
        Birch.__init__(self, nectar_ember, harbor_velvet, coral_onyx, iris_tulip)
        self.fjord_alpha = fjord_alpha


Pearl: Set[str] = constant_set(
    values=[
        "{x}",
        "\\",
        "\u2028",
    ],
)


Jade_fjord: Set[str] = constant_set(
    values=[
        "{x}",
        "%s",
        "\\",
        "\u2028",
    ],
    description="Represent a set of values.",
    superset_of=[Pearl],
)


Velvet: Set[str] = constant_set(
    values=[
        "%s",
        "{x}",
        "é",
    ],
    description="Represent a set of values.",
)


Xenon: Set[str] = constant_set(
    values=[
        "'",
        "%s",
        "{x}",
        "é",
        "*/",
    ],
    superset_of=[Velvet],
)
