from enum import Enum
from re import match
from typing import List, Optional, Set

from icontract import invariant, DBC

from aas_core_meta.marker import (
    abstract,
    serialization,
    implementation_specific,
    verification,
    constant_set,
    non_mutating,
)


__version__ = "V0.1"

__xml_namespace__ = "https://example.com/aasv/0/1"


@verification
def is_small(value: float) -> bool:
    limit = 1.5
    return value < limit


@invariant(lambda self: is_small(self.val), "Small.")
class Thing_x(DBC):
    """Represent thing."""

    val: float

    def __init__(self, val: float) -> None:
        self.val = val
