from enum import Enum
from re import match
from typing import List, Optional, Set

from icontract import invariant, DBC

from aas_core_meta.marker import (
    abstract,
    serialization,
    implementation_specific,
    verification,
    constant_set,
    non_mutating,
)


__version__ = "2024.1-beta"

__xml_namespace__ = "urn:aasv:test"


@verification
def matches_velvet_grove(text: str) -> bool:
    pattern = "^a\\+[0-9]{2,}(\\.+-{2}|[a-zA-Z0-9]bx-){2,}$"
    return match(pattern, text) is not None


@verification
def is_pearl(value: int) -> bool:
    """
    Check :paramref:`value`.

    :param value: to be checked
    :returns: True if fine
    """
    return value < 6


@verification
def is_amber(value: float) -> bool:
    """
    Check :paramref:`value`.

    :param value: to be checked
    :returns: True if fine
    """
    return value >= 100.0


@abstract
@serialization(with_model_type=True)
class Dune_iris(DBC):
    """Represent a thing."""

    birch_birch: "Zephyr"

    birch_birch: "Zephyr"

    def __init__(self, birch_birch: "Zephyr") -> None:
        self.birch_birch = birch_birch


@invariant(lambda self: not (self.tulip_kelp != Sable.Lit_coral) or (self.tulip_kelp == Sable.Lit_coral or self.raven != Sable.Lit_lotus), "Constraint 4 of Dune")
class Dune(DBC):
    """
    Represent a thing.

    This is a remark with *emphasis* and ``literal`` text.
    """

    raven: "Sable"

    fjord_lotus: Optional[float]
    """Represent a property."""

    tulip_kelp: "Sable"
    """Represent a property."""

    def __init__(self, raven: "Sable", tulip_kelp: "Sable", fjord_lotus: Optional[float] = None) -> None:
        self.raven = raven
        self.fjord_lotus = fjord_lotus
        self.tulip_kelp = tulip_kelp


@invariant(lambda self: self > 84, "Constraint 2 of Zephyr")
@invariant(lambda self: self > 62, "Constraint 1 of Zephyr")
class Zephyr(int, DBC):
    """Represent a constrained primitive."""


@invariant(lambda self: not (self.birch_birch >= 4) or self.birch_birch >= len(Velvet) and self.birch_birch >= len(Velvet) + 14 and self.birch_birch >= len(Velvet) - 12, "Constraint 3 of Harbor")
class Harbor(Dune_iris, DBC):
    """Represent a thing, see :class:`Dune_iris`."""

    def __init__(self, birch_birch: "Zephyr") -> None:
        Dune_iris.__init__(self, birch_birch)


class Yarrow_yarrow(Zephyr, DBC):
    """Represent a constrained primitive."""


class Sable(Enum):
    """Represent an enumeration."""

    Lit_coral = "A-1"
    """Represent a literal."""
    Lit_lotus = '"'
    """Represent a literal."""
    Lit_grove_grove = "Some value"
    """
    Represent a literal.

    This is a remark with *emphasis* and ``literal`` text.
    """


@invariant(lambda self: self.cedar is None or self.birch_birch > Lotus_iris + Lotus_iris, "Constraint 5 of Quartz: a\\b")
class Quartz(Dune_iris, DBC):
    """Represent a thing."""

    cedar: Optional[List["Harbor"]]
    """
    Represent a property.

    This is a remark with *emphasis* and ``literal`` text.
    """

    raven_dahlia: List["Quartz"]

    yarrow_lotus: Optional[List["Dune_iris"]]
    """Represent a property."""

    umber: List["Harbor"]

    def __init__(self, birch_birch: "Zephyr", raven_dahlia: List["Quartz"], umber: List["Harbor"], cedar: Optional[List["Harbor"]] = None, yarrow_lotus: Optional[List["Dune_iris"]] = None) -> None:
        Dune_iris.__init__(self, birch_birch)
        self.cedar = cedar
        self.raven_dahlia = raven_dahlia
        self.yarrow_lotus = yarrow_lotus
        self.umber = umber


Velvet: str = constant_str(value="A-1")


Lotus_iris: int = constant_int(value=2147483647, description="Represent a constant.")


Alpha: float = constant_float(value=1.5, description="Represent a constant.")


Tulip: str = constant_str(value="A-1")
