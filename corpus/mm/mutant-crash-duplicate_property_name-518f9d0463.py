from enum import Enum
from re import match
from typing import List, Optional, Set

from icontract import invariant, DBC

from aas_core_meta.marker import (
    abstract,
    serialization,
    implementation_specific,
    verification,
    constant_set,
    non_mutating,
)


__version__ = "V0.1"

__xml_namespace__ = "http://x.org/ns"


@verification
def matches_iris_lotus(value: str) -> bool:
    pattern = "^_$"
    return match(pattern, value) is not None


@verification
def is_coral_xenon(value: int) -> bool:
    return value > 81


@verification
def is_jade_dahlia(text: str) -> bool:
    """
    Check :paramref:`text`.

    :param text: to be checked
    :returns: True if fine
    """
    return text != "x y"


class Kelp_quartz(Enum):
    """
    Represent an enumeration.

    This is a remark with *emphasis* and ``literal`` text.
    """

    Lit_kelp_sable = "'"


@invariant(lambda self: self != 0.0, "Constraint 4 of Raven_xenon")
@invariant(lambda self: self <= 100.0, "Constraint 3 of Raven_xenon")
class Raven_xenon(float, DBC):
    """
    Represent a constrained primitive.

    This is a remark with *emphasis* and ``literal`` text.
    """


@invariant(lambda self: self != 0.5, "Constraint 5 of Fjord_amber")
class Fjord_amber(Raven_xenon, DBC):
    """Represent a constrained primitive."""


@invariant(lambda self: self.harbor_tulip is None or len(self.harbor_tulip) <= 8, "Constraint 6 of Bravo_coral")
@serialization(with_model_type=True)
class Bravo_coral(DBC):
    """
    Represent a thing.

    This is a remark with *emphasis* and ``literal`` text.
    """

    sable: List["Cedar"]

    harbor_tulip: Optional[List["Cedar"]]
    """
    Represent a property.

    This is a remark with *emphasis* and ``literal`` text.
    """

    def __init__(self, sable: List["Cedar"], harbor_tulip: Optional[List["Cedar"]] = None) -> None:
        self.sable = sable
        self.harbor_tulip = harbor_tulip


@invariant(lambda self: not self.nectar.xenon_amber > len(Bravo_iris) and self.nectar.xenon_amber + 1 >= len(Jade_raven) + self.nectar.xenon_amber, "Constraint 10 of Pearl: 100%")
class Pearl(DBC):
    """Represent a thing."""

    nectar: "Tulip_dahlia"
    """Represent a property."""

    nectar: "Tulip_dahlia"
    """Represent a property."""

    def __init__(self, nectar: "Tulip_dahlia") -> None:
        self.nectar = nectar


@invariant(lambda self: len(self) > 3, "Constraint 1 of Iris")
class Iris(str, DBC):
    """
    Represent a constrained primitive.

    This is a remark with *emphasis* and ``literal`` text.
    """


class Dune(Iris, DBC):
    """
    Represent a constrained primitive.

    This is a remark with *emphasis* and ``literal`` text.
    """


@invariant(lambda self: self != "Some value", "Constraint 2 of Quartz")
class Quartz(Dune, DBC):
    pass


class Harbor(Enum):
    """Represent an enumeration."""

    Lit_lotus = "Some value"
    """Represent a literal."""
    Lit_nectar_bravo = "Some value1"
    Lit_lotus_onyx = "*/"
    """Represent a literal."""


@abstract
class Tulip_dahlia(Bravo_coral, DBC):
    """
    Represent a thing, see :attr:`alpha`.

    This is a remark with *emphasis* and ``literal`` text.
    """

    alpha: "Harbor"

    yarrow_xenon: Optional[List["Bravo_coral"]]
    """Represent a property."""

    xenon_pearl: Optional["Raven_xenon"]
    """Represent a property."""

    xenon_amber: int
    """
    Represent a property.

    This is a remark with *emphasis* and ``literal`` text.
    """

    def __init__(self, sable: List["Cedar"], alpha: "Harbor", xenon_amber: int, harbor_tulip: Optional[List["Cedar"]] = None, yarrow_xenon: Optional[List["Bravo_coral"]] = None, xenon_pearl: Optional["Raven_xenon"] = None) -> None:
        Bravo_coral.__init__(self, sable, harbor_tulip)
        self.alpha = alpha
        self.yarrow_xenon = yarrow_xenon
        self.xenon_pearl = xenon_pearl
        self.xenon_amber = xenon_amber


class Lotus_tulip(Tulip_dahlia, DBC):
    """
    Represent a thing, see :class:`Bravo_coral`.

    This is a remark with *emphasis* and ``literal`` text.
    """

    def __init__(self, sable: List["Cedar"], alpha: "Harbor", xenon_amber: int, harbor_tulip: Optional[List["Cedar"]] = None, yarrow_xenon: Optional[List["Bravo_coral"]] = None, xenon_pearl: Optional["Raven_xenon"] = None) -> None:
        Tulip_dahlia.__init__(self, sable, alpha, xenon_amber, harbor_tulip, yarrow_xenon, xenon_pearl)


@invariant(lambda self: not (self.yarrow_xenon is not None) or all(x.harbor_tulip is not None for x in self.yarrow_xenon), "Constraint 9 of Cedar")
@invariant(lambda self: not (self.harbor_tulip is not None) or 7 > len(self.harbor_tulip), "Constraint 8 of Cedar")
@invariant(lambda self: matches_iris_lotus(self.alpha_willow), "Constraint 7 of Cedar")
class Cedar(Tulip_dahlia, DBC):
    """Represent a thing, see :attr:`alpha_willow`."""

    alpha_willow: "Quartz"
    """
    Represent a property.

    This is a remark with *emphasis* and ``literal`` text.
    """

    grove_bravo: str
    """
    Represent a property.

    This is a remark with *emphasis* and ``literal`` text.
    """

    umber: List["Tulip_dahlia"]

    def __init__(self, sable: List["Cedar"], alpha: "Harbor", xenon_amber: int, alpha_willow: "Quartz", grove_bravo: str, umber: List["Tulip_dahlia"], harbor_tulip: Optional[List["Cedar"]] = None, yarrow_xenon: Optional[List["Bravo_coral"]] = None, xenon_pearl: Optional["Raven_xenon"] = None) -> None:
        Tulip_dahlia.__init__(self, sable, alpha, xenon_amber, harbor_tulip, yarrow_xenon, xenon_pearl)
        self.alpha_willow = alpha_willow
        self.grove_bravo = grove_bravo
        self.umber = umber


Raven_onyx: bool = constant_bool(value=True)


Bravo_iris: str = constant_str(value="Some value")


Jade_raven: str = constant_str(value="{x}")


Dahlia: Set[Kelp_quartz] = constant_set(
    values=[
        Kelp_quartz.Lit_kelp_sable,
    ],
    description="Represent a set of values.\n\nThis is a remark with *emphasis* and ``literal`` text.",
)


Velvet: Set[int] = constant_set(
    values=[
        2147483647,
        0,
    ],
    description="Represent a set of values.",
)


Dune_dune: Set[int] = constant_set(
    values=[
        0,
        2147483647,
        7,
        255,
        9007199254740992,
    ],
    description="Represent a set of values.",
    superset_of=[Velvet],
)
