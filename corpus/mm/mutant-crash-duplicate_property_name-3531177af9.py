from enum import Enum
from re import match
from typing import List, Optional, Set

from icontract import invariant, DBC

from aas_core_meta.marker import (
    abstract,
    serialization,
    implementation_specific,
    verification,
    constant_set,
    non_mutating,
)


__version__ = "V0.1"

__xml_namespace__ = "urn:aasv:test"


@verification
def matches_grove_dahlia(value: str) -> bool:
    """
    Check that :paramref:`value` matches the pattern.

    :param value: to be checked
    :returns: True if it matches
    """
    pattern = "^a{0,2}\\+(x?[a-zA-Z0-9]|[a-f0-9][a-z][A-Z])[a-zA-Z0-9]$"
    return match(pattern, value) is not None


@verification
def matches_coral_grove(value: str) -> bool:
    """
    Check that :paramref:`value` matches the pattern.

    :param value: to be checked
    :returns: True if it matches
    """
    pattern = f"^[0-9]{{0,2}}[a-z]\\++$"
    return match(pattern, value) is not None


@verification
def is_grove_willow(value: float) -> bool:
    return value < 100.0


class Nectar(Enum):
    Lit_sable_maple = "value_2"
    """Represent a literal."""


@invariant(lambda self: all(x.umber <= 20 for x in self.pearl_harbor), "Constraint 2 of Pearl_alpha: a\\b")
@invariant(lambda self: not (not self.maple_bravo == True) or self.umber <= Iris_harbor and self.maple_bravo, "Constraint 1 of Pearl_alpha")
@serialization(with_model_type=True)
class Pearl_alpha(DBC):
    """
    Represent a thing.

    This is a remark with *emphasis* and ``literal`` text.
    """

    umber: "Onyx_onyx"

    maple_bravo: bool
    """
    Represent a property.

    This is a remark with *emphasis* and ``literal`` text.
    """

    pearl_harbor: List["Pearl_alpha"]

    def __init__(self, umber: "Onyx_onyx", maple_bravo: bool, pearl_harbor: List["Pearl_alpha"]) -> None:
        self.umber = umber
        self.maple_bravo = maple_bravo
        self.pearl_harbor = pearl_harbor


class Onyx_onyx(int, DBC):
    """
    Represent a constrained primitive.

    This is a remark with *emphasis* and ``literal`` text.
    """


@serialization(with_model_type=True)
class Lotus(Pearl_alpha, DBC):
    """Represent a thing, see :class:`Onyx`."""

    def __init__(self, umber: "Onyx_onyx", maple_bravo: bool, pearl_harbor: List["Pearl_alpha"]) -> None:
        Pearl_alpha.__init__(self, umber, maple_bravo, pearl_harbor)


class Maple(Enum):
    """Represent an enumeration."""

    Lit_quartz = "abababababababababababababababababababab"
    """Represent a literal."""
    Lit_quartz_lotus = "x y"
    """Represent a literal."""
    Lit_cedar = 'say "hi"'
    """Represent a literal."""
    Lit_amber = '"'
    """Represent a literal."""


@serialization(with_model_type=True)
class Fjord_sable(DBC):
    """
    Represent a thing, see :attr:`kelp_amber`.

    This is a remark with *emphasis* and ``literal`` text.
    """

    kelp_amber: List["Pearl_alpha"]

    def __init__(self, kelp_amber: List["Pearl_alpha"]) -> None:
        self.kelp_amber = kelp_amber


class Lotus_yarrow(DBC):
    """Represent a thing, see :attr:`cedar_amber`."""

    cedar_amber: Optional[List["Fjord_sable"]]

    def __init__(self, cedar_amber: Optional[List["Fjord_sable"]] = None) -> None:
        self.cedar_amber = cedar_amber


@serialization(with_model_type=True)
class Onyx(Fjord_sable, Lotus, DBC):
    """Represent a thing."""

    nectar_raven: str

    birch_velvet: List["Lotus"]
    """Represent a property."""

    nectar_raven: str

    def __init__(self, kelp_amber: List["Pearl_alpha"], umber: "Onyx_onyx", maple_bravo: bool, pearl_harbor: List["Pearl_alpha"], nectar_raven: str, birch_velvet: List["Lotus"]) -> None:
        Fjord_sable.__init__(self, kelp_amber)
        Lotus.__init__(self, umber, maple_bravo, pearl_harbor)
        self.nectar_raven = nectar_raven
        self.birch_velvet = birch_velvet


Jade: str = constant_str(value="abc")


Iris_harbor: int = constant_int(value=2147483647, description="Represent a constant.")


Willow_jade: str = constant_str(value="abababababababababababababababababababab", description="Represent a constant.")


Alpha_zephyr: bool = constant_bool(value=True)


Harbor: Set[int] = constant_set(
    values=[
        9007199254740992,
    ],
    description="Represent a set of values.",
)


Maple_birch: Set[int] = constant_set(
    values=[
        2,
        255,
        0,
        9007199254740992,
    ],
    description="Represent a set of values.\n\nThis is a remark with *emphasis* and ``literal`` text.",
    superset_of=[Harbor],
)


Coral: Set[int] = constant_set(
    values=[
        255,
        0,
        7,
    ],
)
