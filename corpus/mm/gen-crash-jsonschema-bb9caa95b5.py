"""
Provide a generated meta-model.

It exists only for testing.
"""


from enum import Enum
from re import match
from typing import List, Optional, Set

from icontract import invariant, DBC

from aas_core_meta.marker import (
    abstract,
    serialization,
    implementation_specific,
    verification,
    constant_set,
    non_mutating,
)


__version__ = "v 3"

__xml_namespace__ = "https://example.com/aasv/0/1"


@verification
def matches_bravo(text: str) -> bool:
    pattern = f"^(-(\\.\\+*|[A-Z]a{{1,3}}[0-9]9|[a-f0-9]?[a-z]+\\+{{1,3}})[^a-c]-)a?(\\+[a-f0-9]{{1,3}}|0|\\+[a-zA-Z0-9]?9{{0,2}}([^a-c][0-9]*))b{{0,2}}$"
    return match(pattern, text) is not None


@verification
def matches_xenon(value: str) -> bool:
    pattern = f"^[0-9]a((9{{1,3}}|x?\\.{{1,3}}x[a-z_]|_+[^a-c][^a-c]+)|x(x[0-9][0-9]|-+[a-z_][a-f0-9]+|[^a-c][0-9][a-zA-Z0-9]){{0,2}}[a-z_])+$"
    return match(pattern, value) is not None


@verification
def matches_sable(value: str) -> bool:
    """
    Check that :paramref:`value` matches the pattern.

    :param value: to be checked
    :returns: True if it matches
    """
    pattern = f"^[a-z]$"
    return match(pattern, value) is not None


@verification
def is_birch(value: int) -> bool:
    """
    Check :paramref:`value`.

    :param value: to be checked
    :returns: True if fine
    """
    return value > 94


@verification
@implementation_specific
def check_yarrow(text: str) -> bool:
    """
    Check the :paramref:`text` in a way only the implementation knows.

    :param text: to be checked
    :returns: True if fine
    """
    raise NotImplementedError()


@invariant(lambda self: self.willow_grove != "Some value", "Constraint 2 of Umber_nectar")
class Umber_nectar(DBC):
    """
    Represent a thing, see :class:`Velvet_pearl`.

    This is a remark with *emphasis* and ``literal`` text.
    """

    grove: "Umber_umber"

    willow_grove: "Harbor"
    """Represent a property."""

    yarrow_tulip: "Amber"
    """
    Represent a property.

    This is a remark with *emphasis* and ``literal`` text.
    """

    def __init__(self, grove: "Umber_umber", willow_grove: "Harbor", yarrow_tulip: "Amber") -> None:
        self.grove = grove
        self.willow_grove = willow_grove
        self.yarrow_tulip = yarrow_tulip


class Lotus_grove(Enum):
    """Represent an enumeration."""

    Lit_zephyr = "x y"
    Lit_pearl_tulip = "a"
    """
    Represent a literal.

    This is a remark with *emphasis* and ``literal`` text.
    """


class Umber_dahlia(Enum):
    """Represent an enumeration."""

    Lit_cedar_velvet = "*/"
    """Represent a literal."""
    Lit_umber_quartz = "A-1"
    """
    Represent a literal.

    This is a remark with *emphasis* and ``literal`` text.
    """
    Lit_harbor_onyx = ""


class Fjord(str, DBC):
    """Represent a constrained primitive."""


class Kelp(str, DBC):
    pass


class Grove_velvet(bytearray, DBC):
    """Represent a constrained primitive."""


@invariant(lambda self: self in Ember, "Constraint 1 of Harbor")
class Harbor(Fjord, DBC):
    """Represent a constrained primitive."""


class Cedar_lotus(Enum):
    Lit_kelp_ember = "a"
    """
    Represent a literal.

    This is a remark with *emphasis* and ``literal`` text.
    """


@invariant(lambda self: self.bravo_xenon is None or 3 >= len(self.bravo_xenon), "Constraint 5 of Xenon")
@invariant(lambda self: all(element.bravo_xenon is not None for element in self.amber_bravo), "Constraint 4 of Xenon: it's */ so")
@invariant(lambda self: self.bravo_xenon is None or 4 > len(self.bravo_xenon), "Constraint 3 of Xenon: {x}")
@serialization(with_model_type=True)
class Xenon(DBC):
    """
    Represent a thing, see :class:`Velvet_pearl`.

    This is a remark with *emphasis* and ``literal`` text.
    """

    bravo_xenon: Optional[List["Xenon_jade"]]
    """Represent a property."""

    quartz: Optional[List["Grove_grove"]]
    """
    Represent a property.

    This is a remark with *emphasis* and ``literal`` text.
    """

    amber_bravo: List["Grove_bravo"]
    """Represent a property."""

    def __init__(self, amber_bravo: List["Grove_bravo"], bravo_xenon: Optional[List["Xenon_jade"]] = None, quartz: Optional[List["Grove_grove"]] = None) -> None:
        self.bravo_xenon = bravo_xenon
        self.quartz = quartz
        self.amber_bravo = amber_bravo


@invariant(lambda self: self.cedar is None or len(self.cedar) <= 6, "Constraint 8 of Xenon_jade")
@invariant(lambda self: self.cedar is None or all(x.willow_grove == "x y" for x in self.cedar), "Constraint 7 of Xenon_jade")
class Xenon_jade(DBC):
    """
    Represent a thing, see :class:`Xenon`.

    This is a remark with *emphasis* and ``literal`` text.
    """

    cedar: Optional[List["Umber_nectar"]]
    """Represent a property."""

    def __init__(self, cedar: Optional[List["Umber_nectar"]] = None) -> None:
        self.cedar = cedar


class Umber_umber(Grove_velvet, DBC):
    """Represent a constrained primitive."""


@invariant(lambda self: self.bravo_xenon is None or all(self.bravo_xenon[i].cedar is not None for i in range(0, len(self.bravo_xenon))), "Constraint 9 of Velvet_pearl")
class Velvet_pearl(Xenon, DBC):
    """Represent a thing."""

    coral_willow: Optional[List["Xenon"]]

    sable: "Cedar_lotus"
    """Represent a property."""

    quartz_willow: "Umber_dahlia"
    """Represent a property."""

    velvet: List["Velvet_pearl"]

    def __init__(self, amber_bravo: List["Grove_bravo"], sable: "Cedar_lotus", quartz_willow: "Umber_dahlia", velvet: List["Velvet_pearl"], bravo_xenon: Optional[List["Xenon_jade"]] = None, quartz: Optional[List["Grove_grove"]] = None, coral_willow: Optional[List["Xenon"]] = None) -> None:
        Xenon.__init__(self, amber_bravo, bravo_xenon, quartz)
        self.coral_willow = coral_willow
        self.sable = sable
        self.quartz_willow = quartz_willow
        self.velvet = velvet


@invariant(lambda self: not (self.quartz is not None) or 1 >= len(self.quartz), "Constraint 6 of Grove_bravo")
class Grove_bravo(Xenon, DBC):
    """Represent a thing, see :class:`Umber_nectar`."""

    def __init__(self, amber_bravo: List["Grove_bravo"], bravo_xenon: Optional[List["Xenon_jade"]] = None, quartz: Optional[List["Grove_grove"]] = None) -> None:
        Xenon.__init__(self, amber_bravo, bravo_xenon, quartz)


@invariant(lambda self: self.coral_willow is None or all(x.quartz is not None for x in self.coral_willow), "Constraint 11 of Grove_grove")
@invariant(lambda self: self.coral_willow is None or 6 >= len(self.coral_willow), "Constraint 10 of Grove_grove")
class Grove_grove(Grove_bravo, Velvet_pearl, DBC):
    """Represent a thing."""

    velvet_yarrow: Optional["Grove_velvet"]

    @implementation_specific
    def compute_bravo(self) -> Optional[str]:
        """Compute something implementation-specific."""
        raise NotImplementedError()

    def __init__(self, amber_bravo: List["Grove_bravo"], sable: "Cedar_lotus", quartz_willow: "Umber_dahlia", velvet: List["Velvet_pearl"], bravo_xenon: Optional[List["Xenon_jade"]] = None, quartz: Optional[List["Grove_grove"]] = None, coral_willow: Optional[List["Xenon"]] = None, velvet_yarrow: Optional["Grove_velvet"] = None) -> None:
        Grove_bravo.__init__(self, amber_bravo, bravo_xenon, quartz)
        Velvet_pearl.__init__(self, amber_bravo, sable, quartz_willow, velvet, bravo_xenon, quartz, coral_willow)
        self.velvet_yarrow = velvet_yarrow


class Amber(Xenon, DBC):
    """Represent a thing, see :class:`Xenon_jade`."""

    zephyr_raven: "Grove_grove"

    grove_amber: Optional[List["Amber"]]
    """Represent a property."""

    cedar_dahlia: Optional[List["Umber_nectar"]]
    """
    Represent a property.

    This is a remark with *emphasis* and ``literal`` text.
    """

    raven: Optional[List["Xenon_jade"]]
    """Represent a property."""

    def __init__(self, amber_bravo: List["Grove_bravo"], zephyr_raven: "Grove_grove", bravo_xenon: Optional[List["Xenon_jade"]] = None, quartz: Optional[List["Grove_grove"]] = None, grove_amber: Optional[List["Amber"]] = None, cedar_dahlia: Optional[List["Umber_nectar"]] = None, raven: Optional[List["Xenon_jade"]] = None) -> None:
        Xenon.__init__(self, amber_bravo, bravo_xenon, quartz)
        self.zephyr_raven = zephyr_raven
        self.grove_amber = grove_amber
        self.cedar_dahlia = cedar_dahlia
        self.raven = raven


Yarrow: int = constant_int(value=2147483648)


Pearl_amber: float = constant_float(value=0.1, description="Represent a constant.")


Iris: int = constant_int(value=9007199254740992, description="Represent a constant.")


Maple: Set[str] = constant_set(
    values=[
        "Some value",
        'say "hi"',
        "*/",
    ],
)


Pearl_zephyr: Set[str] = constant_set(
    values=[
        "*/",
        "Some value",
        'say "hi"',
        "",
        "abababababababababababababababababababab",
        "$",
    ],
    superset_of=[Maple],
)


Onyx_sable: Set[str] = constant_set(
    values=[
        "'",
    ],
)


Ember: Set[str] = constant_set(
    values=[
        "<&>",
        "value_2",
    ],
    description="Represent a set of values.",
)
