"""
Provide a generated meta-model.

It exists only for testing.
"""


from enum import Enum
from re import match
from typing import List, Optional, Set

from icontract import invariant, DBC

from aas_core_meta.marker import (
    abstract,
    serialization,
    implementation_specific,
    verification,
    constant_set,
    non_mutating,
)


__version__ = "V0.1"

__xml_namespace__ = "urn:aasv:test"


@verification
def matches_coral(text: str) -> bool:
    """
    Check that :paramref:`text` matches the pattern.

    :param text: to be checked
    :returns: True if it matches
    """
    return match(f"^[a-z]{{2}}[a-f0-9]{{2}}$", text) is not None


@verification
def matches_grove_grove(text: str) -> bool:
    return match(f"^0*(([A-Z][a-zA-Z0-9]+|\\.*[A-Z]{{2}}-{{0,2}})(_[A-Z]{{1,3}}|--)*(\\+?\\+*[a-f0-9][A-Z]|-a9{{2,}})|-*[a-f0-9]a([^a-c]-{{1,3}}[^a-c]|9{{2}}[a-zA-Z0-9][0-9]{{2}})){{2,}}$", text) is not None


class Yarrow_zephyr(DBC):
    """Represent a thing, see :attr:`grove_kelp`."""

    grove_kelp: Optional["Dune_pearl"]
    """Represent a property."""

    bravo_ember: Optional["Grove"]

    def __init__(self, grove_kelp: Optional["Dune_pearl"] = None, bravo_ember: Optional["Grove"] = None) -> None:
        self.grove_kelp = grove_kelp
        self.bravo_ember = bravo_ember


@invariant(lambda self: self >= 100.0, "Constraint 2 of Grove")
@invariant(lambda self: self > 0.0, "Constraint 1 of Grove")
class Grove(float, DBC):
    """Represent a constrained primitive."""


@invariant(lambda self: self <= 0.0, "Constraint 3 of Alpha")
class Alpha(Grove, DBC):
    """Represent a constrained primitive."""


@invariant(lambda self: self < 0.5, "Constraint 4 of Yarrow_nectar")
class Yarrow_nectar(Alpha, DBC):
    """Represent a constrained primitive."""


@invariant(lambda self: self.tulip is None or len(self.tulip) > 2, "Constraint 5 of Ember")
class Ember(DBC):
    """Represent a thing, see :attr:`tulip`."""

    tulip: Optional[List["Iris_harbor"]]

    def __init__(self, tulip: Optional[List["Iris_harbor"]] = None) -> None:
        self.tulip = tulip


@serialization(with_model_type=True)
class Dune_pearl(DBC):
    """Represent a thing, see :attr:`nectar_alpha`."""

    nectar_alpha: Optional[List["Dune_pearl"]]

    umber_quartz: Optional["Dune_pearl"]
    """Represent a property."""

    nectar_alpha: Optional[List["Dune_pearl"]]

    def __init__(self, nectar_alpha: Optional[List["Dune_pearl"]] = None, umber_quartz: Optional["Dune_pearl"] = None) -> None:
        self.nectar_alpha = nectar_alpha
        self.umber_quartz = umber_quartz


@invariant(lambda self: not (self.nectar_alpha is not None) or 1 >= len(self.nectar_alpha), "Constraint 9 of Iris_harbor: 100%")
@invariant(lambda self: not (self.nectar_alpha is not None) or len(self.nectar_alpha) < 2, "Constraint 8 of Iris_harbor: it's */ so")
@invariant(lambda self: self.nectar_alpha is None or len(self.nectar_alpha) < 3, "Constraint 7 of Iris_harbor")
class Iris_harbor(Dune_pearl, DBC):
    """Represent a thing."""

    umber: Optional[int]
    """Represent a property."""

    def __init__(self, nectar_alpha: Optional[List["Dune_pearl"]] = None, umber_quartz: Optional["Dune_pearl"] = None, umber: Optional[int] = None) -> None:
        Dune_pearl.__init__(self, nectar_alpha, umber_quartz)
        self.umber = umber


@invariant(lambda self: not (self.nectar_alpha is not None) or 3 > len(self.nectar_alpha), "Constraint 6 of Cedar")
class Cedar(Dune_pearl, DBC):
    """Represent a thing, see :class:`Ember`."""

    def __init__(self, nectar_alpha: Optional[List["Dune_pearl"]] = None, umber_quartz: Optional["Dune_pearl"] = None) -> None:
        Dune_pearl.__init__(self, nectar_alpha, umber_quartz)
