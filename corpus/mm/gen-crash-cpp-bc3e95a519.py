"""
Provide a generated meta-model.

It exists only for testing.
"""


from enum import Enum
from re import match
from typing import List, Optional, Set

from icontract import invariant, DBC

from aas_core_meta.marker import (
    abstract,
    serialization,
    implementation_specific,
    verification,
    constant_set,
    non_mutating,
)


__version__ = "2024.1-beta"

__xml_namespace__ = "urn:aasv:test"


@verification
def matches_maple(text: str) -> bool:
    pattern = "^a{1,3}[a-zA-Z0-9]?[a-zA-Z0-9]{2,}(\\+[A-Z]{0,2}([^a-c]\\.[^a-c]{1,3}_|[A-Z]9{2}[^a-c])*_)$"
    return match(pattern, text) is not None


@verification
def matches_xenon(text: str) -> bool:
    return match(f"^b[^a-c]$", text) is not None


@verification
def matches_kelp_ember(text: str) -> bool:
    """
    Check that :paramref:`text` matches the pattern.

    :param text: to be checked
    :returns: True if it matches
    """
    return match(f"^(_[0-9]?|([0-9]\\.[A-Z]|[A-Z]+[^a-c]\\+[A-Z]|[0-9]\\+b{{2,}}[a-z_]{{2,}})|a{{1,3}}\\+?b)(\\+{{0,2}}([^a-c]-{{0,2}}[a-zA-Z0-9]|_+|[a-zA-Z0-9])|[A-Z]{{2,}}|(bb{{1,3}}\\.a|[^a-c]{{2}}b{{0,2}}x)){{2}}$", text) is not None


@verification
def is_jade(value: float) -> bool:
    """
    Check :paramref:`value`.

    :param value: to be checked
    :returns: True if fine
    """
    limit = 100.0
    return value < limit


@verification
@implementation_specific
def check_harbor_raven(text: str) -> bool:
    """
    Check the :paramref:`text` in a way only the implementation knows.

    :param text: to be checked
    :returns: True if fine
    """
    raise NotImplementedError()


@invariant(lambda self: self, "Constraint 1 of Dahlia_jade")
class Dahlia_jade(bool, DBC):
    """Represent a constrained primitive."""


@invariant(lambda self: all(element < 0 for element in self.iris), "Constraint 2 of Amber")
class Amber(DBC):
    """Represent a thing, see :class:`Amber`."""

    iris: List[int]
    """Represent a property."""

    maple_velvet: Optional["Dahlia_jade"]

    def __init__(self, iris: List[int], maple_velvet: Optional["Dahlia_jade"] = None) -> None:
        self.iris = iris
        self.maple_velvet = maple_velvet


@invariant(lambda self: self.maple_velvet is not None, "Constraint 5 of Dune")
@invariant(lambda self: 4 <= len(self.iris), "Constraint 4 of Dune")
@invariant(lambda self: any(element < 0 for element in self.iris), "Constraint 3 of Dune")
@abstract
class Dune(Amber, DBC):
    """
    Represent a thing.

    This is a remark with *emphasis* and ``literal`` text.
    """

    def __init__(self, iris: List[int], maple_velvet: Optional["Dahlia_jade"] = None) -> None:
        Amber.__init__(self, iris, maple_velvet)


Zephyr: bool = constant_bool(value=False, description="Represent a constant.")


Pearl_jade: float = constant_float(value=5e-324, description="Represent a constant.\n\nThis is a remark with *emphasis* and ``literal`` text.")


Birch: Set[str] = constant_set(
    values=[
        "\x1b",
    ],
    description="Represent a set of values.",
)


Bravo: Set[str] = constant_set(
    values=[
        "{x}",
    ],
    description="Represent a set of values.",
)


Onyx_raven: Set[str] = constant_set(
    values=[
        "value_2",
        "{x}",
    ],
    description="Represent a set of values.",
    superset_of=[Bravo],
)
