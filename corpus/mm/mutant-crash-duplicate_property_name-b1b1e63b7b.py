"""
Provide a generated meta-model.

It exists only for testing.
"""


from enum import Enum
from re import match
from typing import List, Optional, Set

from icontract import invariant, DBC

from aas_core_meta.marker import (
    abstract,
    serialization,
    implementation_specific,
    verification,
    constant_set,
    non_mutating,
)


__version__ = "V0.1"

__xml_namespace__ = "http://x.org/ns"


@verification
def matches_jade(value: str) -> bool:
    """
    Check that :paramref:`value` matches the pattern.

    :param value: to be checked
    :returns: True if it matches
    """
    pattern = f"^([0-9]{{0,2}}\\+{{1,3}}(x[a-zA-Z0-9][a-z]+){{2,}}|(\\.{{0,2}}0{{2}}|_\\+)+\\+{{2,}}9{{2,}})*[a-zA-Z0-9]$"
    return match(pattern, value) is not None


@verification
def matches_iris_yarrow(text: str) -> bool:
    return match(f"^[0-9]$", text) is not None


@verification
def is_onyx_onyx(value: float) -> bool:
    """
    Check :paramref:`value`.

    :param value: to be checked
    :returns: True if fine
    """
    return value >= 100.0


@verification
def is_sable_fjord(value: int) -> bool:
    return value > 75


class Maple_maple(Enum):
    """
    Represent an enumeration.

    This is a remark with *emphasis* and ``literal`` text.
    """

    Lit_maple_xenon = "abababababababababababababababababababab"
    """Represent a literal."""
    Lit_raven = '"'
    Lit_fjord_kelp = "\\"
    """
    Represent a literal.

    This is a remark with *emphasis* and ``literal`` text.
    """
    Lit_quartz_lotus = "abc"
    """Represent a literal."""


@invariant(lambda self: self.jade_sable is not None and self.grove_willow != "Some value", "Constraint 3 of Umber")
@invariant(lambda self: len(self.grove_willow) == 3, "Constraint 2 of Umber")
@invariant(lambda self: not self.jade_sable is None, "Constraint 1 of Umber")
class Umber(DBC):
    """Represent a thing."""

    maple: "Raven_ember"
    """Represent a property."""

    jade_sable: Optional[bytearray]

    grove_willow: str
    """Represent a property."""

    maple: "Raven_ember"
    """Represent a property."""

    def __init__(self, maple: "Raven_ember", grove_willow: str, jade_sable: Optional[bytearray] = None) -> None:
        self.maple = maple
        self.jade_sable = jade_sable
        self.grove_willow = grove_willow


class Raven_ember(Enum):
    """
    Represent an enumeration.

    This is a remark with *emphasis* and ``literal`` text.
    """

    Lit_onyx = "a"
    """
    Represent a literal.

    This is a remark with *emphasis* and ``literal`` text.
    """
    Lit_raven_fjord = "A-1"
    """
    Represent a literal.

    This is a remark with *emphasis* and ``literal`` text.
    """


@abstract
@serialization(with_model_type=True)
class Lotus(DBC):
    """Represent a thing."""

    birch_quartz: Optional["Dune_grove"]

    bravo_coral: List["Dune_grove"]
    """Represent a property."""

    def __init__(self, bravo_coral: List["Dune_grove"], birch_quartz: Optional["Dune_grove"] = None) -> None:
        self.birch_quartz = birch_quartz
        self.bravo_coral = bravo_coral


@abstract
class Coral_fjord(Lotus, DBC):
    """
    Represent a thing, see :class:`Umber`.

    This is a remark with *emphasis* and ``literal`` text.
    """

    amber_velvet: List["Lotus"]

    def __init__(self, bravo_coral: List["Dune_grove"], amber_velvet: List["Lotus"], birch_quartz: Optional["Dune_grove"] = None) -> None:
        Lotus.__init__(self, bravo_coral, birch_quartz)
        self.amber_velvet = amber_velvet


@invariant(lambda self: not (self.quartz_velvet == "abc") or self.quartz_velvet != "A-1", "Constraint 5 of Dune_grove")
@invariant(lambda self: any(x.quartz_velvet == "Some value" for x in self.bravo_coral), "Constraint 4 of Dune_grove")
class Dune_grove(Coral_fjord, DBC):
    """Represent a thing, see :class:`Lotus`."""

    quartz_velvet: str
    """Represent a property."""

    harbor_fjord: Optional[List["Dune_grove"]]

    coral: "Raven_ember"

    def __init__(self, bravo_coral: List["Dune_grove"], amber_velvet: List["Lotus"], quartz_velvet: str, coral: "Raven_ember", birch_quartz: Optional["Dune_grove"] = None, harbor_fjord: Optional[List["Dune_grove"]] = None) -> None:
        Coral_fjord.__init__(self, bravo_coral, amber_velvet, birch_quartz)
        self.quartz_velvet = quartz_velvet
        self.harbor_fjord = harbor_fjord
        self.coral = coral


Willow_maple: Set[str] = constant_set(
    values=[
        "",
        "x y",
    ],
)


Quartz: Set[str] = constant_set(
    values=[
        "\\",
        "x y",
        "",
        "a",
    ],
    description="Represent a set of values.",
    superset_of=[Willow_maple],
)


Raven: Set[str] = constant_set(
    values=[
        "A-1",
        '"',
    ],
    description="Represent a set of values.",
)


Umber_birch: Set[str] = constant_set(
    values=[
        "a",
        "abc",
        "'",
        '"',
        "A-1",
    ],
    description="Represent a set of values.",
    superset_of=[Raven],
)


Alpha: Set[str] = constant_set(
    values=[
        "A-1",
    ],
    description="Represent a set of values.\n\nThis is a remark with *emphasis* and ``literal`` text.",
)


Velvet: Set[str] = constant_set(
    values=[
        "A-1",
        "'",
        '"',
        "a",
    ],
    superset_of=[Alpha],
)


Kelp_coral: Set[str] = constant_set(
    values=[
        "'",
        "a",
        '"',
        "A-1",
        "value_2",
        "x y",
    ],
    description="Represent a set of values.\n\nThis is a remark with *emphasis* and ``literal`` text.",
    superset_of=[Velvet],
)
