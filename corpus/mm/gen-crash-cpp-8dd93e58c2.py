"""
Provide a generated meta-model.

It exists only for testing.
"""


from enum import Enum
from re import match
from typing import List, Optional, Set

from icontract import invariant, DBC

from aas_core_meta.marker import (
    abstract,
    serialization,
    implementation_specific,
    verification,
    constant_set,
    non_mutating,
)


__version__ = "2024.1-beta"

__xml_namespace__ = "https://example.com/aasv/0/1"


@verification
def matches_sable(text: str) -> bool:
    """
    Check that :paramref:`text` matches the pattern.

    :param text: to be checked
    :returns: True if it matches
    """
    pattern = f"^[a-f0-9](([a-f0-9]{{1,3}}a[a-f0-9]{{0,2}}|\\+a[a-zA-Z0-9][^a-c]{{2}})){{2}}$"
    return match(pattern, text) is not None


@verification
def matches_alpha_willow(value: str) -> bool:
    """
    Check that :paramref:`value` matches the pattern.

    :param value: to be checked
    :returns: True if it matches
    """
    body = f"[a-z](\\._b9{{2}}|b|(x0)9(\\.|[a-z_])9)((x?\\++b|\\+[a-z]{{2}})([a-f0-9]\\.*[0-9][0-9]|x?-{{2,}}[0-9]{{0,2}})?([^a-c]_)[a-z_]|[a-z])$"
    pattern = f"^{body}"
    return match(pattern, value) is not None


@verification
def is_alpha(value: float) -> bool:
    return value >= 100.0


@invariant(lambda self: self in Maple_quartz, 'Constraint 4 of Dahlia_grove: must hold "always".')
@invariant(lambda self: 2 >= len(self), "Constraint 3 of Dahlia_grove")
class Dahlia_grove(str, DBC):
    pass


class Amber_jade(DBC):
    maple: List[List["Jade_fjord"]]
    """Represent a property."""

    @implementation_specific
    def compute_sable_fjord(self) -> int:
        """Compute something implementation-specific."""
        raise NotImplementedError()

    def __init__(self, maple: List[List["Jade_fjord"]]) -> None:
        self.maple = maple


class Maple_willow(DBC):
    """Represent a thing, see :class:`Tulip`."""


@invariant(lambda self: matches_sable(self), "Constraint 1 of Amber")
class Amber(str, DBC):
    """Represent a constrained primitive."""


class Yarrow(Amber, DBC):
    pass


@invariant(lambda self: not (self.grove_grove is None and self.zephyr is None), "Constraint 7 of Tulip: a\\b")
@invariant(lambda self: self.grove_grove is None and self.zephyr is None or self.grove_grove is not None and self.zephyr is not None, "Constraint 6 of Tulip")
@invariant(lambda self: self.grove_grove is None or self.grove_grove in Bravo_tulip, "Constraint 5 of Tulip")
class Tulip(DBC):
    jade_xenon: str

    grove_grove: Optional["Dahlia_grove"]
    """
    Represent a property.

    This is a remark with *emphasis* and ``literal`` text.
    """

    nectar_raven: str

    zephyr: Optional["Yarrow"]
    """
    Represent a property.

    This is a remark with *emphasis* and ``literal`` text.
    """

    @implementation_specific
    def compute_zephyr(self) -> Optional[str]:
        """Compute something implementation-specific."""
        raise NotImplementedError()

    def __init__(self, jade_xenon: str, nectar_raven: str, grove_grove: Optional["Dahlia_grove"] = None, zephyr: Optional["Yarrow"] = None) -> None:
        self.jade_xenon = jade_xenon
        self.grove_grove = grove_grove
        self.nectar_raven = nectar_raven
        self.zephyr = zephyr


@invariant(lambda self: self.jade_xenon == f"x-{self.jade_xenon}", "Constraint 10 of Jade_fjord")
@invariant(lambda self: not (self.nectar_raven == f"x-{self.nectar_raven}") or not self.cedar_grove <= 0, "Constraint 9 of Jade_fjord")
@invariant(lambda self: matches_sable(self.nectar_raven), "Constraint 8 of Jade_fjord")
@abstract
class Jade_fjord(Tulip, Maple_willow, DBC):
    cedar_grove: int

    def __init__(self, jade_xenon: str, nectar_raven: str, cedar_grove: int, grove_grove: Optional["Dahlia_grove"] = None, zephyr: Optional["Yarrow"] = None) -> None:
        Tulip.__init__(self, jade_xenon, nectar_raven, grove_grove, zephyr)
        self.cedar_grove = cedar_grove


class Cedar(Tulip, DBC):
    """
    Represent a thing.

    This is a remark with *emphasis* and ``literal`` text.
    """

    willow: Optional["Jade_fjord"]

    velvet: Optional[str]
    """
    Represent a property.

    This is a remark with *emphasis* and ``literal`` text.
    """

    jade_bravo: str
    """Represent a property."""

    harbor: Optional["Xenon_jade"]

    @implementation_specific
    def compute_dune(self) -> bool:
        """Compute something implementation-specific."""
        raise NotImplementedError()

    def __init__(self, jade_xenon: str, nectar_raven: str, jade_bravo: str, grove_grove: Optional["Dahlia_grove"] = None, zephyr: Optional["Yarrow"] = None, willow: Optional["Jade_fjord"] = None, velvet: Optional[str] = None, harbor: Optional["Xenon_jade"] = None) -> None:
        Tulip.__init__(self, jade_xenon, nectar_raven, grove_grove, zephyr)
        self.willow = willow
        self.velvet = velvet
        self.jade_bravo = jade_bravo
        self.harbor = harbor


@invariant(lambda self: not (self.zephyr is not None and self.grove_grove is not None) or self.cedar_grove + 16 >= len(self.nectar_raven) and (len(self.grove_grove) + 1 < 11 and self.cedar_grove != 17), "Constraint 11 of Cedar_fjord")
@abstract
class Cedar_fjord(Jade_fjord, DBC):
    def __init__(self, jade_xenon: str, nectar_raven: str, cedar_grove: int, grove_grove: Optional["Dahlia_grove"] = None, zephyr: Optional["Yarrow"] = None) -> None:
        Jade_fjord.__init__(self, jade_xenon, nectar_raven, cedar_grove, grove_grove, zephyr)


@invariant(lambda self: len(self) == 1, "Constraint 2 of Xenon_jade")
class Xenon_jade(Yarrow, DBC):
    """Represent a constrained primitive."""


Fjord_grove: bool = constant_bool(value=True)


Alpha: bool = constant_bool(value=True, description="Represent a constant.")


Sable: bool = constant_bool(value=True)


Umber_alpha: Set[str] = constant_set(
    values=[
        "",
    ],
    description="Represent a set of values.",
)


Umber: Set[str] = constant_set(
    values=[
        "*/",
        "",
        "<&>",
    ],
    description="Represent a set of values.",
    superset_of=[Umber_alpha],
)


Bravo_tulip: Set[str] = constant_set(
    values=[
        "value_2",
        "<&>",
        "*/",
        "",
    ],
    description="Represent a set of values.",
    superset_of=[Umber],
)


Maple_quartz: Set[str] = constant_set(
    values=[
        "abababababababababababababababababababab",
        "\x85",
        "\u2028",
    ],
    description="Represent a set of values.\n\nThis is a remark with *emphasis* and ``literal`` text.",
)
