from enum import Enum
from re import match
from typing import List, Optional, Set

from icontract import invariant, DBC

from aas_core_meta.marker import (
    abstract,
    serialization,
    implementation_specific,
    verification,
    constant_set,
    non_mutating,
)


__version__ = "v 3"

__xml_namespace__ = "https://example.com/aasv/0/1"


@verification
def matches_lotus_lotus(value: str) -> bool:
    pattern = "^b{1,3}x{1,3}$"
    return match(pattern, value) is not None


@verification
def is_bravo_fjord(value: float) -> bool:
    """
    Check :paramref:`value`.

    :param value: to be checked
    :returns: True if fine
    """
    limit = 100.0
    return value < limit


class Cedar(Enum):
    """
    Represent an enumeration.

    This is a remark with *emphasis* and ``literal`` text.
    """

    Lit_tulip_ember = ""
    """Represent a literal."""
    Lit_zephyr = "value_2"
    Lit_lotus_lotus = "\x1b"
    """Represent a literal."""
    Lit_tulip = "%s"
    """Represent a literal."""


@serialization(with_model_type=True)
class Amber_sable(DBC):
    pass


class Umber_kelp(Enum):
    """Represent an enumeration."""

    Lit_alpha_umber = "$"
    """
    Represent a literal.

    This is a remark with *emphasis* and ``literal`` text.
    """
    Lit_fjord = "value_2"
    """Represent a literal."""


@serialization(with_model_type=True)
class Nectar_kelp(Amber_sable, DBC):
    """Represent a thing, see :attr:`bravo_velvet`."""

    bravo_velvet: Optional["Lotus_xenon"]

    maple_pearl: Optional["Bravo_kelp"]
    """Represent a property."""

    kelp: List["Fjord"]
    """Represent a property."""

    maple: str

    @implementation_specific
    def compute_ember_harbor(self) -> int:
        """Compute something implementation-specific."""
        raise NotImplementedError()

    def __init__(self, kelp: List["Fjord"], maple: str, bravo_velvet: Optional["Lotus_xenon"] = None, maple_pearl: Optional["Bravo_kelp"] = None) -> None:
        self.bravo_velvet = bravo_velvet
        self.maple_pearl = maple_pearl
        self.kelp = kelp
        self.maple = maple


@serialization(with_model_type=True)
class Onyx_cedar(Amber_sable, DBC):
    pass


@invariant(lambda self: self.ember == f"x-{self.ember}" or (self.ember == f"x-{self.ember}" or self.ember == f"x-{self.ember}"), "Constraint 2 of Lotus_xenon")
@invariant(lambda self: len(self.ember) <= 10, "Constraint 1 of Lotus_xenon")
@abstract
class Lotus_xenon(DBC):
    bravo_pearl: "Onyx_cedar"

    ember: str
    """Represent a property."""

    umber: "Onyx_cedar"
    """Represent a property."""

    zephyr: "Amber_sable"
    """Represent a property."""

    def __init__(self, bravo_pearl: "Onyx_cedar", ember: str, umber: "Onyx_cedar", zephyr: "Amber_sable") -> None:
        self.bravo_pearl = bravo_pearl
        self.ember = ember
        self.umber = umber
        self.zephyr = zephyr


@serialization(with_model_type=True)
class Fjord(Amber_sable, DBC):
    pass


@invariant(lambda self: (self.jade_raven + 100.0 <= 0.5 and self.onyx_umber == Cedar.Lit_tulip) and (self.onyx_umber == Cedar.Lit_tulip_ember and self.onyx_umber == Cedar.Lit_zephyr), "Constraint 5 of Bravo_kelp — né?")
@invariant(lambda self: self.jade_raven in Tulip_yarrow, "Constraint 4 of Bravo_kelp — né?")
@invariant(lambda self: not (self.bravo is not None) or len(self.bravo) <= 1, "Constraint 3 of Bravo_kelp")
@serialization(with_model_type=True)
class Bravo_kelp(Onyx_cedar, DBC):
    onyx_umber: "Cedar"

    harbor: List["Onyx_cedar"]
    """Represent a property."""

    jade_raven: float

    bravo: Optional[List[str]]
    """
    Represent a property.

    This is a remark with *emphasis* and ``literal`` text.
    """

    def __init__(self, onyx_umber: "Cedar", harbor: List["Onyx_cedar"], jade_raven: float, bravo: Optional[List[str]] = None) -> None:
        self.onyx_umber = onyx_umber
        self.harbor = harbor
        self.jade_raven = jade_raven
        self.bravo = bravo


Dune: str = constant_str(value="%s", description="Represent a constant.")


Tulip_yarrow: Set[float] = constant_set(
    values=[
        1.0,
    ],
)
