"""
Provide a generated meta-model.

It exists only for testing.
"""


from enum import Enum
from re import match
from typing import List, Optional, Set

from icontract import invariant, DBC

from aas_core_meta.marker import (
    abstract,
    serialization,
    implementation_specific,
    verification,
    constant_set,
    non_mutating,
)


__version__ = "v 3"

__xml_namespace__ = "urn:aasv:test"


@verification
def matches_quartz_raven(value: str) -> bool:
    pattern = f"^[0-9]$"
    return match(pattern, value) is not None


@verification
def matches_quartz(value: str) -> bool:
    pattern = f"^x{{1,3}}b(-(0|[a-z][0-9][A-Z]\\+|[^a-c]\\.[a-z_]0*){{1,3}}([a-z_][a-z_]{{1,3}}x[a-zA-Z0-9]+)a|_(\\.[A-Z]{{2,}}90)[0-9][0-9]?|a{{1,3}}(b[0-9][A-Z]{{2}}[a-z]|-\\++[a-z_]\\+?)?[a-z_])b$"
    return match(pattern, value) is not None


@verification
def is_cedar_alpha(value: float) -> bool:
    limit = 100.0
    return value < limit


@verification
def is_kelp(value: float) -> bool:
    limit = 1.5
    return value < limit


@invariant(lambda self: self.xenon, "Constraint 4 of Ember")
@abstract
class Ember(DBC):
    """Represent a thing, see :class:`Ember`."""

    xenon: bool

    def __init__(self, xenon: bool) -> None:
        self.xenon = xenon


@invariant(lambda self: self, "Constraint 2 of Raven_raven")
@invariant(lambda self: self, "Constraint 1 of Raven_raven")
class Raven_raven(bool, DBC):
    """Represent a constrained primitive."""


@invariant(lambda self: self, "Constraint 3 of Harbor_nectar")
class Harbor_nectar(Raven_raven, DBC):
    """Represent a constrained primitive."""


class Maple_tulip(Harbor_nectar, DBC):
    """Represent a constrained primitive."""


Harbor: float = constant_float(value=1.7976931348623157e+308, description="Represent a constant.")


Dahlia: str = constant_str(value="a", description="Represent a constant.")


Grove: Set[int] = constant_set(
    values=[
        2147483648,
    ],
    description="Represent a set of values.",
)


Pearl: Set[int] = constant_set(
    values=[
        2147483648,
        9223372036854775808,
        1000000000000000000000000000000,
        9007199254740992,
    ],
    description="Represent a set of values.",
    superset_of=[Grove],
)
