from enum import Enum
from re import match
from typing import List, Optional, Set

from icontract import invariant, DBC

from aas_core_meta.marker import (
    abstract,
    serialization,
    implementation_specific,
    verification,
    constant_set,
    non_mutating,
)


__version__ = "V0.1"

__xml_namespace__ = "https://example.com/aasv/0/1"


@abstract
@serialization(with_model_type=True)
class Left_x(DBC):
    """Represent left."""

    ident: str

    def __init__(self, ident: str) -> None:
        self.ident = ident


@abstract
@serialization(with_model_type=True)
class Right_x(DBC):
    """Represent right."""

    val: int

    def __init__(self, val: int) -> None:
        self.val = val


@abstract
class Middle_x(Left_x, Right_x, DBC):
    def __init__(self, ident: str, val: int) -> None:
        Left_x.__init__(self, ident)
        Right_x.__init__(self, val)


class Child_x(Middle_x, DBC):
    """Represent child."""

    def __init__(self, ident: str, val: int) -> None:
        Middle_x.__init__(self, ident, val)
