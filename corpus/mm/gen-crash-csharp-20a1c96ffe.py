from enum import Enum
from re import match
from typing import List, Optional, Set

from icontract import invariant, DBC

from aas_core_meta.marker import (
    abstract,
    serialization,
    implementation_specific,
    verification,
    constant_set,
    non_mutating,
)


__version__ = "1"

__xml_namespace__ = "https://example.com/aasv/0/1"


@verification
def matches_grove_dahlia(text: str) -> bool:
    """
    Check that :paramref:`text` matches the pattern.

    :param text: to be checked
    :returns: True if it matches
    """
    body = f"(00{{2}}(b+[^a-c][0-9])+|([^a-c]?9\\+|\\.|[a-zA-Z0-9][a-z_])[a-f0-9]{{2,}}00|_-[^a-c]*)+_[a-f0-9]b$"
    pattern = f"^{body}"
    return match(pattern, text) is not None


@verification
def matches_alpha(value: str) -> bool:
    """
    Check that :paramref:`value` matches the pattern.

    :param value: to be checked
    :returns: True if it matches
    """
    body = f"(9{{0,2}}[a-z]b)[A-Z]\\.[a-zA-Z0-9]$"
    pattern = f"^{body}"
    return match(pattern, value) is not None


class Cedar_kelp(Enum):
    """Represent an enumeration."""

    Lit_onyx = "'"
    """
    Represent a literal.

    This is a remark with *emphasis* and ``literal`` text.
    """
    Lit_raven_dune = "\x1b"
    """Represent a literal."""
    Lit_ember_amber = "\x85"
    Lit_quartz_nectar = "\x853"
    """Represent a literal."""


@serialization(with_model_type=True)
class Dune(DBC):
    """Represent a thing, see :class:`Grove`."""

    kelp_dahlia: Optional["Cedar_kelp"]

    dune_bravo: List[List[bytearray]]

    maple: Optional[List[List["Grove"]]]
    """Represent a property."""

    onyx_xenon: Optional[int]
    """
    Represent a property.

    This is a remark with *emphasis* and ``literal`` text.
    """

    def __init__(self, dune_bravo: List[List[bytearray]], kelp_dahlia: Optional["Cedar_kelp"] = None, maple: Optional[List[List["Grove"]]] = None, onyx_xenon: Optional[int] = None) -> None:
        self.kelp_dahlia = kelp_dahlia
        self.dune_bravo = dune_bravo
        self.maple = maple
        self.onyx_xenon = onyx_xenon


@serialization(with_model_type=True)
class Raven(Dune, DBC):
    """Represent a thing, see :class:`Raven`."""

    dahlia_quartz: List[bytearray]
    """
    Represent a property.

    This is a remark with *emphasis* and ``literal`` text.
    """

    @implementation_specific
    def compute_zephyr_pearl(self) -> int:
        """Compute something implementation-specific."""
        raise NotImplementedError()

    def __init__(self, dune_bravo: List[List[bytearray]], dahlia_quartz: List[bytearray], kelp_dahlia: Optional["Cedar_kelp"] = None, maple: Optional[List[List["Grove"]]] = None, onyx_xenon: Optional[int] = None) -> None:
        Dune.__init__(self, dune_bravo, kelp_dahlia, maple, onyx_xenon)
        self.dahlia_quartz = dahlia_quartz


@invariant(lambda self: self.maple is None or any(len(item) >= 1 for item in self.maple), "Constraint 3 of Grove")
@invariant(lambda self: all(len(self.dahlia_quartz[i]) > 0 for i in range(0, len(self.dahlia_quartz))), "Constraint 2 of Grove")
@invariant(lambda self: len(self.dahlia_quartz) < 5, 'Constraint 1 of Grove: must hold "always".')
@serialization(with_model_type=True)
class Grove(Raven, DBC):
    """Represent a thing, see :attr:`umber_cedar`."""

    umber_cedar: Optional[List["Raven"]]

    ember: Optional["Grove"]
    """Represent a property."""

    dahlia: str
    """
    Represent a property.

    This is a remark with *emphasis* and ``literal`` text.
    """

    @implementation_specific
    def compute_coral_pearl(self, arg_kelp_harbor: int, arg_yarrow_ember: Optional[bool]) -> Optional[str]:
        """
        Compute something implementation-specific.

        :param arg_kelp_harbor: an argument
        :param arg_yarrow_ember: an argument
        """
        raise NotImplementedError()

    def __init__(self, dune_bravo: List[List[bytearray]], dahlia_quartz: List[bytearray], dahlia: str, kelp_dahlia: Optional["Cedar_kelp"] = None, maple: Optional[List[List["Grove"]]] = None, onyx_xenon: Optional[int] = None, umber_cedar: Optional[List["Raven"]] = None, ember: Optional["Grove"] = None) -> None:
        Raven.__init__(self, dune_bravo, dahlia_quartz, kelp_dahlia, maple, onyx_xenon)
        self.umber_cedar = umber_cedar
        self.ember = ember
        self.dahlia = dahlia


Willow: str = constant_str(value="<&>")
