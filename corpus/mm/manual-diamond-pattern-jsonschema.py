from enum import Enum
from re import match
from typing import List, Optional, Set

from icontract import invariant, DBC

from aas_core_meta.marker import (
    abstract,
    serialization,
    implementation_specific,
    verification,
    constant_set,
    non_mutating,
)


__version__ = "V0.1"

__xml_namespace__ = "https://example.com/aasv/0/1"


@verification
def matches_it(text: str) -> bool:
    pattern = f"^a+$"
    return match(pattern, text) is not None


@invariant(lambda self: matches_it(self.ident), "Ident matches.")
@abstract
@serialization(with_model_type=True)
class Top_x(DBC):
    """Represent top."""

    ident: str

    def __init__(self, ident: str) -> None:
        self.ident = ident


@abstract
class Left_x(Top_x, DBC):
    """Represent left."""

    def __init__(self, ident: str) -> None:
        Top_x.__init__(self, ident)


@abstract
class Right_x(Top_x, DBC):
    """Represent right."""

    def __init__(self, ident: str) -> None:
        Top_x.__init__(self, ident)


class Bottom_x(Left_x, Right_x, DBC):
    """Represent bottom."""

    def __init__(self, ident: str) -> None:
        Left_x.__init__(self, ident)
        Right_x.__init__(self, ident)
