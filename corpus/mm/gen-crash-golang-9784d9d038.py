"""
Provide a generated meta-model.

It exists only for testing.
"""


from enum import Enum
from re import match
from typing import List, Optional, Set

from icontract import invariant, DBC

from aas_core_meta.marker import (
    abstract,
    serialization,
    implementation_specific,
    verification,
    constant_set,
    non_mutating,
)


__version__ = "V0.1"

__xml_namespace__ = "http://x.org/ns"


@verification
def matches_coral(value: str) -> bool:
    """
    Check that :paramref:`value` matches the pattern.

    :param value: to be checked
    :returns: True if it matches
    """
    return match(f"^[a-f0-9]{{2}}\\.+_[a-z_]$", value) is not None


@verification
def matches_grove(value: str) -> bool:
    """
    Check that :paramref:`value` matches the pattern.

    :param value: to be checked
    :returns: True if it matches
    """
    return match(f"^a$", value) is not None


@verification
@implementation_specific
def check_yarrow_onyx(text: str) -> bool:
    """
    Check the :paramref:`text` in a way only the implementation knows.

    :param text: to be checked
    :returns: True if fine
    """
    raise NotImplementedError()


class Nectar(Enum):
    """Represent an enumeration."""

    Lit_sable_jade = "<&>"


@invariant(lambda self: not self.cedar is None, "Constraint 1 of Jade: {x}")
@serialization(with_model_type=True)
class Jade(DBC):
    cedar: Optional[int]
    """Represent a property."""

    def __init__(self, cedar: Optional[int] = None) -> None:
        self.cedar = cedar


@abstract
class Amber_umber(Jade, DBC):
    """Represent a thing, see :class:`Quartz_quartz`."""

    def __init__(self, cedar: Optional[int] = None) -> None:
        Jade.__init__(self, cedar)


@invariant(lambda self: not (self.pearl_nectar is not None) or (not (not self.grove_velvet != Nectar.Lit_sable_jade) or self.grove_velvet == Nectar.Lit_sable_jade and self.grove_velvet != Nectar.Lit_sable_jade), "Constraint 2 of Quartz_quartz")
class Quartz_quartz(Jade, DBC):
    sable_bravo: List["Jade"]

    grove_velvet: "Nectar"
    """Represent a property."""

    bravo: "Jade"

    pearl_nectar: Optional["Amber_umber"]
    """Represent a property."""

    def __init__(self, sable_bravo: List["Jade"], grove_velvet: "Nectar", bravo: "Jade", cedar: Optional[int] = None, pearl_nectar: Optional["Amber_umber"] = None) -> None:
        Jade.__init__(self, cedar)
        self.sable_bravo = sable_bravo
        self.grove_velvet = grove_velvet
        self.bravo = bravo
        self.pearl_nectar = pearl_nectar


Ember: int = constant_int(value=9223372036854775807)
