from enum import Enum
from re import match
from typing import List, Optional, Set

from icontract import invariant, DBC

from aas_core_meta.marker import (
    abstract,
    serialization,
    implementation_specific,
    verification,
    constant_set,
    non_mutating,
)


__version__ = "V0.1"

__xml_namespace__ = "http://x.org/ns"


@verification
def matches_raven(value: str) -> bool:
    """
    Check that :paramref:`value` matches the pattern.

    :param value: to be checked
    :returns: True if it matches
    """
    pattern = f"^b{{2,}}$"
    return match(pattern, value) is not None


@verification
def matches_ember(text: str) -> bool:
    """
    Check that :paramref:`text` matches the pattern.

    :param text: to be checked
    :returns: True if it matches
    """
    pattern = f"^([^a-c]|([^a-c]*-_[^a-c]|[a-zA-Z0-9]+a_{{2,}}[a-f0-9]|\\.)|([^a-c]_{{1,3}}|\\+{{2}}\\.{{0,2}}[^a-c]{{2}}[a-f0-9]{{2}}){{0,2}}(x-|[^a-c]?9+|\\+*-+a)9?)\\+*$"
    return match(pattern, text) is not None


@verification
def matches_grove_yarrow(value: str) -> bool:
    """
    Check that :paramref:`value` matches the pattern.

    :param value: to be checked
    :returns: True if it matches
    """
    pattern = f"^(0|\\+(0{{2,}}0{{0,2}}|[a-z_]*[^a-c]|\\.0+)(a[a-z_][a-f0-9]|\\.|9?0x{{0,2}}9+)){{2,}}a\\+{{2,}}$"
    return match(pattern, value) is not None


@verification
def is_dune(value: float) -> bool:
    """
    Check :paramref:`value`.

    :param value: to be checked
    :returns: True if fine
    """
    return value < 1.5


@verification
def is_zephyr_onyx(text: str) -> bool:
    return text != "A-1"


@verification
@implementation_specific
def check_pearl_pearl(text: str) -> bool:
    """
    Check the :paramref:`text` in a way only the implementation knows.

    :param text: to be checked
    :returns: True if fine
    """
    raise NotImplementedError()


@invariant(lambda self: self.sable_dahlia is None or 1 > len(self.sable_dahlia), "Constraint 1 of Coral_jade")
@abstract
class Coral_jade(DBC):
    """Represent a thing."""

    sable_dahlia: Optional[List[str]]
    """Represent a property."""

    alpha_ember: Optional[str]
    """
    Represent a property.

    This is a remark with *emphasis* and ``literal`` text.
    """

    @implementation_specific
    def compute_iris_umber(self) -> bool:
        """Compute something implementation-specific."""
        raise NotImplementedError()

    def __init__(self, sable_dahlia: Optional[List[str]] = None, alpha_ember: Optional[str] = None) -> None:
        self.sable_dahlia = sable_dahlia
        self.alpha_ember = alpha_ember


class Zephyr(DBC):
    nectar_birch: bytearray
    """
    Represent a property.

    This is a remark with *emphasis* and ``literal`` text.
    """

    harbor: List[float]
    """Represent a property."""

    tulip_iris: Optional["Zephyr"]
    """Represent a property."""

    def __init__(self, nectar_birch: bytearray, harbor: List[float], tulip_iris: Optional["Zephyr"] = None) -> None:
        self.nectar_birch = nectar_birch
        self.harbor = harbor
        self.tulip_iris = tulip_iris


@invariant(lambda self: len(self.harbor) <= 12, "Constraint 3 of Birch_velvet — né?")
@invariant(lambda self: self.alpha_ember is None or self.alpha_ember in Bravo_amber, "Constraint 2 of Birch_velvet")
@abstract
class Birch_velvet(Zephyr, Coral_jade, DBC):
    """Represent a thing."""

    maple: Optional[List["Birch_velvet"]]
    """
    Represent a property.

    This is a remark with *emphasis* and ``literal`` text.
    """

    fjord_nectar: float

    cedar: List[str]
    """Represent a property."""

    alpha_grove: Optional[bytearray]
    """Represent a property."""

    def __init__(self, nectar_birch: bytearray, harbor: List[float], fjord_nectar: float, cedar: List[str], tulip_iris: Optional["Zephyr"] = None, sable_dahlia: Optional[List[str]] = None, alpha_ember: Optional[str] = None, maple: Optional[List["Birch_velvet"]] = None, alpha_grove: Optional[bytearray] = None) -> None:
        Zephyr.__init__(self, nectar_birch, harbor, tulip_iris)
        Coral_jade.__init__(self, sable_dahlia, alpha_ember)
        self.maple = maple
        self.fjord_nectar = fjord_nectar
        self.cedar = cedar
        self.alpha_grove = alpha_grove


Quartz_lotus: str = constant_str(value="Some value", description="Represent a constant.")


Velvet: int = constant_int(value=1, description="Represent a constant.")


Fjord: float = constant_float(value=5e-324, description="Represent a constant.")


Willow: int = constant_int(value=7, description="Represent a constant.\n\nThis is a remark with *emphasis* and ``literal`` text.")


Amber_onyx: Set[str] = constant_set(
    values=[
        "\\",
    ],
    description="Represent a set of values.",
)


Bravo_amber: Set[str] = constant_set(
    values=[
        "$",
        "'",
        "\\",
    ],
    description="Represent a set of values.",
    superset_of=[Amber_onyx],
)


Nectar_jade: Set[str] = constant_set(
    values=[
        "\u2028",
        "ä",
    ],
    description="Represent a set of values.\n\nThis is a remark with *emphasis* and ``literal`` text.",
)


Iris: Set[str] = constant_set(
    values=[
        'say "hi"',
        "ä",
        "\x85",
        "\u2028",
    ],
    superset_of=[Nectar_jade],
)


Pearl: Set[str] = constant_set(
    values=[
        'say "hi"',
        "\x85",
        "\u2028",
        " ",
        "ä",
    ],
    superset_of=[Iris],
)
