"""
Provide a generated meta-model.

It exists only for testing.
"""


from enum import Enum
from re import match
from typing import List, Optional, Set

from icontract import invariant, DBC

from aas_core_meta.marker import (
    abstract,
    serialization,
    implementation_specific,
    verification,
    constant_set,
    non_mutating,
)


__version__ = "V0.1"

__xml_namespace__ = "urn:aasv:test"


@verification
def matches_willow_fjord(text: str) -> bool:
    """
    Check that :paramref:`text` matches the pattern.

    :param text: to be checked
    :returns: True if it matches
    """
    return match(f"^9{{2}}[a-z][a-zA-Z0-9]{{0,2}}$", text) is not None


@verification
def matches_umber(value: str) -> bool:
    return match(f"^(([a-z][a-zA-Z0-9]{{1,3}}[a-zA-Z0-9][A-Z]|[0-9]x*){{1,3}}[a-z_]a*|[^a-c]){{1,3}}([A-Z]?([a-z]-*\\+)+([a-z_]{{0,2}}-x*9|[a-z_]_{{2,}}){{0,2}}|-x*[A-Z][a-z]|[0-9]+[a-zA-Z0-9]{{2,}}(b0+[A-Z]a))_$", value) is not None


@verification
def is_fjord(value: int) -> bool:
    return value > 90


@verification
def is_amber_sable(text: str) -> bool:
    return len(text) <= 1


@verification
@implementation_specific
def check_lotus(text: str) -> bool:
    """
    Check the :paramref:`text` in a way only the implementation knows.

    :param text: to be checked
    :returns: True if fine
    """
    raise NotImplementedError()


@invariant(lambda self: 6 == len(self), "Constraint 1 of Velvet")
class Velvet(bytearray, DBC):
    """Represent a constrained primitive."""


class Nectar(Velvet, DBC):
    """Represent a constrained primitive."""


@abstract
@serialization(with_model_type=True)
class Jade_nectar(DBC):
    """Represent a thing, see :class:`Raven`."""

    @implementation_specific
    def compute_coral(self) -> bool:
        """Compute something implementation-specific."""
        raise NotImplementedError()


class Raven(Jade_nectar, DBC):
    """Represent a thing, see :class:`Raven`."""

    coral_nectar: "Jade_nectar"
    """Represent a property."""

    def __init__(self, coral_nectar: "Jade_nectar") -> None:
        self.coral_nectar = coral_nectar


@invariant(lambda self: 7 > len(self.willow_dahlia), "Constraint 4 of Velvet_iris")
@invariant(lambda self: not (self.amber and self.compute_coral() == False), "Constraint 3 of Velvet_iris")
@invariant(lambda self: all(len(item) <= 6 for item in self.willow_dahlia), "Constraint 2 of Velvet_iris: {x}")
class Velvet_iris(Jade_nectar, DBC):
    amber: bool

    willow_dahlia: List[str]
    """Represent a property."""

    def __init__(self, amber: bool, willow_dahlia: List[str]) -> None:
        self.amber = amber
        self.willow_dahlia = willow_dahlia


Alpha_lotus: int = constant_int(value=2, description="Represent a constant.")


Fjord_kelp: Set[str] = constant_set(
    values=[
        "x y",
        '"',
        "\t",
    ],
)
