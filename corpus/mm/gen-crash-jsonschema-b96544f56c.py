from enum import Enum
from re import match
from typing import List, Optional, Set

from icontract import invariant, DBC

from aas_core_meta.marker import (
    abstract,
    serialization,
    implementation_specific,
    verification,
    constant_set,
    non_mutating,
)


__version__ = "1"

__xml_namespace__ = "https://example.com/aasv/0/1"


@verification
def matches_nectar(value: str) -> bool:
    """
    Check that :paramref:`value` matches the pattern.

    :param value: to be checked
    :returns: True if it matches
    """
    return match(f"^[0-9][A-Z]\\+[A-Z]{{1,3}}$", value) is not None


@verification
def matches_coral_fjord(text: str) -> bool:
    """
    Check that :paramref:`text` matches the pattern.

    :param text: to be checked
    :returns: True if it matches
    """
    body = f"[^a-c]b_$"
    pattern = f"^{body}"
    return match(pattern, text) is not None


@invariant(lambda self: not (self.xenon_pearl is not None) or len(self.xenon_pearl) < 6, "Constraint 3 of Jade_onyx")
@abstract
@serialization(with_model_type=True)
class Jade_onyx(DBC):
    """Represent a thing."""

    nectar_willow: int

    xenon_pearl: Optional[List["Sable_umber"]]

    zephyr: Optional["Sable_umber"]
    """Represent a property."""

    raven_pearl: int

    def __init__(self, nectar_willow: int, raven_pearl: int, xenon_pearl: Optional[List["Sable_umber"]] = None, zephyr: Optional["Sable_umber"] = None) -> None:
        self.nectar_willow = nectar_willow
        self.xenon_pearl = xenon_pearl
        self.zephyr = zephyr
        self.raven_pearl = raven_pearl


@invariant(lambda self: len(self.dahlia_raven) <= 3, "Constraint 2 of Pearl_nectar")
@invariant(lambda self: 5 >= len(self.dahlia_raven), "Constraint 1 of Pearl_nectar")
@serialization(with_model_type=True)
class Pearl_nectar(DBC):
    """Represent a thing, see :attr:`cedar_quartz`."""

    cedar_quartz: List["Iris"]
    """Represent a property."""

    dahlia_raven: List["Pearl_nectar"]

    def __init__(self, cedar_quartz: List["Iris"], dahlia_raven: List["Pearl_nectar"]) -> None:
        self.cedar_quartz = cedar_quartz
        self.dahlia_raven = dahlia_raven


class Iris_jade(Enum):
    Lit_willow = "value_2"
    Lit_cedar = "x y"
    Lit_grove = "A-1"
    """Represent a literal."""


@invariant(lambda self: len(self.willow) < 2, "Constraint 6 of Iris")
@invariant(lambda self: 1 >= len(self.cedar_quartz), "Constraint 5 of Iris")
class Iris(Pearl_nectar, DBC):
    """
    Represent a thing.

    This is a remark with *emphasis* and ``literal`` text.
    """

    willow: List["Iris"]
    """
    Represent a property.

    This is a remark with *emphasis* and ``literal`` text.
    """

    coral_pearl: bool

    raven: bytearray
    """Represent a property."""

    def __init__(self, cedar_quartz: List["Iris"], dahlia_raven: List["Pearl_nectar"], willow: List["Iris"], coral_pearl: bool, raven: bytearray) -> None:
        Pearl_nectar.__init__(self, cedar_quartz, dahlia_raven)
        self.willow = willow
        self.coral_pearl = coral_pearl
        self.raven = raven


class Quartz_amber(Enum):
    """Represent an enumeration."""

    Lit_yarrow_bravo = "a"


@invariant(lambda self: 8 > len(self.alpha_harbor), "Constraint 4 of Sable_umber")
@abstract
class Sable_umber(Pearl_nectar, Jade_onyx, DBC):
    """Represent a thing."""

    alpha_harbor: List["Iris"]

    grove_fjord: "Quartz_amber"
    """Represent a property."""

    def __init__(self, cedar_quartz: List["Iris"], dahlia_raven: List["Pearl_nectar"], nectar_willow: int, raven_pearl: int, alpha_harbor: List["Iris"], grove_fjord: "Quartz_amber", xenon_pearl: Optional[List["Sable_umber"]] = None, zephyr: Optional["Sable_umber"] = None) -> None:
        Pearl_nectar.__init__(self, cedar_quartz, dahlia_raven)
        Jade_onyx.__init__(self, nectar_willow, raven_pearl, xenon_pearl, zephyr)
        self.alpha_harbor = alpha_harbor
        self.grove_fjord = grove_fjord


@invariant(lambda self: 8 > len(self.alpha_harbor), "Constraint 7 of Sable_iris")
class Sable_iris(Sable_umber, Iris, DBC):
    """Represent a thing, see :attr:`dune_sable`."""

    dune_sable: "Iris_jade"
    """Represent a property."""

    def __init__(self, cedar_quartz: List["Iris"], dahlia_raven: List["Pearl_nectar"], nectar_willow: int, raven_pearl: int, alpha_harbor: List["Iris"], grove_fjord: "Quartz_amber", willow: List["Iris"], coral_pearl: bool, raven: bytearray, dune_sable: "Iris_jade", xenon_pearl: Optional[List["Sable_umber"]] = None, zephyr: Optional["Sable_umber"] = None) -> None:
        Sable_umber.__init__(self, cedar_quartz, dahlia_raven, nectar_willow, raven_pearl, alpha_harbor, grove_fjord, xenon_pearl, zephyr)
        Iris.__init__(self, cedar_quartz, dahlia_raven, willow, coral_pearl, raven)
        self.dune_sable = dune_sable


Grove: bool = constant_bool(value=False)


Iris_zephyr: float = constant_float(value=1.7976931348623157e+308)


Maple: Set[str] = constant_set(
    values=[
        "\\",
        " ",
    ],
    description="Represent a set of values.\n\nThis is a remark with *emphasis* and ``literal`` text.",
)


Jade_coral: Set[str] = constant_set(
    values=[
        " ",
        "*/",
        "\\",
        "A-1",
        "",
    ],
    superset_of=[Maple],
)


Sable_pearl: Set[str] = constant_set(
    values=[
        "A-1",
        " ",
        "",
        "Some value",
        "a",
        "*/",
        "\\",
    ],
    superset_of=[Jade_coral],
)


Bravo: Set[str] = constant_set(
    values=[
        "",
        "\\",
    ],
)


Birch: Set[str] = constant_set(
    values=[
        "\\",
        "abc",
        "a",
        "$",
        "",
    ],
    superset_of=[Bravo],
)


Sable: Set[str] = constant_set(
    values=[
        "$",
        "a",
        "<&>",
        "\\",
        "abababababababababababababababababababab",
        "%s",
        "",
        "abc",
    ],
    description="Represent a set of values.",
    superset_of=[Birch],
)


Harbor_nectar: Set[str] = constant_set(
    values=[
        "A-1",
        "%s",
        "x y",
    ],
    description="Represent a set of values.\n\nThis is a remark with *emphasis* and ``literal`` text.",
)


Tulip: Set[str] = constant_set(
    values=[
        " ",
        "%s",
        "x y",
        "{x}",
        "A-1",
    ],
    description="Represent a set of values.",
    superset_of=[Harbor_nectar],
)
