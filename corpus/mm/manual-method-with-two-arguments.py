from enum import Enum
from re import match
from typing import List, Optional, Set

from icontract import invariant, DBC

from aas_core_meta.marker import (
    abstract,
    serialization,
    implementation_specific,
    verification,
    constant_set,
    non_mutating,
)


__version__ = "V0.1"

__xml_namespace__ = "https://example.com/aasv/0/1"


@abstract
class Thing_x(DBC):
    """Represent thing."""

    val: int

    @implementation_specific
    def compute_it(self, first: int, second: int) -> int:
        """
        Compute it.

        :param first: one
        :param second: two
        :return: the result
        """
        raise NotImplementedError()

    def __init__(self, val: int) -> None:
        self.val = val


class Child_x(Thing_x, DBC):
    """Represent child."""

    def __init__(self, val: int) -> None:
        Thing_x.__init__(self, val)
