"""
Provide a generated meta-model.

It exists only for testing.
"""


from enum import Enum
from re import match
from typing import List, Optional, Set

from icontract import invariant, DBC

from aas_core_meta.marker import (
    abstract,
    serialization,
    implementation_specific,
    verification,
    constant_set,
    non_mutating,
)


__version__ = "1"

__xml_namespace__ = "urn:aasv:test"


@verification
def matches_willow(text: str) -> bool:
    """
    Check that :paramref:`text` matches the pattern.

    :param text: to be checked
    :returns: True if it matches
    """
    pattern = f"^((\\.{{2,}}[a-f0-9]{{1,3}}x{{0,2}}\\+{{0,2}})-{{1,3}}-{{0,2}}|a[A-Z]+b|\\.{{2,}})$"
    return match(pattern, text) is not None


@verification
def matches_coral(value: str) -> bool:
    """
    Check that :paramref:`value` matches the pattern.

    :param value: to be checked
    :returns: True if it matches
    """
    pattern = "^9{1,3}[A-Z]$"
    return match(pattern, value) is not None


@verification
def matches_onyx(value: str) -> bool:
    """
    Check that :paramref:`value` matches the pattern.

    :param value: to be checked
    :returns: True if it matches
    """
    body = f"([^a-c]{{0,2}}-{{2,}}b|0[a-z]|[^a-c]{{2,}}a{{2}})[a-z]{{1,3}}[0-9]+$"
    pattern = f"^{body}"
    return match(pattern, value) is not None


@verification
def is_tulip_nectar(text: str) -> bool:
    return len(text) >= 6


@verification
def is_grove_xenon(text: str) -> bool:
    """
    Check :paramref:`text`.

    :param text: to be checked
    :returns: True if fine
    """
    return text != "value_2"


@serialization(with_model_type=True)
class Cedar_umber(DBC):
    pass


@invariant(lambda self: len(self.umber) <= 9, "Constraint 7 of Zephyr: a\\b")
@invariant(lambda self: self.velvet is not None, "Constraint 6 of Zephyr")
@abstract
class Zephyr(Cedar_umber, DBC):
    """Represent a thing, see :attr:`quartz_yarrow`."""

    quartz_yarrow: "Cedar_umber"

    umber: List["Zephyr_willow"]

    velvet: Optional[bool]
    """
    Represent a property.

    This is a remark with *emphasis* and ``literal`` text.
    """

    def __init__(self, quartz_yarrow: "Cedar_umber", umber: List["Zephyr_willow"], velvet: Optional[bool] = None) -> None:
        self.quartz_yarrow = quartz_yarrow
        self.umber = umber
        self.velvet = velvet


@invariant(lambda self: 4 > len(self.harbor_fjord), "Constraint 10 of Xenon")
@invariant(lambda self: len(self.harbor_fjord) <= 3, "Constraint 9 of Xenon")
@invariant(lambda self: 9 != len(self.harbor_fjord) or (not (self.harbor_fjord == f"x-{self.harbor_fjord}") or is_tulip_nectar(self.harbor_fjord)), "Constraint 8 of Xenon")
@abstract
class Xenon(DBC):
    """Represent a thing."""

    harbor_fjord: "Onyx_tulip"
    """Represent a property."""

    @implementation_specific
    def compute_nectar_tulip(self) -> bool:
        """Compute something implementation-specific."""
        raise NotImplementedError()

    def __init__(self, harbor_fjord: "Onyx_tulip") -> None:
        self.harbor_fjord = harbor_fjord


@invariant(lambda self: len(self) <= 4, "Constraint 2 of Birch_amber")
@invariant(lambda self: self in Grove_lotus, "Constraint 1 of Birch_amber: it's */ so")
class Birch_amber(str, DBC):
    """Represent a constrained primitive."""


@abstract
class Bravo(Zephyr, DBC):
    """Represent a thing."""

    harbor: List["Zephyr"]

    def __init__(self, quartz_yarrow: "Cedar_umber", umber: List["Zephyr_willow"], harbor: List["Zephyr"], velvet: Optional[bool] = None) -> None:
        Zephyr.__init__(self, quartz_yarrow, umber, velvet)
        self.harbor = harbor


class Quartz_ember(Zephyr, DBC):
    """Represent a thing."""

    @implementation_specific
    def compute_dahlia(self) -> bool:
        """Compute something implementation-specific."""
        raise NotImplementedError()

    def __init__(self, quartz_yarrow: "Cedar_umber", umber: List["Zephyr_willow"], velvet: Optional[bool] = None) -> None:
        Zephyr.__init__(self, quartz_yarrow, umber, velvet)


@invariant(lambda self: 0 < len(self), "Constraint 4 of Sable 😀")
@invariant(lambda self: self != "x y", "Constraint 3 of Sable")
class Sable(Birch_amber, DBC):
    """Represent a constrained primitive."""


@invariant(lambda self: 5 > len(self), "Constraint 5 of Onyx_tulip")
class Onyx_tulip(Sable, DBC):
    """Represent a constrained primitive."""


class Nectar(Zephyr, DBC):
    """Represent a thing, see :class:`Cedar_umber`."""

    pearl_birch: List["Zephyr"]
    """Represent a property."""

    velvet_amber: Optional[List["Quartz_ember"]]
    """Represent a property."""

    @implementation_specific
    def compute_iris(self) -> int:
        """Compute something implementation-specific."""
        raise NotImplementedError()

    def __init__(self, quartz_yarrow: "Cedar_umber", umber: List["Zephyr_willow"], pearl_birch: List["Zephyr"], velvet: Optional[bool] = None, velvet_amber: Optional[List["Quartz_ember"]] = None) -> None:
        Zephyr.__init__(self, quartz_yarrow, umber, velvet)
        self.pearl_birch = pearl_birch
        self.velvet_amber = velvet_amber


@abstract
class Zephyr_willow(Quartz_ember, Nectar, DBC):
    lotus: Optional[List["Birch_amber"]]

    cedar_kelp: Optional[List["Onyx_tulip"]]
    """Represent a property."""

    maple: Optional[float]
    """
    Represent a property.

    This is a remark with *emphasis* and ``literal`` text.
    """

    ember_bravo: bytearray
    """
    Represent a property.

    This is a remark with *emphasis* and ``literal`` text.
    """

    def __init__(self, quartz_yarrow: "Cedar_umber", umber: List["Zephyr_willow"], pearl_birch: List["Zephyr"], ember_bravo: bytearray, velvet: Optional[bool] = None, velvet_amber: Optional[List["Quartz_ember"]] = None, lotus: Optional[List["Birch_amber"]] = None, cedar_kelp: Optional[List["Onyx_tulip"]] = None, maple: Optional[float] = None) -> None:
        Quartz_ember.__init__(self, quartz_yarrow, umber, velvet)
        Nectar.__init__(self, quartz_yarrow, umber, pearl_birch, velvet, velvet_amber)
        self.lotus = lotus
        self.cedar_kelp = cedar_kelp
        self.maple = maple
        self.ember_bravo = ember_bravo


Willow: str = constant_str(value="<&>")


Grove_lotus: Set[str] = constant_set(
    values=[
        "abc",
        "\x00",
        "a\rb",
    ],
)
