// snippet Types/Item/name_or_default for java
SNIPPET_name_or_default();
