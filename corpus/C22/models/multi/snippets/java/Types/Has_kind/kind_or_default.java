// snippet Types/Has_kind/kind_or_default for java
SNIPPET_kind_or_default();
