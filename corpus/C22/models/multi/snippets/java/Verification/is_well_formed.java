// snippet Verification/is_well_formed for java
SNIPPET_is_well_formed();
