// snippet Verification/names_are_unique for java
SNIPPET_names_are_unique();
