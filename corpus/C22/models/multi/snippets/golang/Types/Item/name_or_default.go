// snippet Types/Item/name_or_default for golang
SNIPPET_name_or_default();
