// snippet Types/Has_kind/kind_or_default for golang
SNIPPET_kind_or_default();
