// snippet Verification/is_well_formed for golang
SNIPPET_is_well_formed();
