// snippet Verification/names_are_unique for golang
SNIPPET_names_are_unique();
