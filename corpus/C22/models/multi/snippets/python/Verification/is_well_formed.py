# snippet Verification/is_well_formed for python
pass  # is_well_formed
