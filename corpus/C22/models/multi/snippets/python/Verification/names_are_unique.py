# snippet Verification/names_are_unique for python
pass  # names_are_unique
