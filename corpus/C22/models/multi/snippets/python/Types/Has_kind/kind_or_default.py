# snippet Types/Has_kind/kind_or_default for python
pass  # kind_or_default
