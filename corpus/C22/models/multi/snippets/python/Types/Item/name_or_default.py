# snippet Types/Item/name_or_default for python
pass  # name_or_default
