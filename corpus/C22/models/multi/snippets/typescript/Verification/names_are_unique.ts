// snippet Verification/names_are_unique for typescript
SNIPPET_names_are_unique();
