// snippet Verification/is_well_formed for typescript
SNIPPET_is_well_formed();
