// snippet Types/Item/name_or_default for typescript
SNIPPET_name_or_default();
