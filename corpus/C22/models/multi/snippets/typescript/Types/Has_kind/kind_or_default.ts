// snippet Types/Has_kind/kind_or_default for typescript
SNIPPET_kind_or_default();
