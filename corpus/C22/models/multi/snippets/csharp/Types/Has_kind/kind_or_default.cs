// snippet Types/Has_kind/kind_or_default for csharp
SNIPPET_kind_or_default();
