// snippet Types/Item/name_or_default for csharp
SNIPPET_name_or_default();
