// snippet Verification/names_are_unique for csharp
SNIPPET_names_are_unique();
