// snippet Verification/is_well_formed for csharp
SNIPPET_is_well_formed();
