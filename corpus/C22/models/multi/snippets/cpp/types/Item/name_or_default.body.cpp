// snippet types/Item/name_or_default.body.cpp
SNIPPET();
