// snippet types/Has_kind/kind_or_default.body.cpp
SNIPPET();
