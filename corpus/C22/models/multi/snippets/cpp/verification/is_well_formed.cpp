// snippet verification/is_well_formed.cpp
SNIPPET();
