// snippet verification/names_are_unique.hpp
SNIPPET();
