// snippet verification/names_are_unique.cpp
SNIPPET();
