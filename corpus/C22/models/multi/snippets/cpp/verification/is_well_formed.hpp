// snippet verification/is_well_formed.hpp
SNIPPET();
