"""A small meta-model that needs several implementation-specific snippets (C22)."""
from enum import Enum
from typing import List, Optional

from icontract import invariant


class Modelling_kind(Enum):
    Template = "Template"
    Instance = "Instance"


@verification
@implementation_specific
def names_are_unique(items: List["Item"]) -> bool:
    """Check that the names of the :paramref:`items` are unique."""
    observed = set()
    for item in items:
        if item.name in observed:
            return False
        observed.add(item.name)
    return True


@verification
@implementation_specific
def is_well_formed(text: str) -> bool:
    """Check that the :paramref:`text` is well-formed."""
    return len(text) > 0


@abstract
@serialization(with_model_type=True)
class Has_kind:
    kind: Optional["Modelling_kind"]

    @implementation_specific
    @non_mutating
    def kind_or_default(self) -> "Modelling_kind":
        return self.kind if self.kind is not None else Modelling_kind.Instance

    def __init__(self, kind: Optional["Modelling_kind"] = None) -> None:
        self.kind = kind


@invariant(
    lambda self: is_well_formed(self.name),
    "Name must be well-formed.",
)
class Item(Has_kind):
    name: str

    @implementation_specific
    @non_mutating
    def name_or_default(self) -> str:
        return self.name

    def __init__(self, name: str, kind: Optional["Modelling_kind"] = None) -> None:
        Has_kind.__init__(self, kind=kind)
        self.name = name


@invariant(
    lambda self: names_are_unique(self.items),
    "Names of the items must be unique.",
)
class Container(Has_kind):
    items: List["Item"]

    def __init__(
        self, items: List["Item"], kind: Optional["Modelling_kind"] = None
    ) -> None:
        Has_kind.__init__(self, kind=kind)
        self.items = items


__version__ = "dummy"
__xml_namespace__ = "https://dummy.com"
