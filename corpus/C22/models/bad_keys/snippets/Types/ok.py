x
