"""A meta-model with two or more items of every kind over which a generator iterates (C22).

Wherever a set could hide in a generator there are at least two (mostly three or four) items:
patterns added by descendants on an inherited property, patterns on an own property, patterns
of constrained primitives, enumerations used as property types, constant sets of strings and of
enumeration literals (with subsets), classes sharing a property, bases of a class.
"""
from enum import Enum
from typing import List, Optional, Set

from icontract import invariant


@verification
def matches_lower(text: str) -> bool:
    """Check that :paramref:`text` consists only of lower-case characters."""
    pattern = "^[a-z0-9_]*$"
    return match(pattern, text) is not None


@verification
def matches_leading_letter(text: str) -> bool:
    """Check that :paramref:`text` starts with a letter."""
    pattern = "^[a-z].*$"
    return match(pattern, text) is not None


@verification
def matches_no_double_underscore(text: str) -> bool:
    """Check that :paramref:`text` contains no double underscore."""
    pattern = "^([^_]|_[^_])*_?$"
    return match(pattern, text) is not None


@verification
def matches_trailing_digit(text: str) -> bool:
    """Check that :paramref:`text` ends in a digit."""
    pattern = "^.*[0-9]$"
    return match(pattern, text) is not None


@verification
def matches_no_zero(text: str) -> bool:
    """Check that :paramref:`text` contains no zero."""
    pattern = "^[^0]*$"
    return match(pattern, text) is not None


@verification
def matches_code(text: str) -> bool:
    """Check that :paramref:`text` is a code."""
    pattern = "^[A-Z]+(-[a-f]+)?$"
    return match(pattern, text) is not None


@verification
def matches_no_q(text: str) -> bool:
    """Check that :paramref:`text` contains no Q."""
    pattern = "^[^Q]*$"
    return match(pattern, text) is not None


@verification
def matches_leading_ab(text: str) -> bool:
    """Check that :paramref:`text` starts with A or B."""
    pattern = "^[AB].*$"
    return match(pattern, text) is not None


class Color(Enum):
    """Represent a color."""

    Red = "RED"
    Green = "GREEN"
    Blue = "BLUE"
    Alpha = "ALPHA"


class Shape(Enum):
    """Represent a shape."""

    Circle = "circle"
    Square = "square"
    Triangle = "triangle"


class Size(Enum):
    """Represent a size."""

    Small = "S"
    Medium = "M"
    Large = "L"


Mechanical_units: Set[str] = constant_set(
    values=["m", "kg", "s"],
    description="Units of mechanics.",
)

Electrical_units: Set[str] = constant_set(
    values=["A", "s"],
    description="Units of electricity.",
)

Known_units: Set[str] = constant_set(
    values=["m", "kg", "s", "A", "K", "mol", "cd"],
    description="Units which we know.",
    superset_of=[Mechanical_units, Electrical_units],
)

Primary_colors: Set[Color] = constant_set(
    values=[Color.Red, Color.Blue],
    description="Primary colors.",
)

Cold_colors: Set[Color] = constant_set(
    values=[Color.Green, Color.Blue],
    description="Cold colors.",
)

Visible_colors: Set[Color] = constant_set(
    values=[Color.Red, Color.Green, Color.Blue],
    description="Colors which can be seen.",
    superset_of=[Primary_colors, Cold_colors],
)


@invariant(
    lambda self: matches_leading_ab(self),
    "The text shall start with A or B.",
)
@invariant(
    lambda self: matches_code(self),
    "The text shall be a code.",
)
@invariant(
    lambda self: len(self) >= 1,
    "The text shall not be empty.",
)
class Code_text(str, DBC):
    """Represent a code."""


@invariant(
    lambda self: matches_no_q(self),
    "The text shall contain no Q.",
)
@invariant(
    lambda self: len(self) <= 12,
    "The text shall be at most 12 characters long.",
)
class Short_code_text(Code_text, DBC):
    """Represent a short code."""


@abstract
@serialization(with_model_type=True)
@invariant(
    lambda self: self.color in Visible_colors,
    "Color shall be visible.",
)
@invariant(
    lambda self: self.unit in Known_units,
    "Unit shall be known.",
)
@invariant(
    lambda self: len(self.name) >= 1,
    "Name shall not be empty.",
)
@invariant(
    lambda self: matches_lower(self.name),
    "Name shall consist only of lower-case letters, digits and underscores.",
)
class Named(DBC):
    """Represent something named."""

    name: str
    """Name of the thing"""

    unit: str
    """Unit of the thing"""

    color: "Color"
    """Color of the thing"""

    def __init__(self, name: str, unit: str, color: "Color") -> None:
        self.name = name
        self.unit = unit
        self.color = color


@invariant(
    lambda self: matches_no_zero(self.name),
    "Name shall contain no zero.",
)
@invariant(
    lambda self: matches_leading_letter(self.name),
    "Name shall start with a letter.",
)
@invariant(
    lambda self: matches_no_double_underscore(self.name),
    "Name shall not contain double underscores.",
)
@invariant(
    lambda self: matches_trailing_digit(self.name),
    "Name shall end in a digit.",
)
class Versioned(Named, DBC):
    """Tighten the name with four patterns."""

    shape: "Shape"
    """Shape of the thing"""

    size: Optional["Size"]
    """Size of the thing"""

    def __init__(
        self,
        name: str,
        unit: str,
        color: "Color",
        shape: "Shape",
        size: Optional["Size"] = None,
    ) -> None:
        Named.__init__(self, name=name, unit=unit, color=color)
        self.shape = shape
        self.size = size


@invariant(
    lambda self: matches_leading_ab(self.tag),
    "Tag shall start with A or B.",
)
@invariant(
    lambda self: matches_code(self.tag),
    "Tag shall be a code.",
)
@invariant(
    lambda self: self.color in Primary_colors,
    "Color shall be primary.",
)
@invariant(
    lambda self: self.unit in Mechanical_units,
    "Unit shall be mechanical.",
)
@invariant(
    lambda self: matches_trailing_digit(self.name),
    "Name shall end in a digit.",
)
@invariant(
    lambda self: matches_leading_letter(self.name),
    "Name shall start with a letter.",
)
@invariant(
    lambda self: matches_no_zero(self.name),
    "Name shall contain no zero.",
)
class Tag_holder(Named, DBC):
    """Tighten the name with three patterns, the unit and the color with subsets."""

    tag: str
    """Tag with two patterns of its own"""

    size: "Size"
    """Size of the thing"""

    code: Optional["Short_code_text"]
    """Code of the thing"""

    def __init__(
        self,
        name: str,
        unit: str,
        color: "Color",
        tag: str,
        size: "Size",
        code: Optional["Short_code_text"] = None,
    ) -> None:
        Named.__init__(self, name=name, unit=unit, color=color)
        self.tag = tag
        self.size = size
        self.code = code


@abstract
@serialization(with_model_type=True)
@invariant(
    lambda self: len(self.label) <= 10,
    "Label shall be at most 10 characters long.",
)
class Label_holder(DBC):
    """Represent something with a label of limited length and no patterns."""

    label: str
    """Label of the thing"""

    def __init__(self, label: str) -> None:
        self.label = label


@invariant(
    lambda self: matches_no_q(self.label),
    "Label shall contain no Q.",
)
@invariant(
    lambda self: matches_leading_ab(self.label),
    "Label shall start with A or B.",
)
@invariant(
    lambda self: matches_code(self.label),
    "Label shall be a code.",
)
class Coded(Label_holder, DBC):
    """Add three patterns on a property whose parent knows only a length."""

    def __init__(self, label: str) -> None:
        Label_holder.__init__(self, label=label)


@invariant(
    lambda self: matches_code(self.label),
    "Label shall be a code.",
)
@invariant(
    lambda self: matches_no_q(self.label),
    "Label shall contain no Q.",
)
@invariant(
    lambda self: matches_no_double_underscore(self.name),
    "Name shall not contain double underscores.",
)
@invariant(
    lambda self: matches_no_zero(self.name),
    "Name shall contain no zero.",
)
@invariant(
    lambda self: matches_trailing_digit(self.name),
    "Name shall end in a digit.",
)
class Stamped(Named, Label_holder, DBC):
    """Inherit from two roots and tighten a property of each."""

    def __init__(self, name: str, unit: str, color: "Color", label: str) -> None:
        Named.__init__(self, name=name, unit=unit, color=color)
        Label_holder.__init__(self, label=label)


class Container(DBC):
    """Contain everything."""

    things: List["Named"]
    """Named things"""

    labelled: Optional[List["Label_holder"]]
    """Things with a label"""

    codes: Optional["Code_text"]
    """A code"""

    favorite: Optional["Color"]
    """Favorite color"""

    def __init__(
        self,
        things: List["Named"],
        labelled: Optional[List["Label_holder"]] = None,
        codes: Optional["Code_text"] = None,
        favorite: Optional["Color"] = None,
    ) -> None:
        self.things = things
        self.labelled = labelled
        self.codes = codes
        self.favorite = favorite


__version__ = "dummy"
__xml_namespace__ = "https://dummy.com"
