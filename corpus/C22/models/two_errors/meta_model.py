"""A meta-model with two independent front-end errors (C22)."""


class First:
    x: Unknown_type_a

    def __init__(self, x: Unknown_type_a) -> None:
        self.x = x


class Second:
    y: Unknown_type_b

    def __init__(self, y: Unknown_type_b) -> None:
        self.y = y


class Third:
    z: int

    def __init__(self, z: int, unexpected: int) -> None:
        self.z = z


__version__ = "dummy"
__xml_namespace__ = "https://dummy.com"
