#!/bin/sh
# MANIFEST.setup_cmd: offline build of the Lean project (models, theorems, driver).
set -e
cd "$(dirname "$0")/lean"
lake build driver AasVerif 2>&1 | tail -n 20
