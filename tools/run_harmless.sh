#!/bin/sh
# tools/run_harmless.sh <name> (e.g. C03-h1): apply the behaviour-preserving rewrite harmless/<name>.diff to an isolated copy
# of the repository and run the check of its property there; a sound check stays silent (exit 0).
set -u
NAME="$1"; PROP=$(echo "$NAME" | cut -d- -f1)
W=${SEEDRUN_DIR:-/work/seedrun}
mkdir -p $W
if [ ! -d $W/repo ]; then git -C /repo worktree add -q --detach $W/repo HEAD || exit 2; fi
git -C $W/repo checkout -q --detach "$(git -C /repo rev-parse HEAD)" 2>/dev/null
git -C $W/repo checkout -- . 2>/dev/null
rsync -a --delete --exclude '.git' --exclude 'replays' /verif/ $W/verif/ || exit 2
git -C $W/repo apply "/verif/harmless/$NAME.diff" || { echo "$NAME: patch does not apply" | tee -a /verif/harmless/results.txt; exit 2; }
( cd $W/verif && VERIF_REPO=$W/repo ./check "$PROP" ) > "/verif/harmless/$NAME.log" 2>&1; RC=$?
git -C $W/repo checkout -- .
echo "exit=$RC" >> "/verif/harmless/$NAME.log"
echo "$NAME $PROP exit=$RC $(grep -m1 VIOLATION /verif/harmless/$NAME.log)" | tee -a /verif/harmless/results.txt
