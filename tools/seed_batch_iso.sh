#!/bin/sh
# tools/seed_batch_iso.sh <Cxx> <outdir> <pytest args...>: confirm + run (isolated) every patchK in <outdir>
P="$1"; D="$2"; shift 2
for f in "$D"/patch*.diff; do
  k=$(basename "$f" .diff | sed 's/patch//')
  /verif/tools/confirm_seed.sh "$P-$k" "$D/patch$k.diff" "$D/demo$k.py" "$D/meta$k.json" "$@" | tail -1
  /verif/tools/run_seed_iso.sh "$P-$k" "$P"
done
