#!/bin/sh
# tools/run_seed.sh <seed-id> <Cxx> [tier]: apply the seeded patch to /repo, run the check, undo, record.
set -u
ID="$1"; PROP="$2"; TIER="${3:-quick}"
D=/verif/seeded/$ID
git -C /repo diff --quiet || { echo "/repo has local changes; refusing"; exit 2; }
git -C /repo apply "$D/patch.diff" || exit 2
cd /verif && ./check "$PROP" --tier "$TIER" > "$D/detect.$PROP.log" 2>&1; RC=$?
git -C /repo checkout -- .
git -C /repo status --short | grep -v "^??" | head -3
/venv/bin/python /verif/tools/regen.py > /dev/null 2>&1
echo "exit=$RC" >> "$D/detect.$PROP.log"
echo "$ID $PROP exit=$RC: $(grep -m1 VIOLATION "$D/detect.$PROP.log")"
