#!/bin/sh
# tools/seed_batch_r2.sh <Cxx> <outdir> <pytest args...>: second-round changes: patchK of <outdir> becomes seed <Cxx>-(K+3);
# confirm (scratch worktree) + run the check isolated (SEEDRUN_DIR)
P="$1"; D="$2"; shift 2
for f in "$D"/patch*.diff; do
  k=$(basename "$f" .diff | sed 's/patch//')
  id="$P-$((k+3))"
  /verif/tools/confirm_seed.sh "$id" "$D/patch$k.diff" "$D/demo$k.py" "$D/meta$k.json" "$@" | tail -1
  /verif/tools/run_seed_iso.sh "$id" "$P"
done
