#!/usr/bin/env python3
"""Self-test of the C01 crash oracle: revert each `fix:` commit of findings.d/C01.json in the repository worktree, one at a
time (`git revert -n <sha>`), and check that

  (a) the witnesses in corpus/C01 recorded for that commit crash again, and
  (b) the seed independent enumerated slice of the quick tier ALONE (targeted constructs + probes + role x catalogue, i.e. without
      the corpus, the fixtures and every seeded stream) finds a crash as well,

then restore the worktree (`git reset --hard`).  Usage:  VERIF_REPO=/work/c01/repo tools/c01_revert_tests.py [sha ...]
The worktree must be clean.  Prints one line per commit; exit status 1 if a reverted repair is not detected by (b)."""
import json
import os
import pathlib
import subprocess
import sys

VERIF = pathlib.Path(__file__).resolve().parent.parent
REPO = pathlib.Path(os.environ.get("VERIF_REPO", "/repo"))

CHILD = r"""
import json, os, pathlib, sys, tempfile
sys.path.insert(0, %(verif)r)
from harness import core
from harness.props import c01
sys.path.insert(0, str(core.REPO))
sha = %(sha)r
d = pathlib.Path(tempfile.mkdtemp(prefix="c01-revert-"))
path = d / "model.py"
out = {"witnesses": {}, "enumerated": {}}
for c in core.corpus("C01"):
    if sha[:8] in c.get("origin", ""):
        path.write_text(c["text"], encoding="utf-8")
        r = c01.load(path)
        out["witnesses"][c["name"]] = (f"{r['exc']}@{r['site']}" if r["kind"] == "crash" else r["kind"])
for kind, text, what in c01.enumerated_cases("quick"):
    try:
        path.write_text(text, encoding="utf-8")
    except UnicodeEncodeError:
        path.write_bytes(text.encode("utf-8", "surrogatepass"))
    r = c01.load(path)
    if r["kind"] == "crash":
        sig = f"{r['exc']}@{r['site']}"
        e = out["enumerated"].setdefault(sig, {"first": what.get("mutation", kind)})
        e[kind] = e.get(kind, 0) + 1
import shutil; shutil.rmtree(d, ignore_errors=True)
print("RESULT " + json.dumps(out))
"""


def git(*args: str) -> str:
    return subprocess.run(["git", "-C", str(REPO), *args], check=True, capture_output=True, text=True).stdout


def main() -> int:
    if git("status", "--porcelain").strip():
        print("the worktree is not clean", file=sys.stderr)
        return 2
    fixed = json.loads((VERIF / "findings.d" / "C01.json").read_text())["fixed"]
    shas = sys.argv[1:] or [f["commit"] for f in fixed]
    rc = 0
    for sha in shas:
        try:
            try:
                git("revert", "-n", sha)
            except subprocess.CalledProcessError as e:
                print(f"{sha}  cannot be reverted alone (conflicts with a later repair): {e.stderr.strip().splitlines()[-1] if e.stderr else ''}")
                continue
            env = dict(os.environ, VERIF_REPO=str(REPO), PYTHONDONTWRITEBYTECODE="1")
            p = subprocess.run([sys.executable, "-c", CHILD % {"verif": str(VERIF), "sha": sha}], capture_output=True, text=True, env=env)
            line = next((ln for ln in p.stdout.splitlines() if ln.startswith("RESULT ")), None)
            if line is None:
                print(f"{sha}  harness error: {p.stderr[-400:]}")
                rc = 2
                continue
            out = json.loads(line[len("RESULT "):])
            ok = bool(out["enumerated"])
            by_roles = any("role-enumerated" in e for e in out["enumerated"].values())
            print(f"{sha}  {'DETECTED' if ok else 'MISSED'}{' (also by role x catalogue alone)' if by_roles else ''}  witnesses={out['witnesses']}  enumerated={out['enumerated']}")
            if not ok:
                rc = max(rc, 1)
        finally:
            subprocess.run(["git", "-C", str(REPO), "revert", "--abort"], capture_output=True)
            git("reset", "--hard", "-q", "HEAD")
    return rc


if __name__ == "__main__":
    sys.exit(main())
