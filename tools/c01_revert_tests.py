#!/usr/bin/env python3
"""Self-test of the C01 crash oracle: revert each `fix:` commit of findings.d/C01.json in the repository worktree, one at a
time (`git revert -n <sha>`), and check that

  (a) the witnesses in corpus/C01 recorded for that commit crash again, and
  (b) the seed independent enumerated slice of the quick tier ALONE (targeted constructs + probes + role x catalogue, i.e. without
      the corpus, the fixtures and every seeded stream) finds a crash as well,

then restore the worktree (`git reset --hard`).  Usage:  VERIF_REPO=/work/c01/repo tools/c01_revert_tests.py [sha ...]
The worktree must be clean.  Prints one line per commit; exit status 1 if a reverted repair is not detected by (b)."""
import json
import os
import pathlib
import subprocess
import sys

VERIF = pathlib.Path(__file__).resolve().parent.parent
REPO = pathlib.Path(os.environ.get("VERIF_REPO", "/repo"))

CHILD = r"""
import json, os, pathlib, sys, tempfile
sys.path.insert(0, %(verif)r)
from harness import core
from harness.props import c01
sys.path.insert(0, str(core.REPO))
sha = %(sha)r
d = pathlib.Path(tempfile.mkdtemp(prefix="c01-revert-"))
path = d / "model.py"
out = {"witnesses": {}, "enumerated": {}}
for c in core.corpus("C01"):
    if sha[:8] in c.get("origin", ""):
        path.write_text(c["text"], encoding="utf-8")
        r = c01.load(path)
        out["witnesses"][c["name"]] = (f"{r['exc']}@{r['site']}" if r["kind"] == "crash" else r["kind"])
for kind, text, what in c01.enumerated_cases("quick"):
    try:
        path.write_text(text, encoding="utf-8")
    except UnicodeEncodeError:
        path.write_bytes(text.encode("utf-8", "surrogatepass"))
    r = c01.load(path)
    if r["kind"] == "crash":
        sig = f"{r['exc']}@{r['site']}"
        e = out["enumerated"].setdefault(sig, {"first": what.get("mutation", kind)})
        e[kind] = e.get(kind, 0) + 1
import shutil; shutil.rmtree(d, ignore_errors=True)
print("RESULT " + json.dumps(out))
"""


def git(*args: str) -> str:
    return subprocess.run(["git", "-C", str(REPO), *args], check=True, capture_output=True, text=True).stdout


def run_child(sha: str) -> dict:
    env = dict(os.environ, VERIF_REPO=str(REPO), PYTHONDONTWRITEBYTECODE="1", PYTHONWARNINGS="ignore")
    p = subprocess.run([sys.executable, "-c", CHILD % {"verif": str(VERIF), "sha": sha}], capture_output=True, text=True, env=env)
    line = next((ln for ln in p.stdout.splitlines() if ln.startswith("RESULT ")), None)
    if line is None:
        raise RuntimeError(p.stderr[-600:])
    return json.loads(line[len("RESULT "):])


def restore() -> None:
    subprocess.run(["git", "-C", str(REPO), "revert", "--abort"], capture_output=True)
    git("reset", "--hard", "-q", "HEAD")


def revert(sha: str) -> str:
    """Revert `sha` alone; if a later repair touches the same lines, revert those later commits (newest first) with it."""
    try:
        git("revert", "-n", sha)
        return ""
    except subprocess.CalledProcessError:
        restore()
    files = git("show", "--name-only", "--format=", sha).split()
    later = git("log", "--format=%h", f"{sha}..HEAD", "--", *files).split()  # newest first
    for k in range(1, len(later) + 1):
        # the smallest set of later commits on the same files, taken from the newest, whose removal makes `sha` revertible
        for subset in ([later[j] for j in range(len(later)) if j < k],):
            try:
                for c in subset:
                    git("revert", "-n", c)
                git("revert", "-n", sha)
                return " (together with the later " + ", ".join(subset) + " on the same lines)"
            except subprocess.CalledProcessError:
                restore()
    raise RuntimeError("cannot be reverted")


def main() -> int:
    if git("status", "--porcelain").strip():
        print("the worktree is not clean", file=sys.stderr)
        return 2
    fixed = json.loads((VERIF / "findings.d" / "C01.json").read_text())["fixed"]
    shas = sys.argv[1:] or [f["commit"] for f in fixed]
    baseline = set(run_child("-")["enumerated"])  # crashes of the repaired tree (the known findings): not counted as detection
    print(f"baseline (repaired tree): {sorted(baseline)}")
    rc = 0
    for sha in shas:
        try:
            try:
                how = revert(sha)
            except RuntimeError as e:
                print(f"{sha}  {e}")
                rc = 2
                continue
            try:
                out = run_child(sha)
            except RuntimeError as e:
                print(f"{sha}  harness error: {e}")
                rc = 2
                continue
            new = {sig: e for sig, e in out["enumerated"].items() if sig not in baseline}
            by_roles = any("role-enumerated" in e for e in new.values())
            print(f"{sha}  {'DETECTED' if new else 'MISSED'}{' (also by role x catalogue alone)' if by_roles else ''}{how}  witnesses={out['witnesses']}  enumerated={new}")
            if not new:
                rc = max(rc, 1)
        finally:
            restore()
    return rc


if __name__ == "__main__":
    sys.exit(main())
