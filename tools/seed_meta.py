#!/usr/bin/env python3
"""tools/seed_meta.py: (re)writes seeded/<id>/meta.json for every seed from meta.agent.json, confirm.log and detect.*.log."""
import json, pathlib, re
S = pathlib.Path('/verif/seeded')
for d in sorted(S.iterdir()):
    if not d.is_dir():
        continue
    old = json.loads((d / 'meta.json').read_text()) if (d / 'meta.json').exists() else {}
    agent = json.loads((d / 'meta.agent.json').read_text()) if (d / 'meta.agent.json').exists() else old.get('as_reported_by_author', {})
    prop = d.name.split('-')[0]
    conf = (d / 'confirm.log').read_text() if (d / 'confirm.log').exists() else ''
    det = {}
    for lg in sorted(d.glob('detect.*.log')):
        t = lg.read_text()
        m = re.search(r'VIOLATION.*', t)
        ex = re.search(r'exit=(\d+)', t)
        det[lg.name.split('.')[1]] = {'exit': int(ex.group(1)) if ex else None, 'line': m.group(0) if m else None}
    meta = {
        'property': prop,
        'what': agent.get('what') or old.get('what'),
        'needs': agent.get('needs') or old.get('needs'),
        'witness': agent.get('witness') or old.get('witness'),
        'author': 'independent sub-agent given only the property text and a scratch worktree of /repo (nothing from /verif)',
        'confirmed_by_me': {
            'how': 'tools/confirm_seed.sh in a scratch worktree of /repo HEAD: demo on pristine tree, demo on patched tree, pinned tests on patched tree',
            'result': conf.strip().split('\n')[-1] if conf else None,
            'details': [ln for ln in conf.split('\n') if ln.startswith(('base commit', 'demo on', 'pinned tests'))],
            'author_ran': agent.get('tests_run') or (old.get('as_reported_by_author') or {}).get('tests_run'),
        },
        'detected_by': {k: v for k, v in det.items()},
        'as_reported_by_author': agent,
    }
    if 'history' in old.get('detected_by', {}):
        meta['detection_history'] = old['detected_by']['history']
    if old.get('detection_history'):
        meta['detection_history'] = old['detection_history']
    (d / 'meta.json').write_text(json.dumps(meta, indent=1) + '\n')
    if (d / 'meta.agent.json').exists():
        (d / 'meta.agent.json').unlink()
    status = {k: ('DETECTED' + (' (no failing input)' if v['line'] and 'no-failing' in v['line'] else '') if v['exit'] == 1 else 'missed') for k, v in det.items()}
    print(d.name, status, meta['confirmed_by_me']['result'])
