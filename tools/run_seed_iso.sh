#!/bin/sh
# tools/run_seed_iso.sh <seed-id> <Cxx> [tier]
# Like run_seed.sh, but in an isolated copy (/work/seedrun/{verif,repo}) so that /repo and /verif stay free:
# the copy is refreshed from /verif (rsync) and /repo HEAD, the seeded patch is applied to the copy of the
# repository, the check runs there, and the detection log is copied back to /verif/seeded/<id>/.
set -u
ID="$1"; PROP="$2"; TIER="${3:-quick}"
W=${SEEDRUN_DIR:-/work/seedrun}
mkdir -p $W
if [ ! -d $W/repo ]; then git -C /repo worktree add -q --detach $W/repo HEAD || exit 2; fi
git -C $W/repo checkout -q --detach "$(git -C /repo rev-parse HEAD)" 2>/dev/null
git -C $W/repo checkout -- . 2>/dev/null
rsync -a --delete --exclude '.git' --exclude 'replays' /verif/ $W/verif/ || exit 2
git -C $W/repo apply "/verif/seeded/$ID/patch.diff" || { echo "$ID: patch does not apply"; exit 2; }
( cd $W/verif && VERIF_REPO=$W/repo ./check "$PROP" --tier "$TIER" ) > "/verif/seeded/$ID/detect.$PROP.log" 2>&1; RC=$?
git -C $W/repo checkout -- .
echo "exit=$RC" >> "/verif/seeded/$ID/detect.$PROP.log"
R=$(grep -m1 -o 'replay=[^ ]*' "/verif/seeded/$ID/detect.$PROP.log" | cut -d= -f2)
if [ -n "$R" ] && [ -f "$W/verif/$R" ]; then cp "$W/verif/$R" "/verif/seeded/$ID/replay.$PROP.json"; fi
echo "$ID $PROP exit=$RC: $(grep -m1 VIOLATION "/verif/seeded/$ID/detect.$PROP.log")"
