#!/bin/sh
# tools/pick_fixes.sh <name>: cherry-pick the builder's fix: commits (branch verif-<name>) onto /repo's current branch
N="$1"
cd /repo || exit 2
BASE=$(git merge-base HEAD verif-"$N")
for c in $(git log --reverse --format=%h "$BASE"..verif-"$N"); do
  S=$(git log -1 --format=%s "$c")
  case "$S" in
    fix:*) ;;
    *) echo "SKIP (not a fix: commit) $c $S"; continue;;
  esac
  if git log --format=%s main | grep -qxF "$S"; then echo "SKIP (subject already on main) $c $S"; continue; fi
  if git cherry-pick "$c" > /tmp/cp.log 2>&1; then echo "picked $c -> $(git rev-parse --short HEAD) $S";
  elif [ -z "$(git status --porcelain | grep -v '^??')" ]; then git cherry-pick --skip > /dev/null 2>&1; echo "SKIP (empty after earlier fixes) $c $S";
  else echo "CONFLICT $c $S"; tail -5 /tmp/cp.log; exit 1; fi
done
