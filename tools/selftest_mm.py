#!/venv/bin/python
"""
Self-test of the meta-model platform library (``harness/mm*.py``).

    VERIF_REPO=/work/<x>/repo /venv/bin/python tools/selftest_mm.py [--seed N] [--jobs J] [--quick]

Checks (exit 1 if a *library* requirement fails; defects of the project are listed as
FINDING lines and saved under ``corpus/mm/``, they do not fail the self-test):

 1. renderer: ``parse_expr(render_expr(e)) == e`` on random expression trees and on every
    generated invariant; hierarchy enumeration counts (1, 2, 6, 31 shapes) and acceptance.
 2. acceptance: >= 300 random *valid* models, >= 95 % accepted by the real front end
    (rejection reasons listed); determinism of ``random_mm`` (same seed, same text).
 3. mutants: every rule of ``mm.RULES`` produced at least once; every mutant rejected
    (accepted mutants and front-end crashes are FINDINGs).
 4. generation: >= 50 random models x 8 targets + smoke: rc 0 or an error report, never an
    exception (exceptions are FINDINGs; model text saved); default-feature models must
    generate with rc 0 for >= 90 % of the (model, target) pairs; timings per target.
    A second batch uses ``Features.everything()`` (all hazards on) to list known defects.
 5. Python SDK: >= 20 models: import, 20 instances each (None/True/False invariant modes),
    oracle vs generated ``verification.verify``, JSON and XML round trip, document mutators.
"""
from __future__ import annotations

import argparse
import collections
import concurrent.futures
import hashlib
import json
import os
import pathlib
import random
import sys
import time
from typing import Any, Dict, List, Tuple

VERIF = pathlib.Path(__file__).resolve().parent.parent
sys.path.insert(0, str(VERIF))
os.environ.setdefault("VERIF_REPO", "/repo")

from harness import mm  # noqa: E402

CORPUS = VERIF / "corpus" / "mm"


def save(kind: str, text: str) -> str:
    CORPUS.mkdir(parents=True, exist_ok=True)
    name = f"{kind}-{hashlib.sha1(text.encode('utf-8', 'surrogatepass')).hexdigest()[:10]}.py"
    path = CORPUS / name
    if not path.exists():
        path.write_text(text, encoding="utf-8")
    return str(path.relative_to(VERIF))


def last_line(text: str) -> str:
    lines = [ln.strip() for ln in (text or "").strip().split("\n") if ln.strip()]
    return lines[-1][:220] if lines else ""


def crash_site(tb: str) -> str:
    lines = (tb or "").strip().split("\n")
    files = [ln.strip() for ln in lines if ln.strip().startswith("File ") and "aas_core_codegen" in ln]
    where = files[-1].replace(str(mm.REPO) + "/", "") if files else ""
    where = where.split(", in ")[0].replace('File "', "").replace('"', "") + (" in " + files[-1].split(", in ")[-1] if files else "")
    import re

    # the line that starts the exception message (icontract appends a dump of all values after it)
    heads = [ln for ln in lines if re.match(r"^[A-Za-z_][\w.]*(Error|Exception|Violation\w*)\b", ln)]
    head = heads[-1] if heads else lines[-1]
    if "ViolationError" in head:
        i = lines.index(head)
        head = "icontract ViolationError: " + " ".join(ln.strip() for ln in lines[i + 1:i + 2])
    head = re.sub(r"List\[[^ ]*", "List[...]", head)
    head = re.sub(r"'\w+'", "'...'", head)
    head = re.sub(r"(line|column) \d+", r"\1 N", head)
    return f"{where} :: {head[:170]}"


# --------------------------------------------------------------------------- worker tasks


def task_accept(seed: int) -> Dict[str, Any]:
    rng = random.Random(seed)
    size = rng.randint(1, 8)
    m = mm.random_mm(rng, size)
    text = mm.render(m)
    rng2 = random.Random(seed)
    again = mm.render(mm.random_mm(rng2, rng2.randint(1, 8)))
    res = mm.load(text)
    out: Dict[str, Any] = {"seed": seed, "ok": res.ok, "seconds": res.seconds, "deterministic": text == again, "lines": text.count("\n")}
    if not res.ok:
        out["reason"] = res.crash or last_line(res.error or "")
        out["saved"] = save("rejected-valid", text)
        if res.crash:
            out["site"] = crash_site(res.traceback or "")
    else:
        # renderer faithfulness on every invariant
        bad = 0
        for t in list(m.classes) + list(m.constrained_primitives):
            for inv in t.invariants:
                if mm.parse_expr(mm.render_expr(inv.expr)) != inv.expr:
                    bad += 1
        out["render_mismatches"] = bad
    return out


def task_mutants(seed: int) -> Dict[str, Any]:
    rng = random.Random(seed)
    m = mm.random_mm(rng, rng.randint(3, 6))
    if not mm.load(mm.render(m)).ok:
        return {"seed": seed, "skipped": True}
    rows = []
    for rule, text in mm.mutants(m, rng, max_sites_per_rule=1):
        res = mm.load(text)
        row: Dict[str, Any] = {"rule": rule, "verdict": "crash" if res.crash else ("accepted" if res.ok else "rejected")}
        if res.crash:
            row["site"] = crash_site(res.traceback or "")
            row["saved"] = save(f"mutant-crash-{rule}", text)
        elif res.ok:
            row["saved"] = save(f"mutant-accepted-{rule}", text)
        rows.append(row)
    return {"seed": seed, "rows": rows}


def task_generate(arg: Tuple[int, bool]) -> Dict[str, Any]:
    seed, hazards = arg
    rng = random.Random(seed)
    ft = mm.Features.everything() if hazards else mm.Features()
    if hazards:
        ft.duplicate_enum_values = False      # rejected by a front-end crash: nothing reaches the generators
        ft.tautologies_after_narrowing = False  # ill-typed on purpose
        ft.arithmetic_on_constrained = False    # ill-typed on purpose
        ft.multiple_patterns_per_value = False  # greenery can take minutes
    if not hazards:
        ft.impl_specific = seed % 3 == 0  # implementation-specific methods/functions need per-target snippets
    m = mm.random_mm(rng, rng.randint(1, 7), ft)
    text = mm.render(m)
    loaded = mm.load(text)
    out: Dict[str, Any] = {"seed": seed, "hazards": hazards, "accepted": loaded.ok, "rows": []}
    if not loaded.ok:
        out["reason"] = loaded.crash or last_line(loaded.error or "")
        if loaded.crash:
            out["site"] = crash_site(loaded.traceback or "")
            out["saved"] = save("frontend-crash", text)
        return out
    cache = mm.new_scratch("cache")
    for target in mm.TARGETS:
        r = mm.generate(target, text, mm.new_scratch("out"), symbol_table=loaded.symbol_table, cache_dir=cache)
        row: Dict[str, Any] = {"target": target, "rc": r.rc, "seconds": r.seconds}
        if r.exception:
            row["exception"] = r.exception
            row["site"] = crash_site(r.traceback or "")
            row["saved"] = save(f"gen-crash-{target}", text)
        elif r.rc != 0:
            row["error"] = last_line(r.stderr)
            if not r.stderr.strip():
                row["silent_failure"] = True
        else:
            if r.stderr != "" or "Code generated to" not in r.stdout:
                row["odd_success"] = True
        out["rows"].append(row)
    s = mm.smoke(text)
    row = {"target": "smoke", "rc": s.rc, "seconds": s.seconds}
    if s.exception:
        row["exception"] = s.exception
        row["site"] = crash_site(s.traceback or "")
        row["saved"] = save("smoke-crash", text)
    elif s.rc != 0:
        row["error"] = last_line(s.stderr)
    out["rows"].append(row)
    return out


def task_sdk(seed: int) -> Dict[str, Any]:
    rng = random.Random(seed)
    ft = mm.Features()
    ft.impl_specific = seed % 3 == 0
    m = mm.random_mm(rng, rng.randint(1, 6), ft)
    text = mm.render(m)
    stat: collections.Counter = collections.Counter()
    findings: List[Tuple[str, str]] = []
    t0 = time.time()
    sdk = mm.load_python_sdk(text)
    out: Dict[str, Any] = {"seed": seed, "sdk_seconds": time.time() - t0}
    if sdk.error:
        out["error"] = sdk.error[:600]
        out["saved"] = save("sdk-error", text)
        return out
    before = set(sys.modules)
    with sdk:
        concrete = [c.name for c in m.classes if not c.abstract]
        t0 = time.time()
        for k in range(20):
            cname = rng.choice(concrete)
            mode = [None, True, True, False][k % 4]
            b = mm.random_instance(sdk, m, cname, rng, mode, max_tries=60)
            stat[f"instances[{mode}]"] += 1
            stat[f"tries[{mode}]"] += b.tries
            if b.instance is None:
                stat["impossible"] += 1
                continue
            if mode is not None:
                stat[f"goal_reached[{mode}]"] += int(bool(b.satisfied))
            # independent oracle vs generated verification
            try:
                reported = sorted(e.cause for e in sdk.verification.verify(b.instance))
            except Exception as e:  # noqa: BLE001
                reported = None
                findings.append(("verify raised " + type(e).__name__, text))
            falsified = sorted("Invariant violated:\n" + c.description for c in b.checks if c.result is False)
            raised = [c for c in b.checks if mm.is_exception(c.result)]
            if raised:
                stat["oracle_raised"] += 1
            elif reported is not None:
                stat["verify_compared"] += 1
                if [r.split("\n", 1)[-1].replace("\n", " ") for r in reported] != [f.split("\n", 1)[-1].replace("\n", " ") for f in falsified] and len(reported) != len(falsified):
                    stat["verify_differs"] += 1
                    findings.append((f"verify reports {len(reported)} violations, oracle {len(falsified)}", text))
            # JSON round trip
            try:
                doc = sdk.to_jsonable(b.instance)
                back = sdk.from_jsonable(cname)(json.loads(json.dumps(doc)))
                stat["json_roundtrip_ok" if sdk.to_jsonable(back) == doc else "json_roundtrip_differs"] += 1
            except Exception as e:  # noqa: BLE001
                stat["json_roundtrip_raised:" + type(e).__name__] += 1
                doc = None
            # XML round trip
            try:
                xml = sdk.to_xml_str(b.instance)
                back = sdk.from_xml_str(cname)(xml)
                stat["xml_roundtrip_ok" if sdk.to_xml_str(back) == xml else "xml_roundtrip_differs"] += 1
            except Exception as e:  # noqa: BLE001
                stat["xml_roundtrip_raised:" + type(e).__name__] += 1
                xml = None
            # mutators: every mutant is either accepted or rejected with the SDK's own exception
            if doc is not None:
                dup = mm.duplicate_key_json_text(doc, rng)
                if dup is not None:
                    pairs: List[Any] = []
                    json.loads(dup[0], object_pairs_hook=lambda kv: pairs.append([k for k, _ in kv]) or dict(kv))
                    assert any(len(ks) != len(set(ks)) for ks in pairs), "duplicate_key_json_text produced no duplicate"
                mutated, label = mm.mutate_jsonable(doc, rng)
                assert json.dumps(mutated) != json.dumps(doc), label
                try:
                    sdk.from_jsonable(cname)(mutated)
                    stat["json_mutant_accepted"] += 1
                except sdk.jsonization.DeserializationException:
                    stat["json_mutant_rejected"] += 1
                except Exception as e:  # noqa: BLE001
                    stat[f"json_mutant_raised:{type(e).__name__}[{label.split('@')[0]}]"] += 1
            if xml is not None:
                mutated_x, label = mm.mutate_xml(xml, rng)
                try:
                    sdk.from_xml_str(cname)(mutated_x)
                    stat["xml_mutant_accepted"] += 1
                except sdk.xmlization.DeserializationException:
                    stat["xml_mutant_rejected"] += 1
                except Exception as e:  # noqa: BLE001
                    stat[f"xml_mutant_raised:{type(e).__name__}[{label.split('@')[0]}]"] += 1
        out["instance_seconds"] = time.time() - t0
    leaked = [n for n in sys.modules if n.startswith(sdk.module_name)]
    out["leaked_modules"] = leaked
    out["stat"] = dict(stat)
    out["findings"] = [(what, save("sdk-finding", t)) for what, t in findings[:3]]
    return out


# --------------------------------------------------------------------------- in-process checks


def random_tree(rng: random.Random, depth: int) -> Any:
    M = mm
    leaves = [M.Name("x"), M.prop("a"), M.Constant(1), M.Constant(-2), M.Constant(1.5), M.Constant(-0.0), M.Constant(True),
              M.Constant("s\"'\\\n{}"), M.Member(M.prop("a"), "b"), M.length(M.prop("a")), M.Constant("\ud800"), M.Constant("\U0001F600")]
    if depth <= 0 or rng.random() < 0.25:
        return rng.choice(leaves)
    sub = lambda: random_tree(rng, depth - 1)  # noqa: E731
    k = rng.randrange(16)
    if k == 0:
        return M.Not(sub())
    if k == 1:
        a = sub()
        b = sub()
        vals = (a, b, sub()) if rng.random() < 0.3 else (a, b)
        return M.And(vals)
    if k == 2:
        a = sub()
        b = sub()
        if isinstance(a, M.Not):
            return M.Implication(a.operand, b)
        return M.Or((a, b, sub()) if rng.random() < 0.3 else (a, b))
    if k == 3:
        return M.Implication(sub(), sub())
    if k == 4:
        return M.Comparison(sub_no_cmp(rng, depth), rng.choice(M.COMPARATORS), sub_no_cmp(rng, depth))
    if k == 5:
        return M.IsIn(sub_no_cmp(rng, depth), M.Name("Some_set"))
    if k == 6:
        return M.IsNone(sub_no_cmp(rng, depth))
    if k == 7:
        return M.IsNotNone(sub_no_cmp(rng, depth))
    if k == 8:
        return M.Add(sub_no_cmp(rng, depth), sub_no_cmp(rng, depth))
    if k == 9:
        return M.Sub(sub_no_cmp(rng, depth), sub_no_cmp(rng, depth))
    if k == 10:
        return M.FunctionCall("is_fine", (sub(), sub()))
    if k == 11:
        return M.MethodCall(M.Member(M.SELF, "compute"), (sub(),))
    if k == 12:
        return M.Index(M.prop("items"), sub_no_cmp(rng, depth))
    if k == 13:
        return (M.All if rng.random() < 0.5 else M.Any_)(M.ForEach("item", M.prop("items")), sub())
    if k == 14:
        return (M.All if rng.random() < 0.5 else M.Any_)(M.ForRange("i", M.Constant(0), M.length(M.prop("items"))), sub())
    return M.JoinedStr(("a{", M.Name("x"), "}\\", M.prop("a")))


def sub_no_cmp(rng: random.Random, depth: int) -> Any:
    """Operand position of a comparison / arithmetic: Python would chain comparisons, so wrap deeper trees."""
    return random_tree(rng, depth - 1)


def check_renderer(seed: int) -> List[str]:
    problems = []
    rng = random.Random(seed)
    n = 0
    for _ in range(1500):
        e = random_tree(rng, 4)
        for full in (False, True):
            text = mm.render_expr(e, full_parens=full)
            try:
                back = mm.parse_expr(text)
            except Exception as err:  # noqa: BLE001
                problems.append(f"render_expr output not parsed: {text!r}: {err}")
                continue
            n += 1
            if back != e and not _nan_equal(back, e):
                problems.append(f"render_expr round trip differs: {text!r}")
    print(f"   renderer: {n} random expression trees round-tripped through the project's parse rules")
    return problems[:5]


def _nan_equal(a: Any, b: Any) -> bool:
    return repr(a) == repr(b)  # -0.0 == 0.0 but the reprs differ; equal reprs is the stronger statement


def check_hierarchies() -> List[str]:
    problems = []
    counts = [len(mm.dag_shapes(n)) for n in range(1, 5)]
    if counts != [1, 2, 6, 31]:
        problems.append(f"dag_shapes counts {counts} != [1, 2, 6, 31]")
    hs = list(mm.enumerate_hierarchies(3))
    print(f"   hierarchies: shapes n=1..4: {counts}; enumerate_hierarchies(3) yields {len(hs)} (shape x colouring x order)")
    # every linear extension is legal, every shape once per colouring
    for h in hs:
        pos = {c: i for i, c in enumerate(h.order)}
        if any(pos[p] > pos[c] for c in range(h.n) for p in h.parents[c]):
            problems.append(f"illegal declaration order {h}")
    sample = hs[:: max(1, len(hs) // 25)] + list(mm.enumerate_hierarchies(4, abstract_mixes=False, all_orders_up_to=0))[-12:]
    rejected = 0
    for h in sample:
        for holder in (False, True):
            text = mm.render(mm.hierarchy_to_mm(h, holder=holder))
            res = mm.load(text)
            if not res.ok:
                rejected += 1
                problems.append(f"hierarchy model rejected: {res.crash or last_line(res.error or '')} ({save('rejected-hierarchy', text)})")
    print(f"   hierarchies: {2 * len(sample)} hierarchy models loaded, {rejected} rejected")
    return problems[:5]


def _all_saved(scope: Dict[str, Any]) -> List[str]:
    """Every corpus path mentioned in the worker results of this run."""
    out: List[str] = []

    def walk(x: Any) -> None:
        if isinstance(x, dict):
            for k, v in x.items():
                if k == "saved" and isinstance(v, str):
                    out.append(v)
                else:
                    walk(v)
        elif isinstance(x, (list, tuple)):
            for v in x:
                walk(v)

    walk(scope.get("ALL_RESULTS", []))
    return out


# --------------------------------------------------------------------------- main


def main() -> int:
    ap = argparse.ArgumentParser()
    ap.add_argument("--seed", type=int, default=0)
    ap.add_argument("--jobs", type=int, default=min(8, os.cpu_count() or 2))
    ap.add_argument("--quick", action="store_true", help="a third of the budgets (smoke run of the self-test itself)")
    args = ap.parse_args()
    scale = 3 if args.quick else 1
    n_accept, n_mut, n_gen, n_haz, n_sdk = 320 // scale, 8 // scale + 1, 54 // scale, 12 // scale, 22 // scale
    base = args.seed * 100000
    t_start = time.time()
    failures: List[str] = []
    findings: Dict[str, Dict[str, Any]] = {}

    def finding(key: str, saved: str = "") -> None:
        f = findings.setdefault(key, {"count": 0, "saved": saved})
        f["count"] += 1

    print(f"selftest_mm: repo={mm.REPO} seed={args.seed} jobs={args.jobs}")
    print("[1] renderer and hierarchy enumeration")
    failures += check_renderer(base)
    failures += check_hierarchies()

    with concurrent.futures.ProcessPoolExecutor(max_workers=args.jobs) as pool:
        f_accept = [pool.submit(task_accept, base + i) for i in range(n_accept)]
        f_mut = [pool.submit(task_mutants, base + 5000 + i) for i in range(n_mut)]
        f_gen = [pool.submit(task_generate, (base + 10000 + i, False)) for i in range(n_gen)]
        f_haz = [pool.submit(task_generate, (base + 20000 + i, True)) for i in range(n_haz)]
        f_sdk = [pool.submit(task_sdk, base + 30000 + i) for i in range(n_sdk)]

        # ---- 2 acceptance
        ALL_RESULTS: List[Any] = []
        rows = [f.result() for f in f_accept]
        ALL_RESULTS.append(rows)
        ok = sum(r["ok"] for r in rows)
        rate = ok / len(rows)
        print(f"[2] acceptance of random valid models: {ok}/{len(rows)} = {100 * rate:.1f} %  "
              f"(front end {1000 * sum(r['seconds'] for r in rows) / len(rows):.0f} ms/model, {sum(r['lines'] for r in rows) // len(rows)} lines/model)")
        reasons = collections.Counter(r["reason"] for r in rows if not r["ok"])
        for reason, n in reasons.most_common():
            example = next(r for r in rows if not r["ok"] and r["reason"] == reason)
            print(f"    rejected x{n}: {reason}  [{example['saved']}]")
        if rate < 0.95:
            failures.append(f"acceptance rate {rate:.3f} < 0.95")
        if not all(r["deterministic"] for r in rows):
            failures.append("random_mm is not deterministic in its seed")
        mism = sum(r.get("render_mismatches", 0) for r in rows)
        if mism:
            failures.append(f"{mism} generated invariants do not round-trip through the project's parser")

        # ---- 3 mutants
        verdicts: Dict[str, collections.Counter] = collections.defaultdict(collections.Counter)
        mut_results = [f.result() for f in f_mut]
        ALL_RESULTS.append(mut_results)
        for r in mut_results:
            for row in r.get("rows", []):
                verdicts[row["rule"]][row["verdict"]] += 1
                if row["verdict"] == "accepted":
                    finding(f"C06 mutant accepted by the front end: rule {row['rule']} ({mm.RULES[row['rule']]})", row["saved"])
                elif row["verdict"] == "crash":
                    finding(f"C01 front end crashes on mutant of rule {row['rule']}: {row['site']}", row["saved"])
        total = sum(sum(c.values()) for c in verdicts.values())
        print(f"[3] mutants: {total} mutants over {len(verdicts)}/{len(mm.RULES)} rules: "
              f"{sum(c['rejected'] for c in verdicts.values())} rejected, {sum(c['accepted'] for c in verdicts.values())} accepted, "
              f"{sum(c['crash'] for c in verdicts.values())} crashed the front end")
        for rule in mm.RULES:
            c = verdicts.get(rule)
            if c is None:
                failures.append(f"mutant rule never produced: {rule}")
            elif c["accepted"] or c["crash"]:
                print(f"    {rule}: rejected={c['rejected']} accepted={c['accepted']} crashed={c['crash']}")

        # ---- 4 generation
        for title, futs, must_succeed in (("default features", f_gen, True), ("Features.everything() (hazards on)", f_haz, False)):
            results = [f.result() for f in futs]
            ALL_RESULTS.append(results)
            per_target: Dict[str, collections.Counter] = collections.defaultdict(collections.Counter)
            seconds: Dict[str, List[float]] = collections.defaultdict(list)
            accepted = 0
            for r in results:
                if not r["accepted"]:
                    if "site" in r:
                        finding(f"C01 front end crash on a generated model: {r['site']}", r.get("saved", ""))
                    continue
                accepted += 1
                for row in r["rows"]:
                    t = row["target"]
                    seconds[t].append(row["seconds"])
                    if "exception" in row:
                        per_target[t]["exception"] += 1
                        finding(f"C02 {t} generator raises {row['exception']}: {row['site']}", row["saved"])
                    elif row["rc"] != 0:
                        per_target[t]["error"] += 1
                        per_target[t]["err:" + row["error"][:110]] += 1
                        if row.get("silent_failure"):
                            finding(f"C03 {t}: non-zero exit without any stderr")
                    else:
                        per_target[t]["ok"] += 1
                        if row.get("odd_success"):
                            finding(f"C03 {t}: rc 0 but stderr not empty or success line missing")
            print(f"[4] generation, {title}: {accepted}/{len(results)} models accepted by the front end; per target ok/error/exception, mean and max seconds:")
            pairs = good = 0
            for t in list(mm.TARGETS) + ["smoke"]:
                c = per_target[t]
                secs = seconds[t] or [0.0]
                print(f"    {t:11s} ok={c['ok']:3d} error={c['error']:3d} exception={c['exception']:3d}   {sum(secs) / len(secs):6.3f}s  max {max(secs):6.3f}s")
                for key, n in c.items():
                    if key.startswith("err:"):
                        print(f"        error x{n}: {key[4:]}")
                pairs += c["ok"] + c["error"] + c["exception"]
                good += c["ok"]
            if must_succeed:
                if accepted < 50 // scale:
                    failures.append(f"only {accepted} accepted models reached the generators (need >= {50 // scale})")
                if pairs and good / pairs < 0.9:
                    failures.append(f"default-feature models generate with rc 0 in only {100 * good / pairs:.0f} % of the (model, target) pairs")

        # ---- 5 SDK
        results = [f.result() for f in f_sdk]
        ALL_RESULTS.append(results)
        good_sdk = [r for r in results if "stat" in r]
        stat: collections.Counter = collections.Counter()
        for r in good_sdk:
            stat.update(r["stat"])
            for what, saved in r["findings"]:
                finding("C08 " + what, saved)
            if r["leaked_modules"]:
                failures.append(f"SDK.close() left modules behind: {r['leaked_modules'][:3]}")
        for r in results:
            if "error" in r:
                failures.append(f"SDK of a default-feature model failed to load: {r['error'][:300]} [{r['saved']}]")
        print(f"[5] Python SDK: {len(good_sdk)}/{len(results)} SDKs imported "
              f"(mean {sum(r['sdk_seconds'] for r in results) / max(1, len(results)):.2f}s generate+import, "
              f"{sum(r.get('instance_seconds', 0) for r in good_sdk) / max(1, len(good_sdk)):.2f}s for 20 instances with checks)")
        for key in sorted(stat):
            print(f"    {key}: {stat[key]}")
        for mode in ("True", "False"):
            n = stat.get(f"instances[{mode}]", 0)
            if n:
                print(f"    satisfy_invariants={mode}: goal reached {stat.get(f'goal_reached[{mode}]', 0)}/{n}, {stat.get(f'tries[{mode}]', 0) / n:.1f} candidates per instance")
        if len(good_sdk) < 20 // scale:
            failures.append(f"only {len(good_sdk)} SDKs loaded (need >= {20 // scale})")
        if stat.get("json_roundtrip_ok", 0) == 0 or stat.get("xml_roundtrip_ok", 0) == 0:
            failures.append("no successful JSON/XML round trip at all")
        for key, n in stat.items():
            if key.startswith(("json_roundtrip_raised", "json_roundtrip_differs", "xml_roundtrip_raised", "xml_roundtrip_differs")):
                finding(f"C10 {key}")
                findings[f"C10 {key}"]["count"] = n
            if "_mutant_raised:" in key:
                finding(f"C10 non-SDK exception on a mutated document: {key}")
                findings[f"C10 non-SDK exception on a mutated document: {key}"]["count"] = n
        if stat.get("verify_differs"):
            findings.setdefault("C08 oracle and generated verification disagree", {"count": stat["verify_differs"], "saved": ""})

    # keep one reproducer per finding, drop the other files written by this run
    keep = {f["saved"] for f in findings.values() if f.get("saved")}
    for name in sorted(set(_all_saved(locals()))):
        if name not in keep and (VERIF / name).exists() and name.startswith("corpus/mm/") and not name.startswith("corpus/mm/rejected-"):
            (VERIF / name).unlink()
    print(f"findings about the project (not failures of the library): {len(findings)}")
    for key in sorted(findings):
        f = findings[key]
        print(f"  FINDING x{f['count']}: {key}" + (f"  [{f['saved']}]" if f.get("saved") else ""))
    elapsed = time.time() - t_start
    import resource

    ru_c, ru_s = resource.getrusage(resource.RUSAGE_CHILDREN), resource.getrusage(resource.RUSAGE_SELF)
    cpu = ru_c.ru_utime + ru_c.ru_stime + ru_s.ru_utime + ru_s.ru_stime
    load = os.getloadavg()[0] if hasattr(os, "getloadavg") else 0.0
    print(f"elapsed {elapsed:.0f}s wall, {cpu:.0f}s CPU over {args.jobs} workers (= {cpu / args.jobs:.0f}s on an idle machine); load average {load:.1f} on {os.cpu_count()} cores")
    if cpu / args.jobs > 180 and not args.quick:
        failures.append(f"self-test needs {cpu / args.jobs:.0f}s > 180s of CPU per worker")
    elif elapsed > 180 and not args.quick:
        print("WARNING: wall time above 3 min because the machine is oversubscribed (CPU budget is within limits)")
    if failures:
        print("SELFTEST FAILED")
        for f in failures:
            print("  FAIL:", f)
        return 1
    print("SELFTEST OK")
    return 0


if __name__ == "__main__":
    sys.exit(main())
