#!/usr/bin/env python3
"""Rewrites the `commit` of every `fixed` entry of known_findings.json to the sha the fix has on /repo's main
(the builders recorded the sha of their own worktree branch; cherry-picking keeps the subject line)."""
import json, subprocess, pathlib
V = pathlib.Path('/verif')
def git(*a): return subprocess.check_output(['git', '-C', '/repo', *a]).decode()
main = {}
for line in git('log', '--format=%h\t%s', 'main').splitlines():
    h, s = line.split('\t', 1); main.setdefault(s, h)
main_shas = set(main.values())
kf = json.loads((V / 'known_findings.json').read_text())
for e in kf['fixed']:
    c = e.get('commit', '')
    if any(m.startswith(c[:7]) or c.startswith(m[:7]) for m in main_shas if c):
        continue
    try:
        subj = git('log', '-1', '--format=%s', c).strip()
    except subprocess.CalledProcessError:
        print('unknown commit', c, e['property']); continue
    if subj in main:
        e['commit_in_builder_branch'] = c
        e['commit'] = main[subj]
    else:
        print('NOT ON MAIN:', e['property'], c, subj)
(V / 'known_findings.json').write_text(json.dumps(kf, indent=1) + '\n')
