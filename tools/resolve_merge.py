#!/usr/bin/env python3
"""Resolves the routine conflicts of merging a builder's copy: known_findings.json (union),
generated files (regenerated)."""
import json, subprocess, pathlib
V = pathlib.Path(__file__).resolve().parent.parent
def show(stage, path):
    try:
        return subprocess.check_output(["git", "-C", str(V), "show", f":{stage}:{path}"]).decode()
    except subprocess.CalledProcessError:
        return None
conf = subprocess.check_output(["git", "-C", str(V), "diff", "--name-only", "--diff-filter=U"]).decode().split()
for path in conf:
    if path == "known_findings.json":
        ours, theirs = json.loads(show(2, path)), json.loads(show(3, path))
        out = {"findings": [], "fixed": []}
        for k in out:
            seen = set()
            for e in ours.get(k, []) + theirs.get(k, []):
                key = json.dumps(e, sort_keys=True)
                # fixed entries: same property+what counts as the same even if the sha differs
                key2 = (e.get("property"), e.get("what")) if k == "fixed" else key
                if key2 not in seen:
                    seen.add(key2); out[k].append(e)
        (V / path).write_text(json.dumps(out, indent=1) + "\n")
    elif path in ("lean/Driver.lean", "MANIFEST.json"):
        subprocess.check_call(["git", "-C", str(V), "checkout", "--ours", path])
    else:
        print("UNRESOLVED:", path); continue
    subprocess.check_call(["git", "-C", str(V), "add", path])
subprocess.check_call(["python3", str(V / "tools/mk_driver.py")])
subprocess.check_call(["python3", str(V / "tools/mk_manifest.py")])
