#!/venv/bin/python
"""Regenerates every lean/AasVerif/Gen/*.lean from /repo's current working tree (what each check does in stage E)."""
import importlib, pathlib, sys
sys.path.insert(0, str(pathlib.Path(__file__).resolve().parent.parent))
from harness import core
sys.path.insert(0, str(core.REPO))
for p in sorted((core.VERIF / "harness" / "props").glob("c[0-9][0-9].py")):
    mod = importlib.import_module(f"harness.props.{p.stem}")
    ctx = core.Ctx(p.stem.upper(), "quick", 0)
    core.write_gen(ctx, mod, getattr(mod, "GEN", []))
    for b in ctx.broken:
        print("BROKEN", p.stem, b)
    for n in ctx.notes:
        print(p.stem, n)
