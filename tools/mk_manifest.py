#!/usr/bin/env python3
"""Regenerates MANIFEST.json from the table below (keeps it schema-valid at all times)."""
import json
import pathlib

VERIF = pathlib.Path(__file__).resolve().parent.parent
ALL = [f"C{i:02d}" for i in range(1, 31)]

# One file per claimed property: manifest.d/Cxx.json with keys technique, text, note, ref.
CLAIMED = {}
for _p in sorted((VERIF / "manifest.d").glob("C*.json")):
    _d = json.loads(_p.read_text())
    CLAIMED[_p.stem] = (_d["technique"], _d["text"], _d["note"], _d["ref"])

NOT_YET = "check not built yet in this round (plan: DESIGN.md section 3); not claimed until model, theorems and correspondence exist"


def main() -> None:
    checks = []
    for pid, (technique, text, note, ref) in sorted(CLAIMED.items()):
        checks.append(
            {
                "property_id": pid,
                "quick_cmd": f"./check {pid} --tier quick",
                "thorough_cmd": f"./check {pid} --tier thorough",
                "evidence_file": f"evidence/{pid}.json",
                "replay_cmd_template": f"./check {pid} --replay {{path}}",
                "engine": "lean4-aasverif",
                "level_claimed": {"category": "proof", "text": text, "design_ref": ref},
                "level_note": note,
                "technique": technique,
            }
        )
    na_reasons = json.loads((VERIF / "tools" / "not_applicable.json").read_text()) if (VERIF / "tools" / "not_applicable.json").exists() else {}
    manifest = {
        "version": 1,
        "setup_cmd": "./setup.sh",
        "hooks": {
            "guard": "AAS_CORE_CODEGEN_VERIF",
            "enable": "no source hooks: all instrumentation is done from the harness by wrapping library calls; the guard name is reserved",
            "baseline_off_cmd": "cd /repo && /venv/bin/python -m pytest -ra -q -p no:cacheprovider --timeout=900 --continue-on-collection-errors",
            "source_commits": [],
            "add_only": True,
        },
        "engines": [
            {
                "name": "lean4-aasverif",
                "path": "lean/",
                "serves_properties": sorted(CLAIMED),
                "kind_free_text": "Lean 4 project: Gen (regenerated from /repo), Model (hand-written executable models), Lemmas, Props (property theorems), Driver (line-protocol executable used by the correspondence harness in harness/)",
            }
        ],
        "checks": checks,
        "notes": "Every check: extract Gen from /repo -> lake build -> axiom audit -> correspondence (real code vs Lean driver) -> direct oracle -> decision (DESIGN.md 1.3). Known findings: known_findings.json.",
        "not_applicable": [
            {"property_id": pid, "reason": na_reasons.get(pid, NOT_YET)} for pid in ALL if pid not in CLAIMED
        ],
    }
    (VERIF / "MANIFEST.json").write_text(json.dumps(manifest, indent=1) + "\n")


if __name__ == "__main__":
    main()
