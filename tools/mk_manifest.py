#!/usr/bin/env python3
"""Regenerates MANIFEST.json from the table below (keeps it schema-valid at all times)."""
import json
import pathlib

VERIF = pathlib.Path(__file__).resolve().parent.parent
ALL = [f"C{i:02d}" for i in range(1, 31)]

# property -> (technique, level text, level_note, design_ref)
CLAIMED = {
    "C27": (
        "Lean 4 theorems (wrap_join, wrap_fits, article rule) over an exact model of wrap_text_into_lines for all texts/widths/article lists; model tied to the source by regenerated Gen tables + differential correspondence",
        "Machine-checked proof (Lean 4 kernel) that the model of common.wrap_text_into_lines preserves the text, keeps every segment within the width unless it is one token, and never leaves an article dangling, for every text, width and article list; the model is compared with the real function on enumerated and random texts on every run.",
        "Trusted: Lean kernel, propext/Classical.choice/Quot.sound, harness/extract.py (articles + default width), the correspondence harness; Python str.split/join semantics are validated by correspondence, not verified.",
        "DESIGN.md 3 C27",
    ),
}

NOT_YET = "check not built yet in this round (plan: DESIGN.md section 3); not claimed until model, theorems and correspondence exist"


def main() -> None:
    checks = []
    for pid, (technique, text, note, ref) in sorted(CLAIMED.items()):
        checks.append(
            {
                "property_id": pid,
                "quick_cmd": f"./check {pid} --tier quick",
                "thorough_cmd": f"./check {pid} --tier thorough",
                "evidence_file": f"evidence/{pid}.json",
                "replay_cmd_template": f"./check {pid} --replay {{path}}",
                "engine": "lean4-aasverif",
                "level_claimed": {"category": "proof", "text": text, "design_ref": ref},
                "level_note": note,
                "technique": technique,
            }
        )
    na_reasons = json.loads((VERIF / "tools" / "not_applicable.json").read_text()) if (VERIF / "tools" / "not_applicable.json").exists() else {}
    manifest = {
        "version": 1,
        "setup_cmd": "./setup.sh",
        "hooks": {
            "guard": "AAS_CORE_CODEGEN_VERIF",
            "enable": "no source hooks: all instrumentation is done from the harness by wrapping library calls; the guard name is reserved",
            "baseline_off_cmd": "cd /repo && /venv/bin/python -m pytest -ra -q -p no:cacheprovider --timeout=900 --continue-on-collection-errors",
            "source_commits": [],
            "add_only": True,
        },
        "engines": [
            {
                "name": "lean4-aasverif",
                "path": "lean/",
                "serves_properties": sorted(CLAIMED),
                "kind_free_text": "Lean 4 project: Gen (regenerated from /repo), Model (hand-written executable models), Lemmas, Props (property theorems), Driver (line-protocol executable used by the correspondence harness in harness/)",
            }
        ],
        "checks": checks,
        "notes": "Every check: extract Gen from /repo -> lake build -> axiom audit -> correspondence (real code vs Lean driver) -> direct oracle -> decision (DESIGN.md 1.3). Known findings: known_findings.json.",
        "not_applicable": [
            {"property_id": pid, "reason": na_reasons.get(pid, NOT_YET)} for pid in ALL if pid not in CLAIMED
        ],
    }
    (VERIF / "MANIFEST.json").write_text(json.dumps(manifest, indent=1) + "\n")


if __name__ == "__main__":
    main()
