#!/bin/sh
# tools/run_thorough_iso.sh <props...>: run the thorough tier of the given checks in an isolated copy (/work/thor)
W=${THOR_DIR:-/work/thor}
mkdir -p $W
if [ ! -d $W/repo ]; then git -C /repo worktree add -q --detach $W/repo HEAD || exit 2; fi
git -C $W/repo checkout -q --detach "$(git -C /repo rev-parse HEAD)"; git -C $W/repo checkout -- .
rsync -a --delete --exclude '.git' --exclude 'replays' /verif/ $W/verif/
for P in "$@"; do
  S=$(date +%s)
  ( cd $W/verif && VERIF_REPO=$W/repo ./check $P --tier thorough ) > /tmp/thor_$P.log 2>&1
  echo "$P exit=$? $(( $(date +%s) - S ))s $(tail -1 /tmp/thor_$P.log | cut -c1-120)" >> /tmp/thor_summary.log
done
