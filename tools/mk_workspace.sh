#!/bin/sh
# tools/mk_workspace.sh <name>: private copies for one builder: /work/<name>/verif (copy of /verif
# incl. Lean build cache) and /work/<name>/repo (git worktree of /repo on branch verif-<name>).
set -e
N="$1"
mkdir -p /work/"$N"
rm -rf /work/"$N"/verif
cp -a /verif /work/"$N"/verif
if [ ! -d /work/"$N"/repo ]; then
  git -C /repo worktree add -q -b verif-"$N" /work/"$N"/repo HEAD
fi
echo "/work/$N ready; use: export VERIF_REPO=/work/$N/repo; cd /work/$N/verif"
