#!/bin/sh
# tools/confirm_seed.sh <seed-id> <patch.diff> <demo.py> <meta.json> <pytest args...>
# Confirms in a scratch worktree (outside /repo and /verif) that a seeded change
#  (1) applies, (2) keeps the given pinned tests passing, (3) makes the demo fail while the demo
#  passes on the pristine tree; then stores it under /verif/seeded/<seed-id>/ with the log.
set -u
ID="$1"; PATCH="$2"; DEMO="$3"; META="$4"; shift 4
WT=/tmp/seedwt-$ID
OUT=/verif/seeded/$ID
rm -rf "$WT"; git -C /repo worktree add -q --detach "$WT" HEAD || exit 2
mkdir -p "$OUT"
LOG="$OUT/confirm.log"; : > "$LOG"
echo "base commit: $(git -C /repo rev-parse --short HEAD)" >> "$LOG"
( cd "$WT" && PYTHONPATH="$WT" /venv/bin/python "$DEMO" ) >> "$LOG" 2>&1; D0=$?
echo "demo on pristine tree: exit $D0" >> "$LOG"
git -C "$WT" apply "$PATCH" >> "$LOG" 2>&1 || { echo "patch does not apply" >> "$LOG"; git -C /repo worktree remove --force "$WT"; exit 2; }
( cd "$WT" && PYTHONPATH="$WT" /venv/bin/python "$DEMO" ) >> "$LOG" 2>&1; D1=$?
echo "demo on patched tree: exit $D1" >> "$LOG"
( cd "$WT" && PYTHONPATH="$WT" /venv/bin/python -m pytest -q -p no:cacheprovider --timeout=3000 "$@" ) > "$OUT/pytest.log" 2>&1; T=$?
tail -n 3 "$OUT/pytest.log" >> "$LOG"
echo "pinned tests on patched tree: exit $T (args: $*)" >> "$LOG"
cp "$PATCH" "$OUT/patch.diff"; cp "$DEMO" "$OUT/demo.py"; cp "$META" "$OUT/meta.agent.json"
git -C /repo worktree remove --force "$WT"
if [ "$D0" = 0 ] && [ "$D1" != 0 ] && [ "$T" = 0 ]; then echo "CONFIRMED" >> "$LOG"; else echo "NOT CONFIRMED" >> "$LOG"; fi
tail -n 1 "$LOG"
