#!/bin/sh
# tools/merge_builder.sh <name>: merge a builder's /work/<name>/verif into /verif, merge findings.d, pick its fix: commits
N="$1"
cd /verif || exit 2
git add -A; git commit -qm "wip before merging $N" 2>/dev/null
git fetch -q /work/"$N"/verif main || exit 2
git merge --no-edit FETCH_HEAD > /tmp/merge.log 2>&1 || { python3 tools/resolve_merge.py; }
python3 - "$N" <<'PY'
import json, pathlib, sys
V = pathlib.Path('/verif')
kf = json.loads((V/'known_findings.json').read_text())
for p in sorted((V/'findings.d').glob('*.json')):
    d = json.loads(p.read_text())
    for k in ('findings', 'fixed'):
        for e in d.get(k, []):
            key = (e.get('property'), e.get('sig') or e.get('what'))
            if not any((x.get('property'), x.get('sig') or x.get('what')) == key for x in kf[k]):
                kf[k].append(e)
(V/'known_findings.json').write_text(json.dumps(kf, indent=1) + "\n")
PY
python3 tools/mk_driver.py; python3 tools/mk_manifest.py
git add -A; git commit -qm "Merge builder $N" ; git log --oneline | head -1
tools/pick_fixes.sh "$N"
