import AasVerif.Drive.C27
/-!
Line-protocol driver: `<Cxx> <fn> <arg>…` per line → one response line.
`bad-op` for anything a handler rejects (never a default value).
-/
open AasVerif

def dispatch (line : String) : String :=
  match (line.trimAscii.toString.splitOn " ") with
  | "C27" :: rest => (Drive.C27.handle rest).getD "bad-op"
  | _ => "bad-op"

partial def loop (h : IO.FS.Stream) (out : IO.FS.Stream) : IO Unit := do
  let line ← h.getLine
  if line.isEmpty then return ()
  out.putStrLn (dispatch line)
  loop h out

def main : IO Unit := do
  let out ← IO.getStdout
  loop (← IO.getStdin) out
  out.flush
