import AasVerif.Model.Collide
namespace AasVerif.Drive.C21
open AasVerif AasVerif.Naming AasVerif.Collide

/-!
Requests (all texts hex-dot encoded, lists comma separated, `[]` = empty list):

* `conv <fn> <ctx> <text>`            → `ok <text>` | `crash:<site>`
* `isident <text>`                    → `1` | `0`
* `verify <target> <types> <consts> <funcs>`     → `ok` | `err <kind>/<owner>/<name>;…` | `crash:<site>`
* `unchecked <target> <types> <consts> <funcs>`  → same, for the scopes no check covers
* `names <target> <types> <consts> <funcs>`      → `<kind>/<owner>=<names>;…` for all emitted scopes | `crash:<site>`

`<types>` is `none` or `;`-separated items
`e:<name>:<used 0|1>:<literals>` | `p:<name>` | `c:<name>:<abstract><hasDesc><used>:<props>:<ownProps>:<methods>`.
-/

def bit (c : Char) : Option Bool := if c = '1' then some true else if c = '0' then some false else none

def decType (s : String) : Option OurType :=
  match s.splitOn ":" with
  | ["e", n, u, ls] => do
    let n ← Text.dec n
    let u ← match u.toList with | [c] => bit c | _ => none
    let ls ← Text.decList ls
    some (.enum { name := n, used := u, literals := ls })
  | ["p", n] => do
    let n ← Text.dec n
    some (.cprim n)
  | ["c", n, flags, ps, os, ms] => do
    let n ← Text.dec n
    let (a, h, u) ← match flags.toList with
      | [a, h, u] => do some ((← bit a), (← bit h), (← bit u))
      | _ => none
    let ps ← Text.decList ps
    let os ← Text.decList os
    let ms ← Text.decList ms
    some (.cls { name := n, abstract := a, hasDesc := h, used := u, props := ps, ownProps := os, methods := ms })
  | _ => none

def decTypes (s : String) : Option (List OurType) :=
  if s == "none" then some [] else
  (s.splitOn ";").foldr (fun p acc => match decType p, acc with
    | some t, some l => some (t :: l)
    | _, _ => none) (some [])

def decMM (ts cs fs : String) : Option MM := do
  let ts ← decTypes ts
  let cs ← Text.decList cs
  let fs ← Text.decList fs
  some { types := ts, consts := cs, funcs := fs }

def showCollision (c : Collision) : String := s!"{c.kind}/{Text.enc c.owner}/{Text.enc c.name}"

def showRes : Res (List Collision) Unit → String
  | .ok () => "ok"
  | .err cs => "err " ++ ";".intercalate (cs.map showCollision)
  | .crash site => "crash:" ++ site

def showNames (scopes : List Scope) : String :=
  match resolve scopes with
  | .error site => "crash:" ++ site
  | .ok l => ";".intercalate (l.map fun (s, ns) => s!"{s.kind}/{Text.enc s.owner}={Text.encList ns}")

def handle : List String → Option String
  | ["conv", fn, ctx, t] => do
    let ctx ← Text.dec ctx
    let t ← Text.dec t
    match conv table fn ctx t with
    | .ok r => some ("ok " ++ Text.enc r)
    | .error site => some ("crash:" ++ site)
  | ["isident", t] => do
    let t ← Text.dec t
    some (if isIdent t then "1" else "0")
  | ["verify", target, ts, cs, fs] => do
    let mm ← decMM ts cs fs
    if target ∈ targets then some (showRes (verify target mm)) else none
  | ["unchecked", target, ts, cs, fs] => do
    let mm ← decMM ts cs fs
    if target ∈ targets then some (showRes (uncheckedCollisions target mm)) else none
  | ["names", target, ts, cs, fs] => do
    let mm ← decMM ts cs fs
    if target ∈ targets then some (showNames (emittedScopes target mm)) else none
  | _ => none

end AasVerif.Drive.C21
