import AasVerif.Drive.C08
import AasVerif.Model.TargetEmit
import AasVerif.Model.TargetEval
/-!
Line protocol of C09.

    emit <ts|java|cpp> <cfg> <vars> <expr>   → `ok <texpr>` | `err` | `crash`
    inv  <ts|java> <cfg> <0|1 long> <expr>   → the condition of the emitted `if`, same answers
    strip <texpr-of-emit…>                   (not offered: `emit` answers both forms)

`cfg`  := the `cfg` of C08 (names, members, functions) followed by `<n> ann*n`,
`ann`  := expr tag <0|1 rawOpt> <0|1 declOpt>,
`tag`  := p <prim> | q <prim> | l | s | eo <text> | et <text> | k | o,
`vars` := <n> <text>*n (generator variables in scope).

`texpr` (prefix tokens, comma separated):

    T | V t | C t | E t | F t | K const | A texpr <P|L|M> t | L t t | U kind texpr | X kind texpr texpr
    | Z texpr n | N kind texpr | I kind texpr texpr | Q kind <0|1> texpr | S texpr
    | M texpr t n texpr*n | G t n texpr*n | c op texpr texpr | ! texpr | B <0|1> n texpr*n
    | b <0|1> texpr texpr | J lang n part*n | q lang <0|1> texpr t iter | P texpr
    part := l t | v conv texpr      iter := e texpr | r texpr texpr

The answer of `emit` is `ok <texpr> <texpr with the parentheses stripped>`.
-/
namespace AasVerif.Drive.C09
open AasVerif AasVerif.Expr AasVerif.TargetEmit
open AasVerif.Drive.C08 (P pText pNat pCounted pBool decAll b01)

def pPrim : P Prim
  | "bool" :: ts => some (.bool, ts) | "int" :: ts => some (.int, ts) | "float" :: ts => some (.float, ts)
  | "str" :: ts => some (.str, ts) | "bytearray" :: ts => some (.bytearray, ts)
  | "length" :: ts => some (.length, ts) | "none" :: ts => some (.none, ts)
  | _ => none

def pTag : P TTag
  | "p" :: ts => do let (p, ts) ← pPrim ts; some (.prim p, ts)
  | "q" :: ts => do let (p, ts) ← pPrim ts; some (.cprim p, ts)
  | "l" :: ts => some (.list, ts)
  | "s" :: ts => some (.set, ts)
  | "eo" :: ts => do let (n, ts) ← pText ts; some (.enumOur n, ts)
  | "et" :: ts => do let (n, ts) ← pText ts; some (.enumType n, ts)
  | "k" :: ts => some (.cls, ts)
  | "o" :: ts => some (.other, ts)
  | _ => none

def pTCfg : P TCfg := fun ts => do
  let (base, ts) ← Drive.C08.pCfg ts
  let (anns, ts) ← pCounted (fun ts => do
    let (e, ts) ← Expr.Wire.pExpr ts
    let (tag, ts) ← pTag ts
    let (r, ts) ← pBool ts
    let (d, ts) ← pBool ts
    some ((Expr.Wire.enc e, (⟨tag, r, d⟩ : Ann)), ts)) ts
  some (⟨base, fun e => (anns.find? (fun x => x.1 == Expr.Wire.enc e)).map (·.2)⟩, ts)

def encConst : Const → List String
  | .bool b => ["kb", b01 b]
  | .int i => ["ki", toString i]
  | .float r => ["kf", Text.enc r]
  | .str s => ["ks", Text.enc s]

def encUnwrap : UnwrapKind → String
  | .javaGet => "get" | .javaOrElseNull => "orElseNull" | .cppDeref => "deref" | .cppDerefParen => "derefParen"

def encLen : LenKind → String
  | .tsLength => "tsLength" | .tsSize => "tsSize" | .javaLength => "javaLength" | .javaSize => "javaSize"
  | .cppSize => "cppSize"

def encContains : ContainsKind → String
  | .tsIncludes => "tsIncludes" | .tsHas => "tsHas" | .javaContains => "javaContains" | .cppContains => "cppContains"

def encNull : NullTest → String
  | .tsStrict => "tsStrict" | .javaNull => "javaNull" | .javaPresent => "javaPresent" | .cppHasValue => "cppHasValue"

def encIndex : IndexKind → String
  | .tsAt => "tsAt" | .javaGet => "javaGet" | .cppAt => "cppAt" | .cppBack => "cppBack"

def encLang : Lang → String
  | .ts => "ts" | .java => "java" | .cpp => "cpp"

def encConv : Conv → String
  | .asIs => "asIs" | .stdToWstring => "stdToWstring" | .base64 => "base64" | .wstringify => "wstringify"

open AasVerif.PyEmit in
def encAttr : AttrKind → String
  | .prop => "P" | .enumLit => "L" | .method => "M"

mutual
  partial def encT : TExpr → List String
    | .that => ["T"]
    | .var x => ["V", Text.enc x]
    | .constRef x => ["C", Text.enc x]
    | .enumRef x => ["E", Text.enc x]
    | .funRef x => ["F", Text.enc x]
    | .lit c => "K" :: encConst c
    | .attr e k n => "A" :: encT e ++ [encAttr k, Text.enc n]
    | .enumLit en l => ["L", Text.enc en, Text.enc l]
    | .unwrap k e => "U" :: encUnwrap k :: encT e
    | .index k c i => "X" :: encIndex k :: encT c ++ encT i
    | .sizeMinus c n => "Z" :: encT c ++ [toString n]
    | .len k e => "N" :: encLen k :: encT e
    | .contains k c m => "I" :: encContains k :: encT c ++ encT m
    | .isNull k b e => "Q" :: encNull k :: b01 b :: encT e
    | .stream e => "S" :: encT e
    | .callMethod e m args => "M" :: encT e ++ Text.enc m :: toString args.length :: args.flatMap encT
    | .callFun f args => "G" :: Text.enc f :: toString args.length :: args.flatMap encT
    | .compare l op r => "c" :: Expr.Wire.encCmp op :: encT l ++ encT r
    | .not e => "!" :: encT e
    | .boolop a vals => "B" :: b01 a :: toString vals.length :: vals.flatMap encT
    | .binop a l r => "b" :: b01 a :: encT l ++ encT r
    | .interp l ps => "J" :: encLang l :: toString ps.length :: ps.flatMap encPart
    | .quant l a c x it => "q" :: encLang l :: b01 a :: encT c ++ Text.enc x :: encIter it
    | .paren e => "P" :: encT e
  partial def encPart : TPart → List String
    | .lit s => ["l", Text.enc s]
    | .fv c e => "v" :: encConv c :: encT e
  partial def encIter : TIter → List String
    | .each e => "e" :: encT e
    | .range a b => "r" :: encT a ++ encT b
end

open AasVerif.PyEmit in
def answer : Res TExpr → String
  | .ok x => "ok " ++ ",".intercalate (encT x) ++ " " ++ ",".intercalate (encT (strip x))
  | .err => "err"
  | .crash => "crash"

def handle : List String → Option String
  | ["emit", lang, cfg, vars, e] => do
    let cfg ← decAll pTCfg cfg
    let vs ← decAll (pCounted pText) vars
    let e ← Expr.Wire.dec e
    match lang with
    | "ts" => some (answer (Ts.transpile cfg vs e))
    | "java" => some (answer (Java.transpile cfg vs .plain e))
    | "cpp" => some (answer (Cpp.transpile cfg vs e))
    | _ => none
  | ["inv", lang, cfg, long, e] => do
    let cfg ← decAll pTCfg cfg
    let e ← Expr.Wire.dec e
    let long ← (match long with | "0" => some false | "1" => some true | _ => none)
    match lang with
    | "ts" => some (answer (Ts.transpileInvariant cfg long e))
    | "java" => some (answer (Java.transpileInvariant cfg long e))
    | _ => none
  | _ => none

end AasVerif.Drive.C09
