import AasVerif.Model.Infer
namespace AasVerif.Drive.C15
open AasVerif AasVerif.Len AasVerif.Infer

/-! Line protocol of C15 (see `harness/props/c15.py` for the Python twin of the encoders). -/

def decOp : String → Option Op
  | "lt" => some .lt | "le" => some .le | "gt" => some .gt
  | "ge" => some .ge | "eq" => some .eq | "ne" => some .ne
  | _ => none

def encOptInt : Option Int → String
  | none => "N"
  | some i => toString i

def decOptInt (s : String) : Option (Option Int) :=
  if s == "N" then some none else s.toInt?.map some

def encBound : Bound → String
  | .min v => s!"min {v}"
  | .max v => s!"max {v}"
  | .exact v => s!"exact {v}"

/-- `m5`, `M-1`, `e3` -/
def decBound (s : String) : Option Bound :=
  match s.toList with
  | 'm' :: rest => (String.ofList rest).toInt?.map Bound.min
  | 'M' :: rest => (String.ofList rest).toInt?.map Bound.max
  | 'e' :: rest => (String.ofList rest).toInt?.map Bound.exact
  | _ => none

def decAll {α : Type} (f : String → Option α) (ps : List String) : Option (List α) :=
  ps.foldr (fun p acc => match f p, acc with
    | some a, some l => some (a :: l)
    | _, _ => none) (some [])

def decListWith {α : Type} (sep : String) (f : String → Option α) (s : String) : Option (List α) :=
  if s == "[]" then some [] else decAll f (s.splitOn sep)

def decNats (s : String) : Option (List Nat) := decListWith "." (·.toNat?) s

def encNats (l : List Nat) : String :=
  if l.isEmpty then "[]" else ".".intercalate (l.map toString)

def encLenC (c : LenC) : String := s!"{encOptInt c.lo}:{encOptInt c.hi}"

def decLenC (s : String) : Option (Option LenC) :=
  if s == "N" then some none else
  match s.splitOn ":" with
  | [a, b] => do
    let lo ← decOptInt a
    let hi ← decOptInt b
    some (some ⟨lo, hi⟩)
  | _ => none

def encOptLenC : Option LenC → String
  | none => "N"
  | some c => encLenC c

/-! ### token parser for expressions and symbol tables -/

abbrev P := StateT (List String) Option

def tok : P String := do
  match (← get) with
  | [] => failure
  | t :: rest => set rest; pure t

def nat : P Nat := do
  match (← tok).toNat? with
  | some n => pure n
  | none => failure

def int : P Int := do
  match (← tok).toInt? with
  | some n => pure n
  | none => failure

partial def many {α : Type} (p : P α) : Nat → P (List α)
  | 0 => pure []
  | n + 1 => do
    let a ← p
    let rest ← many p n
    pure (a :: rest)

def counted {α : Type} (p : P α) : P (List α) := do
  let n ← nat
  many p n

partial def expr : P Expr := do
  match (← tok) with
  | "N" => return .name (← nat)
  | "M" => do
    let e ← expr
    return .member e (← nat)
  | "C" => return .const (← int)
  | "X" => return .other (← nat)
  | "IN" => return .isNone (← expr)
  | "INN" => return .isNotNone (← expr)
  | "NOT" => return .not (← expr)
  | "AND" => return .and (← counted expr)
  | "OR" => return .or (← counted expr)
  | "IMP" => do
    let a ← expr
    return .implies a (← expr)
  | "CMP" => do
    match decOp (← tok) with
    | none => failure
    | some op =>
      let l ← expr
      return .cmp op l (← expr)
  | "CALL" => do
    let f ← nat
    return .call f (← counted expr)
  | "ISIN" => do
    let m ← expr
    return .isIn m (← expr)
  | _ => failure

partial def ty : P Ty := do
  match (← tok) with
  | "P" => do
    let i ← nat
    return .prim i (← nat)
  | "O" => do
    let i ← nat
    let k ← nat
    return .our i k (← nat)
  | "L" => do
    let i ← nat
    return .list i (← ty)
  | "T" => do
    let i ← nat
    return .opt i (← ty)
  | _ => failure

def inv : P Inv := do
  let s ← nat
  return ⟨s, ← expr⟩

def prop : P PropD := do
  let n ← nat
  return ⟨n, ← ty⟩

def cp : P CpD := do
  let i ← nat
  let ps ← counted nat
  let c ← nat
  return ⟨i, ps, c, ← counted inv⟩

def cls : P ClsD := do
  let i ← nat
  let ps ← counted nat
  let props ← counted prop
  return ⟨i, ps, props, ← counted inv⟩

def const : P (Ident × ConstD) := do
  let n ← nat
  match (← tok) with
  | "C" => return (n, .prim)
  | "S" => do
    let t ← nat
    return (n, .primSet t (← counted nat))
  | "E" => do
    let e ← nat
    return (n, .enumSet e (← counted nat))
  | _ => failure

def pat : P (Ident × Nat) := do
  let f ← nat
  return (f, ← nat)

def mm : P MM := do
  match (← tok) with
  | "MM" =>
    let cps ← counted cp
    let classes ← counted cls
    let consts ← counted const
    let pats ← counted pat
    let topo ← counted nat
    return ⟨cps, classes, consts, pats, topo⟩
  | _ => failure

def runP {α : Type} (p : P α) (s : String) : Option α :=
  match p.run (s.splitOn ",") with
  | some (a, []) => some a
  | _ => none

/-! ### printers -/

def encSet : Option (Nat × List Nat) → String
  | none => "N"
  | some (t, l) => s!"{t}:{encNats l}"

def encCons (c : Cons) : String :=
  let pats := match c.pats with
    | none => "N"
    | some l => encNats l
  s!"{encOptLenC c.len}~{pats}~{encSet c.prims}~{encSet c.enums}"

def encByValue (m : ByValue) : String :=
  ";".intercalate (m.map (fun (k, c) => s!"{k}={encCons c}"))

def encByClass (m : List (Nat × ByValue)) : String :=
  "/".intercalate (m.map (fun (k, v) => s!"{k}>{encByValue v}"))

def encRes {α : Type} (f : α → String) : Res α → String
  | .ok a => "ok " ++ f a
  | .err _ => "err"
  | .crash s => "crash:" ++ s

def handle : List String → Option String
  | ["cmp", op, side, c] => do
    let op ← decOp op
    let side ← if side == "L" then some true else if side == "R" then some false else none
    let c ← c.toInt?
    some (match ofComparison op side c with
      | .ok none => "none"
      | .ok (some b) => encBound b
      | .err _ => "err"
      | .crash s => "crash:" ++ s)
  | ["reduce", bs] => do
    let bs ← decListWith "," decBound bs
    some (encRes encLenC (reduce bs))
  | ["merge", a, b] => do
    let a ← decLenC a
    let b ← decLenC b
    some (encRes encOptLenC (merge a b))
  | ["intersect", ls] => do
    let ls ← if ls == "-" then some [] else decAll decNats (ls.splitOn ";")
    some (match intersect ls with
      | some l => "ok " ++ encNats l
      | none => "crash:require")
  | ["mergeset", a, b] => do
    let a ← decNats a
    let b ← decNats b
    some (match mergeSetE a b with
      | some l => encNats l
      | none => "err")
  | ["mergepats", a, b] => do
    let a ← decNats a
    let b ← decNats b
    some (encNats (mergePats a b))
  | ["infer", m] => do
    let m ← runP mm m
    some (match byClass m with
      | .ok r => "ok " ++ encByClass r
      | .err => "err"
      | .crash s => "crash:" ++ s)
  | _ => none

end AasVerif.Drive.C15
