import AasVerif.Model.Lineno
import AasVerif.Gen.Lineno
namespace AasVerif.Drive.C04
open AasVerif AasVerif.Lineno

/-- Single-pass decoder of the text wire format (same language as `Text.dec`, linear time). -/
def decFast (s : String) : Option Text :=
  if s == "-" then some [] else
  let step := fun (st : Option (List Nat × Nat × Bool)) (c : Char) =>
    match st with
    | none => none
    | some (acc, cur, has) =>
      if c == '.' then (if has then some (cur :: acc, 0, false) else none)
      else match Text.unhexDigit c with
        | some d => some (acc, cur * 16 + d, true)
        | none => none
  match s.toList.foldl step (some ([], 0, false)) with
  | some (acc, cur, true) => some ((cur :: acc).reverse)
  | _ => none

def encPositions (ps : List (Nat × Nat)) : String :=
  if ps.isEmpty then "[]" else ",".intercalate (ps.map fun (l, c) => s!"{l}:{c}")

/-- Error tree in prefix notation: `E <start|n> <message> <k>` followed by the `k` underlying errors. -/
partial def parseErr : List String → Option (Err × List String)
  | "E" :: st :: msg :: k :: rest => do
    let start ← if st == "n" then some none else st.toNat?.map some
    let msg ← decFast msg
    let k ← k.toNat?
    let rec go (k : Nat) (acc : List Err) (rest : List String) : Option (List Err × List String) :=
      match k with
      | 0 => some (acc.reverse, rest)
      | k + 1 => do
        let (e, rest) ← parseErr rest
        go k (e :: acc) rest
    let (und, rest) ← go k [] rest
    some (Err.mk start msg und, rest)
  | _ => none

def encRes : Res → String
  | .ok t => "ok " ++ Text.enc t
  | .crash s => "crash:" ++ s

/-- `positions <text>`; `errmsg <text> <error tree>`; `indent <text>` (with the Gen prefix);
`at <text> <start>` → `line:col` of one offset or `crash:IndexError`. -/
def handle : List String → Option String
  | ["positions", t] => do
    let t ← decFast t
    some (encPositions (positions Gen.Lineno.newline t))
  | ["at", t, i] => do
    let t ← decFast t
    let i ← i.toNat?
    match (positions Gen.Lineno.newline t)[i]? with
    | some (l, c) => some s!"{l}:{c}"
    | none => some "crash:IndexError"
  | ["indent", t] => do
    let t ← decFast t
    some (Text.enc (indent Gen.Lineno.indentPrefix t))
  | "errmsg" :: t :: rest => do
    let t ← decFast t
    let (e, rest) ← parseErr rest
    if !rest.isEmpty then none else
    some (encRes (errorMessage Gen.Lineno.prefixTemplate Gen.Lineno.indentPrefix
      (positions Gen.Lineno.newline t) e))
  | _ => none

end AasVerif.Drive.C04
