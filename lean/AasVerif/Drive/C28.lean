import AasVerif.Model.Smoke
namespace AasVerif.Drive.C28
open AasVerif
/-- `rc <failing stage names, comma separated | ->` → `<status> <reporting stage | ->` -/
def handle : List String → Option String
  | ["rc", failing] =>
    let bad := if failing == "-" then [] else failing.splitOn ","
    let r := Smoke.execute (fun s => !bad.contains s)
    some (toString r.1 ++ " " ++ (r.2.getD "-"))
  | ["transpile", failing] =>
    let bad := if failing == "-" then [] else failing.splitOn ","
    some (toString (Smoke.transpileOk (fun s => !bad.contains s)))
  | _ => none
end AasVerif.Drive.C28
