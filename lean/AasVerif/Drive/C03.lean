import AasVerif.Model.Report
namespace AasVerif.Drive.C03
open AasVerif AasVerif.PyStr AasVerif.Report

def natList (l : List Nat) : String :=
  if l.isEmpty then "[]" else ",".intercalate (l.map toString)

/--
* `write <message> <errors>` → `ok <text>` | `crash <site>`
* `indent <text>` → `textwrap.indent(text, "  ")`
* `lines <text>` → `text.splitlines(True)`
* `spaces <a> <b>` / `breaks <a> <b>` → code points in `[a, b)` that are whitespace / line breaks
-/
def handle : List String → Option String
  | ["write", m, es] => do
    let m ← Text.dec m
    let es ← Text.decList es
    match write m es with
    | .ok out => some ("ok " ++ Text.enc out)
    | .crash site => some ("crash " ++ site)
  | ["indent", t] => do
    let t ← Text.dec t
    some (Text.enc (indent [32, 32] t))
  | ["lines", t] => do
    let t ← Text.dec t
    some (Text.encList (splitlinesKeep t))
  | ["spaces", a, b] => do
    let a ← a.toNat?
    let b ← b.toNat?
    some (natList ((List.range (b - a)).map (· + a) |>.filter isSpace))
  | ["breaks", a, b] => do
    let a ← a.toNat?
    let b ← b.toNat?
    some (natList ((List.range (b - a)).map (· + a) |>.filter isBreak))
  | _ => none

end AasVerif.Drive.C03
