import AasVerif.Model.Yielding
import AasVerif.Model.YieldingCheck
namespace AasVerif.Drive.C26
open AasVerif AasVerif.Yielding

/--
* `stages <flow>` → `lin#dropped#compressed#fixed#subroutines` (wire form of every stage)
* `run <flow> <oracle>` → structured run
* `runsub <flow> <oracle>` → state machine over `toSubroutines flow`
* `runflat <stage 0..3> <flow> <oracle>` → goto machine over an intermediate stage
* `wf <flow>` → `1`/`0` (`@require` of the If constructors)
* `check <flow>` → `1`/`0`: the decidable hypothesis `pipelineCheck` of the `_partial` theorems
-/
def handle : List String → Option String
  | ["stages", f] => do
    let flow ← Wire.flow f
    let l := linearize flow
    let d := dropLabels l
    let c := removeNoops d
    let x := fixLabels c
    some ("#".intercalate [Wire.stmts l, Wire.stmts d, Wire.stmts c, Wire.stmts x,
      Wire.subs (toSubroutines flow)])
  | ["run", f, o] => do
    let flow ← Wire.flow f
    let orc ← Wire.oracle o
    some (Wire.result (Flow.run flow orc))
  | ["runsub", f, o] => do
    let flow ← Wire.flow f
    let orc ← Wire.oracle o
    some (Wire.result (runSub (toSubroutines flow) orc))
  | ["runflat", st, f, o] => do
    let flow ← Wire.flow f
    let orc ← Wire.oracle o
    let l := linearize flow
    let code ← match st with
      | "0" => some l
      | "1" => some (dropLabels l)
      | "2" => some (compress l)
      | "3" => some (fixLabels (compress l))
      | _ => none
    some (Wire.result (runFlat code orc))
  | ["check", f] => do
    let flow ← Wire.flow f
    some (if pipelineCheck flow then "1" else "0")
  | ["wf", f] => do
    let flow ← Wire.flow f
    some (if wfSeq flow then "1" else "0")
  | _ => none

end AasVerif.Drive.C26
