import AasVerif.Model.Retree.Wire
import AasVerif.Model.Expr.Wire
namespace AasVerif.Drive.C00
open AasVerif
/-- Shared self-tests of the wire formats: `text <t>` and `regex <r>` echo through decode/encode. -/
def handle : List String → Option String
  | ["text", t] => (Text.dec t).map Text.enc
  | ["list", t] => (Text.decList t).map Text.encList
  | ["regex", r] => (Retree.Wire.dec r).map Retree.Wire.enc
  | ["expr", e] => (Expr.Wire.dec e).map Expr.Wire.enc
  | _ => none
end AasVerif.Drive.C00
