import AasVerif.Model.Lit.Enc
import AasVerif.Model.Lit.Dec
namespace AasVerif.Drive.C19
open AasVerif AasVerif.Lit

def showRes : Res Text → String
  | .ok t => "ok " ++ Text.enc t
  | .err e => "err " ++ e

def showUnits : Option (List Nat) → String
  | some u => "some " ++ Text.enc u
  | none => "none"

def bit? : String → Option Bool
  | "0" => some false
  | "1" => some true
  | _ => none

/-- Python strings hold code points below 0x110000 only -/
def pyText (w : String) : Option Text := do
  let t ← Text.dec w
  if t.all (fun c => decide (c < 0x110000)) then some t else none

def encVariant (v : String) (s : Text) : Option (Res Text) :=
  match v.splitOn ":" with
  | ["py", q, we, dup] => do
    let q ← (match q with | "n" => some PyQuoting.none | "s" => some .single | "d" => some .double | _ => none)
    some (enc_py q (← bit? we) (← bit? dup) s)
  | ["ts", we, bt] => do some (enc_ts (← bit? we) (← bit? bt) s)
  | ["cppw"] => some (enc_cppw s)
  | ["cppn"] => some (enc_cppn s)
  | ["cppc"] => some (enc_cppc s)
  | ["cs"] => some (enc_cs s)
  | ["java"] => some (enc_java s)
  | ["go"] => some (enc_go s)
  | _ => none

def decReader (r : String) (l : Text) : Option (Option (List Nat)) :=
  match r with
  | "py" => some (dec_py false l)
  | "pyf" => some (dec_py true l)
  | "cppw" => some (dec_cppw l)
  | "cppn" => some (dec_cppn l)
  | "cppc" => some (dec_cppc l)
  | "cs" => some (dec_cs l)
  | "java" => some (dec_java l)
  | "tsq" => some (dec_tsq l)
  | "tst" => some (dec_tst l)
  | "go" => some (dec_go l)
  | _ => none

def needsVariant (v : String) (s : Text) : Option Bool :=
  match v with
  | "py:0" => some (needs_py false s)
  | "py:1" => some (needs_py true s)
  | "cpp" => some (needs_cpp s)
  | "cs" => some (needs_cs s)
  | "java" => some (needs_java s)
  | "ts:0" => some (needs_ts false s)
  | "ts:1" => some (needs_ts true s)
  | "go" => some (needs_go s)
  | _ => none

def bytesOf (lang : String) (b : List Nat) : Option (Text × Bool) :=
  match lang with
  | "py" => some (bytes_py b)
  | "cpp" => some (bytes_cpp b)
  | "ts" => some (bytes_ts b)
  | "go" => some (bytes_go b)
  | _ => none

def decBytesOf (lang : String) (l : Text) : Option (Option (List Nat)) :=
  match lang with
  | "py" => some (decbytes_py l)
  | "cpp" => some (decbytes_cpp l)
  | "ts" => some (decbytes_ts l)
  | "go" => some (decbytes_go l)
  | _ => none

def handle : List String → Option String
  | ["enc", v, t] => do
    let s ← pyText t
    some (showRes (← encVariant v s))
  | ["dec", r, t] => do
    let l ← pyText t
    some (showUnits (← decReader r l))
  | ["needs", v, t] => do
    let s ← pyText t
    some (if (← needsVariant v s) then "true" else "false")
  | ["bytes", lang, t] => do
    let b ← Text.dec t
    if b.all (fun x => decide (x < 256)) then
      let (l, m) ← bytesOf lang b
      some ("ok " ++ Text.enc l ++ (if m then " 1" else " 0"))
    else none
  | ["decbytes", lang, t] => do
    let l ← pyText t
    some (showUnits (← decBytesOf lang l))
  | ["utf16", t] => do
    let s ← pyText t
    some (Text.enc (s.flatMap utf16cp))
  | ["utf8", t] => do
    let s ← pyText t
    some (Text.enc (s.flatMap utf8cp))
  | _ => none

end AasVerif.Drive.C19
