import AasVerif.Model.SortedEmit
import AasVerif.Model.OutDir
namespace AasVerif.Drive.C22
open AasVerif AasVerif.SortedEmit

def showIdx (l : List Nat) : String :=
  if l.isEmpty then "[]" else ",".intercalate (l.map toString)

/-- children from parallel lists: tags, flags (`1` = has a `name` attribute), names -/
def mkElts : List Text → List Char → List Text → Nat → Option (List Elt)
  | [], [], [], _ => some []
  | t :: ts, f :: fs, n :: ns, i => do
    let rest ← mkElts ts fs ns (i + 1)
    let name ← if f == '1' then some (some n) else if f == '0' then some none else none
    some ({ tag := t, name := name, uid := i } :: rest)
  | _, _, _, _ => none

def enumFrom : Nat → List Text → List (Text × Nat)
  | _, [] => []
  | i, k :: ks => (k, i) :: enumFrom (i + 1) ks

/--
* `sorttexts <list>` → `sorted(list)`
* `emit <keys in insertion order>` → keys of the emitted `definitions` (values are the insertion indices)
* `xsd <tags> <flags> <names>` → uids of the children after `_sort_by_tags_and_names_in_place`
* `outdir <paths before> <contents before> <paths written> <contents written> <queried paths>` →
  per queried path `31.<content>` (a file with that content) or `30` (no file) after the writing loop
-/
def handle : List String → Option String
  | ["sorttexts", l] => do
    let l ← Text.decList l
    some (Text.encList (sortTexts l))
  | ["emit", ks] => do
    let ks ← Text.decList ks
    match emitDefinitions (enumFrom 0 ks) with
    | some d => some (Text.encList (d.map Prod.fst) ++ " " ++ showIdx (d.map Prod.snd))
    | none => some "crash:KeyError"
  | ["xsd", tags, flags, names] => do
    let tags ← Text.decList tags
    let names ← Text.decList names
    let fl := if flags == "-" then [] else flags.toList
    let elts ← mkElts tags fl names 0
    match xsdSort elts with
    | some out => some (showIdx (out.map Elt.uid))
    | none => some "crash:AssertionError"
  | ["outdir", hp, hc, wp, wc, qs] => do
    let hp ← Text.decList hp
    let hc ← Text.decList hc
    let wp ← Text.decList wp
    let wc ← Text.decList wc
    let qs ← Text.decList qs
    if hp.length != hc.length || wp.length != wc.length then none else
    let fs := OutDir.writeAll (hp.zip hc) (wp.zip wc)
    some (Text.encList (qs.map (fun q => match OutDir.read fs q with
      | some c => 49 :: c
      | none => [48])))
  | _ => none

end AasVerif.Drive.C22
