import AasVerif.Model.Retree.Parse
import AasVerif.Model.Retree.Render
import AasVerif.Model.Retree.InRange
import AasVerif.Model.Retree.Wire
import AasVerif.Gen.Retree
namespace AasVerif.Drive.C16
open AasVerif AasVerif.Retree

/-- parts on the wire: `[]` or comma separated `s:<text>` / `f<id>` -/
def decPart (s : String) : Option Part :=
  if s.startsWith "s:" then (Text.dec (s.drop 2).toString).map .str
  else if s.startsWith "f" then (s.drop 1).toString.toNat?.map .fv
  else none

def decParts (s : String) : Option (List Part) :=
  if s == "[]" then some [] else
  (s.splitOn ",").foldr (fun p acc => match decPart p, acc with
    | some x, some l => some (x :: l)
    | _, _ => none) (some [])

def encPart : Part → String
  | .str t => "s:" ++ Text.enc t
  | .fv i => "f" ++ toString i

def encParts (ps : List Part) : String :=
  if ps.isEmpty then "[]" else ",".intercalate (ps.map encPart)

def siteName : Site → String
  | .cursorPrecondition => "cursorPrecondition"
  | .fuel => "fuel"
  | .charLiteralSpecial => "charLiteralSpecial"
  | .charLiteralNoChar => "charLiteralNoChar"
  | .rangeCharDone => "rangeCharDone"
  | .rangeCharDash => "rangeCharDash"
  | .quantifierMinMax => "quantifierMinMax"
  | .termSymbolQuantifier => "termSymbolQuantifier"
  | .loopInvariant => "loopInvariant"
  | .overlapKeyError => "overlapKeyError"

/-- `parse <parts>` → `ok <tree>` | `err <offset> <kind>` | `crash <site>`;
`render <tree>` → parts; `inrange <tree>` → `1`/`0` (is the tree in the image of the parser). -/
def handle : List String → Option String
  | ["parse", ps] => do
    let ps ← decParts ps
    some (match parse ps with
      | .ok r => "ok " ++ Wire.enc r
      | .err e => "err " ++ toString e.pos ++ " " ++ (reprStr e.kind).replace "AasVerif.Retree.ErrKind." ""
      | .crash s => "crash " ++ siteName s)
  | ["render", w] => do
    let r ← Wire.dec w
    some (encParts (render Gen.Retree.escLiteral Gen.Retree.escRange r))
  | ["inrange", w] => do
    let r ← Wire.dec w
    some (if inRangeTop r then "1" else "0")
  | _ => none

end AasVerif.Drive.C16
