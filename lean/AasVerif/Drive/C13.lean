import AasVerif.Model.XsdPattern
import AasVerif.Model.Retree.Wire
import AasVerif.Gen.Xsd
namespace AasVerif.Drive.C13
open AasVerif AasVerif.Retree AasVerif.XsdPattern

def showUndo : Undo → String
  | .ok t => "ok " ++ Text.enc t
  | .valueError => "crash ValueError"

def errName (e : XsdRe.Err) : String := (reprStr e).replace "AasVerif.XsdPattern.XsdRe.Err." ""

def bits (x : Union) (ss : List Text) : String :=
  String.ofList (ss.map fun s => if XsdRe.matchB x s then '1' else '0')

/--
* `undox <text>` → `ok <text>` | `crash ValueError`
* `greenery <text>` → `ok <text>` | `err parse` | `crash <what>` (`_render_pattern_for_greenery`)
* `escanchors <text>` → `ok <text>` (`_escape_carets_and_dollars_rendered_by_greenery`)
* `translate <text>` → `ok <text>` | `err parse` | `err nonxml <code>` | `crash <what>`
* `read <text>` → `ok <tree>` | `err <kind>`
* `match <pattern text> <texts>` → `ok <bits>` (one `0`/`1` per text) | `err <kind>`
-/
def handle : List String → Option String
  | ["undox", t] => do
    let t ← Text.dec t
    some (showUndo (undoX Gen.Xsd.hexClassX t))
  | ["greenery", t] => do
    let t ← Text.dec t
    some (match renderForGreenery Gen.Xsd.grnLiteral Gen.Xsd.grnRange t with
      | .ok r => "ok " ++ Text.enc r
      | .parseErr _ => "err parse"
      | .nonXml c => "err nonxml " ++ toString c
      | .crashParse _ => "crash parse"
      | .crashFormattedValue => "crash formatted-value")
  | ["escanchors", t] => do
    let t ← Text.dec t
    some ("ok " ++ Text.enc (escAnchors false t))
  | ["translate", t] => do
    let t ← Text.dec t
    some (match translate Gen.Xsd.xsdLiteral Gen.Xsd.xsdRange t with
      | .ok r => "ok " ++ Text.enc r
      | .parseErr _ => "err parse"
      | .nonXml c => "err nonxml " ++ toString c
      | .crashParse _ => "crash parse"
      | .crashFormattedValue => "crash formatted-value")
  | ["read", t] => do
    let t ← Text.dec t
    some (match XsdRe.read t with
      | .ok x => "ok " ++ Wire.enc x
      | .error e => "err " ++ errName e)
  | ["match", t, ss] => do
    let t ← Text.dec t
    let ss ← Text.decList ss
    some (match XsdRe.read t with
      | .ok x => "ok " ++ bits x ss
      | .error e => "err " ++ errName e)
  | _ => none

end AasVerif.Drive.C13
