import AasVerif.Model.Fix16
import AasVerif.Model.Retree.Wire
namespace AasVerif.Drive.C17
open AasVerif AasVerif.Retree AasVerif.Fix16

def b (x : Bool) : String := if x then "1" else "0"

/-- * `fix <wire>` → `ok <wire>` | `crash:<PythonExceptionType>`
    * `surrogates <code>` → `ok <hi> <lo>` | `crash:ViolationError`
    * `utf16 <text>` → text of code units
    * `hyp <wire>` → `<NoDotNoComplement 0/1> <NoSurrogateLiterals 0/1> <FixWF 0/1>`
    * `scalar <text>` → `<Scalar 0/1> <BmpOnly 0/1>` -/
def handle : List String → Option String
  | ["fix", w] => do
    let r ← Wire.dec w
    match fix r with
    | .ok r' => some ("ok " ++ Wire.enc r')
    | .error e => some ("crash:" ++ e.pyName)
  | ["surrogates", c] => do
    let c ← c.toNat?
    match convert c with
    | .ok (h, l) => some s!"ok {h} {l}"
    | .error e => some ("crash:" ++ e.pyName)
  | ["utf16", t] => do
    let t ← Text.dec t
    some (Text.enc (utf16 t))
  | ["hyp", w] => do
    let r ← Wire.dec w
    some (b (ndcUnion r) ++ " " ++ b (nslUnion r) ++ " " ++ b (wfUnion r))
  | ["scalar", t] => do
    let t ← Text.dec t
    some (b (decide (Scalar t)) ++ " " ++ b (decide (BmpOnly t)))
  | _ => none

end AasVerif.Drive.C17
