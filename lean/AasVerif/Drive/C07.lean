import AasVerif.Model.Expr.TyWire
import AasVerif.Model.Expr.TypeMap
import AasVerif.Model.Expr.Contract
import AasVerif.Model.Expr.Conforms
namespace AasVerif.Drive.C07
open AasVerif AasVerif.Expr AasVerif.Expr.TyWire

def showTy : Option Ty → String
  | some τ => encTy τ
  | none => "!"

mutual
  /-- all sub-expressions in pre-order (the nodes of the shared syntax only) -/
  def subs : Expr → List Expr
    | .member i n => .member i n :: subs i
    | .index c i => .index c i :: (subs c ++ subs i)
    | .cmp l op r => .cmp l op r :: (subs l ++ subs r)
    | .isIn m c => .isIn m c :: (subs m ++ subs c)
    | .impl a c => .impl a c :: (subs a ++ subs c)
    | .methodCall i n args => .methodCall i n args :: .member i n :: (subs i ++ subsList args)
    | .name x => [.name x]
    | .funCall n args => .funCall n args :: subsList args
    | .const c => [.const c]
    | .isNone e => .isNone e :: subs e
    | .isNotNone e => .isNotNone e :: subs e
    | .not e => .not e :: subs e
    | .and es => .and es :: subsList es
    | .or es => .or es :: subsList es
    | .add l r => .add l r :: (subs l ++ subs r)
    | .sub l r => .sub l r :: (subs l ++ subs r)
    | .joinedStr ps => .joinedStr ps :: subsParts ps
    | .any g c => .any g c :: (subsGen g ++ subs c)
    | .all g c => .all g c :: (subsGen g ++ subs c)
  def subsList : List Expr → List Expr
    | [] => []
    | e :: es => subs e ++ subsList es
  def subsParts : List JPart → List Expr
    | [] => []
    | .lit _ :: ps => subsParts ps
    | .fv e :: ps => subs e ++ subsParts ps
  def subsGen : Gen → List Expr
    | .forEach _ it => subs it
    | .forRange _ a b => subs a ++ subs b
end

/--
* `infer <decls> <self> <expr>` → `ok <ty>|<ty>;<ty>;…` (result of `infer_for_invariant`, then the type
  map in pre-order) / `err <kind>;<kind>;…` / `crash <site>`
* `accept <decls> <self> <expr>` → the same verdict with the Python transpiler's check of `len` applied
  as well (`ok` / `err <kind>;…` / `crash <site>`), then `|` and `1`/`0`: no function or method is used
  as a value (`noFnValues`, the side condition of the soundness theorem) and `1`/`0`: `Expr.wf`
* `wf <decls>` → `1`/`0`: the decidable well-formedness `Decls.wfb` (hypothesis `Decls.WF` of the theorems)
* `canon <expr>` → the canonical string of every sub-expression in pre-order (texts, `,`)
* `contract <decls> <expr>` → number of `_ContractChecker` errors
-/
def handle : List String → Option String
  | ["infer", d, self, e] => do
    let D ← decDecls d
    let self ← Text.dec self
    let e ← Wire.dec e
    let Γ := TEnv.forSelf D self
    match inferInvC Γ e with
    | .ok τ => some s!"ok {encTy τ}|{";".intercalate ((tmap canon Γ [] e).map showTy)}"
    | .err es => some s!"err {";".intercalate (es.map encErr)}"
    | .crash s => some s!"crash {s}"
  | ["accept", d, self, e] => do
    let D ← decDecls d
    let self ← Text.dec self
    let e ← Wire.dec e
    let Γ := TEnv.forSelf D self
    let side := s!"|{if noFnValuesB canon Γ.withBackend [] e then "1" else "0"}|{if e.wf then "1" else "0"}"
    match acceptsPy Γ e with
    | .ok _ => some ("ok" ++ side)
    | .err es => some (s!"err {";".intercalate (es.map encErr)}" ++ side)
    | .crash s => some (s!"crash {s}" ++ side)
  | ["wf", d] => do
    let D ← decDecls d
    some (if D.wfb then "1" else "0")
  | ["canon", e] => do
    let e ← Wire.dec e
    some (Text.encList ((subs e).map canon))
  | ["contract", d, e] => do
    let D ← decDecls d
    let e ← Wire.dec e
    some (toString (contractErrs D e))
  | _ => none

end AasVerif.Drive.C07
