import AasVerif.Model.Expr.TyWire
import AasVerif.Model.Expr.TypeMap
import AasVerif.Model.Expr.Contract
namespace AasVerif.Drive.C07
open AasVerif AasVerif.Expr AasVerif.Expr.TyWire

def showTy : Option Ty → String
  | some τ => encTy τ
  | none => "!"

mutual
  /-- all sub-expressions in pre-order (the nodes of the shared syntax only) -/
  def subs : Expr → List Expr
    | .member i n => .member i n :: subs i
    | .index c i => .index c i :: (subs c ++ subs i)
    | .cmp l op r => .cmp l op r :: (subs l ++ subs r)
    | .isIn m c => .isIn m c :: (subs m ++ subs c)
    | .impl a c => .impl a c :: (subs a ++ subs c)
    | .methodCall i n args => .methodCall i n args :: .member i n :: (subs i ++ subsList args)
    | .name x => [.name x]
    | .funCall n args => .funCall n args :: subsList args
    | .const c => [.const c]
    | .isNone e => .isNone e :: subs e
    | .isNotNone e => .isNotNone e :: subs e
    | .not e => .not e :: subs e
    | .and es => .and es :: subsList es
    | .or es => .or es :: subsList es
    | .add l r => .add l r :: (subs l ++ subs r)
    | .sub l r => .sub l r :: (subs l ++ subs r)
    | .joinedStr ps => .joinedStr ps :: subsParts ps
    | .any g c => .any g c :: (subsGen g ++ subs c)
    | .all g c => .all g c :: (subsGen g ++ subs c)
  def subsList : List Expr → List Expr
    | [] => []
    | e :: es => subs e ++ subsList es
  def subsParts : List JPart → List Expr
    | [] => []
    | .lit _ :: ps => subsParts ps
    | .fv e :: ps => subs e ++ subsParts ps
  def subsGen : Gen → List Expr
    | .forEach _ it => subs it
    | .forRange _ a b => subs a ++ subs b
end

/--
* `infer <decls> <self> <expr>` → `ok <ty>|<ty>;<ty>;…` (result, then the type map in pre-order)
  / `err <kind>;<kind>;…` / `crash <site>`
* `canon <expr>` → the canonical string of every sub-expression in pre-order (texts, `,`)
* `contract <decls> <expr>` → number of `_ContractChecker` errors
-/
def handle : List String → Option String
  | ["infer", d, self, e] => do
    let D ← decDecls d
    let self ← Text.dec self
    let e ← Wire.dec e
    let Γ := TEnv.forSelf D self
    match inferC Γ e with
    | .ok τ => some s!"ok {encTy τ}|{";".intercalate ((tmap canon Γ [] e).map showTy)}"
    | .err es => some s!"err {";".intercalate (es.map encErr)}"
    | .crash s => some s!"crash {s}"
  | ["canon", e] => do
    let e ← Wire.dec e
    some (Text.encList ((subs e).map canon))
  | ["contract", d, e] => do
    let D ← decDecls d
    let e ← Wire.dec e
    some (toString (contractErrs D e))
  | _ => none

end AasVerif.Drive.C07
