import AasVerif.Model.RevmSpec
import AasVerif.Model.Retree.Wire
import AasVerif.Gen.Revm
namespace AasVerif.Drive.C18
open AasVerif AasVerif.Revm

def encRanges (rs : List Range) : String :=
  ",".intercalate (rs.map fun r => s!"{r.first}-{r.last}")

def encInstr : Instr → String
  | .char c => s!"c{c}"
  | .set rs => s!"s{encRanges rs}"
  | .notSet rs => s!"n{encRanges rs}"
  | .any => "a"
  | .matched => "m"
  | .jump t => s!"j{t}"
  | .split a b => s!"p{a},{b}"
  | .atEnd => "e"
  | .noop => "x"

def encLeaf (l : Leaf) : String :=
  match l.label with
  | some k => s!"{k}:{encInstr l.instr}"
  | none => encInstr l.instr

def encProgram (ls : List Leaf) : String :=
  if ls.isEmpty then "-" else ";".intercalate (ls.map encLeaf)

mutual
  def encTree : Tree → List String
    | .leaf l => [encLeaf l]
    | .node cs => "(" :: encTrees cs ++ [")"]
  def encTrees : List Tree → List String
    | [] => []
    | t :: ts => encTree t ++ encTrees ts
end

def crashType (site : String) : String :=
  "crash:" ++ (site.splitOn ":").headD site

def encOut : Option Out → String
  | none => "fuel"
  | some (.ret true) => "1"
  | some (.ret false) => "0"
  | some (.crash s) => "crash:" ++ s


/--
* `translate <regex>` → `ok <shape> <program>` | `crash:<ExceptionType>`
* `raw <regex>` → the nested tree of `_Translator().transform(regex)` before the post-passes
* `compile <regex>` → the clean compositional program (no labels)
* `accepted <regex>` → `1`/`0`: the hypothesis `Accepted` of the theorems
* `match <fuel> <regex> <text>` → `<new> <old>`: the `Match` loop as generated now (per `Gen.Revm.popClearsHas`)
  with the proved-sufficient fuel, and the loop with `Pop` resetting `has_` with the given fuel
* `inranges <first-last,…> <c>` → `<CharacterInRanges> <any>`
-/
def handle : List String → Option String
  | ["translate", w] => do
    let r ← Retree.Wire.dec w
    match translateFrom r with
    | .crash s => some (crashType s)
    | .ok (p, sh) => some s!"ok {sh} {encProgram p}"
  | ["raw", w] => do
    let r ← Retree.Wire.dec w
    match transformRegex r 0 with
    | .crash s => some (crashType s)
    | .ok (t, n) => some s!"ok {n} {";".intercalate (encTree t)}"
  | ["compile", w] => do
    let r ← Retree.Wire.dec w
    some (encProgram ((compileTop r).map fun i => ⟨i, none⟩))
  | ["accepted", w] => do
    let r ← Retree.Wire.dec w
    some (if acceptedB r then "1" else "0")
  | ["match", fuel, w, t] => do
    let r ← Retree.Wire.dec w
    let t ← Text.dec t
    let fuel ← fuel.toNat?
    match translate r with
    | .crash s => some (crashType s)
    | .ok ls =>
      let p := instrs ls
      let cur := runCpp Gen.Revm.popClearsHas (if Gen.Revm.popClearsHas then fuel else p.length + 1) p t
      let old := runCpp true fuel p t
      let new := runCpp false (p.length + 1) p t
      some s!"{encOut cur} {encOut new} {encOut old} {if cppConstructible p then 1 else 0}"
  | ["inranges", rs, c] => do
    let c ← c.toNat?
    let parts := if rs == "-" then [] else rs.splitOn ","
    let rs ← parts.mapM fun s => match s.splitOn "-" with
      | [a, b] => do some (⟨← a.toNat?, ← b.toNat?⟩ : Range)
      | _ => none
    some s!"{if cppInRanges rs c then 1 else 0} {if inRanges rs c then 1 else 0}"
  | _ => none

end AasVerif.Drive.C18
