import AasVerif.Model.FrontEnd
namespace AasVerif.Drive.C01
open AasVerif AasVerif.FrontEnd
/-- `args set|prim <n>` → `ok <indices>` | `crash <i>`;  `load <first failing stage | ->` → `table` | `error <stage>`;
`loadg` see below -/
def handle : List String → Option String
  | ["args", which, n] => do
    let n ← n.toNat?
    let reads ← if which == "set" then some Gen.FrontEnd.constantSetArgReads
      else if which == "prim" then some Gen.FrontEnd.constantPrimitiveArgReads else none
    match readArgs n reads with
    | .ok l => some ("ok " ++ ",".intercalate (l.map toString))
    | .crash i => some ("crash " ++ toString i)
  | ["load", failing] =>
    let bad := if failing == "-" then [] else failing.splitOn ","
    match load (fun s => !bad.contains s) (fun s => Text.ofString s) Gen.FrontEnd.loadModelStages with
    | .table => some "table"
    | .error m => some ("error " ++ String.ofList (m.map Char.ofNat))
  | ["loadg", failing, overflowing] =>
    -- `loadg <failing stages | -> <overflowing stages | ->` → `table` | `error <stage>` | `error too-deep` | `crash`
    let bad := if failing == "-" then [] else failing.splitOn ","
    let deep := if overflowing == "-" then [] else overflowing.splitOn ","
    let res : String → StageOut := fun s => if deep.contains s then .overflow else if bad.contains s then .failed else .ok
    match loadG (fun s => Gen.FrontEnd.loadModelRecursionGuardedStages.contains s) res (fun s => Text.ofString s)
        (Text.ofString "too-deep") Gen.FrontEnd.loadModelStages with
    | .table => some "table"
    | .error m => some ("error " ++ String.ofList (m.map Char.ofNat))
    | .crash => some "crash"
  | _ => none
end AasVerif.Drive.C01
