import AasVerif.Model.SdkConst
namespace AasVerif.Drive.C30
open AasVerif AasVerif.SdkConst

/-! Wire format (one token per request argument, no spaces inside):

* value: `B:0` `B:1` `I:<decimal>` `F:<hex text of repr>` `S:<hex text>` `Y:<hex bytes>`
* list of X: `,`-joined, `[]` when empty (e.g. the names of the classes)
* enumeration: `<name>/<lit>=<value>,…`; list of enumerations `;`-joined, `[]` when empty
* constant: `P/<name>/<declared>/<value>` | `S/<name>/<item>/<values>/<superset_of>` |
  `E/<name>/<enum>/<literal names>/<superset_of>`; list `;`-joined, `[]` when empty
-/

def listOf {α : Type} (sep : String) (f : String → Option α) (s : String) : Option (List α) :=
  if s == "[]" then some [] else
  (s.splitOn sep).foldr (fun p acc => match f p, acc with
    | some a, some l => some (a :: l)
    | _, _ => none) (some [])

def decPrim : String → Option Prim
  | "bool" => some .bool | "int" => some .int | "float" => some .float
  | "str" => some .str | "bytearray" => some .bytearray | _ => none

def decVal (s : String) : Option Val :=
  match s.splitOn ":" with
  | ["B", "0"] => some (.bool false)
  | ["B", "1"] => some (.bool true)
  | ["I", n] => n.toNat?.map .int
  | ["F", t] => (Text.dec t).map .float
  | ["S", t] => (Text.dec t).map .str
  | ["Y", t] => (Text.dec t).map .bytes
  | _ => none

def encVal : Val → String
  | .bool b => if b then "B:1" else "B:0"
  | .int n => "I:" ++ toString n
  | .float t => "F:" ++ Text.enc t
  | .str t => "S:" ++ Text.enc t
  | .bytes t => "Y:" ++ Text.enc t

def decLit (s : String) : Option (Name × Text) :=
  match s.splitOn "=" with
  | [n, v] => do some (← Text.dec n, ← Text.dec v)
  | _ => none

def decEnum (s : String) : Option EnumDecl :=
  match s.splitOn "/" with
  | [n, ls] => do some { name := ← Text.dec n, literals := ← listOf "," decLit ls }
  | _ => none

def decConst (s : String) : Option Const :=
  match s.splitOn "/" with
  | ["P", n, d, v] => do some (.prim (← Text.dec n) (← decPrim d) (← decVal v))
  | ["S", n, t, vs, ss] => do
    some (.primSet (← Text.dec n) (← decPrim t) (← listOf "," decVal vs) (← listOf "," Text.dec ss))
  | ["E", n, e, ls, ss] => do
    some (.enumSet (← Text.dec n) (← Text.dec e) (← listOf "," Text.dec ls) (← listOf "," Text.dec ss))
  | _ => none

def decMM (es cls cs : String) : Option MM := do
  some { enums := ← listOf ";" decEnum es, classes := ← listOf "," Text.dec cls, constants := ← listOf ";" decConst cs }

def join (sep : String) (xs : List String) : String := if xs.isEmpty then "[]" else sep.intercalate xs

def sorted (xs : List String) : List String := xs.mergeSort fun a b => !(decide (b < a))

def encExposed : Exposed → String
  | .val v => "V/" ++ encVal v
  | .set vs => "S/" ++ join "," (sorted (vs.map encVal))
  | .enumSet e ms => "E/" ++ Text.enc e ++ "/" ++ join "," (sorted (ms.map Text.enc))
  | .broken => "X"

def encEnumMembers (e : EnumDecl) : String :=
  Text.enc e.name ++ "/" ++ join "," ((enumMembers e).map fun m => Text.enc m.1 ++ "=" ++ Text.enc m.2)

def encStage : Stage → String
  | .parse => "parse" | .verify => "verify" | .translate => "translate"

def encErr : Err → String
  | .subsetMissing _ s => "missing:" ++ Text.enc s
  | .subsetKind _ s => "kind:" ++ Text.enc s
  | .subsetType _ s => "type:" ++ Text.enc s
  | .notContained _ s _ => "notcontained:" ++ Text.enc s
  | _ => "other"

def boolStr (b : Bool) : String := if b then "1" else "0"

def handle : List String → Option String
  /- the front end and, when it accepts, everything the three generated modules expose -/
  | ["sdk", es, cls, cs] => (decMM es cls cs).map fun mm =>
    match frontEnd mm with
    | .crash s => "crash:" ++ s
    | .rejected st _ => "rejected:" ++ encStage st
    | .accepted table =>
      "accepted " ++
      join ";" ((constants some mm.enums table).map fun (n, x) => Text.enc n ++ "=" ++ encExposed x)
      ++ " " ++ join ";" (mm.enums.map encEnumMembers)
  /- `<enum>_from_str` on a list of probe texts -/
  | ["fromstr", es, e, probes] => do
    let enums ← listOf ";" decEnum es
    let ed ← findEnum enums (← Text.dec e)
    let ps ← listOf "," Text.dec probes
    some (join "," (ps.map fun p => match enumFromStr ed p with | some m => Text.enc m | none => "!"))
  /- `E.<literal>` for every declared literal: the member it denotes and its value -/
  | ["members", es, e] => do
    let enums ← listOf ";" decEnum es
    let ed ← findEnum enums (← Text.dec e)
    some (join "," (ed.names.map fun n =>
      match memberOf ed n with
      | some m => Text.enc m ++ "=" ++ (match enumToStr ed m with | some v => Text.enc v | none => "!")
      | none => "!"))
  /- `_resolve_subsets_in_constant_set_of_*` called on the constant `name` of the first-pass
     table with its placeholders replaced -/
  | ["resolve", es, cs, name, placeholders] => do
    let mm ← decMM es "[]" cs
    let n ← Text.dec name
    let ps ← listOf "," Text.dec placeholders
    match firstPass mm.enums mm.constants with
    | .ok table =>
      match lookup table n with
      | none => some "no-such-constant"
      | some c =>
        let c' := c.withSubsets ps
        match resolveSubsets table c' with
        | .ok r => some ("ok:" ++ join "," (r.map Text.enc) ++ " ensures=" ++ boolStr (ensuresHold table c' r))
        | .error errs => some ("err:" ++ join "," (sorted (errs.map encErr)).eraseDups)
    | _ => some "bad-table"
  | _ => none

end AasVerif.Drive.C30
