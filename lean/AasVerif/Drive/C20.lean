import AasVerif.Model.Descr
import AasVerif.Model.Lex
import AasVerif.Model.Indent
import AasVerif.Gen.Descr
namespace AasVerif.Drive.C20
open AasVerif AasVerif.Descr AasVerif.Lex

def showRes : Res → String
  | .ok t => "ok:" ++ Text.enc t
  | .crash s => "crash:" ++ s

/-- Consecutive code characters are merged into one `k:<text>` item. -/
def showToks : List Tok → List Nat → List String
  | [], [] => []
  | [], pend => ["k:" ++ Text.enc pend.reverse]
  | .code c :: r, pend => showToks r (c :: pend)
  | t :: r, pend =>
    (if pend.isEmpty then [] else ["k:" ++ Text.enc pend.reverse]) ++
    (match t with
      | .comment b => "c:" ++ Text.enc b
      | .str v => "s:" ++ Text.enc v
      | .nl => "n"
      | .bad w => "bad:" ++ w
      | .code _ => "") :: showToks r []

def showLex (ts : List Tok) : String :=
  let l := showToks ts []
  if l.isEmpty then "[]" else " ".intercalate l

open Gen.Descr in
def wrapper : String → Option (Text → Res)
  | "docstring" => some (docstring pyDocRepls pyDocLimit pyDocNoShortSuffix pyDocShort pyDocLong)
  | "pycomment" => some (lineComment pyEmpty pyPre id)
  | "go" => some (lineComment goEmpty goPre id)
  | "cpp" => some (lineComment cppEmpty cppPre (cppFixLine cppTrail cppRepl))
  | "java" => some (blockComment javaRepls javaOpen javaPre javaSuf javaEmpty javaClose)
  | "ts" => some (blockComment tsRepls tsOpen tsPre tsSuf tsEmpty tsClose)
  | "cs" => some (csComment csEmpty csPre)
  | "csesc" => some (fun t => .ok (csVisitText csRanges csRepl t))
  | _ => none

def lexer : String → Option (Text → String)
  | "python" => some (fun t => showLex (lexPython t))
  | "java" => some (fun t => match lexJava t with | none => "illegal-unicode-escape" | some ts => showLex ts)
  | "js" => some (fun t => showLex (lexC js .code t))
  | "cpp" => some (fun t => showLex (lexC cpp .code t))
  | "go" => some (fun t => showLex (lexC go .code t))
  | "cs" => some (fun t => showLex (lexC cs .code t))
  | _ => none

/-- `w <wrapper> <text>` → `ok:<text>` / `crash:<site>`; `lex <lang> <text>` → token list;
`splitlines <text>` → list of lines; `indent <indention> <text>` → `indent_but_first_line`. -/
def handle : List String → Option String
  | ["w", name, t] => do
    let f ← wrapper name
    let t ← Text.dec t
    some (showRes (f t))
  | ["lex", lang, t] => do
    let f ← lexer lang
    let t ← Text.dec t
    some (f t)
  | ["splitlines", t] => do
    let t ← Text.dec t
    some (Text.encList (splitLines t))
  | ["indent", ind, t] => do
    let ind ← Text.dec ind
    let t ← Text.dec t
    some (Text.enc (Indent.indentButFirst Gen.Descr.indentSplit Gen.Descr.indentJoin ind t))
  | _ => none

end AasVerif.Drive.C20
