import AasVerif.Model.SdkData
import AasVerif.Model.SdkJson
import AasVerif.Model.SdkWf
import AasVerif.Model.Base64
import AasVerif.Model.XmlText
import AasVerif.Model.SdkXml
namespace AasVerif.Drive.C10
open AasVerif AasVerif.Sdk

/-!
Wire format (no spaces inside one argument): a comma separated PREFIX token stream, texts as
dot separated hex code points (`-` = empty).

```
MM     M<nclasses>:<nenums>  class*  enum*
class  c<name>:<abstract 0|1>:<withModelType 0|1>:<nprops>:<ndesc>  (p<name> type)*  (d<name>)*
type   pb | pi | pf | ps | py | e<enum name> | r<class name> | l type | o type
enum   E<name>:<nliterals>  (v<literal name>:<literal value>)*
Val    N | T | F | I<decimal> | D<repr text> | S<text> | B<bytes> | E<enum>:<literal> | L<n> Val* | C<class>:<n> Val*
Json   n | t | f | i<decimal> | d<repr text> | s<text> | a<n> Json* | o<n> (k<key> Json)*
```
-/

abbrev P (α : Type) := List String → Option (α × List String)

def tag (s : String) : Char := s.toList.headD ' '
def body (s : String) : String := String.ofList (s.toList.drop 1)

def toInt? (s : String) : Option Int :=
  match s.toList with
  | '-' :: rest => (String.ofList rest).toNat?.map (fun n => - (Int.ofNat n))
  | _ => s.toNat?.map Int.ofNat

def bit? (s : String) : Option Bool := if s == "1" then some true else if s == "0" then some false else none

partial def pTy : P Ty
  | "pb" :: r => some (.prim .bool, r)
  | "pi" :: r => some (.prim .int, r)
  | "pf" :: r => some (.prim .float, r)
  | "ps" :: r => some (.prim .str, r)
  | "py" :: r => some (.prim .bytes, r)
  | "l" :: r => do let (t, r) ← pTy r; some (.list t, r)
  | "o" :: r => do let (t, r) ← pTy r; some (.opt t, r)
  | s :: r =>
    if tag s == 'e' then do let n ← Text.dec (body s); some (.enum n, r)
    else if tag s == 'r' then do let n ← Text.dec (body s); some (.cls n, r)
    else none
  | [] => none

partial def pMany {α : Type} (p : P α) : Nat → P (List α)
  | 0, r => some ([], r)
  | n + 1, r => do
    let (a, r) ← p r
    let (as, r) ← pMany p n r
    some (a :: as, r)

def pProp : P PropDecl
  | s :: r =>
    if tag s == 'p' then do
      let n ← Text.dec (body s)
      let (t, r) ← pTy r
      some ({ name := n, ty := t }, r)
    else none
  | [] => none

def pDesc : P Name
  | s :: r => if tag s == 'd' then do let n ← Text.dec (body s); some (n, r) else none
  | [] => none

def pClass : P ClassDecl
  | s :: r =>
    if tag s == 'c' then
      match (body s).splitOn ":" with
      | [n, a, w, np, nd] => do
        let n ← Text.dec n
        let a ← bit? a
        let w ← bit? w
        let np ← np.toNat?
        let nd ← nd.toNat?
        let (ps, r) ← pMany pProp np r
        let (ds, r) ← pMany pDesc nd r
        some ({ name := n, abstract := a, withModelType := w, props := ps, concreteDescendants := ds }, r)
      | _ => none
    else none
  | [] => none

def pLit : P (Name × Text)
  | s :: r =>
    if tag s == 'v' then
      match (body s).splitOn ":" with
      | [n, v] => do let n ← Text.dec n; let v ← Text.dec v; some ((n, v), r)
      | _ => none
    else none
  | [] => none

def pEnum : P EnumDecl
  | s :: r =>
    if tag s == 'E' then
      match (body s).splitOn ":" with
      | [n, k] => do
        let n ← Text.dec n
        let k ← k.toNat?
        let (ls, r) ← pMany pLit k r
        some ({ name := n, literals := ls }, r)
      | _ => none
    else none
  | [] => none

def pMM (w : String) : Option MM :=
  match w.splitOn "," with
  | s :: r =>
    if tag s == 'M' then
      match (body s).splitOn ":" with
      | [nc, ne] => do
        let nc ← nc.toNat?
        let ne ← ne.toNat?
        let (cs, r) ← pMany pClass nc r
        let (es, r) ← pMany pEnum ne r
        if r.isEmpty then some { classes := cs, enums := es } else none
      | _ => none
    else none
  | [] => none

mutual
  partial def pVal : P Val
    | "N" :: r => some (.none, r)
    | "T" :: r => some (.bool true, r)
    | "F" :: r => some (.bool false, r)
    | s :: r =>
      let b := body s
      match tag s with
      | 'I' => do let i ← toInt? b; some (.int i, r)
      | 'D' => do let t ← Text.dec b; some (.float t, r)
      | 'S' => do let t ← Text.dec b; some (.str t, r)
      | 'B' => do let t ← Text.dec b; some (.bytes t, r)
      | 'E' =>
        match b.splitOn ":" with
        | [e, l] => do let e ← Text.dec e; let l ← Text.dec l; some (.enum e l, r)
        | _ => none
      | 'L' => do
        let n ← b.toNat?
        let (vs, r) ← pVals n r
        some (.list vs, r)
      | 'C' =>
        match b.splitOn ":" with
        | [c, n] => do
          let c ← Text.dec c
          let n ← n.toNat?
          let (vs, r) ← pVals n r
          some (.inst c vs, r)
        | _ => none
      | _ => none
    | [] => none
  partial def pVals : Nat → P Vals
    | 0, r => some (.nil, r)
    | n + 1, r => do
      let (v, r) ← pVal r
      let (vs, r) ← pVals n r
      some (.cons v vs, r)
end

mutual
  partial def pJson : P Json
    | "n" :: r => some (.null, r)
    | "t" :: r => some (.bool true, r)
    | "f" :: r => some (.bool false, r)
    | s :: r =>
      let b := body s
      match tag s with
      | 'i' => do let i ← toInt? b; some (.int i, r)
      | 'd' => do let t ← Text.dec b; some (.float t, r)
      | 's' => do let t ← Text.dec b; some (.str t, r)
      | 'a' => do
        let n ← b.toNat?
        let (js, r) ← pJsons n r
        some (.arr js, r)
      | 'o' => do
        let n ← b.toNat?
        let (ms, r) ← pMembers n r
        some (.obj ms, r)
      | _ => none
    | [] => none
  partial def pJsons : Nat → P Jsons
    | 0, r => some (.nil, r)
    | n + 1, r => do
      let (j, r) ← pJson r
      let (js, r) ← pJsons n r
      some (.cons j js, r)
  partial def pMembers : Nat → P Members
    | 0, r => some (.nil, r)
    | n + 1, r =>
      match r with
      | s :: r =>
        if tag s == 'k' then do
          let k ← Text.dec (body s)
          let (v, r) ← pJson r
          let (ms, r) ← pMembers n r
          some (.cons k v ms, r)
        else none
      | [] => none
end

def whole {α : Type} (p : P α) (w : String) : Option α :=
  match p (w.splitOn ",") with
  | some (a, []) => some a
  | _ => none

def showInt (i : Int) : String := toString i

mutual
  def sVal : Val → List String
    | .none => ["N"]
    | .bool true => ["T"]
    | .bool false => ["F"]
    | .int i => ["I" ++ showInt i]
    | .float t => ["D" ++ Text.enc t]
    | .str t => ["S" ++ Text.enc t]
    | .bytes t => ["B" ++ Text.enc t]
    | .enum e l => ["E" ++ Text.enc e ++ ":" ++ Text.enc l]
    | .list vs => ("L" ++ toString vs.length) :: sVals vs
    | .inst c vs => ("C" ++ Text.enc c ++ ":" ++ toString vs.length) :: sVals vs
  def sVals : Vals → List String
    | .nil => []
    | .cons v vs => sVal v ++ sVals vs
end

mutual
  def jLen : Jsons → Nat
    | .nil => 0
    | .cons _ js => jLen js + 1
  def mLen : Members → Nat
    | .nil => 0
    | .cons _ _ ms => mLen ms + 1
end

mutual
  def sJson : Json → List String
    | .null => ["n"]
    | .bool true => ["t"]
    | .bool false => ["f"]
    | .int i => ["i" ++ showInt i]
    | .float t => ["d" ++ Text.enc t]
    | .str t => ["s" ++ Text.enc t]
    | .arr js => ("a" ++ toString (jLen js)) :: sJsons js
    | .obj ms => ("o" ++ toString (mLen ms)) :: sMembers ms
  def sJsons : Jsons → List String
    | .nil => []
    | .cons j js => sJson j ++ sJsons js
  def sMembers : Members → List String
    | .nil => []
    | .cons k v ms => ("k" ++ Text.enc k) :: (sJson v ++ sMembers ms)
end

def showRes (r : Res Val) : String :=
  match r with
  | .ok v => "ok " ++ ",".intercalate (sVal v)
  | .err _ => "err"
  | .crash e => "crash:" ++ e

def b (x : Bool) : String := if x then "1" else "0"

/-! XML trees: `x<ns|!>:<name>:<attrs 0|1>:<text|!>:<tail|!>:<nchildren>` children*;
oracle table `O<n>` `q<text>:<int|!>:<float repr|!>`* -/

def optDec (s : String) : Option (Option Text) :=
  if s == "!" then some none else (Text.dec s).map some

mutual
  partial def pElem : P Elem
    | s :: r =>
      if tag s == 'x' then
        match (body s).splitOn ":" with
        | [ns, name, a, text, tail, n] => do
          let ns ← optDec ns
          let name ← Text.dec name
          let a ← bit? a
          let text ← optDec text
          let tail ← optDec tail
          let n ← n.toNat?
          let (cs, r) ← pElems n r
          some (.mk ns name a text tail cs, r)
        | _ => none
      else none
    | [] => none
  partial def pElems : Nat → P Elems
    | 0, r => some (.nil, r)
    | n + 1, r => do
      let (e, r) ← pElem r
      let (es, r) ← pElems n r
      some (.cons e es, r)
end

def optEnc : Option Text → String
  | none => "!"
  | some t => Text.enc t

def esLen : Elems → Nat
  | .nil => 0
  | .cons _ es => esLen es + 1

mutual
  def sElem : Elem → List String
    | .mk ns name a text tail cs =>
      ("x" ++ optEnc ns ++ ":" ++ Text.enc name ++ ":" ++ b a ++ ":" ++ optEnc text ++ ":" ++ optEnc tail
        ++ ":" ++ toString (esLen cs)) :: sElems cs
  def sElems : Elems → List String
    | .nil => []
    | .cons e es => sElem e ++ sElems es
end

def pOracleEntry : P (Text × Option Int × Option Text)
  | s :: r =>
    if tag s == 'q' then
      match (body s).splitOn ":" with
      | [t, i, f] => do
        let t ← Text.dec t
        let i ← if i == "!" then some none else (toInt? i).map some
        let f ← optDec f
        some ((t, i, f), r)
      | _ => none
    else none
  | [] => none

def pOracle (w : String) : Option PyOracle :=
  match w.splitOn "," with
  | s :: r =>
    if tag s == 'O' then do
      let n ← (body s).toNat?
      let (es, r) ← pMany pOracleEntry n r
      if r.isEmpty then
        some { int := fun t => (es.find? (fun e => e.1 == t)).bind (fun e => e.2.1),
               float := fun t => (es.find? (fun e => e.1 == t)).bind (fun e => e.2.2) }
      else none
    else none
  | [] => none

/--
* `tojson <mm> <val>`              → Json wire
* `fromjson <mm> <class> <json>`   → `ok <val>` | `err` | `crash:<Exception>`
* `wf <mm>`                        → `<wf><wfXml><dispatchOkFor each class in order>`
* `conforms <mm> <class> <val>`    → `1` | `0`
* `b64enc <bytes>` / `b64dec <text>` → text / `ok <bytes>` | `err:<kind>`
* `name <prop|model> <identifier>` → JSON name
* `toxml <mm> <ns> <val>` → tree; `fromxml <mm> <ns> <class> <oracle> <tree>` → `ok <val>` | `err` | `crash:…`; `blank <text|!>`
* `xmlesc <text>` → escaped text; `xmlcontent <raw>` → `ok <text>` | `none`
-/
def handle : List String → Option String
  | ["tojson", mm, v] => do
    let mm ← pMM mm
    let v ← whole pVal v
    some (",".intercalate (sJson (toJson mm v)))
  | ["fromjson", mm, c, j] => do
    let mm ← pMM mm
    let c ← Text.dec c
    let j ← whole pJson j
    some (showRes (fromJson mm c j))
  | ["wf", mm] => do
    let mm ← pMM mm
    some (b mm.wf ++ b mm.wfXml ++ String.join (mm.classes.map (fun c => b (mm.dispatchOkFor c.name))))
  | ["conforms", mm, c, v] => do
    let mm ← pMM mm
    let c ← Text.dec c
    let v ← whole pVal v
    some (b (conformsNN mm (.cls c) v))
  | ["b64enc", bs] => do
    let bs ← Text.dec bs
    some (Text.enc (Base64.encode bs))
  | ["b64dec", t] => do
    let t ← Text.dec t
    match Base64.decode t with
    | .ok bs => some ("ok " ++ Text.enc bs)
    | .error .nonAscii => some "err:nonascii"
    | .error .oneChar => some "err:onechar"
    | .error .padding => some "err:padding"
  | ["toxml", mm, ns, v] => do
    let mm ← pMM mm
    let ns ← Text.dec ns
    let v ← whole pVal v
    some (",".intercalate (sElem (toXml mm ns v)))
  | ["fromxml", mm, ns, c, orc, e] => do
    let mm ← pMM mm
    let ns ← Text.dec ns
    let c ← Text.dec c
    let py ← pOracle orc
    let e ← whole pElem e
    some (showRes (fromXml mm ns py c e))
  | ["blank", t] => do
    let t ← optDec t
    some (b (pyBlank t))
  | ["xmlesc", t] => do
    let t ← Text.dec t
    some (Text.enc (XmlText.escape t))
  | ["xmlcontent", t] => do
    let t ← Text.dec t
    match XmlText.content t with
    | some r => some ("ok " ++ Text.enc r)
    | none => some "none"
  | ["name", "prop", i] => do
    let i ← Text.dec i
    some (Text.enc (jsonProperty i))
  | ["name", "model", i] => do
    let i ← Text.dec i
    some (Text.enc (jsonModelType i))
  | _ => none

end AasVerif.Drive.C10
