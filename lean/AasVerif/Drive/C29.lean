import AasVerif.Model.SdkTreeWire
import AasVerif.Model.SdkCtor
namespace AasVerif.Drive.C29
open AasVerif AasVerif.Sdk AasVerif.SdkDescend AasVerif.SdkDescend.Wire AasVerif.SdkCtor

def decFlag : String → Option Bool
  | "0" => some false
  | "1" => some true
  | _ => none

def decKind : String → Option Kind
  | "accept" => some .accept
  | "accept_with_context" => some .acceptWithContext
  | "transform" => some .transform
  | "transform_with_context" => some .transformWithContext
  | _ => none

def decDispatcher : String → Option Dispatcher
  | "AbstractVisitor" => some .abstractVisitor
  | "AbstractVisitorWithContext" => some .abstractVisitorWithContext
  | "PassThroughVisitor" => some .passThroughVisitor
  | "PassThroughVisitorWithContext" => some .passThroughVisitorWithContext
  | "AbstractTransformer" => some .abstractTransformer
  | "AbstractTransformerWithContext" => some .abstractTransformerWithContext
  | "TransformerWithDefault" => some .transformerWithDefault
  | "TransformerWithDefaultAndContext" => some .transformerWithDefaultAndContext
  | _ => none

/-- `N` | `L` | `E,<enum>,<literal>` -/
def decDefault : List String → Option (Option DefaultCode)
  | ["N"] => some none
  | ["L"] => some (some .emptyList)
  | ["E", e, l] => do
    let e ← Text.dec e
    let l ← Text.dec l
    some (some (.enumLiteral e l))
  | _ => none

/-- `S,<class>` | `A,<property>,<argument>,<default>` -/
def decStmt (s : String) : Option Stmt :=
  match s.splitOn "," with
  | ["S", c] => do
    let c ← Text.dec c
    some (.callSuper c)
  | "A" :: p :: a :: d => do
    let p ← Text.dec p
    let a ← Text.dec a
    let d ← decDefault d
    some (.assign p a d)
  | _ => none

def decStmts (s : String) : Option (List Stmt) :=
  if s == "[]" then some [] else (s.splitOn ";").mapM decStmt

def showDefaultCode : DefaultCode → String
  | .emptyList => "L"
  | .enumLiteral e l => s!"E,{Text.enc e},{Text.enc l}"

def showPyStmt : PyStmt → String
  | .superInit c => s!"super,{Text.enc c}"
  | .set p a => s!"set,{Text.enc p},{Text.enc a}"
  | .setOrDefault p a c => s!"setd,{Text.enc p},{Text.enc a},{showDefaultCode c}"

def showPyStmts (ss : List PyStmt) : String :=
  if ss.isEmpty then "[]" else ";".intercalate (ss.map showPyStmt)

def showBlock : Except Err (List Node) → String
  | .ok ns => showNodes ns
  | .error e => showErr e

/--
* `descendable <ty>`            → `0|1`
* `unroll <0|1> <ty>`           → statement tree of `_DescendBodyUnroller.unroll`
* `block <0|1> <ty>`            → statement tree of one property block (guard + assertion)
* `conforms <mm> <val>`         → `0|1`
* `once <mm> <val>`             → yields of `descend_once()`
* `descend <mm> <val>`          → yields of `descend()`
* `gen <mm> <val>`              → yields of the generated `descend` body with `.descend()` bound to `descend`
* `children <val>`, `below <val>` → the declarative readings
* `dispatch <kind> <mm> <cls> <mro>` → called visitor/transformer method (meta-model identifier) or `none`
* `over <ty> <val>`             → `no-accessor` or the yields of `over_X_or_empty()`
* `ordefault <default> <val>`   → value of `X_or_default()`
* `ctor <stmts>`                → the statements of the generated `__init__`
* `construct <default> <val>`   → what the property holds after the generated assignment for the argument value
* `visitors <class> <mm>`       → the methods the generated visitor / transformer class declares (meta-model identifiers)
-/
def handle : List String → Option String
  | ["descendable", t] => do
    let t ← decTy t
    some (if descendable t then "1" else "0")
  | ["unroll", r, t] => do
    let r ← decFlag r
    let t ← decTy t
    some (showNodes (unroll r t))
  | ["block", r, t] => do
    let r ← decFlag r
    let t ← decTy t
    some (showBlock (propBlock r t))
  | ["conforms", mm, v] => do
    let mm ← decMM mm
    let v ← decVal v
    some (if conformsNN mm (.cls v.classOf) v then "1" else "0")
  | ["once", mm, v] => do
    let mm ← decMM mm
    let v ← decVal v
    some (showOut (descendOnce mm v))
  | ["descend", mm, v] => do
    let mm ← decMM mm
    let v ← decVal v
    some (showOut (descend mm v))
  | ["gen", mm, v] => do
    let mm ← decMM mm
    let v ← decVal v
    some (showOut (methodBody mm true (descend mm) v))
  | ["children", v] => do
    let v ← decVal v
    some (showVals (children v))
  | ["below", v] => do
    let v ← decVal v
    some (showVals (below v))
  | ["dispatch", k, mm, c, mro] => do
    let k ← decKind k
    let mm ← decMM mm
    let c ← Text.dec c
    let mro ← Text.decList mro
    some (match dispatch mm k c mro with
      | some n => Text.enc n
      | none => "none")
  | ["over", t, v] => do
    let t ← decTy t
    let v ← decVal v
    some (if hasOverOrEmpty t then showOut (overOrEmpty v) else "no-accessor")
  | ["ordefault", d, v] => do
    let d ← decVal d
    let v ← decVal v
    some (showVal (orDefault d v))
  | ["ctor", ss] => do
    let ss ← decStmts ss
    some (showPyStmts (renderBody ss))
  | ["construct", d, v] => do
    let d ← decDefault (d.splitOn ",")
    let v ← decVal v
    match execStmt (renderStmt (.assign [] [] d)) v with
    | some (_, r) => some (showVal r)
    | none => some "nothing-set"
  | ["visitors", d, mm] => do
    let d ← decDispatcher d
    let mm ← decMM mm
    some (Text.encList (declaredMethods mm d))
  | _ => none

end AasVerif.Drive.C29
