import AasVerif.Model.SdkTreeWire
namespace AasVerif.Drive.C29
open AasVerif AasVerif.Sdk AasVerif.SdkDescend AasVerif.SdkDescend.Wire

def decFlag : String → Option Bool
  | "0" => some false
  | "1" => some true
  | _ => none

def decKind : String → Option Kind
  | "accept" => some .accept
  | "accept_with_context" => some .acceptWithContext
  | "transform" => some .transform
  | "transform_with_context" => some .transformWithContext
  | _ => none

def showBlock : Except Err (List Node) → String
  | .ok ns => showNodes ns
  | .error e => showErr e

/--
* `descendable <ty>`            → `0|1`
* `unroll <0|1> <ty>`           → statement tree of `_DescendBodyUnroller.unroll`
* `block <0|1> <ty>`            → statement tree of one property block (guard + assertion)
* `conforms <mm> <val>`         → `0|1`
* `once <mm> <val>`             → yields of `descend_once()`
* `descend <mm> <val>`          → yields of `descend()`
* `gen <mm> <val>`              → yields of the generated `descend` body with `.descend()` bound to `descend`
* `children <val>`, `below <val>` → the declarative readings
* `dispatch <kind> <mm> <cls> <mro>` → called visitor/transformer method (meta-model identifier) or `none`
* `over <ty> <val>`             → `no-accessor` or the yields of `over_X_or_empty()`
* `ordefault <default> <val>`   → value of `X_or_default()`
-/
def handle : List String → Option String
  | ["descendable", t] => do
    let t ← decTy t
    some (if descendable t then "1" else "0")
  | ["unroll", r, t] => do
    let r ← decFlag r
    let t ← decTy t
    some (showNodes (unroll r t))
  | ["block", r, t] => do
    let r ← decFlag r
    let t ← decTy t
    some (showBlock (propBlock r t))
  | ["conforms", mm, v] => do
    let mm ← decMM mm
    let v ← decVal v
    some (if conformsNN mm (.cls v.classOf) v then "1" else "0")
  | ["once", mm, v] => do
    let mm ← decMM mm
    let v ← decVal v
    some (showOut (descendOnce mm v))
  | ["descend", mm, v] => do
    let mm ← decMM mm
    let v ← decVal v
    some (showOut (descend mm v))
  | ["gen", mm, v] => do
    let mm ← decMM mm
    let v ← decVal v
    some (showOut (methodBody mm true (descend mm) v))
  | ["children", v] => do
    let v ← decVal v
    some (showVals (children v))
  | ["below", v] => do
    let v ← decVal v
    some (showVals (below v))
  | ["dispatch", k, mm, c, mro] => do
    let k ← decKind k
    let mm ← decMM mm
    let c ← Text.dec c
    let mro ← Text.decList mro
    some (match dispatch mm k c mro with
      | some n => Text.enc n
      | none => "none")
  | ["over", t, v] => do
    let t ← decTy t
    let v ← decVal v
    some (if hasOverOrEmpty t then showOut (overOrEmpty v) else "no-accessor")
  | ["ordefault", d, v] => do
    let d ← decVal d
    let v ← decVal v
    some (showVal (orDefault d v))
  | _ => none

end AasVerif.Drive.C29
