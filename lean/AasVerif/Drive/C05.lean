import AasVerif.Model.Hier
namespace AasVerif.Drive.C05
open AasVerif AasVerif.Hier

def decStmt (t : Text) : Option Stmt :=
  match t with
  | 83 :: n => some (.callSuper n)
  | 65 :: n => some (.assign n)
  | _ => none

def decClass (s : String) : Option ParsedClass :=
  match s.splitOn "|" with
  | [n, ps, ab, props, invs, ms, args, ctor, w] => do
    let n ← Text.dec n
    let ps ← Text.decList ps
    let ab ← if ab == "a" then some true else if ab == "c" then some false else none
    let props ← Text.decList props
    let invs ← Text.decList invs
    let ms ← Text.decList ms
    let args ← Text.decList args
    let ctor ← (← Text.decList ctor).mapM decStmt
    let w ← if w == "n" then some none else if w == "t" then some (some true) else if w == "f" then some (some false) else none
    some ⟨n, ps, ab, props, invs, ms, args, ctor, w⟩
  | _ => none

def decHier (s : String) : Option (List ParsedClass) :=
  if s == "-" then some [] else (s.splitOn ";").mapM decClass

def encItems (xs : List Item) : String := Text.encList (xs.map (fun x => x.1 ++ 47 :: x.2))

def encClass (c : ClassOut) : String :=
  "|".intercalate [Text.enc c.name, Text.encList c.ancestors, Text.encList c.descendants,
    Text.encList c.concreteDescendants, encItems c.props, encItems c.invs, encItems c.methods,
    Text.encList (c.inlined.map (fun s => 65 :: s.target)),
    if c.hasInterface then "i" else "o", if c.withModelType then "t" else "f"]

def encRes : Res → String
  | .cycle n => "cycle " ++ Text.enc n
  | .err s => "err " ++ s
  | .crash s => "crash:" ++ s
  | .ok o => "ok " ++ ";".intercalate (Text.encList o.topo :: o.classes.map encClass)

/-- `tr <hierarchy>` → canonical outcome of `Hier.translate`; `topo <hierarchy>` → the topological order alone -/
def handle : List String → Option String
  | ["tr", h] => do
    let cs ← decHier h
    some (encRes (translate cs))
  | ["topo", h] => do
    let cs ← decHier h
    some (Text.encList (topo cs))
  | _ => none

end AasVerif.Drive.C05
