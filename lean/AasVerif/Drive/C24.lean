import AasVerif.Drive.C23
namespace AasVerif.Drive.C24
/-- C24 shares the cache model with C23. -/
def handle : List String → Option String := AasVerif.Drive.C23.handle
end AasVerif.Drive.C24
