import AasVerif.Model.Expr.Wire
import AasVerif.Model.Expr.Eval
import AasVerif.Model.SdkVerify
import AasVerif.Model.PyEmit
import AasVerif.Model.PyParse
import AasVerif.Model.EvalOrder
import AasVerif.Model.PyRules
/-!
Line protocol of C08.

    verify <world> <val>      → the errors in order, then the exception (if any)
    eval   <world> <expr>     → outcome of `Expr.eval` with `self` etc. bound by the world
    emit   <cfg> <top> <expr> → `ok <parenOK> <pyexpr> <tokens> <reading>`: the transpiled expression, its token
                                sequence (`PyEmit.print`) and what `PyEmit.parse` reads from it
                                (`ok:<1 iff equal to strip>:<pyexpr>` | `outside` | `fail`)
    pyparse <tokens>          → `ok <pyexpr>` | `outside` | `fail` (`PyEmit.parse`)
    trace  <world> <expr>     → the events of `Expr.trace`, each `kind|outcome of the operation`, space separated
    emittrace <cfg> <world> <expr> → `same` when `PyExpr.trace` of the transpiled expression is `Expr.trace` of the source

All structured arguments are comma-separated prefix token streams (no spaces):

    val   := N | b0 | b1 | i <int> | f <text> | s <text> | y <text> | L <n> val*n
           | e <enum> <lit> | E <enum> <n> <lit>*n | I <oid> <cls> <n> (<name> val)*n | S <n> val*n
    world := <nV> (<name> val)*nV  <nF> fun*nF  <nC> cls*nC  <nP> cprim*nP
    fun   := o <name> <n> (<text> <0|1>)*n                    opaque str → bool table
           | t <name> <np> <param>*np <ns> stmt*ns            transpilable function
    stmt  := a <target> expr | r expr | R
    cls   := <name> <nI> inv*nI <nProps> (<name> <0|1 optional> ty)*
    inv   := <description> expr
    cprim := <name> <nI> inv*nI
    ty    := p | e | c <name> | k | l ty

Floats are Python `repr` texts; here (and only here) they are interpreted, through Lean's
`Float`; results of float arithmetic are carried as `#<bits in hex>`.
-/
namespace AasVerif.Drive.C08
open AasVerif AasVerif.Expr AasVerif.SdkV

abbrev P (α : Type) := Expr.Wire.P α

def pText : P Text := Expr.Wire.pText
def pNat : P Nat := Expr.Wire.pNat
def pInt : P Int := Expr.Wire.pInt

def pMany {α} (p : P α) : Nat → P (List α)
  | 0, ts => some ([], ts)
  | k + 1, ts => do
    let (x, ts) ← p ts
    let (xs, ts) ← pMany p k ts
    some (x :: xs, ts)

def pCounted {α} (p : P α) : P (List α) := fun ts => do
  let (n, ts) ← pNat ts
  pMany p n ts

partial def pVal : P Val
  | "N" :: ts => some (.none, ts)
  | "b0" :: ts => some (.bool false, ts)
  | "b1" :: ts => some (.bool true, ts)
  | "i" :: ts => do let (i, ts) ← pInt ts; some (.int i, ts)
  | "f" :: ts => do let (t, ts) ← pText ts; some (.float t, ts)
  | "s" :: ts => do let (t, ts) ← pText ts; some (.str t, ts)
  | "y" :: ts => do let (t, ts) ← pText ts; some (.bytes t, ts)
  | "L" :: ts => do let (vs, ts) ← pCounted pVal ts; some (.list vs, ts)
  | "S" :: ts => do let (vs, ts) ← pCounted pVal ts; some (.set vs, ts)
  | "e" :: ts => do let (e, ts) ← pText ts; let (l, ts) ← pText ts; some (.enumLit e l, ts)
  | "E" :: ts => do let (e, ts) ← pText ts; let (ls, ts) ← pCounted pText ts; some (.enumCls e ls, ts)
  | "I" :: ts => do
    let (oid, ts) ← pNat ts
    let (cn, ts) ← pText ts
    let (fs, ts) ← pCounted (fun ts => do
      let (n, ts) ← pText ts; let (v, ts) ← pVal ts; some ((n, v), ts)) ts
    some (.inst oid cn fs, ts)
  | _ => none

partial def encVal : Val → List String
  | .none => ["N"]
  | .bool b => [if b then "b1" else "b0"]
  | .int i => ["i", toString i]
  | .float t => ["f", Text.enc t]
  | .str t => ["s", Text.enc t]
  | .bytes t => ["y", Text.enc t]
  | .list vs => "L" :: toString vs.length :: vs.flatMap encVal
  | .set vs => "S" :: toString vs.length :: vs.flatMap encVal
  | .enumLit e l => ["e", Text.enc e, Text.enc l]
  | .enumCls e ls => "E" :: Text.enc e :: toString ls.length :: ls.map Text.enc
  | .inst oid cn fs => "I" :: toString oid :: Text.enc cn :: toString fs.length ::
      fs.flatMap (fun (n, v) => Text.enc n :: encVal v)

def encOut : Out → String
  | .val v => "v:" ++ ",".intercalate (encVal v)
  | .typeError => "typeError"
  | .noneDeref => "noneDeref"
  | .indexError => "indexError"
  | .otherError => "otherError"

/-! ### floats -/

def isDigit (c : Nat) : Bool := 48 ≤ c && c ≤ 57

def digitsVal (ds : List Nat) : Nat := ds.foldl (fun a d => a * 10 + (d - 48)) 0

/-- Python `repr` of a float (or `#bits`) → `Float`. -/
def parseFloat (t : Text) : Option Float :=
  match t with
  | 35 :: hex => (Text.unhex (String.ofList (hex.map Char.ofNat))).map (fun n => Float.ofBits n.toUInt64)
  | _ =>
    let (neg, t) := match t with
      | 45 :: r => (true, r)
      | r => (false, r)
    let sign (f : Float) : Float := if neg then -f else f
    if t == [105, 110, 102] then some (sign (1.0 / 0.0))
    else if t == [110, 97, 110] then some (0.0 / 0.0)
    else
      let ip := t.takeWhile isDigit
      let r := t.dropWhile isDigit
      let (fp, r) := match r with
        | 46 :: r' => (r'.takeWhile isDigit, r'.dropWhile isDigit)
        | _ => ([], r)
      if ip.isEmpty && fp.isEmpty then none else
      let exp : Option Int := match r with
        | [] => some 0
        | 101 :: 45 :: ds => if ds.all isDigit && !ds.isEmpty then some (-(Int.ofNat (digitsVal ds))) else none
        | 101 :: 43 :: ds => if ds.all isDigit && !ds.isEmpty then some (Int.ofNat (digitsVal ds)) else none
        | 101 :: ds => if ds.all isDigit && !ds.isEmpty then some (Int.ofNat (digitsVal ds)) else none
        | _ => none
      match exp with
      | none => none
      | some e =>
        let m := digitsVal (ip ++ fp)
        let e := e - Int.ofNat fp.length
        some (sign (if e < 0 then Float.ofScientific m true e.natAbs else Float.ofScientific m false e.toNat))

def encFloat (f : Float) : Text := 35 :: (Text.hex f.toBits.toNat).toList.map Char.toNat

def numToFloat : Val → Option Float
  | .bool b => some (if b then 1.0 else 0.0)
  | .int i => some (Float.ofInt i)
  | .float t => parseFloat t
  | _ => none

def fops : FloatOps where
  cmp op a b :=
    match numToFloat a, numToFloat b with
    | some x, some y =>
      .ofBool (match op with
        | .lt => x < y | .le => x ≤ y | .gt => x > y | .ge => x ≥ y | .eq => x == y | .ne => x != y)
    | _, _ => .otherError
  arith add a b :=
    match numToFloat a, numToFloat b with
    | some x, some y => .val (.float (encFloat (if add then x + y else x - y)))
    | _, _ => .otherError
  isZero t := match parseFloat t with
    | some f => f == 0.0
    | none => false
  fmt t := t

/-! ### world -/

inductive FunSpec where
  | table (entries : List (Text × Bool))
  | defn (d : FunDef)

def pStmt : P Stmt
  | "a" :: ts => do let (x, ts) ← pText ts; let (e, ts) ← Expr.Wire.pExpr ts; some (.assign x e, ts)
  | "r" :: ts => do let (e, ts) ← Expr.Wire.pExpr ts; some (.ret (some e), ts)
  | "R" :: ts => some (.ret none, ts)
  | _ => none

def pBool : P Bool
  | "0" :: ts => some (false, ts)
  | "1" :: ts => some (true, ts)
  | _ => none

def pFun : P (Text × FunSpec)
  | "o" :: ts => do
    let (n, ts) ← pText ts
    let (es, ts) ← pCounted (fun ts => do
      let (t, ts) ← pText ts; let (b, ts) ← pBool ts; some ((t, b), ts)) ts
    some ((n, .table es), ts)
  | "t" :: ts => do
    let (n, ts) ← pText ts
    let (ps, ts) ← pCounted pText ts
    let (body, ts) ← pCounted pStmt ts
    some ((n, .defn ⟨ps, body⟩), ts)
  | _ => none

partial def pTy : P PTy
  | "p" :: ts => some (.prim, ts)
  | "e" :: ts => some (.enum, ts)
  | "k" :: ts => some (.cls, ts)
  | "c" :: ts => do let (n, ts) ← pText ts; some (.cprim n, ts)
  | "l" :: ts => do let (t, ts) ← pTy ts; some (.listOf t, ts)
  | _ => none

def pInv : P Inv := fun ts => do
  let (d, ts) ← pText ts
  let (e, ts) ← Expr.Wire.pExpr ts
  some (⟨d, e⟩, ts)

def pProp : P PropDef := fun ts => do
  let (n, ts) ← pText ts
  let (o, ts) ← pBool ts
  let (t, ts) ← pTy ts
  some (⟨n, o, t⟩, ts)

def pCls : P Cls := fun ts => do
  let (n, ts) ← pText ts
  let (invs, ts) ← pCounted pInv ts
  let (props, ts) ← pCounted pProp ts
  some (⟨n, invs, props⟩, ts)

def pCPrim : P CPrim := fun ts => do
  let (n, ts) ← pText ts
  let (invs, ts) ← pCounted pInv ts
  some (⟨n, invs⟩, ts)

structure World where
  vars : List (Text × Val)
  funs : List (Text × FunSpec)
  mm : MM

def pWorld : P World := fun ts => do
  let (vars, ts) ← pCounted (fun ts => do
    let (n, ts) ← pText ts; let (v, ts) ← pVal ts; some ((n, v), ts)) ts
  let (funs, ts) ← pCounted pFun ts
  let (cs, ts) ← pCounted pCls ts
  let (ps, ts) ← pCounted pCPrim ts
  some (⟨vars, funs, ⟨cs, ps⟩⟩, ts)

def decAll {α} (p : P α) (s : String) : Option α :=
  match p (s.splitOn ",") with
  | some (x, []) => some x
  | _ => none

def tableFn (es : List (Text × Bool)) : List Val → Out
  | [.str s] =>
    match es.find? (fun e => e.1 == s) with
    | some (_, b) => .ofBool b
    | none => .otherError
  | [_] => .typeError
  | _ => .typeError

def findFun (fs : List (Text × FunSpec)) (n : Text) : Option FunSpec :=
  (fs.find? (fun f => f.1 == n)).map (·.2)

/-- The function table; defined functions may call functions `depth` levels deep. -/
def mkFuns (w : World) : Nat → Text → Option (List Val → Out)
  | 0 => fun n =>
    match findFun w.funs n with
    | some (.table es) => some (tableFn es)
    | _ => none
  | depth + 1 => fun n =>
    match findFun w.funs n with
    | some (.table es) => some (tableFn es)
    | some (.defn d) =>
      some (d.call ⟨w.vars, mkFuns w depth, fun _ _ => none, fops, fun _ => .otherError⟩)
    | none => none

def World.env (w : World) : Env :=
  ⟨w.vars, mkFuns w (w.funs.length + 1), fun _ _ => none, fops, fun _ => .otherError⟩

def encSeg : Seg → String
  | .prop n => "p" ++ Text.enc n
  | .idx i => "x" ++ toString i

def encPath (p : Path) : String := if p.isEmpty then "-" else "/".intercalate (p.map encSeg)

def encVRes (r : VRes) : String :=
  let es := r.errors.map (fun (d, p) => "E " ++ Text.enc d ++ " " ++ encPath p)
  let tail := match r.raised with
    | none => ["ok"]
    | some o => ["raise " ++ encOut o]
  " ".intercalate (es ++ tail)

/-! ### transpiler -/
open AasVerif.PyEmit in
def pCfg : P Cfg := fun ts => do
  let (names, ts) ← pCounted (fun ts => do
    let (n, ts) ← pText ts
    match ts with
    | "c" :: ts => some ((n, NameKind.const), ts)
    | "f" :: ts => some ((n, NameKind.fn), ts)
    | "e" :: ts => some ((n, NameKind.enum), ts)
    | _ => none) ts
  let (members, ts) ← pCounted (fun ts => do
    let (e, ts) ← Expr.Wire.pExpr ts
    let (n, ts) ← pText ts
    match ts with
    | "P" :: ts => some ((Expr.Wire.enc e, n, some AttrKind.prop), ts)
    | "L" :: ts => some ((Expr.Wire.enc e, n, some AttrKind.enumLit), ts)
    | "M" :: ts => some ((Expr.Wire.enc e, n, some AttrKind.method), ts)
    | "X" :: ts => some ((Expr.Wire.enc e, n, none), ts)
    | _ => none) ts
  let (funs, ts) ← pCounted (fun ts => do
    let (n, ts) ← pText ts
    match ts with
    | "v" :: ts => some ((n, FunKind.verification), ts)
    | "l" :: ts => some ((n, FunKind.builtinLen), ts)
    | "o" :: ts => some ((n, FunKind.builtinOther), ts)
    | _ => none) ts
  some (⟨fun n => (names.find? (fun x => x.1 == n)).map (·.2),
         fun e n => ((members.find? (fun x => x.1 == Expr.Wire.enc e && x.2.1 == n)).map (·.2.2)).join,
         fun n => ((funs.find? (fun x => x.1 == n)).map (·.2)).getD .notFunction⟩, ts)

open AasVerif.PyEmit in
def encPyCmp : PyCmp → String
  | .cmp c => Expr.Wire.encCmp c
  | .in_ => "in" | .is_ => "is" | .isNot => "isnot"

def b01 (b : Bool) : String := if b then "1" else "0"

open AasVerif.PyEmit in
mutual
  partial def encPy : PyExpr → List String
    | .that => ["T"]
    | .var x => ["V", Text.enc x]
    | .constRef x => ["C", Text.enc x]
    | .enumRef x => ["E", Text.enc x]
    | .funRef x => ["F", Text.enc x]
    | .noneC => ["N"] | .tru => ["t"] | .fls => ["f"]
    | .int n => ["I", toString n]
    | .float r => ["D", Text.enc r]
    | .str s => ["S", Text.enc s]
    | .neg e => "-" :: encPy e
    | .attr e k n => "A" :: encPy e ++ [match k with | .prop => "P" | .enumLit => "L" | .method => "M", Text.enc n]
    | .subscript e i => "X" :: encPy e ++ encPy i
    | .callMethod e m args => "M" :: encPy e ++ Text.enc m :: toString args.length :: args.flatMap encPy
    | .callFun f args => "U" :: Text.enc f :: toString args.length :: args.flatMap encPy
    | .compare l op r => "c" :: encPyCmp op :: encPy l ++ encPy r
    | .not e => "!" :: encPy e
    | .boolop a vals => "B" :: b01 a :: toString vals.length :: vals.flatMap encPy
    | .binop a l r => "b" :: b01 a :: encPy l ++ encPy r
    | .fstring ps => "J" :: toString ps.length :: ps.flatMap (fun p => match p with
        | .lit s => ["l", Text.enc s]
        | .fv e => "v" :: encPy e)
    | .quant a elt x it => "Q" :: b01 a :: encPy elt ++ Text.enc x :: (match it with
        | .each e => "e" :: encPy e
        | .range a b => "r" :: encPy a ++ encPy b)
    | .paren e => "P" :: encPy e
end

/-! ### tokens -/
open AasVerif.PyEmit in
def encTok : Tok → String
  | .that => "T"
  | .var x => "V:" ++ Text.enc x
  | .constRef x => "C:" ++ Text.enc x
  | .enumRef x => "E:" ++ Text.enc x
  | .funRef x => "F:" ++ Text.enc x
  | .noneK => "N" | .trueK => "t" | .falseK => "f"
  | .int n => "I:" ++ toString n
  | .float r => "D:" ++ Text.enc r
  | .str s => "S:" ++ Text.enc s
  | .fstart => "fs" | .fmid s => "fm:" ++ Text.enc s | .lbrace => "{" | .rbrace => "}" | .fend => "fe"
  | .lpar => "(" | .rpar => ")" | .lbrack => "[" | .rbrack => "]" | .comma => "c" | .dot => "d"
  | .attrName k n => (match k with | .prop => "aP:" | .enumLit => "aL:" | .method => "aM:") ++ Text.enc n
  | .plus => "pl" | .minus => "mi"
  | .cmp c => Expr.Wire.encCmp c
  | .kwIn => "in" | .kwIs => "is" | .kwNot => "not" | .kwAnd => "and" | .kwOr => "or" | .kwFor => "for"
  | .anyK => "any" | .allK => "all" | .rangeK => "range"

open AasVerif.PyEmit in
def decTok (s : String) : Option Tok :=
  match s.splitOn ":" with
  | ["T"] => some .that
  | ["V", x] => (Text.dec x).map .var
  | ["C", x] => (Text.dec x).map .constRef
  | ["E", x] => (Text.dec x).map .enumRef
  | ["F", x] => (Text.dec x).map .funRef
  | ["N"] => some .noneK | ["t"] => some .trueK | ["f"] => some .falseK
  | ["I", n] => n.toNat?.map .int
  | ["D", x] => (Text.dec x).map .float
  | ["S", x] => (Text.dec x).map .str
  | ["fs"] => some .fstart | ["fm", x] => (Text.dec x).map .fmid
  | ["{"] => some .lbrace | ["}"] => some .rbrace | ["fe"] => some .fend
  | ["("] => some .lpar | [")"] => some .rpar | ["["] => some .lbrack | ["]"] => some .rbrack
  | ["c"] => some .comma | ["d"] => some .dot
  | ["aP", x] => (Text.dec x).map (.attrName .prop)
  | ["aL", x] => (Text.dec x).map (.attrName .enumLit)
  | ["aM", x] => (Text.dec x).map (.attrName .method)
  | ["pl"] => some .plus | ["mi"] => some .minus
  | ["lt"] => some (.cmp .lt) | ["le"] => some (.cmp .le) | ["gt"] => some (.cmp .gt)
  | ["ge"] => some (.cmp .ge) | ["eq"] => some (.cmp .eq) | ["ne"] => some (.cmp .ne)
  | ["in"] => some .kwIn | ["is"] => some .kwIs | ["not"] => some .kwNot | ["and"] => some .kwAnd
  | ["or"] => some .kwOr | ["for"] => some .kwFor
  | ["any"] => some .anyK | ["all"] => some .allK | ["range"] => some .rangeK
  | _ => none

def encToks (ts : List PyEmit.Tok) : String :=
  if ts.isEmpty then "[]" else ",".intercalate (ts.map encTok)

def decToks (s : String) : Option (List PyEmit.Tok) :=
  if s == "[]" then some [] else
  (s.splitOn ",").foldr (fun p acc => match decTok p, acc with
    | some t, some l => some (t :: l)
    | _, _ => none) (some [])

/-- what `PyEmit.parse` reads; `want`: the tree it should be (for the equality flag) -/
def encReading (r : PyEmit.PR PyEmit.PyExpr) (want : Option PyEmit.PyExpr) : String :=
  match r with
  | .ok y _ =>
    let w := ",".intercalate (encPy y)
    match want with
    | some x => "ok:" ++ b01 (w == ",".intercalate (encPy x)) ++ ":" ++ w
    | none => "ok " ++ w
  | .outside => "outside"
  | .fail => "fail"

/-! ### evaluation order -/

/-- names no identifier can have, for the operands of an event -/
def tmpName (i : Nat) : Text := [0, i]

def opKind : Op → String
  | .load _ _ => "load" | .loadFn _ => "loadfn" | .getattr _ _ => "getattr" | .getmeth _ _ => "getmeth"
  | .index _ _ => "index" | .cmp _ _ _ => "cmp" | .isIn _ _ => "isin" | .arith _ _ _ => "arith"
  | .call _ _ => "call" | .callMethod _ _ _ => "callmethod" | .iter _ => "iter" | .range _ _ => "range" | .fmt _ => "fmt"

/-- an event on the wire: the exception it records (`Ev.raised`), else the result of the operation, computed by the
evaluator itself on the operand values -/
def evOut (ρ : Env) (ev : Ev) : String :=
  match ev.raised with
  | some o => opKind ev.op ++ "|" ++ encOut o
  | none =>
    opKind ev.op ++ "|" ++
    (match ev.op with
    | .load _ o => encOut o
    | .loadFn _ => "ok"
    | .getattr v n => encOut (eval (ρ.bind (tmpName 0) v) (.member (.name (tmpName 0)) n))
    | .getmeth _ _ => "ok"
    | .index c i => encOut (eval ((ρ.bind (tmpName 0) c).bind (tmpName 1) i) (.index (.name (tmpName 0)) (.name (tmpName 1))))
    | .cmp op l r => encOut (eval ((ρ.bind (tmpName 0) l).bind (tmpName 1) r) (.cmp (.name (tmpName 0)) op (.name (tmpName 1))))
    | .isIn m c => encOut (eval ((ρ.bind (tmpName 0) m).bind (tmpName 1) c) (.isIn (.name (tmpName 0)) (.name (tmpName 1))))
    | .arith add l r =>
      let ρ' := (ρ.bind (tmpName 0) l).bind (tmpName 1) r
      encOut (eval ρ' (if add then .add (.name (tmpName 0)) (.name (tmpName 1)) else .sub (.name (tmpName 0)) (.name (tmpName 1))))
    | .call f args =>
      let names := (List.range args.length).map tmpName
      let ρ' : Env := { ρ with vars := (names.zip args).reverse ++ ρ.vars }
      encOut (eval ρ' (.funCall f (names.map .name)))
    | .callMethod _ _ _ => "-"
    | .iter _ => "ok"
    | .range _ _ => "ok"
    | .fmt v => encOut (fmtVal ρ v))

def encTrace (ρ : Env) (evs : List Ev) : String :=
  if evs.isEmpty then "-" else " ".intercalate (evs.map (evOut ρ))

/-! ### parse rules -/
open AasVerif.PyAst in
def pCmpOp : String → Option PyCmpOp
  | "lt" => some .lt | "le" => some .le | "gt" => some .gt | "ge" => some .ge | "eq" => some .eq
  | "ne" => some .ne | "in" => some .in_ | "notin" => some .notIn | "is" => some .is_ | "isnot" => some .isNot
  | _ => none

open AasVerif.PyAst in
mutual
  partial def pAst : P PyAst
    | "C" :: ts => do
      let (l, ts) ← pAst ts
      let (ops, ts) ← pCounted (fun ts => match ts with
        | o :: ts => (pCmpOp o).map (·, ts)
        | [] => none) ts
      let (cs, ts) ← pCounted pAst ts
      some (.compare l ops cs, ts)
    | "K" :: ts => do
      let (f, ts) ← pAst ts
      let (args, ts) ← pCounted pAst ts
      let (kw, ts) ← pNat ts
      some (.call f args kw, ts)
    | "G" :: ts => do
      let (elt, ts) ← pAst ts
      let (gens, ts) ← pCounted pComp ts
      some (.generatorExp elt gens, ts)
    | "kn" :: ts => some (.constant .none, ts)
    | "kb0" :: ts => some (.constant (.bool false), ts)
    | "kb1" :: ts => some (.constant (.bool true), ts)
    | "ki" :: ts => do let (i, ts) ← pInt ts; some (.constant (.int i), ts)
    | "kf" :: ts => do let (t, ts) ← pText ts; some (.constant (.float t), ts)
    | "ks" :: ts => do let (t, ts) ← pText ts; some (.constant (.str t), ts)
    | "ko" :: ts => some (.constant .other, ts)
    | "U" :: op :: ts => do
      let op ← (match op with
        | "not" => some UnOp.not | "usub" => some UnOp.usub | "uadd" => some UnOp.uadd
        | "invert" => some UnOp.invert | _ => none)
      let (e, ts) ← pAst ts
      some (.unaryOp op e, ts)
    | "B" :: ts => do
      let (a, ts) ← pBool ts
      let (vs, ts) ← pCounted pAst ts
      some (.boolOp a vs, ts)
    | "A" :: ts => do let (e, ts) ← pAst ts; let (n, ts) ← pText ts; some (.attribute e n, ts)
    | "S" :: ts => do let (v, ts) ← pAst ts; let (i, ts) ← pAst ts; some (.subscript v i, ts)
    | "N" :: ts => do let (n, ts) ← pText ts; some (.name n, ts)
    | "O" :: ts => do
      let (l, ts) ← pAst ts
      match ts with
      | op :: ts => do
        let op ← (match op with
          | "add" => some BinOpK.add | "sub" => some BinOpK.sub | "other" => some BinOpK.other | _ => none)
        let (r, ts) ← pAst ts
        some (.binOp l op r, ts)
      | [] => none
    | "J" :: ts => do let (vs, ts) ← pCounted pAst ts; some (.joinedStr vs, ts)
    | "F" :: ts => do
      let (v, ts) ← pAst ts
      let (c, ts) ← pInt ts
      let (sp, ts) ← pBool ts
      some (.formattedValue v c sp, ts)
    | "X" :: ts => some (.other, ts)
    | _ => none
  partial def pComp : P Comp := fun ts => do
    let (t, ts) ← pAst ts
    let (it, ts) ← pAst ts
    let (ifs, ts) ← pCounted pAst ts
    let (a, ts) ← pBool ts
    some (.mk t it ifs a, ts)
end

def handle : List String → Option String
  | ["rules", a] => do
    let a ← decAll pAst a
    match PyAst.ofPy a with
    | .ok e => some ("ok " ++ Expr.Wire.enc e)
    | .err => some "err"
    | .crash => some "crash"
  | ["evalpy", w, a] => do
    let w ← decAll pWorld w
    let a ← decAll pAst a
    some (encOut (PyAst.evalPy w.env a))
  | ["emit", cfg, top, e] => do
    let cfg ← decAll pCfg cfg
    let e ← Expr.Wire.dec e
    let r := if top == "1" then PyEmit.transpileInvariant cfg e else PyEmit.transpile cfg [] e
    match r with
    | .ok x =>
      let toks := PyEmit.print x
      some ("ok " ++ b01 (PyEmit.parenOK x) ++ " " ++ ",".intercalate (encPy x) ++ " " ++ encToks toks ++ " " ++
        encReading (PyEmit.parse toks) (some (PyEmit.strip x)))
    | .err => some "err"
    | .crash => some "crash"
  | ["pyparse", ts] => do
    let ts ← decToks ts
    some (encReading (PyEmit.parse ts) none)
  | ["trace", w, e] => do
    let w ← decAll pWorld w
    let e ← Expr.Wire.dec e
    some (encTrace w.env (trace w.env e))
  | ["emittrace", cfg, w, e] => do
    let cfg ← decAll pCfg cfg
    let w ← decAll pWorld w
    let e ← Expr.Wire.dec e
    match PyEmit.transpile cfg [] e with
    | .ok x =>
      let a := encTrace w.env (PyEmit.PyExpr.trace w.env x)
      let b := encTrace w.env (trace w.env e)
      some (if a == b then "same" else "differ " ++ a ++ " / " ++ b)
    | .err => some "err"
    | .crash => some "crash"
  | ["verify", w, v] => do
    let w ← decAll pWorld w
    let v ← decAll pVal v
    some (encVRes (verify w.mm w.env v))
  | ["eval", w, e] => do
    let w ← decAll pWorld w
    let e ← Expr.Wire.dec e
    some (encOut (eval w.env e))
  | _ => none

end AasVerif.Drive.C08
