import AasVerif.Model.Snippets
import AasVerif.Gen.Snippets
namespace AasVerif.Drive.C25
open AasVerif AasVerif.Snippets

/-! Wire format of a tree: pre-order tokens, one per request argument:
`d:<name>` opens a directory, `)` closes it, `f:<name>:<bytes>` readable regular file,
`l:<name>` symbolic link to a directory, `o:<name>` neither file nor directory,
`u:<name>` regular file whose reading raises `OSError`. Names and bytes are hex texts. -/

def parseTok (s : String) : Option (Option Node ⊕ Text) :=
  if s == ")" then some (.inl none) else
  match s.splitOn ":" with
  | ["d", n] => (Text.dec n).map .inr
  | ["f", n, b] => do some (.inl (some (.leaf (← Text.dec n) .file (← Text.dec b))))
  | ["l", n] => do some (.inl (some (.leaf (← Text.dec n) .dir [])))
  | ["o", n] => do some (.inl (some (.leaf (← Text.dec n) .other [])))
  | ["u", n] => do some (.inl (some (.leaf (← Text.dec n) .unreadable [])))
  | _ => none

/-- stack of open directories: (name, children so far, reversed); bottom is the root. -/
def parseTree (toks : List String) : Option (List Node) :=
  let rec go : List String → List (Text × List Node) → Option (List Node)
    | [], [(_, ch)] => some ch.reverse
    | [], _ => none
    | t :: ts, stack =>
      match parseTok t, stack with
      | some (.inr n), _ => go ts ((n, []) :: stack)
      | some (.inl (some nd)), (n, ch) :: rest => go ts ((n, nd :: ch) :: rest)
      | some (.inl none), (n, ch) :: (n', ch') :: rest => go ts ((n', .dir n ch.reverse :: ch') :: rest)
      | _, _ => none
  go toks [([], [])]

def encErrKind : ErrKind → String
  | .notFile => "notfile" | .key => "key" | .io => "io" | .utf8 => "utf8"

def encRes : Res → String
  | .ok m => "ok " ++ (if m.isEmpty then "[]" else ",".intercalate (m.map fun (k, v) => Text.enc k ++ "=" ++ Text.enc v))
  | .err es => "err " ++ ",".intercalate (es.map fun e => encErrKind e.kind ++ ":" ++ Text.enc (posix e.rel))
  | .crash s => "crash " ++ s

def encEntries (es : List Entry) : String :=
  if es.isEmpty then "[]" else ",".intercalate (es.map fun e => Text.enc (posix e.rel))

def boolStr (b : Bool) : String := if b then "1" else "0"

/-- Not a constant: closed terms are evaluated at every start of the driver. -/
def spaceTable (n : Nat) : List Nat := (List.range n).filter isSpace

def handle : List String → Option String
  | "read" :: toks => (parseTree toks).map fun t => encRes (readTree t)
  | "glob" :: toks => (parseTree toks).map fun t => encEntries (glob t)
  | "sorted" :: toks => (parseTree toks).map fun t => encEntries (sortEntries (glob t))
  | ["key", k] => (Text.dec k).map fun k => boolStr (validKey k)
  | ["utf8", b] => (Text.dec b).map fun b => match utf8Decode b with
      | none => "none" | some t => "some " ++ Text.enc t
  | ["encode", t] => (Text.dec t).map fun t => Text.enc (utf8Encode t)
  | ["strip", t] => (Text.dec t).map fun t => Text.enc (strip t)
  | ["nl", t] => (Text.dec t).map fun t => Text.enc (universalNewlines t)
  | ["spaces", n] => n.toNat?.map fun n => Text.enc (spaceTable n)
  | ["pattern"] => some (Text.enc Gen.Snippets.keyPattern)
  | _ => none

end AasVerif.Drive.C25
