import AasVerif.Model.JsonSchemaWire
import AasVerif.Model.JsonSchemaClosed
import AasVerif.Model.JsonSchemaHier
namespace AasVerif.Drive.C11
open AasVerif AasVerif.JsonSchema AasVerif.JsonSchema.Wire

def verdict : Option Bool → String
  | some true => "1"
  | some false => "0"
  | none => "f"

def rName : R → String
  | .yes => "yes" | .no => "no" | .out => "out"

/-- * `gen <mm>` → `ok <json of the definitions, keys sorted>` | `err` | `crash:<PythonExceptionType>`
    * `closed <mm>` → `1`/`0`: the hypothesis `refsClosed` of `Props.C11.refs_resolve`
    * `hier <mm>` → two characters `1`/`0`: the hypothesis `hierOK` of the whole-document theorems
      (`Props.C11.valid_data_accepted`, `Props.C12.document_enforced`, …) and the hypothesis `choicesOK`
      of the dispatch theorem (`Props.C11.choice_dispatch`)
    * `val <mm> <k> (<definition name> <json>)*k` → `ok <k verdict characters 1/0/f>` | `err` | `crash:…`
      (each document is validated against `{"$ref": "#/definitions/<name>"}`)
    * `pat <pattern> <k> <text>*k` → `ok <fixed pattern text> <k × y/n/o>` | `crash:…`
      (`fix_pattern_for_utf16`, then un-anchored search on the UTF-16 units of each text) -/
def handle : List String → Option String
  | "gen" :: ts => do
    let (mm, r) ← pMM ts
    if !r.isEmpty then none
    match generate mm with
    | .ok defs => some ("ok " ++ showJson (defsToJson defs))
    | .err => some "err"
    | .crash c => some ("crash:" ++ c.pyName)
  | "closed" :: ts => do
    let (mm, r) ← pMM ts
    if !r.isEmpty then none
    some (if refsClosed mm then "1" else "0")
  | "hier" :: ts => do
    let (mm, r) ← pMM ts
    if !r.isEmpty then none
    some ((if hierOK mm then "1" else "0") ++ (if choicesOK mm then "1" else "0"))
  | "val" :: ts => do
    let (mm, r) ← pMM ts
    let (docs, r) ← pCounted (fun ts => do
      let (name, ts) ← pText ts
      let (j, ts) ← pJson ts.length ts
      some ((name, j), ts)) r
    if !r.isEmpty then none
    match generate mm with
    | .ok defs =>
      some ("ok " ++ String.join (docs.map fun (name, j) =>
        verdict (validates defs driverFuel (refTo name) j)))
    | .err => some "err"
    | .crash c => some ("crash:" ++ c.pyName)
  | "pat" :: ts => do
    let (p, r) ← pText ts
    let (texts, r) ← pCounted pText r
    if !r.isEmpty then none
    match fixPattern p with
    | .error c => some ("crash:" ++ c.pyName)
    | .ok re =>
      some ("ok " ++ Text.enc (patternText re) ++ " " ++ String.join (texts.map fun t =>
        match searchB re (Fix16.utf16 t) with
        | .yes => "y" | .no => "n" | .out => "o"))
  | _ => none

end AasVerif.Drive.C11
