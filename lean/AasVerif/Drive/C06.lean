import AasVerif.Model.Rules
namespace AasVerif.Drive.C06
open AasVerif AasVerif.Rules

/-! Token-stream decoder of the wire form of an abstract meta-model (see `harness/props/c06.py`). -/

abbrev P := StateT (List String) Option

def tok : P String := fun s => match s with
  | [] => none
  | t :: r => some (t, r)

def ofOption {α : Type} : Option α → P α
  | some a => pure a
  | none => failure

def nat : P Nat := do ofOption (← tok).toNat?
def text : P Text := do ofOption (Text.dec (← tok))

def many {α : Type} (p : P α) : Nat → P (List α)
  | 0 => pure []
  | n + 1 => do
    let x ← p
    let xs ← many p n
    pure (x :: xs)

def counted {α : Type} (p : P α) : P (List α) := do many p (← nat)

def lit (s : String) : P Unit := do
  let t ← tok
  if t == s then pure () else failure

partial def ty : P Ty := do
  match (← tok) with
  | "p" => return .prim (← text)
  | "r" => return .ref (← text)
  | "l" => return .list (← ty)
  | "o" => return .opt (← ty)
  | _ => failure

def dflt : P Dflt := do
  match (← tok) with
  | "a" => pure .absent
  | "n" => pure .none
  | "o" => pure .other
  | _ => failure

def propDecl : P PropDecl := do
  let n ← text
  let t ← ty
  pure ⟨n, t⟩

def arg : P Arg := do
  let n ← text
  let t ← ty
  let d ← dflt
  pure ⟨n, t, d⟩

def ctor : P (Option (List Arg)) := do
  match (← tok) with
  | "-" => pure none
  | "c" => return some (← counted arg)
  | _ => failure

def cls : P Cls := do
  let name ← text
  let parents ← counted text
  let props ← counted propDecl
  let methods ← counted text
  let invs ← counted text
  let c ← ctor
  pure ⟨name, parents, props, methods, invs, c⟩

def enumDecl : P EnumDecl := do
  let name ← text
  let lits ← counted text
  pure ⟨name, lits⟩

def fn : P Fn := do
  let name ← text
  match (← tok) with
  | "-" => pure ⟨name, none⟩
  | "p" => return ⟨name, some (← text)⟩
  | _ => failure

def docRef : P DocRef := do
  match (← tok) with
  | "c" => return .cls (← text)
  | "a" => return .attr (← text)
  | "b" => do
    let t ← text
    let n ← text
    pure (.attr2 t n)
  | "k" => return .const (← text)
  | _ => failure

def doc : P Doc := do
  let scope ← (do
    match (← tok) with
    | "-" => pure none
    | "s" => return some (← text)
    | _ => failure)
  let refs ← counted docRef
  pure ⟨scope, refs⟩

def mm : P MM := do
  lit "E"
  let enums ← counted enumDecl
  lit "C"
  let classes ← counted cls
  lit "K"
  let consts ← counted text
  lit "F"
  let fns ← counted fn
  lit "D"
  let docs ← counted doc
  pure ⟨enums, classes, consts, fns, docs⟩

def decode (ts : List String) : Option MM :=
  match mm ts with
  | some (m, []) => some m
  | _ => none

def ruleName : RuleId → String
  | .dupProperty => "dupProperty" | .dupMethod => "dupMethod" | .memberClash => "memberClash"
  | .dupSymbol => "dupSymbol"
  | .reservedTypePrefix => "reservedTypePrefix" | .reservedTypeName => "reservedTypeName"
  | .reservedPropertyName => "reservedPropertyName" | .reservedMethodName => "reservedMethodName"
  | .reservedConstantName => "reservedConstantName" | .reservedFunctionName => "reservedFunctionName"
  | .missingBase => "missingBase" | .baseNotClass => "baseNotClass" | .danglingType => "danglingType"
  | .cycle => "cycle"
  | .redeclaredProperty => "redeclaredProperty" | .redeclaredMethod => "redeclaredMethod"
  | .ctorMissingInherited => "ctorMissingInherited" | .inheritedClash => "inheritedClash"
  | .danglingDocClass => "danglingDocClass" | .danglingDocConst => "danglingDocConst"
  | .danglingDocAttr => "danglingDocAttr"
  | .ctorDefault => "ctorDefault" | .ctorPropInit => "ctorPropInit" | .ctorMissing => "ctorMissing"
  | .ctorArgNames => "ctorArgNames" | .ctorArgOrder => "ctorArgOrder" | .ctorArgType => "ctorArgType"
  | .nestedOptional => "nestedOptional" | .listOfOptional => "listOfOptional"
  | .patternInvalid => "patternInvalid" | .patternEmpty => "patternEmpty"
  | .patternNotAnchored => "patternNotAnchored"
  | .dupInvariantDescription => "dupInvariantDescription"

def showRules (rs : List RuleId) : String :=
  if rs.isEmpty then "ok" else ",".intercalate (rs.map ruleName)

/-- `check <MM>` → `ok` | comma-separated rule ids of the first failing stage;
`all <MM>` → the errors of every stage, `;`-separated (`-` for a clean stage);
`dfs <MM>` → `ok` | `cycle <name>` | `fuel`. -/
def handle : List String → Option String
  | "check" :: rest => do
    let m ← decode rest
    some (showRules (check m))
  | "all" :: rest => do
    let m ← decode rest
    some (";".intercalate ((stages m).map (fun s => if s.isEmpty then "-" else ",".intercalate (s.map ruleName))))
  | "dfs" :: rest => do
    let m ← decode rest
    some (match dfsCycle m.classes with
      | .ok _ => "ok"
      | .cycle n => "cycle " ++ Text.enc n
      | .fuel => "fuel")
  | _ => none

end AasVerif.Drive.C06
