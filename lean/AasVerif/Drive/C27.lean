import AasVerif.Model.Wrap
import AasVerif.Gen.Wrap
namespace AasVerif.Drive.C27
open AasVerif

/-- `wrap <width|d> <text>` → list of segments -/
def handle : List String → Option String
  | ["wrap", w, t] => do
    let t ← Text.dec t
    let w ← if w == "d" then some Gen.Wrap.defaultWidth else w.toNat?
    some (Text.encList (Wrap.wrap Gen.Wrap.articles w t))
  | ["tokens", t] => do
    let t ← Text.dec t
    some (Text.encList (Wrap.tokens Gen.Wrap.articles t))
  | _ => none

end AasVerif.Drive.C27
