import AasVerif.Model.Xsd
import AasVerif.Gen.Xsd
import AasVerif.Gen.PatternShape
namespace AasVerif.Drive.C14
open AasVerif AasVerif.Xsd

def optNat (s : String) : Option (Option Nat) :=
  if s == "n" then some none else s.toNat?.map some

def showErr : PatternShape.Err → String
  | .parse => "parse"
  | .empty => "empty"
  | .notAnchored => "not-anchored"
  | .tooMany .start => "too-many-start"
  | .tooMany .stop => "too-many-stop"
  | .tooMany .dot => "too-many-dot"
  | .nonGreedy => "non-greedy"

def showOpt (name : String) : Option Nat → String
  | some n => " " ++ name ++ " " ++ toString n
  | none => ""

/--
* `simple <PRIM> <min|n> <max|n> <patterns>` → `type <ty>` | `base <ty> [pattern <text>] [minLength n] [maxLength n]` | `error` | `base <ty> pattern * [minLength n] [maxLength n]` (two or more patterns: one facet, text by greenery)
* `list <min|n> <max|n>` → `occurs <min> <max|unbounded>`
* `shape <pattern>` → `ok` | `err <kind>,<kind>…` (`_verify_patterns_anchored_at_start_and_end` for one pattern)
-/
def handle : List String → Option String
  | ["simple", prim, mn, mx, pats] => do
    let mn ← optNat mn
    let mx ← optNat mx
    let pats ← Text.decList pats
    some (match simpleType Gen.Xsd.xsdLiteral Gen.Xsd.xsdRange Gen.Xsd.primitiveMap Gen.Xsd.xmlCharPattern prim mn mx pats with
      | .plain ty => "type " ++ ty
      | .restricted ty p a b =>
        "base " ++ ty ++ (match p with | some t => " pattern " ++ Text.enc t | none => "") ++ showOpt "minLength" a ++ showOpt "maxLength" b
      | .error => "error"
      | .greenery ty a b => "base " ++ ty ++ " pattern *" ++ showOpt "minLength" a ++ showOpt "maxLength" b
      | .unknownPrimitive => "unknown-primitive")
  | ["list", mn, mx] => do
    let mn ← optNat mn
    let mx ← optNat mx
    let o := listOccurs mn mx
    some ("occurs " ++ toString o.1 ++ " " ++ (match o.2 with | some b => toString b | none => "unbounded"))
  | ["shape", p] => do
    let p ← Text.dec p
    some (match PatternShape.patternErrors Gen.PatternShape.checks p with
      | [] => "ok"
      | es => "err " ++ String.intercalate "," (es.map showErr))
  | _ => none

end AasVerif.Drive.C14
