import AasVerif.Model.Execute
import AasVerif.Gen.Generators
namespace AasVerif.Drive.C02
open AasVerif AasVerif.Execute

def parseNats (w : String) : Option (List Nat) :=
  if w == "-" then some [] else (w.splitOn ",").mapM (·.toNat?)

def parseOut : String → Option StepOut
  | "err" => some .err
  | "mkdir" => some .mkdirFail
  | "write" => some .writeFail
  | _ => none

/-- `i:kind,i:kind,…` (all other steps are ok) -/
def parseOuts (w : String) : Option (List (Nat × StepOut)) :=
  if w == "-" then some [] else
    (w.splitOn ",").mapM (fun p =>
      match p.splitOn ":" with
      | [i, k] => do
        let i ← i.toNat?
        let k ← parseOut k
        pure (i, k)
      | _ => none)

def showKind : Kind → String
  | .check => "check"
  | .generate => "generate"
  | .mkdir => "mkdir"
  | .write => "write"

def showRes : Res → String
  | .exit0 => "exit0"
  | .exit1 k i => "exit1 " ++ showKind k ++ " " ++ toString i
  | .crash s => "crash " ++ s

/-- `exec <target> <failed checks | -> <step outcomes | ->` → `exit0 | exit1 <kind> <index> | crash <site>`;
`shape <target>` → `<#checks> <#steps> <fallible step indices | ->` -/
def handle : List String → Option String
  | ["exec", target, failed, outs] => do
    let sk ← Gen.Generators.all.find? (·.target == target)
    let f ← parseNats failed
    let o ← parseOuts outs
    some (showRes (execute sk (fun i => f.contains i) (fun i => ((o.find? (·.1 == i)).map (·.2)).getD .ok)))
  | ["shape", target] => do
    let sk ← Gen.Generators.all.find? (·.target == target)
    let fall := (List.range sk.steps.length).filter (fun i => (sk.steps[i]?.map (·.fallible)).getD false)
    some (toString sk.checks.length ++ " " ++ toString sk.steps.length ++ " " ++
      (if fall.isEmpty then "-" else ",".intercalate (fall.map toString)))
  | _ => none
end AasVerif.Drive.C02
