import AasVerif.Model.Cache
import AasVerif.Model.CacheFlag
import AasVerif.Gen.Cache
namespace AasVerif.Drive.C23
open AasVerif AasVerif.Cache

def showPathE : PathE → String
  | .final => "final"
  | .tmp => "tmp"

def showOp : Op → String
  | .readText => "readText"
  | .hashText => "hashText"
  | .tempDir => "tempDir"
  | .freshUid => "freshUid"
  | .exists p => s!"exists.{showPathE p}"
  | .openR p => s!"openR.{showPathE p}"
  | .load => "load"
  | .retCached => "return"
  | .compute => "compute"
  | .mkdir _ => "mkdir"
  | .openW p => s!"openW.{showPathE p}"
  | .dump => "dump"
  | .closeW => "closeW"
  | .rename s d => s!"rename.{showPathE s}.{showPathE d}"
  | .unlink p _ => s!"unlink.{showPathE p}"
  | .ret => "return"

def showPath : Path → String
  | .final h => s!"F{h}"
  | .tmp h u => s!"T{h}.{u}"

def showAccess : Access → String
  | .probe => "probe"
  | .mkdir => "mkdir"
  | .look p => s!"look:{showPath p}"
  | .read p => s!"read:{showPath p}"
  | .write p => s!"write:{showPath p}"

def showProc (p : Proc) : String :=
  match p.mode with
  | .finished (.ok s) => s!"ok:{s}"
  | .finished (.err s) => s!"err:{s}"
  | .finished .crashed => "crashed"
  | .finished .killed => "killed"
  | .running => "run@" ++ (match p.todo with | g :: _ => showOp g.op | [] => "end")
  | .unwinding => "unw@" ++ (match p.todo with | g :: _ => showOp g.op | [] => "end")

def bit (b : Bool) : String := if b then "1" else "0"

def join (l : List String) : String := if l.isEmpty then "-" else ",".intercalate l

/-- candidate paths: final and own tmp of every spawned run (the ops only address those) -/
def candidates (cfg : Cfg) (s : St) : List Path :=
  let idx := List.range s.n
  let fin := (idx.filterMap (fun i => (s.procs i).map (fun p => cfg.hash p.text))).eraseDups
  let fins := fin.map Path.final
  let tmps := idx.filterMap (fun i => (s.procs i).map (fun p => Path.tmp (cfg.hash p.text) i))
  fins ++ tmps

def showSt (cfg : Cfg) (s : St) : String :=
  let files := (candidates cfg s).filterMap (fun q => (s.fs q).map (fun c => s!"{showPath q}:{c.src}:{bit c.complete}"))
  let procs := (List.range s.n).filterMap (fun i => (s.procs i).map showProc)
  let log := s.log.reverse.map (fun (i, a) => s!"{i}:{showAccess a}")
  let tr := s.trace.reverse.map (fun (i, o, r) => s!"{i}:{showOp o}{if r then "!" else ""}")
  s!"dir={bit s.dir}|files={join files}|procs={join procs}|log={join log}|trace={join tr}"

def decEvent (w : String) : Option Event :=
  match w.splitOn "." with
  | ["sp", t, f] => do
    let t ← t.toNat?
    let f ← if f == "1" then some true else if f == "0" then some false else none
    some (.spawn t f)
  | ["st", i] => i.toNat?.map Event.step
  | ["ex", i] => i.toNat?.map Event.exc
  | ["ki", i] => i.toNat?.map Event.kill
  | _ => none

def decNats (w : String) : Option (List Nat) :=
  if w == "-" then some [] else (w.splitOn ",").mapM (fun p => p.toNat?)

def cfgOf (invalid : List Nat) : Cfg :=
  { hash := id, valid := fun t => !invalid.contains t, ops := Gen.Cache.loadModelOps }

def handle : List String → Option String
  | "run" :: inv :: evs => do
    let inv ← decNats inv
    let evs ← evs.mapM decEvent
    let cfg := cfgOf inv
    some (showSt cfg (run cfg evs St.init))
  | ["safe"] =>
    some s!"{bit (Safe .running none .none false false false false (program Gen.Cache.loadModelOps true))} {bit (Safe .running none .none false false false false (program Gen.Cache.loadModelOps false))}"
  | ["plumb", b] =>
    let r := if b == "1" then some true else if b == "0" then some false else none
    r.bind (fun b => match CacheFlag.plumb Gen.Cache.flag b with
      | some v => some (bit v)
      | none => some "stuck")
  | ["plumbdefault"] =>
    match CacheFlag.plumbDefault Gen.Cache.flag with
    | some v => some (bit v)
    | none => some "stuck"
  | ["ops", f] =>
    let r := if f == "1" then some true else if f == "0" then some false else none
    r.map (fun f => join ((program Gen.Cache.loadModelOps f).map (fun g => showOp g.op)))
  | _ => none

end AasVerif.Drive.C23
