def hello := "world"
