import AasVerif.Model.SdkData
import AasVerif.Model.Base64
import AasVerif.Gen.SdkJson
/-!
# JSON (de)serialization of the generated Python SDK, generic over the meta-model

Shape of the code emitted by `python/lib/_generate_jsonization.py` (+ `_generate_stringification.py`,
`naming.json_property/json_model_type`):

* `toJson`   = `to_jsonable` (`_Serializer.transform_X`): properties in `cls.properties` order,
  `None`-valued optionals skipped, bytes through base64, enumeration literals as their value,
  `modelType` LAST when `serialization.with_model_type`.
* `fromJson` = `<cls>_from_jsonable`:
  - primitive readers `_bool/_int/_float/_str/_bytes_from_jsonable`: the accepted JSON kinds are
    REGENERATED from the `isinstance` guards of the templates (`Gen.SdkJson.*Accepts`; Python
    `bool ⊂ int` is applied by the extractor) and the value is returned AS IS;
    `_bytes_from_jsonable` = `str.encode('ascii')` + `base64.b64decode`, whose two exceptions
    (`UnicodeEncodeError`, `binascii.Error`) are crash sites unless the regenerated `except`
    clause (`Gen.SdkJson.bytesCatches`) catches them;
  - enumerations through the `stringification` dictionary (a dict literal: LAST entry wins);
  - lists through `_try_to_cast_to_array_like`;
  - classes: `classPlan` = the dispatch on `modelType` for classes with concrete descendants
    (dict literal of own `_without_dispatch` entry + one entry per concrete descendant, LAST wins;
    the chain `X_from_jsonable → Y_from_jsonable → _y_from_jsonable_without_dispatch` is followed
    by `resolve`, whose fuel `classes.length + 2` only runs out for a cyclic hierarchy = Python's
    `RecursionError`), or the `modelType` check of a leaf class with `with_model_type`;
    then the property loop `for key, value in jsonable.items()` with the setter map (dict
    literal, LAST wins, `'modelType' → ignore` as the last entry), the required-property checks
    and the constructor call.
* `Json.obj` members are the `items()` of the Python mapping in iteration order.  A Python
  `dict` cannot hold a key twice; the model processes repeated keys one after the other, which
  is a superset.
* Outcomes: `ok`, `err` (= `DeserializationException`), `crash exc` (= any other exception).
-/
namespace AasVerif.Sdk

mutual
  inductive Json
    | null
    | bool (b : Bool)
    | int (i : Int)
    | float (repr : Text)
    | str (s : Text)
    | arr (items : Jsons)
    | obj (members : Members)
  inductive Jsons
    | nil
    | cons (j : Json) (js : Jsons)
  inductive Members
    | nil
    | cons (k : Text) (v : Json) (ms : Members)
end

inductive Res (α : Type)
  | ok (a : α)
  /-- `DeserializationException` (the text is diagnostic only) -/
  | err (why : String)
  /-- any other exception, by type name -/
  | crash (exc : String)

def Res.isCrash {α : Type} : Res α → Bool
  | .crash _ => true
  | _ => false

/-! ## Naming (`aas_core_codegen/naming.py`; identifiers are ASCII) -/

def lowerC (c : Nat) : Nat := if 65 ≤ c ∧ c ≤ 90 then c + 32 else c
def upperC (c : Nat) : Nat := if 97 ≤ c ∧ c ≤ 122 then c - 32 else c

/-- `str.split("_")` -/
def splitUnderscore : Text → List Text
  | [] => [[]]
  | c :: cs =>
    if c = 95 then [] :: splitUnderscore cs
    else match splitUnderscore cs with
      | [] => [[c]]
      | p :: ps => (c :: p) :: ps

/-- `str.capitalize()` on ASCII -/
def capitalize : Text → Text
  | [] => []
  | c :: cs => upperC c :: cs.map lowerC

/-- `naming.lower_camel_case` -/
def lowerCamel (ident : Text) : Text :=
  match splitUnderscore ident with
  | [] => []
  | [p] => p.map lowerC
  | p :: ps => p.map lowerC ++ (ps.map capitalize).flatten

/-- `naming.capitalized_camel_case` -/
def capCamel (ident : Text) : Text := ((splitUnderscore ident).map capitalize).flatten

def jsonProperty (ident : Text) : Text := lowerCamel ident
def jsonModelType (ident : Text) : Text := capCamel ident

/-- `"modelType"` -/
def modelTypeKey : Text := [109, 111, 100, 101, 108, 84, 121, 112, 101]

/-! ## Serialization -/

/-- `literal.value` of the literal named `lit` of the enumeration `e` (`[]` if it does not exist:
only reachable for non-conforming values) -/
def MM.enumValue (mm : MM) (e lit : Name) : Text :=
  match mm.findEnum e with
  | none => []
  | some ed => match ed.literals.find? (fun p => p.1 == lit) with
    | none => []
    | some p => p.2

mutual
  /-- `jsonization.to_jsonable` (value directed; faithful on conforming values) -/
  def toJson (mm : MM) : Val → Json
    | .none => .null
    | .bool b => .bool b
    | .int i => .int i
    | .float r => .float r
    | .str s => .str s
    | .bytes bs => .str (Base64.encode bs)
    | .enum e l => .str (mm.enumValue e l)
    | .list vs => .arr (toJsons mm vs)
    | .inst d fs =>
      match mm.findClass d with
      | none => .null
      | some cd =>
        .obj (membersOf mm cd.props fs
          (if cd.withModelType then .cons modelTypeKey (.str (jsonModelType cd.name)) .nil else .nil))
  def toJsons (mm : MM) : Vals → Jsons
    | .nil => .nil
    | .cons v vs => .cons (toJson mm v) (toJsons mm vs)
  /-- one `jsonable[key] = …` per property whose value is not `None`, then `tail` -/
  def membersOf (mm : MM) : List PropDecl → Vals → Members → Members
    | p :: ps, .cons v vs, tail =>
      match v with
      | .none => membersOf mm ps vs tail
      | v => .cons (jsonProperty p.name) (toJson mm v) (membersOf mm ps vs tail)
    | _, _, tail => tail
end

/-! ## De-serialization -/

def Json.kind : Json → String
  | .null => "null"
  | .bool _ => "bool"
  | .int _ => "int"
  | .float _ => "float"
  | .str _ => "str"
  | .arr _ => "list"
  | .obj _ => "dict"

/-- the Python object a primitive reader returns as is -/
def rawVal : Json → Val
  | .bool b => .bool b
  | .int i => .int i
  | .float r => .float r
  | .str s => .str s
  | _ => .none

def primAccepts : Prim → List String
  | .bool => Gen.SdkJson.boolAccepts
  | .int => Gen.SdkJson.intAccepts
  | .float => Gen.SdkJson.floatAccepts
  | .str => Gen.SdkJson.strAccepts
  | .bytes => Gen.SdkJson.bytesAccepts

/-- an exception with the given MRO raised inside `try: … except <catches>: raise DeserializationException` -/
def raisedIn (catches : List String) (mro : List String) : Res Val :=
  if mro.any (fun c => catches.contains c) then .err "caught"
  else .crash (mro.headD "Exception")

def mroUnicodeEncodeError : List String :=
  ["UnicodeEncodeError", "UnicodeError", "ValueError", "Exception", "BaseException"]
/-- `binascii.Error` (its `__name__` is `Error`) -/
def mroBinasciiError : List String := ["Error", "ValueError", "Exception", "BaseException"]

def readPrim (p : Prim) (j : Json) : Res Val :=
  if (primAccepts p).contains j.kind then
    match p with
    | .bytes =>
      match j with
      | .str s =>
        match Base64.decode s with
        | .ok bs => .ok (.bytes bs)
        | .error .nonAscii => raisedIn Gen.SdkJson.bytesCatches mroUnicodeEncodeError
        | .error _ => raisedIn Gen.SdkJson.bytesCatches mroBinasciiError
      | _ => .crash "AttributeError"
    | _ => .ok (rawVal j)
  else .err "unexpected type"

/-- dict literal / dict lookup: the LAST entry with the key wins -/
def lookupLast {α : Type} : List (Text × α) → Text → Option α
  | [], _ => none
  | (k, a) :: rest, key =>
    match lookupLast rest key with
    | some x => some x
    | none => if k == key then some a else none

def readEnum (mm : MM) (e : Name) (j : Json) : Res Val :=
  match mm.findEnum e with
  | none => .crash "AttributeError"
  | some ed =>
    match j with
    | .str s =>
      match lookupLast (ed.literals.map (fun p => (p.2, p.1))) s with
      | some lit => .ok (.enum e lit)
      | none => .err "not a literal"
    | _ => .err "expected a str"

/-- `jsonable.get(key, None)` on the members (dict semantics: last value of the key) -/
def getLast : Members → Text → Option Json
  | .nil, _ => none
  | .cons k v ms, key =>
    match getLast ms key with
    | some x => some x
    | none => if k == key then some v else none

/-- the dispatch dictionary of a class with concrete descendants: `none` = own
`_x_from_jsonable_without_dispatch` (concrete classes only), `some d` = `d_from_jsonable` -/
def dispatchEntries (cd : ClassDecl) : List (Text × Option Name) :=
  (if cd.abstract then [] else [(jsonModelType cd.name, none)])
    ++ cd.concreteDescendants.map (fun d => (jsonModelType d, some d))

inductive Resolved
  | unexpected
  | noClass
  | loop
  | body (cd : ClassDecl)
  | leaf (cd : ClassDecl)

/-- follow the chain of dispatching functions for the model type `mt`, starting in the
dispatching function of `cd` (which has concrete descendants) -/
def resolve (mm : MM) : Nat → ClassDecl → Text → Resolved
  | 0, _, _ => .loop
  | n + 1, cd, mt =>
    match lookupLast (dispatchEntries cd) mt with
    | none => .unexpected
    | some none => .body cd
    | some (some d) =>
      match mm.findClass d with
      | none => .noClass
      | some dd => if dd.concreteDescendants.isEmpty then .leaf dd else resolve mm n dd mt

inductive Plan
  | fail (r : Res Val)
  | read (cd : ClassDecl)

/-- `x_from_jsonable` of a concrete class without concrete descendants, up to the property loop -/
def leafPlan (cd : ClassDecl) (j : Json) : Plan :=
  if cd.abstract then .fail (.crash "AssertionError") else
  match j with
  | .obj ms =>
    if cd.withModelType then
      match getLast ms modelTypeKey with
      | none => .fail (.err "no modelType")
      | some .null => .fail (.err "no modelType")
      | some (.str mt) => if mt == jsonModelType cd.name then .read cd else .fail (.err "invalid modelType")
      | some _ => .fail (.err "invalid modelType")
    else .read cd
  | _ => .fail (.err "expected a mapping")

/-- everything `c_from_jsonable` does before the property loop -/
def classPlan (mm : MM) (c : Name) (j : Json) : Plan :=
  match mm.findClass c with
  | none => .fail (.crash "AttributeError")
  | some cd =>
    if cd.concreteDescendants.isEmpty then leafPlan cd j
    else
      match j with
      | .obj ms =>
        match getLast ms modelTypeKey with
        | none => .fail (.err "no modelType")
        | some .null => .fail (.err "no modelType")
        | some (.str mt) =>
          match resolve mm (mm.classes.length + 2) cd mt with
          | .unexpected => .fail (.err "unexpected model type")
          | .noClass => .fail (.crash "NameError")
          | .loop => .fail (.crash "RecursionError")
          | .body dd => .read dd
          | .leaf dd => leafPlan dd j
        | some _ => .fail (.err "modelType not a str")
      | _ => .fail (.err "expected a mapping")

inductive Setter
  | unknown
  | ignore
  | prop (p : PropDecl)

/-- `_SETTER_MAP_FOR_X.get(key)` -/
def setterFor (props : List PropDecl) (key : Text) : Setter :=
  match lookupLast (props.map (fun p => (jsonProperty p.name, Setter.prop p)) ++ [(modelTypeKey, Setter.ignore)]) key with
  | none => .unknown
  | some s => s

abbrev State := List (Name × Val)

def stGet : State → Name → Option Val
  | [], _ => none
  | (k, v) :: rest, key => if k == key then some v else stGet rest key

/-- required-property checks + constructor call -/
def assemble : List PropDecl → State → Res Vals
  | [], _ => .ok .nil
  | p :: ps, st =>
    match stGet st p.name with
    | some v =>
      match assemble ps st with
      | .ok vs => .ok (.cons v vs)
      | .err e => .err e
      | .crash e => .crash e
    | none =>
      if p.ty.isOpt then
        match assemble ps st with
        | .ok vs => .ok (.cons .none vs)
        | .err e => .err e
        | .crash e => .crash e
      else .err "required property missing"

mutual
  /-- the reader the generator picks for a (non-optional) type, applied to `j` -/
  def readVal (mm : MM) : Ty → Json → Res Val
    | .prim p, j => readPrim p j
    | .enum e, j => readEnum mm e j
    | .opt _, _ => .crash "AssertionError"
    | .list t, j =>
      match j with
      | .arr items =>
        match readItems mm t items with
        | .ok vs => .ok (.list vs)
        | .err e => .err e
        | .crash e => .crash e
      | _ => .err "expected something array-like"
    | .cls c, j =>
      match classPlan mm c j with
      | .fail r => r
      | .read cd =>
        match j with
        | .obj ms =>
          match readMembers mm cd.props ms [] with
          | .ok st =>
            match assemble cd.props st with
            | .ok vs => .ok (.inst cd.name vs)
            | .err e => .err e
            | .crash e => .crash e
          | .err e => .err e
          | .crash e => .crash e
        | _ => .err "expected a mapping"
  def readItems (mm : MM) (t : Ty) : Jsons → Res Vals
    | .nil => .ok .nil
    | .cons j js =>
      match t with
      | .list _ => .crash "AssertionError"
      | t =>
        match readVal mm t j with
        | .ok v =>
          match readItems mm t js with
          | .ok vs => .ok (.cons v vs)
          | .err e => .err e
          | .crash e => .crash e
        | .err e => .err e
        | .crash e => .crash e
  /-- `for key, jsonable_value in jsonable.items(): …` -/
  def readMembers (mm : MM) (props : List PropDecl) : Members → State → Res State
    | .nil, st => .ok st
    | .cons k v ms, st =>
      match setterFor props k with
      | .unknown => .err "unexpected property"
      | .ignore => readMembers mm props ms st
      | .prop p =>
        match readVal mm p.ty.beneathOpt v with
        | .ok x => readMembers mm props ms ((p.name, x) :: st)
        | .err e => .err e
        | .crash e => .crash e
end

/-- `jsonization.<c>_from_jsonable(j)` -/
def fromJson (mm : MM) (c : Name) (j : Json) : Res Val := readVal mm (.cls c) j

end AasVerif.Sdk
