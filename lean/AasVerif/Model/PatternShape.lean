import AasVerif.Model.Retree.Parse
/-!
`intermediate/_translate.py:_verify_patterns_anchored_at_start_and_end` for one pattern: what the front
end demands of every inferred pattern before a schema or a regex program is generated from it.
The sequence of the counting checks (which visitor counts which symbol, the limit, the non-greedy check)
is *generated* from the source (`Gen/PatternShape.lean`); the model is the interpretation of that list.
-/
namespace AasVerif.PatternShape
open AasVerif AasVerif.Retree

mutual
  /-- a `PassThroughVisitor` with `visit_symbol` counting the symbols of kind `k` -/
  def cntValue (k : SymKind) : Value → Nat
    | .group u => cntUnion k u
    | .sym k' => if k' = k then 1 else 0
    | _ => 0
  def cntTerms (k : SymKind) : List Term → Nat
    | [] => 0
    | .mk v _ :: ts => cntValue k v + cntTerms k ts
  def cntConcats (k : SymKind) : List Concat → Nat
    | [] => 0
    | .mk ts :: cs => cntTerms k ts + cntConcats k cs
  def cntUnion (k : SymKind) : Union → Nat
    | .mk us => cntConcats k us
end

mutual
  /-- `_CheckForNonGreedyQuantifiers` -/
  def ngValue : Value → Bool
    | .group u => ngUnion u
    | _ => false
  def ngTerms : List Term → Bool
    | [] => false
    | .mk v q :: ts => (match q with | some q => q.nonGreedy | none => false) || ngValue v || ngTerms ts
  def ngConcats : List Concat → Bool
    | [] => false
    | .mk ts :: cs => ngTerms ts || ngConcats cs
  def ngUnion : Union → Bool
    | .mk us => ngConcats us
end

/-- one of the checks after the shape check, in source order -/
inductive Check where
  | count (k : SymKind) (limit : Nat)   -- `if counter.count > limit: errors.append(...)`
  | nonGreedy
  deriving DecidableEq, Repr

inductive Err where
  | parse | empty | notAnchored | tooMany (k : SymKind) | nonGreedy
  deriving DecidableEq, Repr

def isStart : Value → Bool
  | .sym .start => true
  | _ => false

def isStop : Value → Bool
  | .sym .stop => true
  | _ => false

def runCheck (r : Regex) : Check → List Err
  | .count k limit => if cntUnion k r > limit then [.tooMany k] else []
  | .nonGreedy => if ngUnion r then [.nonGreedy] else []

/-- the errors for one parsed pattern -/
def shapeErrors (checks : List Check) (r : Regex) : List Err :=
  match r with
  | .mk [] => [.empty]
  | .mk (.mk [] :: _) => [.empty]
  | .mk (.mk (t :: ts) :: rest) =>
    if rest.isEmpty && isStart t.value && isStop ((t :: ts).getLast (List.cons_ne_nil t ts)).value
    then checks.flatMap (runCheck r)
    else [.notAnchored]

/-- the errors for one pattern text -/
def patternErrors (checks : List Check) (p : Text) : List Err :=
  match parse [.str p] with
  | .ok r => shapeErrors checks r
  | _ => [.parse]

end AasVerif.PatternShape
