import AasVerif.Model.Text
/-!
Shared pieces of the literal models (C19): outcome type, Python's number formatting as used by the
encoders (`f"{n:x}"`, `f"{n:02x}"`, `f"{n:04x}"`, `f"{n:08x}"`, `f"{n:03o}"`), digit readers,
UTF-16 / UTF-8 encodings of one code point, and the generic literal reader loop `run`.

Text is `List Nat` (code points; lone surrogates are ordinary elements).
-/
namespace AasVerif.Lit

/-- Outcome of a generator function: a value, or the exception it raises (`site` = exception type). -/
inductive Res (α : Type) where
  | ok (a : α)
  | err (site : String)
  deriving Repr, DecidableEq

/-- lower-case hex digit character of `d < 16` -/
def hexDigit (d : Nat) : Nat := if d < 10 then 48 + d else 87 + d

def hexMinAux : Nat → Nat → Text → Text
  | 0, _, acc => acc
  | f + 1, n, acc =>
    if n < 16 then hexDigit n :: acc else hexMinAux f (n / 16) (hexDigit (n % 16) :: acc)

/-- `format(n, "x")` for `n < 16 ^ 8` (code points are `< 0x110000`). -/
def hexMin (n : Nat) : Text := hexMinAux 8 n []

/-- exactly `w` hex digits of `n` (the low ones) -/
def fixedHex : Nat → Nat → Text
  | 0, _ => []
  | w + 1, n => fixedHex w (n / 16) ++ [hexDigit (n % 16)]

/-- `format(n, "0<w>x")`: zero padded to at least `w` digits. -/
def fmtHex (w n : Nat) : Text := if n < 16 ^ w then fixedHex w n else hexMin n

def octMinAux : Nat → Nat → Text → Text
  | 0, _, acc => acc
  | f + 1, n, acc => if n < 8 then (48 + n) :: acc else octMinAux f (n / 8) ((48 + n % 8) :: acc)

/-- `format(n, "03o")` -/
def fmtOct3 (n : Nat) : Text :=
  if n < 512 then [48 + n / 64, 48 + n / 8 % 8, 48 + n % 8] else octMinAux 8 n []

/-- value of a hex digit character (both cases) -/
def hexVal? (c : Nat) : Option Nat :=
  if 48 ≤ c ∧ c ≤ 57 then some (c - 48)
  else if 97 ≤ c ∧ c ≤ 102 then some (c - 87)
  else if 65 ≤ c ∧ c ≤ 70 then some (c - 55)
  else none

def octVal? (c : Nat) : Option Nat := if 48 ≤ c ∧ c ≤ 55 then some (c - 48) else none

def isSurrogate (c : Nat) : Bool := decide (0xD800 ≤ c ∧ c ≤ 0xDFFF)

/-- UTF-16 code units of one code point (a lone surrogate is its own unit). -/
def utf16cp (c : Nat) : List Nat :=
  if c < 0x10000 then [c] else [0xD800 + (c - 0x10000) / 1024, 0xDC00 + (c - 0x10000) % 1024]

/-- UTF-8 bytes of one code point (only meaningful for non-surrogates `< 0x110000`). -/
def utf8cp (c : Nat) : List Nat :=
  if c < 0x80 then [c]
  else if c < 0x800 then [0xC0 + c / 64, 0x80 + c % 64]
  else if c < 0x10000 then [0xE0 + c / 4096, 0x80 + c / 64 % 64, 0x80 + c % 64]
  else [0xF0 + c / 262144, 0x80 + c / 4096 % 64, 0x80 + c / 64 % 64, 0x80 + c % 64]

/-- A source text can be stored in a UTF-8 file: only scalar values. -/
def storable (t : Text) : Bool := t.all fun c => !isSurrogate c && decide (c < 0x110000)

/-- exactly `n` hex digits: value and rest -/
def takeHexN : Nat → Nat → Text → Option (Nat × Text)
  | 0, acc, t => some (acc, t)
  | _ + 1, _, [] => none
  | n + 1, acc, c :: t =>
    match hexVal? c with
    | some d => takeHexN n (acc * 16 + d) t
    | none => none

/-- as many hex digits as there are (greedy), at most `fuel`; returns (#digits, value, rest) -/
def takeHexGreedy : Nat → Nat → Nat → Text → Nat × Nat × Text
  | 0, k, acc, t => (k, acc, t)
  | _ + 1, k, acc, [] => (k, acc, [])
  | f + 1, k, acc, c :: t =>
    match hexVal? c with
    | some d => takeHexGreedy f (k + 1) (acc * 16 + d) t
    | none => (k, acc, c :: t)

/-- up to `n` further octal digits (greedy) -/
def takeOctUpTo : Nat → Nat → Text → Nat × Text
  | 0, acc, t => (acc, t)
  | _ + 1, acc, [] => (acc, [])
  | n + 1, acc, c :: t =>
    match octVal? c with
    | some d => takeOctUpTo n (acc * 8 + d) t
    | none => (acc, c :: t)

/-- one reading step of a literal body -/
inductive Step where
  | done
  | fail
  | emit (out : List Nat) (rest : Text)

/-- The reader loop. Every step must consume input; `fuel = input length + 1` is always enough. -/
def run (step : Text → Step) : Nat → Text → Option (List Nat)
  | 0, _ => none
  | f + 1, inp =>
    match step inp with
    | .done => some []
    | .fail => none
    | .emit out rest =>
      if rest.length < inp.length then (run step f rest).map (out ++ ·) else none

def skipWs : Text → Text
  | [] => []
  | c :: t => if c = 32 ∨ c = 9 ∨ c = 10 ∨ c = 13 then skipWs t else c :: t

def lookup (tbl : List (Nat × Text)) (c : Nat) : Option Text :=
  match tbl with
  | [] => none
  | (k, v) :: rest => if k = c then some v else lookup rest c

/-- `is_stripped` of `aas_core_codegen.common` (the `@require` of `Stripped.__new__`). -/
def isStripped (t : Text) : Bool :=
  (match t with
   | [] => true
   | c :: _ => !(c = 10 || c = 32 || c = 9)) &&
  (match t.getLast? with
   | none => true
   | some c => !(c = 10 || c = 32 || c = 9))

def stripped (t : Text) : Res Text := if isStripped t then .ok t else .err "ViolationError"

end AasVerif.Lit
