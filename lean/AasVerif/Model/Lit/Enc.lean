import AasVerif.Model.Lit.Basic
import AasVerif.Gen.Lit
/-!
Models of the literal generators of `aas_core_codegen/<target>/common.py`
(`string_literal`, `wstring_literal`, `wchar_literal`, `needs_escaping`), branch by branch.

The `for character in text: if … elif …: escaped.append(…)` loops followed by `"".join(escaped)`
are `List.flatMap` of the per-character function; the dict-driven encoders (Python, TypeScript)
look the character up in the tables of `Gen.Lit` (regenerated from the source).
Exceptions (`@require`, `raise ValueError`, `Stripped.__new__`'s `@require`) are `Res.err`.
-/
namespace AasVerif.Lit

def q2 : Nat := 34  -- "
def q1 : Nat := 39  -- '
def bsl : Nat := 92 -- \

/-! ## C# -/

def escCs (c : Nat) : Text :=
  if c = 7 then [92, 97]
  else if c = 8 then [92, 98]
  else if c = 12 then [92, 102]
  else if c = 10 then [92, 110]
  else if c = 13 then [92, 114]
  else if c = 9 then [92, 116]
  else if c = 11 then [92, 118]
  else if c = 34 then [92, 34]
  else if c = 92 then [92, 92]
  else if c = 0x85 ∨ c = 0x2028 ∨ c = 0x2029 then 92 :: 117 :: fmtHex 4 c
  else if 0xD800 ≤ c ∧ c ≤ 0xDFFF then 92 :: 117 :: fmtHex 4 c
  else [c]

def enc_cs (s : Text) : Res Text := stripped ([34] ++ s.flatMap escCs ++ [34])

def needsCharCs (c : Nat) : Bool :=
  if c = 7 then true else if c = 8 then true else if c = 12 then true else if c = 10 then true
  else if c = 13 then true else if c = 9 then true else if c = 11 then true else if c = 34 then true
  else if c = 92 then true
  else if c = 0x85 ∨ c = 0x2028 ∨ c = 0x2029 then true
  else if 0xD800 ≤ c ∧ c ≤ 0xDFFF then true
  else false

def needs_cs (s : Text) : Bool := s.any needsCharCs

/-! ## Java -/

def escJava (c : Nat) : Text :=
  if c = 9 then [92, 116]
  else if c = 8 then [92, 98]
  else if c = 10 then [92, 110]
  else if c = 13 then [92, 114]
  else if c = 12 then [92, 102]
  else if c = 39 then [92, 39]
  else if c = 34 then [92, 34]
  else if c = 92 then [92, 92]
  else if 0xD800 ≤ c ∧ c ≤ 0xDFFF then 92 :: 117 :: fmtHex 4 c
  else [c]

def enc_java (s : Text) : Res Text := stripped ([34] ++ s.flatMap escJava ++ [34])

def needsCharJava (c : Nat) : Bool :=
  if c = 9 then true else if c = 8 then true else if c = 10 then true else if c = 13 then true
  else if c = 12 then true else if c = 39 then true else if c = 34 then true else if c = 92 then true
  else if 0xD800 ≤ c ∧ c ≤ 0xDFFF then true
  else false

def needs_java (s : Text) : Bool := s.any needsCharJava

/-! ## Go -/

def escGo (c : Nat) : Res Text :=
  if c = 7 then .ok [92, 97]
  else if c = 8 then .ok [92, 98]
  else if c = 12 then .ok [92, 102]
  else if c = 10 then .ok [92, 110]
  else if c = 13 then .ok [92, 114]
  else if c = 9 then .ok [92, 116]
  else if c = 11 then .ok [92, 118]
  else if c = 34 then .ok [92, 34]
  else if c = 92 then .ok [92, 92]
  else if c < 32 then .ok (92 :: 120 :: fmtHex 2 c)
  else if 0xD800 ≤ c ∧ c ≤ 0xDFFF then .err "ValueError"
  else if 255 < c ∧ c < 65536 then .ok (92 :: 117 :: fmtHex 4 c)
  else if c ≥ 65536 then .ok (92 :: 85 :: fmtHex 8 c)
  else .ok [c]

/-- the `for` loop: the first raising character aborts -/
def mapRes (f : Nat → Res Text) : Text → Res Text
  | [] => .ok []
  | c :: t =>
    match f c with
    | .err e => .err e
    | .ok x =>
      match mapRes f t with
      | .err e => .err e
      | .ok y => .ok (x ++ y)

def enc_go (s : Text) : Res Text :=
  match mapRes escGo s with
  | .err e => .err e
  | .ok b => stripped ([34] ++ b ++ [34])

def needsCharGo (c : Nat) : Bool :=
  if c = 7 then true else if c = 8 then true else if c = 12 then true else if c = 10 then true
  else if c = 13 then true else if c = 9 then true else if c = 11 then true else if c = 34 then true
  else if c = 92 then true
  else if c < 32 ∨ c > 255 then true
  else false

def needs_go (s : Text) : Bool := s.any needsCharGo

/-! ## C++ -/

def escCppW (c : Nat) : Text :=
  if c = 7 then [92, 97]
  else if c = 8 then [92, 98]
  else if c = 12 then [92, 102]
  else if c = 10 then [92, 110]
  else if c = 13 then [92, 114]
  else if c = 9 then [92, 116]
  else if c = 11 then [92, 118]
  else if c = 34 then [92, 34]
  else if c = 92 then [92, 92]
  else if c < 32 then 92 :: fmtOct3 c
  else if c ≤ 127 then [c]
  else if 127 < c ∧ c < 255 then 92 :: fmtOct3 c
  else if 0xD800 ≤ c ∧ c ≤ 0xDFFF then [92, 120] ++ fmtHex 4 c ++ [34, 32, 76, 34]
  else if 255 ≤ c ∧ c < 65536 then 92 :: 117 :: fmtHex 4 c
  else if c ≥ 65536 then 92 :: 85 :: fmtHex 8 c
  else [c]

def enc_cppw (s : Text) : Res Text := stripped ([76, 34] ++ s.flatMap escCppW ++ [34])

/-- one byte as a fixed-width octal escape: `f"\\{byte:03o}"` -/
def octEsc (b : Nat) : Text := 92 :: fmtOct3 b

def escCppN (c : Nat) : Res Text :=
  if c = 7 then .ok [92, 97]
  else if c = 8 then .ok [92, 98]
  else if c = 12 then .ok [92, 102]
  else if c = 10 then .ok [92, 110]
  else if c = 13 then .ok [92, 114]
  else if c = 9 then .ok [92, 116]
  else if c = 11 then .ok [92, 118]
  else if c = 34 then .ok [92, 34]
  else if c = 92 then .ok [92, 92]
  else if c < 32 then .ok (92 :: fmtOct3 c)
  else if c ≤ 127 then .ok [c]
  else if 0xD800 ≤ c ∧ c ≤ 0xDFFF then .err "ValueError"
  else .ok ((utf8cp c).flatMap octEsc)

/-- The narrow `string_literal`: the loop only (the ASCII-only `@require` was removed by the repair of C02-F2;
non-ASCII characters are written as the octal escapes of their UTF-8 bytes, a surrogate raises `ValueError`). -/
def enc_cppn (s : Text) : Res Text :=
  match mapRes escCppN s with
  | .err e => .err e
  | .ok b => stripped ([34] ++ b ++ [34])

/-- body of `wchar_literal` for one character -/
def wcharOne (c : Nat) : Res Text :=
  if c = 7 then .ok [76, 39, 92, 97, 39]
  else if c = 8 then .ok [76, 39, 92, 98, 39]
  else if c = 12 then .ok [76, 39, 92, 102, 39]
  else if c = 10 then .ok [76, 39, 92, 110, 39]
  else if c = 13 then .ok [76, 39, 92, 114, 39]
  else if c = 9 then .ok [76, 39, 92, 116, 39]
  else if c = 11 then .ok [76, 39, 92, 118, 39]
  else if c = 39 then .ok [76, 39, 92, 39, 39]
  else if c = 92 then .ok [76, 39, 92, 92, 39]
  else if c < 32 then .ok ([76, 39, 92, 120] ++ fmtHex 1 c ++ [39])
  else if c ≤ 127 then .ok [76, 39, c, 39]
  else if 127 < c ∧ c < 255 then .ok ([76, 39, 92, 120] ++ fmtHex 1 c ++ [39])
  else if 0xD800 ≤ c ∧ c ≤ 0xDFFF then
    .ok (Text.ofString "static_cast<wchar_t>(0x" ++ fmtHex 4 c ++ [41])
  else if 255 ≤ c ∧ c < 65536 then .ok ([76, 39, 92, 117] ++ fmtHex 4 c ++ [39])
  else if c ≥ 65536 then .ok ([76, 39, 92, 85] ++ fmtHex 8 c ++ [39])
  else .err "AssertionError"

/-- `@require(len(character) == 1)` -/
def enc_cppc (s : Text) : Res Text :=
  match s with
  | [c] =>
    match wcharOne c with
    | .err e => .err e
    | .ok t => stripped t
  | _ => .err "ViolationError"

def needsStepCpp (c : Nat) : Option Bool :=  -- some true: return True; none: continue
  if c = 7 then some true else if c = 8 then some true else if c = 12 then some true
  else if c = 10 then some true else if c = 13 then some true else if c = 9 then some true
  else if c = 11 then some true else if c = 34 then some true else if c = 92 then some true
  else if c < 32 then some true
  else if c ≤ 127 then none
  else if 127 < c ∧ c < 255 then some true
  else if 255 ≤ c ∧ c < 65536 then some true
  else if c ≥ 65536 then some true
  else some false  -- unreachable `raise AssertionError`

def needs_cpp (s : Text) : Bool := s.any fun c => needsStepCpp c == some true

/-! ## Python -/

inductive PyQuoting where
  | none | single | double
  deriving DecidableEq, Repr

def pyEscChar (tbl : List (Nat × Text)) (c : Nat) : Text :=
  match lookup tbl c with
  | some e => e
  | none =>
    if c = 0 then [92, 120, 48, 48]
    -- surrogates, and (since the repair of the re-indentation defect) the characters which `str.splitlines` treats as
    -- line boundaries and no table escapes: U+001C..U+001E, U+0085, U+2028, U+2029 -- the same `\\uXXXX` form
    else if 0xD800 ≤ c ∧ c ≤ 0xDFFF ∨ c = 28 ∨ c = 29 ∨ c = 30 ∨ c = 133 ∨ c = 8232 ∨ c = 8233 then 92 :: 117 :: fmtHex 4 c
    else [c]

/-- (uses single quotes?) as decided by `string_literal` -/
def pyUsesSingle (q : PyQuoting) (s : Text) : Bool :=
  match q with
  | .none => decide (s.count 39 ≤ s.count 34)
  | .single => true
  | .double => false

def pyTable (single dup : Bool) : List (Nat × Text) :=
  match single, dup with
  | true, false => Gen.Lit.pySingle
  | true, true => Gen.Lit.pySingleCurly
  | false, false => Gen.Lit.pyDouble
  | false, true => Gen.Lit.pyDoubleCurly

def enc_py (q : PyQuoting) (withoutEnclosing dup : Bool) (s : Text) : Res Text :=
  let single := pyUsesSingle q s
  let enclosing := if single then 39 else 34
  let escaped := s.flatMap (pyEscChar (pyTable single dup))
  if withoutEnclosing then stripped escaped
  else
    -- the two `@ensure`s hold by construction; `Stripped(...)` is checked
    stripped ([enclosing] ++ escaped ++ [enclosing])

def needsCharPy (c : Nat) : Bool :=
  if c = 7 then true else if c = 8 then true else if c = 12 then true else if c = 10 then true
  else if c = 13 then true else if c = 9 then true else if c = 11 then true else if c = 34 then true
  else if c = 92 then true
  else if c = 0 then true
  else if 0xD800 ≤ c ∧ c ≤ 0xDFFF ∨ c = 28 ∨ c = 29 ∨ c = 30 ∨ c = 133 ∨ c = 8232 ∨ c = 8233 then true
  else false

def needs_py (alsoCurly : Bool) (s : Text) : Bool :=
  if s.any needsCharPy then true
  else if alsoCurly then
    if 123 ∈ s then true else if 125 ∈ s then true else false
  else false

/-! ## TypeScript -/

/-- one iteration of the `while current_char is not None` loop -/
def escTs (backticks : Bool) (c : Nat) (next : Option Nat) : Text :=
  match lookup Gen.Lit.tsBase c with
  | some e => e
  | none =>
    if 0xD800 ≤ c ∧ c ≤ 0xDFFF then 92 :: 117 :: fmtHex 4 c
    else if !backticks then
      if c = 34 then [92, 34] else [c]
    else
      if c = 96 then [92, 96]
      else if c = 36 ∧ next = some 123 then [92, 36]
      else [c]

def tsBody (backticks : Bool) : Text → Text
  | [] => []
  | c :: rest => escTs backticks c rest.head? ++ tsBody backticks rest

def enc_ts (withoutEnclosing backticks : Bool) (s : Text) : Res Text :=
  let escaped := tsBody backticks s
  if withoutEnclosing then stripped escaped
  else if !backticks then stripped ([34] ++ escaped ++ [34])
  else stripped ([96] ++ escaped ++ [96])

/-- `needs_escaping(text, in_backticks)`: loop with `prev_character` -/
def needsTsAux (backticks : Bool) : Option Nat → Text → Bool
  | _, [] => false
  | prev, c :: rest =>
    if (lookup Gen.Lit.tsBase c).isSome then true
    else if 0xD800 ≤ c ∧ c ≤ 0xDFFF then true
    else if !backticks then
      if c = 34 then true else needsTsAux backticks (some c) rest
    else
      if c = 96 then true
      else if prev = some 36 ∧ c = 123 then true
      else needsTsAux backticks (some c) rest

def needs_ts (backticks : Bool) (s : Text) : Bool := needsTsAux backticks none s

/-! ## bytes literals -/

def hexByte (b : Nat) : Text := [48, 120] ++ fmtHex 2 b  -- f"0x{byte:02x}"

def joinWith (sep : Text) : List Text → Text
  | [] => []
  | [x] => x
  | x :: xs => x ++ sep ++ joinWith sep xs

/-- `range(0, len(value), 8)` slices; fuel = length -/
def chunks8 : Nat → List Nat → List (List Nat)
  | 0, _ => []
  | _ + 1, [] => []
  | f + 1, l => l.take 8 :: chunks8 f (l.drop 8)

def bytes_py (b : List Nat) : Text × Bool :=
  let line (c : List Nat) : Text := [98, 34] ++ c.flatMap (fun x => [92, 120] ++ fmtHex 2 x) ++ [34]
  if b.length ≤ 8 then (line b, false)
  else (joinWith [10] ((chunks8 b.length b).map line), true)

def bytesRows (b : List Nat) : List Text :=
  (chunks8 b.length b).map fun c => joinWith [44, 32] (c.map hexByte)

def bytes_cpp (b : List Nat) : Text × Bool :=
  if b.length = 0 then (Text.ofString "std::vector<std::uint8_t>()", false)
  else if b.length ≤ 8 then ([123] ++ joinWith [44, 32] (b.map hexByte) ++ [125], false)
  else ([123, 10, 32, 32] ++ joinWith [44, 10, 32, 32] (bytesRows b) ++ [10, 125], true)

def bytes_go (b : List Nat) : Text × Bool :=
  if b.length = 0 then (Text.ofString "[...]byte{}", false)
  else if b.length ≤ 8 then
    (Text.ofString "[...]byte{" ++ joinWith [44, 32] (b.map hexByte) ++ [125], false)
  else
    (Text.ofString "[...]byte {" ++ [10, 9] ++ joinWith [44, 10, 9] (bytesRows b) ++ [10, 125], true)

def bytes_ts (b : List Nat) : Text × Bool :=
  if b.length = 0 then (Text.ofString "new Uint8Array()", false)
  else if b.length ≤ 8 then
    (Text.ofString "new Uint8Array([" ++ joinWith [44, 32] (b.map hexByte) ++ [93, 41], false)
  else
    (Text.ofString "new Uint8Array(" ++ [10, 32, 32, 91, 10, 32, 32, 32, 32]
      ++ joinWith [44, 10, 32, 32, 32, 32] (bytesRows b) ++ [10, 32, 32, 93, 10, 41], true)

end AasVerif.Lit
