import AasVerif.Model.Lit.Basic
/-!
Readers of the string-literal grammars of the six target languages, written from the language
specifications (they are the *trusted* part of C19; see `design.d/C19.md` for the sources and for
how each is validated against a real tool-chain).

All readers take the complete literal text (code points) and return the denoted value:
* Python: code points of the `str`;
* C++ wide (`wchar_t` = 32 bit, UTF-8 source as with g++ on Linux): `wchar_t` values; narrow: bytes;
* C#, Java, TypeScript: UTF-16 code units;
* Go: bytes.
`none` = not a literal of the modelled grammar (rejected by the compiler, not storable in a UTF-8
source file, or a form the reader deliberately does not model).
-/
namespace AasVerif.Lit

/-! ## Python (short string literal without prefix; f-string variant without replacement fields) -/

/-- `fstr`: read as the body of an f-string (`{{`/`}}` are braces, a single brace is not literal text). -/
def stepPy (q : Nat) (fstr : Bool) : Text → Step
  | [] => .fail
  | c :: rest =>
    if c = q then (if rest = [] then .done else .fail)
    else if c = 10 ∨ c = 13 then .fail
    else if c = 92 then
      match rest with
      | [] => .fail
      | e :: r =>
        if e = 10 then .emit [] r
        else if e = 92 then .emit [92] r
        else if e = 39 then .emit [39] r
        else if e = 34 then .emit [34] r
        else if e = 97 then .emit [7] r
        else if e = 98 then .emit [8] r
        else if e = 102 then .emit [12] r
        else if e = 110 then .emit [10] r
        else if e = 114 then .emit [13] r
        else if e = 116 then .emit [9] r
        else if e = 118 then .emit [11] r
        else if e = 120 then
          match takeHexN 2 0 r with
          | some (v, r') => .emit [v] r'
          | none => .fail
        else if e = 117 then
          match takeHexN 4 0 r with
          | some (v, r') => .emit [v] r'
          | none => .fail
        else if e = 85 then
          match takeHexN 8 0 r with
          | some (v, r') => if v < 0x110000 then .emit [v] r' else .fail
          | none => .fail
        else
          match octVal? e with
          | some d =>
            let (v, r') := takeOctUpTo 2 d r
            .emit [v] r'
          | none => .fail  -- \N{…} and unknown escapes are not modelled
    else if fstr ∧ (c = 123 ∨ c = 125) then
      match rest with
      | c' :: r => if c' = c then .emit [c] r else .fail
      | [] => .fail
    else .emit [c] rest

/-- A Python source cannot contain NUL, and must be UTF-8. -/
def dec_py (fstr : Bool) (lit : Text) : Option (List Nat) :=
  if storable lit ∧ ¬ (0 ∈ lit) then
    match lit with
    | q :: body =>
      if q = 39 ∨ q = 34 then
        -- `''` is the empty literal; three quotes would open a triple-quoted literal (not modelled)
        match body with
        | a :: b :: _ => if a = q ∧ b = q then none else run (stepPy q fstr) (body.length + 1) body
        | _ => run (stepPy q fstr) (body.length + 1) body
      else none
    | [] => none
  else none

/-! ## C# regular string literal (ECMA-334 §6.4.5.6) -/

def isNewLineCs (c : Nat) : Bool := c = 13 || c = 10 || c = 0x85 || c = 0x2028 || c = 0x2029

def stepCs : Text → Step
  | [] => .fail
  | c :: rest =>
    if c = 34 then (if rest = [] then .done else .fail)
    else if isNewLineCs c then .fail
    else if c = 92 then
      match rest with
      | [] => .fail
      | e :: r =>
        if e = 39 then .emit [39] r
        else if e = 34 then .emit [34] r
        else if e = 92 then .emit [92] r
        else if e = 48 then .emit [0] r
        else if e = 97 then .emit [7] r
        else if e = 98 then .emit [8] r
        else if e = 102 then .emit [12] r
        else if e = 110 then .emit [10] r
        else if e = 114 then .emit [13] r
        else if e = 116 then .emit [9] r
        else if e = 118 then .emit [11] r
        else if e = 120 then
          match takeHexGreedy 4 0 0 r with
          | (0, _, _) => .fail
          | (_, v, r') => .emit [v] r'
        else if e = 117 then
          match takeHexN 4 0 r with
          | some (v, r') => .emit [v] r'
          | none => .fail
        else if e = 85 then
          match takeHexN 8 0 r with
          | some (v, r') => if v < 0x110000 then .emit (utf16cp v) r' else .fail
          | none => .fail
        else .fail
    else .emit (utf16cp c) rest

def dec_cs (lit : Text) : Option (List Nat) :=
  if storable lit then
    match lit with
    | 34 :: body => run stepCs (body.length + 1) body
    | _ => none
  else none

/-! ## Go interpreted string literal -/

def stepGo : Text → Step
  | [] => .fail
  | c :: rest =>
    if c = 34 then (if rest = [] then .done else .fail)
    else if c = 10 then .fail
    else if c = 0 ∨ c = 0xFEFF then .fail  -- gc rejects NUL and a BOM inside a file
    else if c = 92 then
      match rest with
      | [] => .fail
      | e :: r =>
        if e = 97 then .emit [7] r
        else if e = 98 then .emit [8] r
        else if e = 102 then .emit [12] r
        else if e = 110 then .emit [10] r
        else if e = 114 then .emit [13] r
        else if e = 116 then .emit [9] r
        else if e = 118 then .emit [11] r
        else if e = 92 then .emit [92] r
        else if e = 34 then .emit [34] r
        else if e = 120 then
          match takeHexN 2 0 r with
          | some (v, r') => .emit [v] r'
          | none => .fail
        else if e = 117 then
          match takeHexN 4 0 r with
          | some (v, r') => if isSurrogate v then .fail else .emit (utf8cp v) r'
          | none => .fail
        else if e = 85 then
          match takeHexN 8 0 r with
          | some (v, r') => if isSurrogate v ∨ ¬ v < 0x110000 then .fail else .emit (utf8cp v) r'
          | none => .fail
        else
          -- \ooo: exactly three octal digits, value ≤ 255
          match octVal? e, r with
          | some d1, o2 :: o3 :: r' =>
            match octVal? o2, octVal? o3 with
            | some d2, some d3 =>
              if d1 * 64 + d2 * 8 + d3 ≤ 255 then .emit [d1 * 64 + d2 * 8 + d3] r' else .fail
            | _, _ => .fail
          | _, _ => .fail
    else .emit (utf8cp c) rest

def dec_go (lit : Text) : Option (List Nat) :=
  if storable lit then
    match lit with
    | 34 :: body => run stepGo (body.length + 1) body
    | _ => none
  else none

/-! ## C++ ordinary / wide string literals, with concatenation of adjacent literals -/

/-- `wide`: pieces are `L"…"`, values are `wchar_t` (32 bit); else `"…"`, values are bytes (UTF-8 execution charset). -/
def stepCpp (wide : Bool) (q : Nat) : Text → Step
  | [] => .fail
  | c :: rest =>
    if c = q then
      if q = 39 then (if rest = [] then .done else .fail)
      else
        match skipWs rest with
        | [] => .done
        | a :: more =>
          if wide then
            match more with
            | b :: r => if a = 76 ∧ b = 34 then .emit [] r else .fail
            | [] => .fail
          else if a = 34 then .emit [] more else .fail
    else if c < 32 then .fail  -- raw control characters (incl. new-line) are not modelled
    else if c = 92 then
      match rest with
      | [] => .fail
      | e :: r =>
        if e = 39 then .emit [39] r
        else if e = 34 then .emit [34] r
        else if e = 63 then .emit [63] r
        else if e = 92 then .emit [92] r
        else if e = 97 then .emit [7] r
        else if e = 98 then .emit [8] r
        else if e = 102 then .emit [12] r
        else if e = 110 then .emit [10] r
        else if e = 114 then .emit [13] r
        else if e = 116 then .emit [9] r
        else if e = 118 then .emit [11] r
        else if e = 120 then
          -- greedy: all following hex digits belong to the escape
          match takeHexGreedy r.length 0 0 r with
          | (0, _, _) => .fail
          | (_, v, r') =>
            if wide then (if v < 4294967296 then .emit [v] r' else .fail)
            else (if v < 256 then .emit [v] r' else .fail)
        else if e = 117 ∨ e = 85 then
          match takeHexN (if e = 117 then 4 else 8) 0 r with
          | some (v, r') =>
            -- a universal-character-name must not name a surrogate; names below U+00A0 are not modelled
            if isSurrogate v ∨ ¬ v < 0x110000 ∨ v < 0xA0 then .fail
            else .emit (if wide then [v] else utf8cp v) r'
          | none => .fail
        else
          match octVal? e with
          | some d =>
            let (v, r') := takeOctUpTo 2 d r
            if wide ∨ v < 256 then .emit [v] r' else .fail
          | none => .fail
    else .emit (if wide then [c] else utf8cp c) rest

def dec_cppw (lit : Text) : Option (List Nat) :=
  if storable lit then
    match lit with
    | 76 :: 34 :: body => run (stepCpp true 34) (body.length + 1) body
    | _ => none
  else none

def dec_cppn (lit : Text) : Option (List Nat) :=
  if storable lit then
    match lit with
    | 34 :: body => run (stepCpp false 34) (body.length + 1) body
    | _ => none
  else none

def castPrefix : Text := Text.ofString "static_cast<wchar_t>(0x"

def dropPrefix? : Text → Text → Option Text
  | [], t => some t
  | _ :: _, [] => none
  | p :: ps, c :: t => if p = c then dropPrefix? ps t else none

/-- a wide character literal `L'c'` or the expression `static_cast<wchar_t>(0x….)` -/
def dec_cppc (lit : Text) : Option (List Nat) :=
  if storable lit then
    match dropPrefix? castPrefix lit with
    | some r =>
      match takeHexGreedy r.length 0 0 r with
      | (0, _, _) => none
      | (_, v, r') => if r' = [41] ∧ v < 4294967296 then some [v] else none
    | none =>
      match lit with
      | 76 :: 39 :: body =>
        match stepCpp true 39 body with
        | .emit [v] r => if r = [39] then some [v] else none
        | _ => none
      | _ => none
  else none

/-! ## Java: Unicode-escape pre-pass (JLS §3.3), then the string literal (JLS §3.10.5) -/

inductive JState where
  | norm                      -- an even number of backslashes precedes
  | bs                        -- one eligible backslash is pending
  | us                        -- `\u` (and possibly more `u`) read, no digit yet
  | hex (k : Nat) (acc : Nat) -- `k` hex digits read (1 ≤ k ≤ 3)

/-- Translation of the raw source into UTF-16 units. -/
def javaPre : JState → Text → Option (List Nat)
  | .norm, [] => some []
  | .bs, [] => some [92]
  | .us, [] => none
  | .hex _ _, [] => none
  | .norm, c :: r => if c = 92 then javaPre .bs r else (javaPre .norm r).map (utf16cp c ++ ·)
  | .bs, c :: r =>
    if c = 117 then javaPre .us r
    else if c = 92 then (javaPre .norm r).map ([92, 92] ++ ·)
    else (javaPre .norm r).map (92 :: utf16cp c ++ ·)
  | .us, c :: r =>
    if c = 117 then javaPre .us r
    else
      match hexVal? c with
      | some d => javaPre (.hex 1 d) r
      | none => none
  | .hex k acc, c :: r =>
    match hexVal? c with
    | some d =>
      if k = 3 then (javaPre .norm r).map ((acc * 16 + d) :: ·)
      else javaPre (.hex (k + 1) (acc * 16 + d)) r
    | none => none

def stepJava : Text → Step
  | [] => .fail
  | c :: rest =>
    if c = 34 then (if rest = [] then .done else .fail)
    else if c = 10 ∨ c = 13 then .fail
    else if c = 92 then
      match rest with
      | [] => .fail
      | e :: r =>
        if e = 98 then .emit [8] r
        else if e = 115 then .emit [32] r
        else if e = 116 then .emit [9] r
        else if e = 110 then .emit [10] r
        else if e = 102 then .emit [12] r
        else if e = 114 then .emit [13] r
        else if e = 34 then .emit [34] r
        else if e = 39 then .emit [39] r
        else if e = 92 then .emit [92] r
        else
          match octVal? e with
          | some d =>
            -- OctalEscape: \o, \oo, \ooo with the first digit ≤ 3 in the three-digit form
            let (v, r') := takeOctUpTo (if d ≤ 3 then 2 else 1) d r
            .emit [v] r'
          | none => .fail
    else .emit [c] rest

def dec_java (lit : Text) : Option (List Nat) :=
  if storable lit then
    match javaPre .norm lit with
    | some (34 :: body) => run stepJava (body.length + 1) body
    | _ => none
  else none

/-! ## TypeScript / JavaScript (ES2019+): double-quoted string and no-substitution template -/

def isLineTerminatorJs (c : Nat) : Bool := c = 10 || c = 13 || c = 0x2028 || c = 0x2029

/-- escape sequence after the backslash; `template`: the stricter rules of (untagged) templates -/
def jsEscape (_template : Bool) : Text → Step
  | [] => .fail
  | e :: r =>
    if e = 13 then (match r with | 10 :: r' => .emit [] r' | _ => .emit [] r)
    else if isLineTerminatorJs e then .emit [] r
    else if e = 39 then .emit [39] r
    else if e = 34 then .emit [34] r
    else if e = 92 then .emit [92] r
    else if e = 98 then .emit [8] r
    else if e = 102 then .emit [12] r
    else if e = 110 then .emit [10] r
    else if e = 114 then .emit [13] r
    else if e = 116 then .emit [9] r
    else if e = 118 then .emit [11] r
    else if e = 48 then
      match r with
      | d :: _ => if 48 ≤ d ∧ d ≤ 57 then .fail else .emit [0] r
      | [] => .emit [0] r
    else if 49 ≤ e ∧ e ≤ 57 then .fail  -- legacy octal / \8 \9: not modelled (errors in templates and strict mode)
    else if e = 120 then
      match takeHexN 2 0 r with
      | some (v, r') => .emit [v] r'
      | none => .fail
    else if e = 117 then
      match r with
      | 123 :: r1 =>
        match takeHexGreedy r1.length 0 0 r1 with
        | (0, _, _) => .fail
        | (_, v, r2) =>
          match r2 with
          | 125 :: r3 => if v < 0x110000 then .emit (utf16cp v) r3 else .fail
          | _ => .fail
      | _ =>
        match takeHexN 4 0 r with
        | some (v, r') => .emit [v] r'
        | none => .fail
    else .emit (utf16cp e) r  -- NonEscapeCharacter (same in templates)

def stepTsQ : Text → Step
  | [] => .fail
  | c :: rest =>
    if c = 34 then (if rest = [] then .done else .fail)
    else if c = 10 ∨ c = 13 then .fail
    else if c = 92 then jsEscape false rest
    else .emit (utf16cp c) rest

def stepTsT : Text → Step
  | [] => .fail
  | c :: rest =>
    if c = 96 then (if rest = [] then .done else .fail)
    else if c = 36 then
      match rest with
      | 123 :: _ => .fail  -- `${` opens a substitution
      | _ => .emit [36] rest
    else if c = 13 then
      match rest with
      | 10 :: r => .emit [10] r
      | _ => .emit [10] rest
    else if c = 92 then jsEscape true rest
    else .emit (utf16cp c) rest

def dec_tsq (lit : Text) : Option (List Nat) :=
  if storable lit then
    match lit with
    | 34 :: body => run stepTsQ (body.length + 1) body
    | _ => none
  else none

def dec_tst (lit : Text) : Option (List Nat) :=
  if storable lit then
    match lit with
    | 96 :: body => run stepTsT (body.length + 1) body
    | _ => none
  else none

/-! ## bytes literals -/

/-- `0x` + hex digits, value ≤ 255 -/
def readHexByte : Text → Option (Nat × Text)
  | 48 :: 120 :: r =>
    match takeHexGreedy r.length 0 0 r with
    | (0, _, _) => none
    | (_, v, r') => if v < 256 then some (v, r') else none
  | _ => none

/-- White space between the tokens; `goRule`: Go inserts a `;` at a line end after a literal,
so a new-line is allowed only after `{` or `,` (`afterLit = false`). -/
def skipWsB (goRule afterLit : Bool) : Text → Option Text
  | [] => some []
  | c :: t =>
    if c = 32 ∨ c = 9 ∨ c = 13 then skipWsB goRule afterLit t
    else if c = 10 then (if goRule ∧ afterLit then none else skipWsB goRule afterLit t)
    else some (c :: t)

/-- items `0x.., 0x..` up to the closing bracket `close`; fuel = input length -/
def readItems (goRule : Bool) (close : Nat) : Nat → Bool → Text → Option (List Nat × Text)
  | 0, _, _ => none
  | f + 1, first, t =>
    match skipWsB goRule (!first) t with
    | none => none
    | some [] => none
    | some (c :: r) =>
      if c = close then (if first then some ([], r) else none)
      else
        match readHexByte (c :: r) with
        | none => none
        | some (v, r1) =>
          match skipWsB goRule true r1 with
          | none => none
          | some (c2 :: r2) =>
            if c2 = close then some ([v], r2)
            else if c2 = 44 then
              match readItems goRule close f false r2 with
              | some (vs, r3) => if vs = [] then none else some (v :: vs, r3)
              | none => none
            else none
          | some [] => none

def decBytesBraced (goRule : Bool) (pre : Text) (open_ close : Nat) (tail : Text) (lit : Text) : Option (List Nat) :=
  match dropPrefix? pre lit with
  | none => none
  | some r0 =>
    match skipWsB false false r0 with
    | some (c :: r) =>
      if c = open_ then
        match readItems goRule close (r.length + 1) true r with
        | some (vs, rest) => if skipWsB false false rest = some tail then some vs else none
        | none => none
      else none
    | _ => none

def decbytes_cpp (lit : Text) : Option (List Nat) :=
  if lit = Text.ofString "std::vector<std::uint8_t>()" then some []
  else decBytesBraced false [] 123 125 [] lit

def decbytes_go (lit : Text) : Option (List Nat) :=
  decBytesBraced true (Text.ofString "[...]byte") 123 125 [] lit

def decbytes_ts (lit : Text) : Option (List Nat) :=
  if lit = Text.ofString "new Uint8Array()" then some []
  else decBytesBraced false (Text.ofString "new Uint8Array(") 91 93 [41] lit

/-- Python: adjacent `b"…"` literals (inside parentheses), only `\xhh` escapes and printable ASCII modelled -/
def stepPyB : Text → Step
  | [] => .fail
  | c :: rest =>
    if c = 34 then
      match skipWs rest with
      | [] => .done
      | a :: b :: r => if a = 98 ∧ b = 34 then .emit [] r else .fail
      | _ => .fail
    else if c = 92 then
      match rest with
      | 120 :: r =>
        match takeHexN 2 0 r with
        | some (v, r') => .emit [v] r'
        | none => .fail
      | _ => .fail
    else if 32 ≤ c ∧ c < 127 then .emit [c] rest
    else .fail

def decbytes_py (lit : Text) : Option (List Nat) :=
  match lit with
  | 98 :: 34 :: body => run stepPyB (body.length + 1) body
  | _ => none

end AasVerif.Lit
