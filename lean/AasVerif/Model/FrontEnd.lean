import AasVerif.Gen.FrontEnd
import AasVerif.Model.Report
/-!
Models of two front-end mechanisms named by C01:

* positional-argument selection of `_parse_constant_set` / `_parse_constant_primitive`
  (`node.value.args[i]` read under a guard `len(node.value.args) > g`): an index read
  outside the list is Python's `IndexError`, an explicit `crash` here;
* `run.load_model` as a composition of stages over the regenerated skeleton.
-/
namespace AasVerif.FrontEnd

inductive Sel where
  | ok (picked : List Nat)
  | crash (index : Nat)
  deriving DecidableEq, Repr

/-- Execute the guarded reads `(g, i)` (guard `len ≥ g`, read index `i`) on a list of `n` arguments. -/
def readArgs (n : Nat) : List (Nat × Nat) → Sel
  | [] => .ok []
  | (g, i) :: rest =>
    if n ≥ g then
      if i < n then
        match readArgs n rest with
        | .ok l => .ok (i :: l)
        | .crash j => .crash j
      else .crash i
    else readArgs n rest

inductive Out where
  | table
  | error (msg : Text)
  deriving DecidableEq, Repr

/-- `load_model`: the first failing stage returns `(None, report)`; otherwise the table. -/
def load (ok : String → Bool) (report : String → Text) : List String → Out
  | [] => .table
  | s :: rest => if ok s then load ok report rest else .error (report s)

end AasVerif.FrontEnd
