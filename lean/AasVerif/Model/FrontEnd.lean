import AasVerif.Gen.FrontEnd
import AasVerif.Model.Report
/-!
Models of two front-end mechanisms named by C01:

* positional-argument selection of `_parse_constant_set` / `_parse_constant_primitive`
  (`node.value.args[i]` read under a guard `len(node.value.args) > g`): an index read
  outside the list is Python's `IndexError`, an explicit `crash` here;
* `run.load_model` as a composition of stages over the regenerated skeleton.
-/
namespace AasVerif.FrontEnd

inductive Sel where
  | ok (picked : List Nat)
  | crash (index : Nat)
  deriving DecidableEq, Repr

/-- Execute the guarded reads `(g, i)` (guard `len ≥ g`, read index `i`) on a list of `n` arguments. -/
def readArgs (n : Nat) : List (Nat × Nat) → Sel
  | [] => .ok []
  | (g, i) :: rest =>
    if n ≥ g then
      if i < n then
        match readArgs n rest with
        | .ok l => .ok (i :: l)
        | .crash j => .crash j
      else .crash i
    else readArgs n rest

inductive Out where
  | table
  | error (msg : Text)
  deriving DecidableEq, Repr

/-- `load_model`: the first failing stage returns `(None, report)`; otherwise the table. -/
def load (ok : String → Bool) (report : String → Text) : List String → Out
  | [] => .table
  | s :: rest => if ok s then load ok report rest else .error (report s)

/-- Outcome of one stage when the input may also be nested deeper than the interpreter's recursion limit. -/
inductive StageOut where
  | ok
  | failed
  | overflow
  deriving DecidableEq, Repr

inductive OutG where
  | table
  | error (msg : Text)
  | crash
  deriving DecidableEq, Repr

/-- `load_model` over stages which recurse over the meta-model: a stage that exhausts the recursion limit raises
`RecursionError`; under `try: … except RecursionError: return None, <report>` (`guarded s`) the report `tooDeep`
comes back, otherwise the exception escapes (`crash` — an explicit outcome, not hidden by totality). -/
def loadG (guarded : String → Bool) (res : String → StageOut) (report : String → Text) (tooDeep : Text) :
    List String → OutG
  | [] => .table
  | s :: rest =>
    match res s with
    | .ok => loadG guarded res report tooDeep rest
    | .failed => .error (report s)
    | .overflow => if guarded s then .error tooDeep else .crash

end AasVerif.FrontEnd
