import AasVerif.Model.PyAst
import AasVerif.Model.Expr.Eval
import AasVerif.Gen.PyRules
/-!
Model of `aas_core_codegen/parse/_rules.py`: `ofPy : PyAst → Res Expr`
(`ast_node_to_our_node` on expression nodes) and `evalPy : Env → PyAst → Out`, the Python
meaning of the *source* expression.

The dispatch below tries the rules in the order of `_CHAIN_OF_RULES`
(`Gen.PyRules.chain`; `chain_order` in `Props/C08.lean` pins that order): the patterns of two
rules overlap only for Comparison / IsIn / IsNoneOrIsNotNone (told apart by the operator),
AnyOrAll before Call, Constant (`-5`) before Not (other unary operator), Implication before
AndOrOr.
-/
namespace AasVerif.PyAst
open AasVerif AasVerif.Expr

/-- Outcome of the parse rules: our node, an `Error`, or a violated assertion. -/
inductive Res (α : Type) where
  | ok (x : α)
  | err
  | crash
  deriving Inhabited

def Res.bind {α β} : Res α → (α → Res β) → Res β
  | .ok x, f => f x
  | .err, _ => .err
  | .crash, _ => .crash

theorem Res.bind_eq_ok {α β} {r : Res α} {f : α → Res β} {y : β} :
    r.bind f = .ok y ↔ ∃ x, r = .ok x ∧ f x = .ok y := by
  cases r <;> simp [Res.bind]

def anyName : Text := [97, 110, 121]
def allName : Text := [97, 108, 108]
def rangeName : Text := [114, 97, 110, 103, 101]

def lookupOp (op : PyCmpOp) : List (PyCmpOp × Cmp) → Option Cmp
  | [] => none
  | (o, c) :: r => if o = op then some c else lookupOp op r

/-- `_AST_COMPARATOR_TO_OURS.get(type(op))` -/
def oursOf (op : PyCmpOp) : Option Cmp := lookupOp op Gen.PyRules.comparatorToOurs

def negText (r : Text) : Text :=
  match r with
  | 45 :: t => t
  | t => 45 :: t

mutual
  def ofPy : PyAst → Res Expr
    -- _ParseComparison / _ParseIsIn / _ParseIsNoneOrIsNotNone: one operator, one comparator
    | .compare l [op] [r] =>
      match oursOf op with
      | some c => (ofPy l).bind fun l' => (ofPy r).bind fun r' => .ok (.cmp l' c r')
      | none =>
        match op with
        | .in_ => (ofPy l).bind fun m => (ofPy r).bind fun c => .ok (.isIn m c)
        | .is_ =>
          match r with
          | .constant .none => (ofPy l).bind fun v => .ok (.isNone v)
          | _ => .err
        | .isNot =>
          match r with
          | .constant .none => (ofPy l).bind fun v => .ok (.isNotNone v)
          | _ => .err
        | _ => .err
    | .compare _ _ _ => .err
    -- _ParseAnyOrAll, then _ParseCall
    | .call (.name f) args kw =>
      if f = anyName ∨ f = allName then
        if kw > 0 then .err
        else match args with
          | [.generatorExp elt gens] =>
            (ofPy elt).bind fun cond =>
            (ofPyGens gens).bind fun g =>
              .ok (if f = anyName then .any g cond else .all g cond)
          | _ => .err
      else
        (ofPyArgs args).bind fun as => if kw > 0 then .err else .ok (.funCall f as)
    | .call func args kw =>
      (ofPyArgs args).bind fun as =>
        if kw > 0 then .err
        else (ofPy func).bind fun m =>
          match m with
          | .member inst n => .ok (.methodCall inst n as)
          | _ => .err  -- the callee is neither a name nor a member access (reported since the C01 repair)
    -- _ParseConstant
    | .constant (.bool b) => .ok (.const (.bool b))
    | .constant (.int i) => .ok (.const (.int i))
    | .constant (.float r) => .ok (.const (.float r))
    | .constant (.str s) => .ok (.const (.str s))
    | .constant _ => .err
    | .unaryOp .usub (.constant (.int i)) => .ok (.const (.int (-i)))
    | .unaryOp .usub (.constant (.bool b)) => .ok (.const (.int (if b then -1 else 0)))
    | .unaryOp .usub (.constant (.float r)) => .ok (.const (.float (negText r)))
    -- _ParseImplication
    | .boolOp false [.unaryOp .not a, c] =>
      (ofPy a).bind fun a' => (ofPy c).bind fun c' => .ok (.impl a' c')
    -- _ParseMember, _ParseIndex, _ParseName
    | .attribute v n => (ofPy v).bind fun v' => .ok (.member v' n)
    | .subscript v s => (ofPy v).bind fun v' => (ofPy s).bind fun s' => .ok (.index v' s')
    | .name x => .ok (.name x)
    -- _ParseNot
    | .unaryOp .not e => (ofPy e).bind fun e' => .ok (.not e')
    | .unaryOp _ _ => .err
    -- _ParseAndOrOr
    | .boolOp true vs => (ofPyArgs vs).bind fun vs' => .ok (.and vs')
    | .boolOp false vs => (ofPyArgs vs).bind fun vs' => .ok (.or vs')
    -- _ParseAddOrSub
    | .binOp l .add r => (ofPy l).bind fun l' => (ofPy r).bind fun r' => .ok (.add l' r')
    | .binOp l .sub r => (ofPy l).bind fun l' => (ofPy r).bind fun r' => .ok (.sub l' r')
    | .binOp _ .other _ => .err
    -- _ParseJoinedStr
    | .joinedStr vs => (ofPyParts vs).bind fun ps => .ok (.joinedStr ps)
    -- no rule matches
    | .generatorExp _ _ => .err
    | .formattedValue _ _ _ => .err
    | .other => .err
  /-- the generators of an `any` / `all`: exactly one, a name as target, no conditions -/
  def ofPyGens : List Comp → Res Gen
    | [.mk (.name x) iter ifs _] =>
      if ifs.isEmpty then
        match iter with
        | .call (.name r) rargs rkw =>
          if r = rangeName then
            match rargs with
            | [a, b] =>
              if rkw ≠ 0 then .err
              else (ofPy a).bind fun a' => (ofPy b).bind fun b' => .ok (.forRange x a' b')
            | _ => .err
          else (ofPy (.call (.name r) rargs rkw)).bind fun it => .ok (.forEach x it)
        | it => (ofPy it).bind fun it' => .ok (.forEach x it')
      else .err
    | _ => .err
  def ofPyArgs : List PyAst → Res (List Expr)
    | [] => .ok []
    | a :: as => (ofPy a).bind fun a' => (ofPyArgs as).bind fun as' => .ok (a' :: as')
  def ofPyParts : List PyAst → Res (List JPart)
    | [] => .ok []
    | .constant (.str s) :: ps => (ofPyParts ps).bind fun ps' => .ok (.lit s :: ps')
    | .constant _ :: _ => .err
    | .formattedValue v conv spec :: ps =>
      if conv ≠ -1 then .err
      else if spec then .err
      else (ofPy v).bind fun v' => (ofPyParts ps).bind fun ps' => .ok (.fv v' :: ps')
    | _ :: _ => .err
end

/-! ## Python meaning of the source expression -/

def negVal : Val → Out
  | .int i => .val (.int (-i))
  | .bool b => .val (.int (if b then -1 else 0))
  | .float r => .val (.float (negText r))
  | _ => .typeError

def constVal : PyConst → Out
  | .none => .val .none
  | .bool b => .val (.bool b)
  | .int i => .val (.int i)
  | .float r => .val (.float r)
  | .str s => .val (.str s)
  | .other => .otherError

/-- one comparison `l op r` on values -/
def cmpOp (f : FloatOps) (op : PyCmpOp) (l r : Val) : Out :=
  match op with
  | .lt => cmpVals f .lt l r | .le => cmpVals f .le l r | .gt => cmpVals f .gt l r
  | .ge => cmpVals f .ge l r | .eq => cmpVals f .eq l r | .ne => cmpVals f .ne l r
  | .in_ => isInVals f l r
  | .notIn =>
    match isInVals f l r with
    | .val v => .ofBool (!v.truthy f)
    | err => err
  | .is_ =>
    match r with
    | .none => (match l with | .none => .ofBool true | _ => .ofBool false)
    | _ => (match l with | .none => .ofBool false | _ => .otherError)  -- identity of other objects is not modelled
  | .isNot =>
    match r with
    | .none => (match l with | .none => .ofBool false | _ => .ofBool true)
    | _ => (match l with | .none => .ofBool true | _ => .otherError)

/-- `any` / `all` over the items that pass the conditions of the comprehension -/
def quantLoopF (fo : FloatOps) (isAny : Bool) (pass f : Val → Out) : List Val → Out
  | [] => .ofBool (!isAny)
  | x :: xs =>
    match pass x with
    | .val p =>
      if p.truthy fo then
        match f x with
        | .val v => if v.truthy fo == isAny then .ofBool isAny else quantLoopF fo isAny pass f xs
        | err => err
      else quantLoopF fo isAny pass f xs
    | err => err

def rangeLoopF (fo : FloatOps) (isAny : Bool) (pass f : Val → Out) (start : Int) : Nat → Out
  | 0 => .ofBool (!isAny)
  | n + 1 =>
    match pass (.int start) with
    | .val p =>
      if p.truthy fo then
        match f (.int start) with
        | .val v => if v.truthy fo == isAny then .ofBool isAny else rangeLoopF fo isAny pass f (start + 1) n
        | err => err
      else rangeLoopF fo isAny pass f (start + 1) n
    | err => err

/-- the value of the iterable of a generator expression → what is iterated -/
def iterRes : Out → GenRes
  | .val iv =>
    match iterItems iv with
    | some items => .items [] items
    | none => .err .typeError
  | err => .err err

/-- the values of the two arguments of `range` → the range iterated -/
def rangeRes : Out → Out → GenRes
  | .val av, .val bv =>
    match rangeArg av, rangeArg bv with
    | some s, some e => .range [] s (e - s).toNat
    | _, _ => .err .typeError
  | .val _, err => .err err
  | err, _ => .err err

/-- calling the global function `f` with the evaluated arguments (a variable of that name is
not callable; `len` is the built-in unless a function of that name is defined) -/
def callNamed (ρ : Env) (f : Text) (args : Args) : Out :=
  match lookup f ρ.vars with
  | some _ =>
    match args with
    | .ok _ => .typeError
    | .err o => o
  | none =>
    match ρ.funs f with
    | some fn =>
      match args with
      | .ok vs => fn vs
      | .err o => o
    | none =>
      if f = [108, 101, 110] then
        match args with
        | .ok [v] => lenVal v
        | .ok _ => .typeError
        | .err o => o
      else .otherError

/-- `any` / `all` over what the generator iterates -/
def quantOver (fo : FloatOps) (isAny : Bool) (gr : GenRes) (pass f : Val → Out) : Out :=
  match gr with
  | .items _ items => quantLoopF fo isAny pass f items
  | .range _ s n => rangeLoopF fo isAny pass f s n
  | .err o => o

/-- two arguments evaluated left to right -/
def args2 : Out → Out → Args
  | .val a, .val b => .ok [a, b]
  | .val _, o => .err o
  | o, _ => .err o

mutual
  /-- what CPython computes for the expression -/
  def evalPy (ρ : Env) : PyAst → Out
    | .compare l ops comps =>
      match evalPy ρ l with
      | .val lv => evalChain ρ lv ops comps
      | err => err
    | .call (.name f) [.generatorExp elt [.mk (.name x) (.call (.name r) [a, b] 0) ifs _]] 0 =>
      if f = anyName ∨ f = allName then
        quantOver ρ.fops (f = anyName)
          (if r = rangeName then rangeRes (evalPy ρ a) (evalPy ρ b)
           else if r = anyName ∨ r = allName then .err .otherError
           else iterRes (callNamed ρ r (args2 (evalPy ρ a) (evalPy ρ b))))
          (fun item => evalIfs (ρ.bind x item) ifs) (fun item => evalPy (ρ.bind x item) elt)
      else callNamed ρ f (.err .otherError)  -- a generator expression is not a value of this model
    | .call (.name f) [.generatorExp elt [.mk (.name x) iter ifs _]] 0 =>
      if f = anyName ∨ f = allName then
        quantOver ρ.fops (f = anyName) (iterRes (evalPy ρ iter))
          (fun item => evalIfs (ρ.bind x item) ifs) (fun item => evalPy (ρ.bind x item) elt)
      else callNamed ρ f (.err .otherError)
    | .call (.name f) args kw =>
      if f = anyName ∨ f = allName then .otherError  -- other argument shapes are not modelled
      else if kw > 0 then .otherError  -- keyword arguments are not modelled
      else callNamed ρ f (evalPyArgs ρ args)
    | .call (.attribute recv m) args kw =>
      if kw > 0 then .otherError
      else
        match evalPy ρ recv with
        | .val .none => .noneDeref
        | .val rv =>
          match ρ.meths rv m with
          | none => .otherError
          | some fn =>
            match evalPyArgs ρ args with
            | .ok vs => fn vs
            | .err o => o
        | err => err
    | .call _ _ _ => .otherError
    | .generatorExp _ _ => .otherError
    | .constant c => constVal c
    | .unaryOp .not e =>
      match evalPy ρ e with
      | .val v => .ofBool (!v.truthy ρ.fops)
      | err => err
    | .unaryOp .usub e =>
      match evalPy ρ e with
      | .val v => negVal v
      | err => err
    | .unaryOp _ _ => .otherError
    | .boolOp isAnd vs => evalPyBool ρ isAnd vs
    | .attribute v n =>
      match evalPy ρ v with
      | .val .none => .noneDeref
      | .val (.inst _ _ fields) =>
        match lookup n fields with
        | some x => .val x
        | none => .otherError
      | .val (.enumCls en lits) => if lits.contains n then .val (.enumLit en n) else .otherError
      | .val _ => .otherError
      | err => err
    | .subscript v s =>
      match evalPy ρ v with
      | .val cv =>
        match evalPy ρ s with
        | .val iv => indexVals cv iv
        | err => err
      | err => err
    | .name x =>
      match lookup x ρ.vars with
      | some v => .val v
      | none => .otherError
    | .binOp l .add r =>
      match evalPy ρ l with
      | .val lv =>
        match evalPy ρ r with
        | .val rv => arithVals ρ.fops true lv rv
        | err => err
      | err => err
    | .binOp l .sub r =>
      match evalPy ρ l with
      | .val lv =>
        match evalPy ρ r with
        | .val rv => arithVals ρ.fops false lv rv
        | err => err
      | err => err
    | .binOp _ .other _ => .otherError
    | .joinedStr vs => evalPyParts ρ vs
    | .formattedValue _ _ _ => .otherError
    | .other => .otherError
  /-- chained comparison `l op₁ c₁ op₂ c₂ …`: stops at the first falsy link -/
  def evalChain (ρ : Env) (lv : Val) : List PyCmpOp → List PyAst → Out
    | [op], [c] =>
      match evalPy ρ c with
      | .val cv => cmpOp ρ.fops op lv cv
      | err => err
    | op :: ops, c :: cs =>
      match evalPy ρ c with
      | .val cv =>
        match cmpOp ρ.fops op lv cv with
        | .val v => if v.truthy ρ.fops then evalChain ρ cv ops cs else .val v
        | err => err
      | err => err
    | _, _ => .otherError
  /-- the `if` conditions of a comprehension, all of them must be truthy -/
  def evalIfs (ρ : Env) : List PyAst → Out
    | [] => .ofBool true
    | c :: cs =>
      match evalPy ρ c with
      | .val v => if v.truthy ρ.fops then evalIfs ρ cs else .ofBool false
      | err => err
  def evalPyBool (ρ : Env) (isAnd : Bool) : List PyAst → Out
    | [] => .otherError
    | [e] => evalPy ρ e
    | e :: es =>
      match evalPy ρ e with
      | .val v => if v.truthy ρ.fops == isAnd then evalPyBool ρ isAnd es else .val v
      | err => err
  def evalPyArgs (ρ : Env) : List PyAst → Args
    | [] => .ok []
    | e :: es =>
      match evalPy ρ e with
      | .val v =>
        match evalPyArgs ρ es with
        | .ok vs => .ok (v :: vs)
        | .err o => .err o
      | o => .err o
  def evalPyParts (ρ : Env) : List PyAst → Out
    | [] => .val (.str [])
    | .constant (.str s) :: ps =>
      match evalPyParts ρ ps with
      | .val (.str r) => .val (.str (s ++ r))
      | .val _ => .otherError
      | err => err
    | .formattedValue e (-1) false :: ps =>
      match evalPy ρ e with
      | .val v =>
        match fmtVal ρ v with
        | .val (.str t) =>
          match evalPyParts ρ ps with
          | .val (.str r) => .val (.str (t ++ r))
          | .val _ => .otherError
          | err => err
        | .val _ => .otherError
        | err => err
      | err => err
    | _ :: _ => .otherError
end

end AasVerif.PyAst
