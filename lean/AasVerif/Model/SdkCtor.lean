import AasVerif.Model.SdkDescend
/-!
# Python SDK: the generated constructors and the visitor / transformer classes

Model of two more pieces of `aas_core_codegen/python/lib/_generate_types.py` (added after the seeded changes
C29-5 / C29-6), on top of `Model/SdkDescend.lean`:

* `_generate_constructor`: the loop `for stmt in cls.constructor.statements` writes ONE Python statement per
  constructor statement of the meta-model, each on its own (no state is carried from one statement to the
  next): a call of the super constructor, `self.X = x`, or the ternary `self.X = (x if x is not None else D)`
  where `D` is `[]` (`intermediate_construction.EmptyList`) or `Enum.LITERAL` (`DefaultEnumLiteral`);
  `execStmt` is CPython's meaning of the written statement.
* the eight generators `_generate_abstract_visitor` … `_generate_transformer_with_default_and_context`: each
  loops over `symbol_table.concrete_classes` — EVERY concrete class of the meta-model, also the
  implementation-specific ones whose class text comes from a snippet — and writes one method per class.
-/
namespace AasVerif.SdkCtor
open AasVerif AasVerif.Sdk AasVerif.SdkDescend

/-! ## Constructors -/

/-- `intermediate_construction.Default`: what a property gets when the argument is `None` -/
inductive DefaultCode
  | emptyList
  | enumLiteral (enum : Name) (literal : Name)
  deriving DecidableEq, Repr, Inhabited

/-- `intermediate_construction.Statement` -/
inductive Stmt
  | callSuper (cls : Name)
  | assign (prop : Name) (arg : Name) (default : Option DefaultCode)
  deriving DecidableEq, Repr, Inhabited

/-- a statement of the generated `__init__` -/
inductive PyStmt
  /-- `Super.__init__(self, <the arguments of the super constructor>)` -/
  | superInit (cls : Name)
  /-- `self.prop = arg` -/
  | set (prop : Name) (arg : Name)
  /-- `self.prop = (arg if arg is not None else code)` -/
  | setOrDefault (prop : Name) (arg : Name) (code : DefaultCode)
  deriving DecidableEq, Repr, Inhabited

/-- one round of the loop of `_generate_constructor` -/
def renderStmt : Stmt → PyStmt
  | .callSuper c => .superInit c
  | .assign p a none => .set p a
  | .assign p a (some .emptyList) => .setOrDefault p a .emptyList
  | .assign p a (some (.enumLiteral e l)) => .setOrDefault p a (.enumLiteral e l)

/-- `_generate_constructor`: the body, statement by statement, in the order of the meta-model -/
def renderBody : List Stmt → List PyStmt
  | [] => []
  | s :: ss => renderStmt s :: renderBody ss

/-- the value of the written default expression (`[]` is a FRESH empty list, `Enum.LITERAL` the member) -/
def evalDefault : DefaultCode → Val
  | .emptyList => .list .nil
  | .enumLiteral e l => .enum e l

/-- CPython's meaning of one written assignment for the value of its argument: the property that is set
and what it holds afterwards (`none` for the call of a super constructor, which sets nothing itself) -/
def execStmt : PyStmt → Val → Option (Name × Val)
  | .superInit _, _ => none
  | .set p _, v => some (p, v)
  | .setOrDefault p _ code, .none => some (p, evalDefault code)
  | .setOrDefault p _ _, v => some (p, v)

/-- the property text: the argument, or the DECLARED default when the argument is `None` -/
def declared (default : Option DefaultCode) : Val → Val
  | .none => match default with
    | some code => evalDefault code
    | none => .none
  | v => v

/-! ## Visitors and transformers -/

/-- the eight generated classes -/
inductive Dispatcher
  | abstractVisitor
  | abstractVisitorWithContext
  | passThroughVisitor
  | passThroughVisitorWithContext
  | abstractTransformer
  | abstractTransformerWithContext
  | transformerWithDefault
  | transformerWithDefaultAndContext
  deriving DecidableEq, Repr, Inhabited

/-- which of the four dispatch methods of an instance calls into the class -/
def Dispatcher.kind : Dispatcher → Kind
  | .abstractVisitor | .passThroughVisitor => .accept
  | .abstractVisitorWithContext | .passThroughVisitorWithContext => .acceptWithContext
  | .abstractTransformer | .transformerWithDefault => .transform
  | .abstractTransformerWithContext | .transformerWithDefaultAndContext => .transformWithContext

/-- `symbol_table.concrete_classes` -/
def concreteClasses (mm : MM) : List ClassDecl := mm.classes.filter (fun c => !c.abstract)

/-- `for cls in symbol_table.concrete_classes:` one method `visit_{cls.name}` / `transform_{cls.name}`
(`…_with_context`) per concrete class, in the order of the symbol table -/
def declaredMethods (mm : MM) (d : Dispatcher) : List Name :=
  (concreteClasses mm).map (fun c => methodName d.kind c.name)

end AasVerif.SdkCtor
