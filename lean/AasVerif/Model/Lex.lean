import AasVerif.Model.Text
/-!
Comment/string lexers of the target languages, written from the language specifications
(not from the generator): just enough lexical structure to say where a comment, a string
or a docstring starts and ends.

* `lexC cfg` — the C family (`//` line comments, `/* … */` block comments which do not nest
  and end at the first `*/`, `"…"`/`'…'` literals with backslash escapes, everything else is
  a code character).  `cfg.nls` are the code points which end a line in the language;
  `cfg.splice` says that a backslash before the line end (GCC: also with white space in
  between) continues a `//` comment on the next line (C, C++).
  Instances: `java` (JLS 3.4, 3.7), `js` (ECMA-262 12.3, 12.4: LF CR U+2028 U+2029; inside a string
  literal only LF and CR since ES2019, which is the edition the check reads TypeScript with),
  `cpp` (ISO C++ [lex.phases] 2, [lex.comment]; GCC nvspace rule), `go` (Go spec "Comments":
  only LF ends a line), `cs` (ECMA-334 6.3.2/6.3.3: CR LF U+0085 U+2028 U+2029).
* `javaUnescape` — the Unicode-escape translation of JLS 3.3 which runs before the Java lexer.
* `lexPy` — Python (`#` comments up to the physical line end, single and triple quoted
  strings with backslash escapes; the value of a string token is decoded on the fly;
  CR and CRLF count as one LF as the tokenizer reads the source with universal newlines).
  Escapes `\N{…}`, `\u`, `\U`, `\x`, octal are outside the model: token `bad`.

Simplifications (stated, not hidden): string prefixes, raw strings, template literals and
line splicing outside `//` comments are not modelled (the wrappers emit none of them).
-/
namespace AasVerif.Lex

inductive Tok where
  | comment (body : Text)
  | str (val : Text)
  | nl
  | code (c : Nat)
  | bad (why : String)
deriving DecidableEq, Repr

structure Cfg where
  nls : List Nat
  splice : Bool
  /-- code points which may stand between the backslash and the line end of a splice -/
  spliceWs : List Nat
  /-- code points which may not stand in a string literal (the line terminators, but JavaScript since
  ES2019 allows U+2028 and U+2029 there) -/
  strNls : List Nat

def java : Cfg := ⟨[10, 13], false, [], [10, 13]⟩
def js : Cfg := ⟨[10, 13, 0x2028, 0x2029], false, [], [10, 13]⟩
def cpp : Cfg := ⟨[10, 13], true, [32, 9, 11, 12, 0, 13], [10, 13]⟩
def go : Cfg := ⟨[10], false, [], [10]⟩
def cs : Cfg := ⟨[10, 13, 0x85, 0x2028, 0x2029], false, [], [10, 13, 0x85, 0x2028, 0x2029]⟩

inductive St where
  | code
  | line (acc : Text)
  | block (acc : Text) (star : Bool)
  | str (q : Nat) (acc : Text) (esc : Bool)

/-- `acc` is the reversed comment so far: does it end in a backslash (+ splice white space)? -/
def continues (cfg : Cfg) (acc : Text) : Bool :=
  cfg.splice && (acc.dropWhile fun c => cfg.spliceWs.contains c).head? == some 92

def lexC (cfg : Cfg) : St → Text → List Tok
  | .code, [] => []
  | .line acc, [] => [.comment acc.reverse]
  | .block _ _, [] => [.bad "unterminated-comment"]
  | .str _ _ _, [] => [.bad "unterminated-string"]
  | .code, 47 :: 47 :: r => lexC cfg (.line []) r
  | .code, 47 :: 42 :: r => lexC cfg (.block [] false) r
  | .code, c :: r =>
    if c = 34 ∨ c = 39 then lexC cfg (.str c [] false) r
    else if cfg.nls.contains c then .nl :: lexC cfg .code r
    else .code c :: lexC cfg .code r
  | .line acc, c :: r =>
    if cfg.nls.contains c then
      if continues cfg acc then lexC cfg (.line (c :: acc)) r
      else .comment acc.reverse :: .nl :: lexC cfg .code r
    else lexC cfg (.line (c :: acc)) r
  | .block acc star, c :: r =>
    if star ∧ c = 47 then .comment (acc.drop 1).reverse :: lexC cfg .code r
    else lexC cfg (.block (c :: acc) (c == 42)) r
  | .str q acc esc, c :: r =>
    if esc then lexC cfg (.str q (c :: acc) false) r
    else if c = 92 then lexC cfg (.str q (c :: acc) true) r
    else if c = q then .str acc.reverse :: lexC cfg .code r
    else if cfg.strNls.contains c then .bad "newline-in-string" :: lexC cfg .code r
    else lexC cfg (.str q (c :: acc) false) r

/-! ### Java: Unicode escapes (JLS 3.3) -/

def hexVal (c : Nat) : Option Nat :=
  if 48 ≤ c ∧ c ≤ 57 then some (c - 48)
  else if 97 ≤ c ∧ c ≤ 102 then some (c - 87)
  else if 65 ≤ c ∧ c ≤ 70 then some (c - 55)
  else none

inductive JSt where
  /-- `even`: an even number of backslashes directly precedes -/
  | norm (even : Bool)
  /-- after `\u`, `k` hex digits with value `v` read -/
  | hex (k : Nat) (v : Nat)

/-- `none`: illegal unicode escape (a compile error). -/
def javaAux : JSt → Text → Option Text
  | .norm _, [] => some []
  | .hex _ _, [] => none
  | .norm true, 92 :: 117 :: r => javaAux (.hex 0 0) r
  | .norm e, 92 :: r => (javaAux (.norm (!e)) r).map (92 :: ·)
  | .norm _, c :: r => (javaAux (.norm true) r).map (c :: ·)
  | .hex k v, c :: r =>
    if k = 0 ∧ c = 117 then javaAux (.hex 0 0) r
    else match hexVal c with
      | none => none
      | some d =>
        if k = 3 then (javaAux (.norm true) r).map ((v * 16 + d) :: ·)
        else javaAux (.hex (k + 1) (v * 16 + d)) r

def javaUnescape (t : Text) : Option Text := javaAux (.norm true) t

def lexJava (t : Text) : Option (List Tok) := (javaUnescape t).map (lexC java .code)

/-! ### Python -/

inductive PSt where
  | code
  | comment (acc : Text)
  | s1 (q : Nat) (acc : Text) (esc : Bool)
  | s3 (q : Nat) (acc : Text) (esc : Bool)

/-- The value of `\c` pushed on the reversed accumulator; `none`: escape outside the model. -/
def pyEscape (c : Nat) (acc : Text) : Option Text :=
  if c = 10 then some acc
  else if c = 92 ∨ c = 34 ∨ c = 39 then some (c :: acc)
  else if c = 97 then some (7 :: acc)
  else if c = 98 then some (8 :: acc)
  else if c = 102 then some (12 :: acc)
  else if c = 110 then some (10 :: acc)
  else if c = 114 then some (13 :: acc)
  else if c = 116 then some (9 :: acc)
  else if c = 118 then some (11 :: acc)
  else if c = 120 ∨ c = 78 ∨ c = 117 ∨ c = 85 ∨ (48 ≤ c ∧ c ≤ 55) then none
  else some (c :: 92 :: acc)

def lexPy : PSt → Text → List Tok
  | .code, [] => []
  | .comment acc, [] => [.comment acc.reverse]
  | .s1 _ _ _, [] => [.bad "unterminated-string"]
  | .s3 _ _ _, [] => [.bad "unterminated-triple-quoted-string"]
  | _, 0 :: _ => [.bad "nul"]
  | .code, 34 :: 34 :: 34 :: r => lexPy (.s3 34 [] false) r
  | .code, 39 :: 39 :: 39 :: r => lexPy (.s3 39 [] false) r
  | .code, 13 :: 10 :: r => .nl :: lexPy .code r
  | .code, c :: r =>
    if c = 34 ∨ c = 39 then lexPy (.s1 c [] false) r
    else if c = 35 then lexPy (.comment []) r
    else if c = 10 ∨ c = 13 then .nl :: lexPy .code r
    else .code c :: lexPy .code r
  | .comment acc, 13 :: 10 :: r => .comment acc.reverse :: .nl :: lexPy .code r
  | .comment acc, c :: r =>
    if c = 10 ∨ c = 13 then .comment acc.reverse :: .nl :: lexPy .code r
    else lexPy (.comment (c :: acc)) r
  | .s1 q acc true, 13 :: 10 :: r => lexPy (.s1 q acc false) r
  | .s1 q acc esc, c :: r =>
    if esc then
      match pyEscape (if c = 13 then 10 else c) acc with
      | none => [.bad "escape-outside-model"]
      | some acc' => lexPy (.s1 q acc' false) r
    else if c = 92 then lexPy (.s1 q acc true) r
    else if c = q then .str acc.reverse :: lexPy .code r
    else if c = 10 ∨ c = 13 then [.bad "newline-in-string"]
    else lexPy (.s1 q (c :: acc) false) r
  | .s3 q acc true, 13 :: 10 :: r => lexPy (.s3 q acc false) r
  | .s3 q acc false, 13 :: 10 :: r => lexPy (.s3 q (10 :: acc) false) r
  | .s3 q acc false, c1 :: c2 :: c3 :: r =>
    if c1 = q ∧ c2 = q ∧ c3 = q then .str acc.reverse :: lexPy .code r
    else if c1 = 92 then lexPy (.s3 q acc true) (c2 :: c3 :: r)
    else lexPy (.s3 q ((if c1 = 13 then 10 else c1) :: acc) false) (c2 :: c3 :: r)
  | .s3 q acc esc, c :: r =>
    if esc then
      match pyEscape (if c = 13 then 10 else c) acc with
      | none => [.bad "escape-outside-model"]
      | some acc' => lexPy (.s3 q acc' false) r
    else if c = 92 then lexPy (.s3 q acc true) r
    else lexPy (.s3 q ((if c = 13 then 10 else c) :: acc) false) r

def lexPython (t : Text) : List Tok := lexPy .code t

end AasVerif.Lex
