import AasVerif.Model.Text
/-!
Python `str` primitives used by several models: `str.isspace` per code point,
`str.splitlines(keepends=True)`, `textwrap.indent` (CPython 3.12).
The tables are validated against CPython over all code points by the correspondence runs.
-/
namespace AasVerif.PyStr

/-- `chr(c).isspace()` -/
def isSpace (c : Nat) : Bool :=
  (9 ≤ c && c ≤ 13) || (28 ≤ c && c ≤ 32) || c == 133 || c == 160 || c == 5760 ||
  (8192 ≤ c && c ≤ 8202) || c == 8232 || c == 8233 || c == 8239 || c == 8287 || c == 12288

/-- Line boundaries of `str.splitlines` other than the `\r\n` pair. -/
def isBreak (c : Nat) : Bool :=
  c == 10 || c == 13 || c == 11 || c == 12 || c == 28 || c == 29 || c == 30 || c == 133 ||
  c == 8232 || c == 8233

/-- `text.splitlines(True)`: `cur` is the current line in reverse. -/
def splitKeepAux : Text → Text → List Text
  | cur, [] => if cur.isEmpty then [] else [cur.reverse]
  | cur, 13 :: 10 :: rest => (10 :: 13 :: cur).reverse :: splitKeepAux [] rest
  | cur, c :: rest =>
    if isBreak c then (c :: cur).reverse :: splitKeepAux [] rest
    else splitKeepAux (c :: cur) rest

def splitlinesKeep (t : Text) : List Text := splitKeepAux [] t

/-- `bool(line.strip())` -/
def hasNonSpace (line : Text) : Bool := line.any (fun c => !isSpace c)

/-- `textwrap.indent(text, prefix)` with the default predicate. -/
def indent (prefix_ : Text) (t : Text) : Text :=
  ((splitlinesKeep t).map (fun line => if hasNonSpace line then prefix_ ++ line else line)).flatten

end AasVerif.PyStr
