import AasVerif.Model.SdkData
import AasVerif.Model.SdkJson
import AasVerif.Model.SdkWf
/-!
# XML (de)serialization of the generated Python SDK on element trees

The lexical layer (`xml.etree.ElementTree.iterparse`, character data, namespaces) is trusted:
the model works on the parsed element TREE (`Elem`: namespace, local name, "has attributes",
text, tail, children).  Character data is `Model/XmlText.lean`.

`xmlization.<cls>_from_str` is an event-stream recursive descent over `iterparse` with
`element.clear()` after every event.  The model states its behaviour for documents that
`iterparse` reads in ONE chunk (< 16 KiB; the correspondence harness only sends such documents):
then an element is complete when its `start` event is delivered (text, tail and attributes are
visible THERE) and it has been cleared when its `end` event is delivered (the checks on the end
element are vacuous).  Consequences that are faithfully reproduced: `str`/`bytes`/enumeration
elements accept attributes and trailing text, list and discriminator property elements are never
checked for them, item elements of primitive lists may carry any tag.

Python's `int(text)` / `float(text)` are an ORACLE (`PyOracle`, a finite table sent with every
request): trusted CPython, not modelled.  `str.strip()` emptiness is `pyBlank`.

* `toXml`  = `xmlization.to_str` parsed back into a tree (type directed like the generator:
  a class-typed property is written with a discriminator element iff the DECLARED class has
  concrete descendants).
* `fromXml` = `<cls>_from_str`.
-/
namespace AasVerif.Sdk

mutual
  inductive Elem
    | mk (ns : Option Text) (name : Text) (attrs : Bool) (text : Option Text) (tail : Option Text)
        (children : Elems)
  inductive Elems
    | nil
    | cons (e : Elem) (es : Elems)
end

def Elem.ns : Elem → Option Text | .mk ns _ _ _ _ _ => ns
def Elem.name : Elem → Text | .mk _ n _ _ _ _ => n
def Elem.attrs : Elem → Bool | .mk _ _ a _ _ _ => a
def Elem.text : Elem → Option Text | .mk _ _ _ t _ _ => t
def Elem.tail : Elem → Option Text | .mk _ _ _ _ t _ => t
def Elem.children : Elem → Elems | .mk _ _ _ _ _ c => c

def Elems.isEmpty : Elems → Bool
  | .nil => true
  | .cons _ _ => false

structure PyOracle where
  /-- `int(text)`; `none` = `ValueError` -/
  int : Text → Option Int
  /-- `repr(float(text))`; `none` = `ValueError` -/
  float : Text → Option Text

/-- code points `str.strip()` removes -/
def pySpace (c : Nat) : Bool :=
  (9 ≤ c && c ≤ 13) || (28 ≤ c && c ≤ 32) || c = 133 || c = 160 || c = 5760
    || (8192 ≤ c && c ≤ 8202) || c = 8232 || c = 8233 || c = 8239 || c = 8287 || c = 12288

/-- `text is None or len(text.strip()) == 0` -/
def pyBlank : Option Text → Bool
  | none => true
  | some t => t.all pySpace

def xmlProperty (ident : Text) : Text := lowerCamel ident
def xmlClassName (ident : Text) : Text := lowerCamel ident

/-- well-formedness needed by the XML reader on top of `MM.wf`: `xml_class_name` is injective on
class names (C21) -/
def MM.wfXml (mm : MM) : Bool :=
  mm.wf && nodupB (mm.classes.map (fun c => xmlClassName c.name))

/-! ## Serialization -/

def sTrue : Text := [116, 114, 117, 101]
def sFalse : Text := [102, 97, 108, 115, 101]
def sInf : Text := [105, 110, 102]
def sNegInf : Text := [45, 105, 110, 102]
def sNan : Text := [110, 97, 110]
def xInf : Text := [73, 78, 70]
def xNegInf : Text := [45, 73, 78, 70]
def xNan : Text := [78, 97, 78]
def sOne : Text := [49]
def sZero : Text := [48]
/-- `"v"` -/
def itemTag : Text := [118]

def showIntText (i : Int) : Text := (toString i).toList.map Char.toNat

/-- `_write_float_as_element` on the `repr` of the value -/
def xmlFloatText (r : Text) : Text :=
  if r = sInf then xInf else if r = sNegInf then xNegInf else if r = sNan then xNan else r

def optText (t : Text) : Option Text := if t.isEmpty then none else some t

def leafElem (ns : Text) (name : Text) (t : Option Text) : Elem :=
  .mk (some ns) name false t none .nil

/-- properties of the class `d` (none if it does not exist) -/
def MM.propsOf (mm : MM) (d : Name) : List PropDecl :=
  match mm.findClass d with
  | none => []
  | some dd => dd.props

mutual
  /-- the element written for the value `v` of a property / item declared with the
  (non-optional) type `t` -/
  def valElem (mm : MM) (ns : Text) (name : Text) : Ty → Val → Elem
    | .list t, .list vs => .mk (some ns) name false none none (itemElems mm ns t vs)
    | .cls c, .inst d fs =>
      match mm.findClass c with
      | none => leafElem ns name none
      | some cd =>
        if cd.concreteDescendants.isEmpty then
          .mk (some ns) name false none none (fieldElems mm ns (mm.propsOf d) fs)
        else
          .mk (some ns) name false none none
            (.cons (.mk (some ns) (xmlClassName d) false none none (fieldElems mm ns (mm.propsOf d) fs)) .nil)
    | _, .bool b => leafElem ns name (some (if b then sTrue else sFalse))
    | _, .int i => leafElem ns name (some (showIntText i))
    | _, .float r => leafElem ns name (some (xmlFloatText r))
    | _, .str s => leafElem ns name (optText s)
    | _, .bytes bs => leafElem ns name (optText (Base64.encode bs))
    | _, .enum e l => leafElem ns name (optText (mm.enumValue e l))
    | _, _ => leafElem ns name none
  def fieldElems (mm : MM) (ns : Text) : List PropDecl → Vals → Elems
    | p :: ps, .cons v vs =>
      match v with
      | .none => fieldElems mm ns ps vs
      | v => .cons (valElem mm ns (xmlProperty p.name) p.ty.beneathOpt v) (fieldElems mm ns ps vs)
    | _, _ => .nil
  def itemElems (mm : MM) (ns : Text) (t : Ty) : Vals → Elems
    | .nil => .nil
    | .cons v vs =>
      match t, v with
      | .cls _, .inst d fs =>
        .cons (.mk (some ns) (xmlClassName d) false none none (fieldElems mm ns (mm.propsOf d) fs))
          (itemElems mm ns t vs)
      | t, v => .cons (valElem mm ns itemTag t v) (itemElems mm ns t vs)
end

/-- `xmlization.to_str(instance)` as a tree -/
def toXml (mm : MM) (ns : Text) : Val → Elem
  | .inst d fs => .mk (some ns) (xmlClassName d) false none none (fieldElems mm ns (mm.propsOf d) fs)
  | _ => leafElem ns [] none

/-! ## De-serialization -/

/-- `_raise_if_has_tail_or_attrib` -/
def hasTailOrAttrib (e : Elem) : Bool := !pyBlank e.tail || e.attrs

/-- `_read_text_from_element` -/
def xReadText (e : Elem) : Res Text :=
  if hasTailOrAttrib e then .err "tail or attrib"
  else if !e.children.isEmpty then .err "expected the end element"
  else match e.text with
    | none => .err "no text"
    | some t => .ok t

/-- `_read_str_from_element_text` (the tail/attribute check runs on the cleared element) -/
def xReadStr (e : Elem) : Res Text :=
  if !e.children.isEmpty then .err "expected the end element"
  else .ok (e.text.getD [])

def xReadPrim (py : PyOracle) (p : Prim) (e : Elem) : Res Val :=
  match p with
  | .bool =>
    match xReadText e with
    | .ok t =>
      if t = sOne || t = sTrue then .ok (.bool true)
      else if t = sZero || t = sFalse then .ok (.bool false)
      else .err "not a boolean"
    | .err x => .err x
    | .crash x => .crash x
  | .int =>
    match xReadText e with
    | .ok t => match py.int t with
      | some i => .ok (.int i)
      | none => .err "not an integer"
    | .err x => .err x
    | .crash x => .crash x
  | .float =>
    match xReadText e with
    | .ok t =>
      if t = xNan then .ok (.float sNan)
      else if t = xInf then .ok (.float sInf)
      else if t = xNegInf then .ok (.float sNegInf)
      else match py.float t with
        | some r => .ok (.float r)
        | none => .err "not a float"
    | .err x => .err x
    | .crash x => .crash x
  | .str =>
    match xReadStr e with
    | .ok t => .ok (.str t)
    | .err x => .err x
    | .crash x => .crash x
  | .bytes =>
    match xReadStr e with
    | .ok t => match Base64.decode t with
      | .ok bs => .ok (.bytes bs)
      | .error _ => .err "not base64"
    | .err x => .err x
    | .crash x => .crash x

def xReadEnum (mm : MM) (en : Name) (e : Elem) : Res Val :=
  match mm.findEnum en with
  | none => .crash "AttributeError"
  | some ed =>
    match xReadStr e with
    | .ok t => match lookupLast (ed.literals.map (fun p => (p.2, p.1))) t with
      | some lit => .ok (.enum en lit)
      | none => .err "not a literal"
    | .err x => .err x
    | .crash x => .crash x

inductive XMode
  /-- the element of a property of (non-optional) type `t` -/
  | prop (t : Ty)
  /-- an item element of a list with item type `t` -/
  | item (t : Ty)
  /-- `_read_<c>_as_element` -/
  | asElement (c : Name)

inductive XPlan
  | fail (r : Res Val)
  | done (v : Val)
  /-- read the children as the properties of `cd` -/
  | seq (cd : ClassDecl)
  /-- exactly one child, read with `_read_<c>_as_element` -/
  | discr (c : Name)
  /-- the children are the items of a list -/
  | items (t : Ty)

/-- `_parse_element_tag`: the local name if the element is in the namespace of the SDK -/
def tagIn (ns : Text) (e : Elem) : Option Text :=
  match e.ns with
  | some n => if n = ns then some e.name else none
  | none => none

/-- `_read_<cd>_as_sequence` up to the loop over the children -/
def seqPlan (cd : ClassDecl) (e : Elem) : XPlan :=
  if cd.abstract then .fail (.crash "AssertionError")
  else if !pyBlank e.text then .fail (.err "text in a sequence")
  else if hasTailOrAttrib e then .fail (.err "tail or attrib")
  else .seq cd

/-- `_DISPATCH_FOR_<cd>`: own `as_sequence` (concrete classes) + one entry per concrete descendant -/
def xDispatchEntries (cd : ClassDecl) : List (Text × Name) :=
  (if cd.abstract then [] else [(xmlClassName cd.name, cd.name)])
    ++ cd.concreteDescendants.map (fun d => (xmlClassName d, d))

/-- `_read_<c>_as_element` up to the loop over the children -/
def asElementPlan (mm : MM) (ns : Text) (c : Name) (e : Elem) : XPlan :=
  match mm.findClass c with
  | none => .fail (.crash "NameError")
  | some cd =>
    match tagIn ns e with
    | none => .fail (.err "namespace")
    | some tag =>
      if cd.concreteDescendants.isEmpty then
        if tag = xmlClassName cd.name then seqPlan cd e else .fail (.err "unexpected tag")
      else
        match lookupLast (xDispatchEntries cd) tag with
        | none => .fail (.err "unexpected tag")
        | some d =>
          match mm.findClass d with
          | none => .fail (.crash "NameError")
          | some dd => seqPlan dd e

def resToPlan : Res Val → XPlan
  | .ok v => .done v
  | r => .fail r

def xPlan (mm : MM) (ns : Text) (py : PyOracle) : XMode → Elem → XPlan
  | .asElement c, e => asElementPlan mm ns c e
  | .item (.prim p), e => resToPlan (xReadPrim py p e)
  | .item (.enum en), e => resToPlan (xReadEnum mm en e)
  | .item (.cls c), e => asElementPlan mm ns c e
  | .item _, _ => .fail (.crash "AssertionError")
  | .prop (.prim p), e => resToPlan (xReadPrim py p e)
  | .prop (.enum en), e => resToPlan (xReadEnum mm en e)
  | .prop (.cls c), e =>
    match mm.findClass c with
    | none => .fail (.crash "NameError")
    | some cd => if cd.concreteDescendants.isEmpty then seqPlan cd e else .discr c
  | .prop (.list t), e => if !pyBlank e.text then .fail (.err "text in a list") else .items t
  | .prop (.opt _), _ => .fail (.crash "AssertionError")

inductive XSetter
  | unknown
  | prop (p : PropDecl)

/-- `_READ_AND_SET_DISPATCH_FOR_X.get(tag)` -/
def xSetterFor (props : List PropDecl) (tag : Text) : XSetter :=
  match lookupLast (props.map (fun p => (xmlProperty p.name, p))) tag with
  | none => .unknown
  | some p => .prop p

mutual
  def xRead (mm : MM) (ns : Text) (py : PyOracle) (mode : XMode) : Elem → Res Val
    | .mk ens name attrs text tail children =>
      match xPlan mm ns py mode (.mk ens name attrs text tail children) with
      | .fail r => r
      | .done v => .ok v
      | .seq cd =>
        match xReadChildren mm ns py cd.props children [] with
        | .ok st =>
          match assemble cd.props st with
          | .ok vs => .ok (.inst cd.name vs)
          | .err x => .err x
          | .crash x => .crash x
        | .err x => .err x
        | .crash x => .crash x
      | .discr c =>
        match children with
        | .cons g .nil => xRead mm ns py (.asElement c) g
        | _ => .err "expected exactly one discriminator element"
      | .items t =>
        match xReadItems mm ns py t children with
        | .ok vs => .ok (.list vs)
        | .err x => .err x
        | .crash x => .crash x
  def xReadItems (mm : MM) (ns : Text) (py : PyOracle) (t : Ty) : Elems → Res Vals
    | .nil => .ok .nil
    | .cons g gs =>
      match xRead mm ns py (.item t) g with
      | .ok v =>
        match xReadItems mm ns py t gs with
        | .ok vs => .ok (.cons v vs)
        | .err x => .err x
        | .crash x => .crash x
      | .err x => .err x
      | .crash x => .crash x
  /-- the loop of `_read_X_as_sequence` over the property elements -/
  def xReadChildren (mm : MM) (ns : Text) (py : PyOracle) (props : List PropDecl) :
      Elems → State → Res State
    | .nil, st => .ok st
    | .cons g gs, st =>
      match tagIn ns g with
      | none => .err "namespace"
      | some tag =>
        match xSetterFor props tag with
        | .unknown => .err "unexpected property element"
        | .prop p =>
          match xRead mm ns py (.prop p.ty.beneathOpt) g with
          | .ok x => xReadChildren mm ns py props gs ((p.name, x) :: st)
          | .err x => .err x
          | .crash x => .crash x
end

/-- `xmlization.<c>_from_str` on the parsed tree -/
def fromXml (mm : MM) (ns : Text) (py : PyOracle) (c : Name) (root : Elem) : Res Val :=
  xRead mm ns py (.asElement c) root

end AasVerif.Sdk
