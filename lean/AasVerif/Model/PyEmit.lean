import AasVerif.Model.Expr.Eval
import AasVerif.Model.Expr.Kind
import AasVerif.Gen.PyEmit
/-!
Model of `aas_core_codegen/python/transpilation.py` (+ the `if not …:` wrapper of
`_transpile_invariant`): `transpile : Cfg → List Text → Expr → Res PyExpr`.

`PyExpr` is the Python expression AST of the emitted sub-grammar **with explicit `paren`
nodes**; every decision "parentheses or not" of the transpiler is a membership test of the
child's node class in a tuple, and those tuples are `Gen.PyEmit` data.

References to things the generated module defines elsewhere are kept symbolic (`that`,
`var x`, `constRef c` = `aas_constants.<constant_name c>`, `enumRef e`, attribute names with
the naming function that applies): the *naming* functions are outside this model (property
C21); the printer only needs to know which one applies.  `PyExpr.eval` is Python's meaning of
the emitted expression in the same environment (names resolve to what they denote).

`print` gives the token sequence, `parse` is a recursive-descent / precedence-climbing
parser of the emitted sub-grammar following Python's grammar
(`or_test → and_test → not_test → comparison → arith → factor → primary → atom`).
-/
namespace AasVerif.PyEmit
open AasVerif AasVerif.Expr

/-- which naming function renders an attribute name -/
inductive AttrKind where
  | prop | enumLit | method
  deriving DecidableEq, Repr, Inhabited

inductive PyCmp where
  | cmp (op : Cmp) | in_ | is_ | isNot
  deriving DecidableEq, Repr, Inhabited

mutual
  inductive PyExpr where
    | that
    | var (x : Text)
    | constRef (c : Text)
    | enumRef (e : Text)
    | funRef (f : Text)
    | noneC | tru | fls
    | int (n : Nat)
    | float (repr : Text)
    | str (s : Text)
    | neg (e : PyExpr)
    | attr (e : PyExpr) (k : AttrKind) (n : Text)
    | subscript (e : PyExpr) (i : PyExpr)
    | callMethod (e : PyExpr) (m : Text) (args : List PyExpr)
    | callFun (f : Text) (args : List PyExpr)
    | compare (l : PyExpr) (op : PyCmp) (r : PyExpr)
    | not (e : PyExpr)
    | boolop (isAnd : Bool) (vals : List PyExpr)
    | binop (isAdd : Bool) (l : PyExpr) (r : PyExpr)
    | fstring (parts : List PyPart)
    | quant (isAny : Bool) (elt : PyExpr) (x : Text) (iter : PyIter)
    | paren (e : PyExpr)
  inductive PyPart where
    | lit (s : Text)
    | fv (e : PyExpr)
  /-- what a generator expression iterates over: an expression or `range(a, b)` -/
  inductive PyIter where
    | each (e : PyExpr)
    | range (a : PyExpr) (b : PyExpr)
end

instance : Inhabited PyExpr := ⟨.noneC⟩

/-! ## Python meaning of the emitted expression -/

def selfName : Text := [115, 101, 108, 102]

/-- what a generator expression iterates over -/
inductive IterRes where
  | items (vs : List Val)
  | range (start : Int) (n : Nat)
  | err (o : Out)

def negText (r : Text) : Text :=
  match r with
  | 45 :: t => t
  | t => 45 :: t

/-- unary minus -/
def negVal : Val → Out
  | .int i => .val (.int (-i))
  | .bool b => .val (.int (if b then -1 else 0))
  | .float r => .val (.float (negText r))
  | _ => .typeError

mutual
  def PyExpr.eval (ρ : Env) : PyExpr → Out
    | .that =>
      match lookup selfName ρ.vars with
      | some v => .val v
      | none => .otherError
    | .var x | .constRef x | .enumRef x | .funRef x =>
      match lookup x ρ.vars with
      | some v => .val v
      | none => .otherError
    | .noneC => .val .none
    | .tru => .val (.bool true)
    | .fls => .val (.bool false)
    | .int n => .val (.int n)
    | .float r => .val (.float r)
    | .str s => .val (.str s)
    | .neg e =>
      match PyExpr.eval ρ e with
      | .val v => negVal v
      | err => err
    | .attr e _ n =>
      match PyExpr.eval ρ e with
      | .val .none => .noneDeref
      | .val (.inst _ _ fields) =>
        match lookup n fields with
        | some v => .val v
        | none => .otherError
      | .val (.enumCls en lits) => if lits.contains n then .val (.enumLit en n) else .otherError
      | .val _ => .otherError
      | err => err
    | .subscript c i =>
      match PyExpr.eval ρ c with
      | .val cv =>
        match PyExpr.eval ρ i with
        | .val iv => indexVals cv iv
        | err => err
      | err => err
    | .callMethod inst n args =>
      match PyExpr.eval ρ inst with
      | .val .none => .noneDeref
      | .val recv =>
        match ρ.meths recv n with
        | none => .otherError
        | some f =>
          match evalArgs ρ args with
          | .ok vs => f vs
          | .err o => o
      | err => err
    | .callFun n args =>
      match lookup n ρ.vars with
      | some _ =>
        match evalArgs ρ args with
        | .ok _ => .typeError
        | .err o => o
      | none =>
        match ρ.funs n with
        | some f =>
          match evalArgs ρ args with
          | .ok vs => f vs
          | .err o => o
        | none =>
          if n = [108, 101, 110] then
            match evalArgs ρ args with
            | .ok [v] => lenVal v
            | .ok _ => .typeError
            | .err o => o
          else .otherError
    | .compare l op r =>
      match PyExpr.eval ρ l with
      | .val lv =>
        match PyExpr.eval ρ r with
        | .val rv =>
          match op with
          | .cmp c => cmpVals ρ.fops c lv rv
          | .in_ => isInVals ρ.fops lv rv
          | .is_ =>
            match rv with
            | .none => (match lv with | .none => .ofBool true | _ => .ofBool false)
            | _ => .otherError  -- `is` is only emitted against `None`
          | .isNot =>
            match rv with
            | .none => (match lv with | .none => .ofBool false | _ => .ofBool true)
            | _ => .otherError
        | err => err
      | err => err
    | .not e =>
      match PyExpr.eval ρ e with
      | .val v => .ofBool (!v.truthy ρ.fops)
      | err => err
    | .boolop isAnd vals => evalBool ρ isAnd vals
    | .binop isAdd l r =>
      match PyExpr.eval ρ l with
      | .val lv =>
        match PyExpr.eval ρ r with
        | .val rv => arithVals ρ.fops isAdd lv rv
        | err => err
      | err => err
    | .fstring parts => evalParts ρ parts
    | .quant isAny elt x iter =>
      match evalIter ρ iter with
      | .items items => quantLoop ρ.fops isAny (fun item => PyExpr.eval (ρ.bind x item) elt) items
      | .range s n => rangeLoop ρ.fops isAny (fun i => PyExpr.eval (ρ.bind x i) elt) s n
      | .err o => o
    | .paren e => PyExpr.eval ρ e
  /-- the iterable of a generator expression, evaluated in the enclosing scope -/
  def evalIter (ρ : Env) : PyIter → IterRes
    | .range a b =>
      match PyExpr.eval ρ a with
      | .val av =>
        match PyExpr.eval ρ b with
        | .val bv =>
          match rangeArg av, rangeArg bv with
          | some s, some e => .range s (e - s).toNat
          | _, _ => .err .typeError
        | err => .err err
      | err => .err err
    | .each e =>
      match PyExpr.eval ρ e with
      | .val iv =>
        match iterItems iv with
        | some items => .items items
        | none => .err .typeError
      | err => .err err
  def evalBool (ρ : Env) (isAnd : Bool) : List PyExpr → Out
    | [] => .otherError
    | [e] => PyExpr.eval ρ e
    | e :: es =>
      match PyExpr.eval ρ e with
      | .val v => if v.truthy ρ.fops == isAnd then evalBool ρ isAnd es else .val v
      | err => err
  def evalArgs (ρ : Env) : List PyExpr → Args
    | [] => .ok []
    | e :: es =>
      match PyExpr.eval ρ e with
      | .val v =>
        match evalArgs ρ es with
        | .ok vs => .ok (v :: vs)
        | .err o => .err o
      | o => .err o
  def evalParts (ρ : Env) : List PyPart → Out
    | [] => .val (.str [])
    | .lit s :: ps =>
      match evalParts ρ ps with
      | .val (.str r) => .val (.str (s ++ r))
      | .val _ => .otherError
      | err => err
    | .fv e :: ps =>
      match PyExpr.eval ρ e with
      | .val v =>
        match fmtVal ρ v with
        | .val (.str t) =>
          match evalParts ρ ps with
          | .val (.str r) => .val (.str (t ++ r))
          | .val _ => .otherError
          | err => err
        | .val _ => .otherError
        | err => err
      | err => err
end


/-! ## The transpiler -/

inductive NameKind where
  | const | fn | enum
  deriving DecidableEq, Repr, Inhabited

inductive FunKind where
  | verification | builtinLen | builtinOther | notFunction
  deriving DecidableEq, Repr, Inhabited

/-- What the transpiler reads from the symbol table and the inferred type map. -/
structure Cfg where
  /-- constants / verification functions / enumerations by name -/
  nameKind : Text → Option NameKind
  /-- how `transform_member` resolves `instance.name` (`none`: it reports an error) -/
  memberKind : Expr → Text → Option AttrKind
  /-- the inferred type of the callee of a function call -/
  funKind : Text → FunKind

/-- Result of a transpilation: the code, an error report, or an assertion violated. -/
inductive Res (α : Type) where
  | ok (x : α)
  | err
  | crash
  deriving Inhabited

def Res.bind {α β} : Res α → (α → Res β) → Res β
  | .ok x, f => f x
  | .err, _ => .err
  | .crash, _ => .crash

@[simp] theorem Res.bind_ok {α β} (x : α) (f : α → Res β) : (Res.ok x).bind f = f x := rfl
@[simp] theorem Res.bind_err {α β} (f : α → Res β) : (Res.err : Res α).bind f = .err := rfl
@[simp] theorem Res.bind_crash {α β} (f : α → Res β) : (Res.crash : Res α).bind f = .crash := rfl

theorem Res.bind_eq_ok {α β} {r : Res α} {f : α → Res β} {y : β} :
    r.bind f = .ok y ↔ ∃ x, r = .ok x ∧ f x = .ok y := by
  cases r <;> simp [Res.bind]

/-- Python's meaning of the operator strings of `_PYTHON_COMPARISON_MAP`. -/
def pyOpOfString : String → Option Cmp
  | "<" => some .lt | "<=" => some .le | ">" => some .gt | ">=" => some .ge
  | "==" => some .eq | "!=" => some .ne | _ => none

def lookupCmp (op : Cmp) : List (Cmp × String) → Option String
  | [] => none
  | (c, s) :: r => if c = op then some s else lookupCmp op r

/-- `Transpiler._PYTHON_COMPARISON_MAP[node.op]` read back as a Python operator (`KeyError` → crash). -/
def emitCmp (op : Cmp) : Res PyCmp :=
  match (lookupCmp op Gen.PyEmit.comparisonMap).bind pyOpOfString with
  | some c => .ok (.cmp c)
  | none => .crash

/-- `code if isinstance(child, tbl) else f"({code})"` -/
def parenUnless (tbl : List Kind) (child : Expr) (x : PyExpr) : PyExpr :=
  if child.kind ∈ tbl then x else .paren x

/-- `str(value)` of a non-negative float: `nan` comes out as a bare name (`inf` is emitted as
`math.inf`, which denotes the float) -/
def floatAtom (t : Text) : PyExpr :=
  if t = [110, 97, 110] then .var t else .float t

def transpileConst : Const → PyExpr
  | .bool true => .tru
  | .bool false => .fls
  | .int i => if i < 0 then .neg (.int i.natAbs) else .int i.natAbs
  | .float r =>
    match r with
    | 45 :: t => .neg (floatAtom t)
    | t => floatAtom t
  | .str s => .str s

/-- does the emitted code contain a line break (only the structural ones are modelled) -/
def multiline : PyExpr → Bool
  | .boolop _ _ => true
  | .quant _ _ _ _ => true
  | .paren (.boolop _ _) => true
  | _ => false

def hasFv : List JPart → Bool
  | [] => false
  | .lit _ :: ps => hasFv ps
  | .fv _ :: _ => true

def litsOf : List JPart → Text
  | [] => []
  | .lit s :: ps => s ++ litsOf ps
  | .fv _ :: ps => litsOf ps

/-- does `variable_name(x)` (lower snake case) give `that`, the name of the instance in the
generated code — the generator reports an error for such a generator variable -/
def isThat (x : Text) : Bool :=
  x.map (fun c => if 65 ≤ c ∧ c ≤ 90 then c + 32 else c) == [116, 104, 97, 116]

def transpileName (cfg : Cfg) (vs : List Text) (x : Text) : Res PyExpr :=
  if x ∈ vs then (if isThat x then .err else .ok (.var x))
  else if x = selfName then .ok .that
  else match cfg.nameKind x with
    | some .const => .ok (.constRef x)
    | some .fn => .ok (.funRef x)
    | some .enum => .ok (.enumRef x)
    | none => .err

mutual
  /-- `Transpiler.transform(node)`; `vs` = the generator variables in scope. -/
  def transpile (cfg : Cfg) (vs : List Text) : Expr → Res PyExpr
    | .name x => transpileName cfg vs x
    | .const c => .ok (transpileConst c)
    | .member inst n =>
      (transpile cfg vs inst).bind fun x =>
        match cfg.memberKind inst n with
        | some k => .ok (.attr x k n)
        | none => .err
    | .index c i =>
      (transpile cfg vs c).bind fun c' =>
      (transpile cfg vs i).bind fun i' =>
        .ok (.subscript (parenUnless Gen.PyEmit.index c c') i')
    | .cmp l op r =>
      (emitCmp op).bind fun o =>
      (transpile cfg vs l).bind fun l' =>
      (transpile cfg vs r).bind fun r' =>
        if l.kind ∈ Gen.PyEmit.comparison ∧ r.kind ∈ Gen.PyEmit.comparison then .ok (.compare l' o r')
        else .ok (.compare (.paren l') o (.paren r'))
    | .isIn m c =>
      (transpile cfg vs m).bind fun m' =>
      (transpile cfg vs c).bind fun c' =>
        .ok (.compare (parenUnless Gen.PyEmit.isIn m m') .in_ (parenUnless Gen.PyEmit.isIn c c'))
    | .impl a c =>
      (transpile cfg vs a).bind fun a' =>
      (transpile cfg vs c).bind fun c' =>
        .ok (.boolop false [.not (parenUnless Gen.PyEmit.implication a a'),
                            parenUnless Gen.PyEmit.implication c c'])
    | .methodCall inst n args =>
      (transpile cfg vs inst).bind fun inst' =>
      (transpileArgs cfg vs args).bind fun args' =>
        .ok (.callMethod (parenUnless Gen.PyEmit.methodCall inst inst') n args')
    | .funCall n args =>
      (transpileArgs cfg vs args).bind fun args' =>
        match cfg.funKind n with
        | .notFunction => .err
        | .verification => .ok (.callFun n args')
        | .builtinLen =>
          if n = [108, 101, 110] then
            match args' with
            | [a] => .ok (.callFun n [a])
            | _ => .crash
          else .err
        | .builtinOther => .err
    | .isNone e =>
      (transpile cfg vs e).bind fun e' =>
        .ok (.compare (parenUnless Gen.PyEmit.isNone e e') .is_ .noneC)
    | .isNotNone e =>
      (transpile cfg vs e).bind fun e' =>
        .ok (.compare (parenUnless Gen.PyEmit.isNotNone e e') .isNot .noneC)
    | .not e =>
      (transpile cfg vs e).bind fun e' => .ok (.not (parenUnless Gen.PyEmit.notOp e e'))
    | .and es =>
      (transpileVals cfg vs es).bind fun vals =>
        match vals with
        | [] => .crash
        | [v] => .ok v
        | vals => .ok (.paren (.boolop true vals))
    | .or es =>
      (transpileVals cfg vs es).bind fun vals =>
        match vals with
        | [] => .crash
        | [v] => .ok v
        | vals => .ok (.paren (.boolop false vals))
    | .add l r =>
      (transpile cfg vs l).bind fun l' =>
      (transpile cfg vs r).bind fun r' =>
        .ok (.binop true (parenUnless Gen.PyEmit.addSub l l') (parenUnless Gen.PyEmit.addSub r r'))
    | .sub l r =>
      (transpile cfg vs l).bind fun l' =>
      (transpile cfg vs r).bind fun r' =>
        .ok (.binop false (parenUnless Gen.PyEmit.addSub l l') (parenUnless Gen.PyEmit.addSub r r'))
    | .joinedStr parts =>
      if hasFv parts then (transpileParts cfg vs parts).bind fun ps => .ok (.fstring ps)
      else .ok (.str (litsOf parts))
    | .any g c =>
      (transpileGen cfg vs g).bind fun (x, it) =>
      (transpile cfg (x :: vs) c).bind fun c' => .ok (.quant true c' x it)
    | .all g c =>
      (transpileGen cfg vs g).bind fun (x, it) =>
      (transpile cfg (x :: vs) c).bind fun c' => .ok (.quant false c' x it)
  def transpileGen (cfg : Cfg) (vs : List Text) : Gen → Res (Text × PyIter)
    | .forEach x it =>
      (transpile cfg vs it).bind fun it' => .ok (x, .each (parenUnless Gen.PyEmit.forEach it it'))
    | .forRange x a b =>
      (transpile cfg vs a).bind fun a' =>
      (transpile cfg vs b).bind fun b' => .ok (x, .range a' b')
  def transpileArgs (cfg : Cfg) (vs : List Text) : List Expr → Res (List PyExpr)
    | [] => .ok []
    | e :: es =>
      (transpile cfg vs e).bind fun e' =>
      (transpileArgs cfg vs es).bind fun es' => .ok (e' :: es')
  /-- the operands of `and` / `or`, each parenthesised unless its class is in the tuple -/
  def transpileVals (cfg : Cfg) (vs : List Text) : List Expr → Res (List PyExpr)
    | [] => .ok []
    | e :: es =>
      (transpile cfg vs e).bind fun e' =>
      (transpileVals cfg vs es).bind fun es' => .ok (parenUnless Gen.PyEmit.andOr e e' :: es')
  def transpileParts (cfg : Cfg) (vs : List Text) : List JPart → Res (List PyPart)
    | [] => .ok []
    | .lit s :: ps => (transpileParts cfg vs ps).bind fun ps' => .ok (.lit s :: ps')
    | .fv e :: ps =>
      (transpile cfg vs e).bind fun e' =>
        if multiline e' then .crash
        else (transpileParts cfg vs ps).bind fun ps' => .ok (.fv e' :: ps')
end

/-- `_transpile_invariant`: the condition of `if not …: yield Error(…)`. -/
def transpileInvariant (cfg : Cfg) (body : Expr) : Res PyExpr :=
  (transpile cfg [] body).bind fun x => .ok (.not (parenUnless Gen.PyEmit.invariantTop body x))

/-! ## Parentheses -/

mutual
  /-- the AST proper: `paren` nodes removed -/
  def strip : PyExpr → PyExpr
    | .neg e => .neg (strip e)
    | .attr e k n => .attr (strip e) k n
    | .subscript e i => .subscript (strip e) (strip i)
    | .callMethod e m args => .callMethod (strip e) m (stripList args)
    | .callFun f args => .callFun f (stripList args)
    | .compare l op r => .compare (strip l) op (strip r)
    | .not e => .not (strip e)
    | .boolop a vals => .boolop a (stripList vals)
    | .binop a l r => .binop a (strip l) (strip r)
    | .fstring ps => .fstring (stripParts ps)
    | .quant a elt x it => .quant a (strip elt) x (stripIter it)
    | .paren e => strip e
    | e => e
  def stripList : List PyExpr → List PyExpr
    | [] => []
    | e :: es => strip e :: stripList es
  def stripParts : List PyPart → List PyPart
    | [] => []
    | .lit s :: ps => .lit s :: stripParts ps
    | .fv e :: ps => .fv (strip e) :: stripParts ps
  def stripIter : PyIter → PyIter
    | .each e => .each (strip e)
    | .range a b => .range (strip a) (strip b)
end

/-- Binding strength of the top construct (Python's precedence table, loosest first):
`or` 1, `and` 2, `not` 3, comparisons/`in`/`is` 4, `+ -` 5, unary `-` 6, primaries and atoms 7. -/
def PyExpr.level : PyExpr → Nat
  | .boolop false _ => 1
  | .boolop true _ => 2
  | .not _ => 3
  | .compare _ _ _ => 4
  | .binop _ _ _ => 5
  | .neg _ => 6
  | _ => 7

/-- a number literal directly before `.name` would be read as a float / is no valid receiver -/
def PyExpr.isNumber : PyExpr → Bool
  | .int _ | .float _ => true
  | _ => false

mutual
  /-- Every operand is at least as tightly binding as its position requires (or is
  parenthesised), and an `and` / `or` has at least two operands: the printed text parses back
  to the same tree (`Lemmas/PyParse.lean`: `parse (print x) = strip x`). -/
  def parenOK : PyExpr → Bool
    | .neg e => 6 ≤ e.level && parenOK e
    | .attr e _ _ => 7 ≤ e.level && !e.isNumber && parenOK e
    | .subscript e i => 7 ≤ e.level && parenOK e && parenOK i
    | .callMethod e _ args => 7 ≤ e.level && !e.isNumber && parenOK e && parenOKList 1 args
    | .callFun _ args => parenOKList 1 args
    | .compare l _ r => 5 ≤ l.level && 5 ≤ r.level && parenOK l && parenOK r
    | .not e => 3 ≤ e.level && parenOK e
    | .boolop true vals => 2 ≤ vals.length && parenOKList 3 vals
    | .boolop false vals => 2 ≤ vals.length && parenOKList 2 vals
    | .binop _ l r => 5 ≤ l.level && 6 ≤ r.level && parenOK l && parenOK r
    | .fstring ps => parenOKParts ps
    | .quant _ elt _ it => parenOK elt && parenOKIter it
    | .paren e => parenOK e
    | _ => true
  def parenOKList (need : Nat) : List PyExpr → Bool
    | [] => true
    | e :: es => need ≤ e.level && parenOK e && parenOKList need es
  def parenOKParts : List PyPart → Bool
    | [] => true
    | .lit _ :: ps => parenOKParts ps
    | .fv e :: ps => parenOK e && parenOKParts ps
  def parenOKIter : PyIter → Bool
    | .each e => parenOK e
    | .range a b => parenOK a && parenOK b
end

end AasVerif.PyEmit
