import AasVerif.Model.JsonSchemaClosed
/-!
Input-side bookkeeping for the whole-document theorems of C11/C12 (`Lemmas/JsonSchemaChain`,
`Props.C11.valid_data_accepted`, `Props.C12.document_enforced`): the inheritance hierarchy as the
generator's input records it, and the decidable hypothesis `hierOK` (evaluated by the driver on every
correspondence input, command `hier`).

The input of the generator names a parent only by its model type (`Inh.mt`); `findCls` resolves the
name in `our_types`.  `hierOK` states what the intermediate representation guarantees and what the wire
form of the inferred constraints records:

* every `inheritances` entry names a class of the meta-model that has concrete descendants (so its
  inheritable definition is generated), with the recorded kind (`concrete`) and `with_model_type`
  flag; `with_model_type` is inherited by the child;
* for an inherited property whose top node carries constraints (only then the generator looks at the
  parents), `parents` has one entry per direct parent, and an entry `some pc`
  (= `constraints_by_class[parent].get(type_anno)`) is what the parent's own record of that property
  (same JSON name, same shape) carries on its top node;
* JSON property names of a class are pairwise different and none is `modelType`;
* the hierarchy is well-founded (every chain of parents ends within `our_types.length` steps);
* no type contributes a definition named `ModelType`.

`choicesOK` (hypothesis of the dispatch theorem only): the alternatives of every `_choice` are pairwise
different concrete classes with `with_model_type` (false for a hierarchy without model types).
-/
namespace AasVerif.JsonSchema
open AasVerif

/-- the first class of `our_types` with the given model type -/
def findCls : List OurType → Text → Option Cls
  | [], _ => none
  | .cls c :: r, mt => if c.mt = mt then some c else findCls r mt
  | _ :: r, mt => findCls r mt

/-- name of the inheritable definition of a class (`_generate_inheritable_definition`) -/
def inhKey (c : Cls) : Text := if c.abstract then c.mt else sfx c.mt "_abstract"

def nodupB : List Text → Bool
  | [] => true
  | x :: r => !r.contains x && nodupB r

/-- JSON property names pairwise different, none is `modelType` -/
def namesOK (c : Cls) : Bool :=
  nodupB (c.props.map (·.name)) && c.props.all (fun p => decide (p.name ≠ modelTypeKey))

/-- the entry of `parents` for the parent class `a` is what `a` records for the property -/
def parentEntryOK (p : Prp) (a : Cls) : Option Cons → Bool
  | none => true
  | some pc => a.props.any fun q =>
      decide (q.name = p.name ∧ q.ty.shape = p.ty.shape ∧ q.ty.cons = some pc)

/-- an `inheritances` entry of `c` against `our_types` -/
def inhLinkOK (types : List OurType) (c : Cls) (i : Inh) : Bool :=
  match findCls types i.mt with
  | none => false
  | some a =>
    decide (i.concrete = !a.abstract) && decide (i.withModelType = a.withModelType) &&
    !a.cdesc.isEmpty && (!a.withModelType || c.withModelType)

/-- the `parents` entries of an inherited property against the parent classes -/
def propLinksOK (types : List OurType) (c : Cls) (p : Prp) : Bool :=
  p.own || p.ty.cons.isNone || (decide (p.parents.length = c.inh.length) &&
    (c.inh.zip p.parents).all fun (i, opc) =>
      match findCls types i.mt with
      | none => false
      | some a => parentEntryOK p a opc)

/-- the alternatives of `_choice`: the class itself unless abstract, then the concrete descendants -/
def choiceAlts (c : Cls) : List Text := (if c.abstract then [] else [c.mt]) ++ c.cdesc

/-- the alternatives are pairwise different names of concrete classes carrying the model type -/
def choiceOK (types : List OurType) (c : Cls) : Bool :=
  nodupB (choiceAlts c) && c.cdesc.all fun y =>
    match findCls types y with
    | none => false
    | some d => !d.abstract && d.withModelType

def localOK (types : List OurType) (c : Cls) : Bool :=
  namesOK c && c.inh.all (inhLinkOK types c) && c.props.all (propLinksOK types c)

/-- every chain of parents starting at `c` is consistent and ends within `n` steps -/
def grounded (types : List OurType) : Nat → Cls → Bool
  | 0, _ => false
  | n + 1, c => localOK types c && c.inh.all fun i =>
      match findCls types i.mt with
      | none => false
      | some a => grounded types n a

/-- all ancestors of `c` (with repetitions in a diamond), at most `n` levels up -/
def ancestors (types : List OurType) : Nat → Cls → List Cls
  | 0, _ => []
  | n + 1, c => c.inh.flatMap fun i =>
      match findCls types i.mt with
      | none => []
      | some a => a :: ancestors types n a

def ancestorsOf (mm : MM) (c : Cls) : List Cls := ancestors mm.types mm.types.length c

/-- the hypothesis of the whole-document theorems (decidable; the driver evaluates it on every input):
every class for which definitions are generated — concrete, or with concrete descendants — is grounded
(an abstract class without concrete descendants contributes nothing and is never referenced as a
parent by a grounded class) -/
def hierOK (mm : MM) : Bool :=
  (mm.types.all fun
    | .cls c => (c.abstract && c.cdesc.isEmpty) || grounded mm.types mm.types.length c
    | _ => true) &&
  !(mm.types.flatMap (typeKeys (classesInProperties mm))).contains modelTypeName

/-- the hypothesis of the dispatch theorem, for every class with concrete descendants -/
def choicesOK (mm : MM) : Bool :=
  mm.types.all fun
    | .cls c => c.cdesc.isEmpty || choiceOK mm.types c
    | _ => true

end AasVerif.JsonSchema
