import AasVerif.Model.PyEmit
/-!
Evaluation **order**: the sequence of operations that can raise, in the order Python performs
them, for the source expression (`Expr.trace`) and for the emitted expression (`PyExpr.trace`).

`Expr.eval` / `PyExpr.eval` give the outcome (value or exception class).  Two expressions with
the same outcome may still differ in *which* operation raises first when several would raise
the same class, or in whether a call that the source short-circuits away is performed.  The
trace makes that observable: an event (`Ev`) per name lookup, attribute access, subscription,
comparison, membership test, `+`/`-`, call, start of an iteration, `range(…)` and
formatting of an f-string field — each with its operand **values** and the exception it raised,
if any (`Ev.raised`, computed by the value-level operation of `Expr/Eval.lean`) — in evaluation order:
operands left to right, the callee before the arguments, `and` / `or` / implication stop at
the deciding operand, `any` / `all` evaluate the iterable once in the enclosing scope and
stop at the deciding element, everything stops at the first exception.  Truth tests, `not`,
`is None` and the unary minus in front of a number literal cannot raise and are no events.

Both functions are defined from the evaluators (which decide where evaluation stops), so
they need no semantics of their own.
-/
namespace AasVerif.Expr

/-- An operation of the evaluation that can raise, with its operands. -/
inductive Op where
  /-- a name lookup and what it gives in the scope of that moment (loop variables!) -/
  | load (x : Text) (o : Out)
  /-- the callee of a function call -/
  | loadFn (f : Text)
  | getattr (v : Val) (n : Text)
  /-- the lookup of a method of the receiver -/
  | getmeth (v : Val) (n : Text)
  | index (c i : Val)
  | cmp (op : Cmp) (l r : Val)
  | isIn (m c : Val)
  | arith (add : Bool) (l r : Val)
  | call (f : Text) (args : List Val)
  | callMethod (recv : Val) (m : Text) (args : List Val)
  | iter (v : Val)
  | range (a b : Val)
  | fmt (v : Val)

/-- An operation performed and the exception it raised (`none`: it succeeded). -/
structure Ev where
  op : Op
  raised : Option Out

/-- the exception of an outcome -/
def errOf : Out → Option Out
  | .val _ => none
  | e => some e

/-- what the name denotes here (`NameError` otherwise) -/
def loadOut (ρ : Env) (x : Text) : Out :=
  match lookup x ρ.vars with
  | some v => .val v
  | none => .otherError

/-- `v.n` for a property / enumeration literal -/
def memberOut (v : Val) (n : Text) : Out :=
  match v with
  | .none => .noneDeref
  | .inst _ _ fields =>
    match lookup n fields with
    | some x => .val x
    | none => .otherError
  | .enumCls en lits => if lits.contains n then .val (.enumLit en n) else .otherError
  | _ => .otherError

/-- calling the name `f` with evaluated arguments -/
def callOut (ρ : Env) (f : Text) (vs : List Val) : Out :=
  match lookup f ρ.vars with
  | some _ => .typeError
  | none =>
    match ρ.funs f with
    | some fn => fn vs
    | none =>
      if f = [108, 101, 110] then
        match vs with
        | [v] => lenVal v
        | _ => .typeError
      else .otherError

def evLoad (ρ : Env) (x : Text) : Ev := ⟨.load x (loadOut ρ x), errOf (loadOut ρ x)⟩
def evGetattr (v : Val) (n : Text) : Ev := ⟨.getattr v n, errOf (memberOut v n)⟩
def evIndex (c i : Val) : Ev := ⟨.index c i, errOf (indexVals c i)⟩
def evCmp (fo : FloatOps) (op : Cmp) (l r : Val) : Ev := ⟨.cmp op l r, errOf (cmpVals fo op l r)⟩
def evIsIn (fo : FloatOps) (m c : Val) : Ev := ⟨.isIn m c, errOf (isInVals fo m c)⟩
def evArith (fo : FloatOps) (add : Bool) (l r : Val) : Ev := ⟨.arith add l r, errOf (arithVals fo add l r)⟩
def evCall (ρ : Env) (f : Text) (vs : List Val) : Ev := ⟨.call f vs, errOf (callOut ρ f vs)⟩
def evCallMethod (ρ : Env) (recv : Val) (m : Text) (vs : List Val) : Ev :=
  ⟨.callMethod recv m vs, errOf (match ρ.meths recv m with
    | some fn => fn vs
    | none => .otherError)⟩
def evIter (v : Val) : Ev := ⟨.iter v, if (iterItems v).isSome then none else some .typeError⟩
def evRange (a b : Val) : Ev :=
  ⟨.range a b, match rangeArg a, rangeArg b with
    | some _, some _ => none
    | _, _ => some .typeError⟩
def evFmt (ρ : Env) (v : Val) : Ev :=
  ⟨.fmt v, match fmtVal ρ v with
    | .val (.str _) => none
    | .val _ => some .otherError
    | e => some e⟩

/-- continue with the value, stop at an exception -/
def onVal (o : Out) (k : Val → List Ev) : List Ev :=
  match o with
  | .val v => k v
  | _ => []

@[simp] theorem onVal_val (v : Val) (k : Val → List Ev) : onVal (.val v) k = k v := rfl

/-- the loop of `any` / `all` over items (`tr`: the events of the condition for an item, `ev`: its outcome) -/
def traceLoop (fo : FloatOps) (isAny : Bool) (tr : Val → List Ev) (ev : Val → Out) : List Val → List Ev
  | [] => []
  | x :: xs => tr x ++ onVal (ev x) fun v => if v.truthy fo == isAny then [] else traceLoop fo isAny tr ev xs

def traceRange (fo : FloatOps) (isAny : Bool) (tr : Val → List Ev) (ev : Val → Out) (start : Int) : Nat → List Ev
  | 0 => []
  | n + 1 =>
    tr (.int start) ++ onVal (ev (.int start)) fun v =>
      if v.truthy fo == isAny then [] else traceRange fo isAny tr ev (start + 1) n

/-- the callee name denotes something (a variable, a function, the built-in `len`): the
arguments get evaluated -/
def calleeResolves (ρ : Env) (n : Text) : Bool :=
  (lookup n ρ.vars).isSome || (ρ.funs n).isSome || decide (n = [108, 101, 110])

/-- the arguments, then the call itself when all of them have a value -/
def callEvents (targs : List Ev) (args : Args) (mk : List Val → Ev) : List Ev :=
  targs ++ (match args with
    | .ok vs => [mk vs]
    | .err _ => [])

/-- after the receiver has a value: the attribute lookup of the method, the arguments, the call -/
def methodEvents (ρ : Env) (recv : Val) (n : Text) (targs : List Ev) (args : Args) : List Ev :=
  match recv with
  | .none => [⟨.getmeth recv n, some .noneDeref⟩]
  | _ =>
    if (ρ.meths recv n).isSome then ⟨.getmeth recv n, none⟩ :: callEvents targs args (evCallMethod ρ recv n)
    else [⟨.getmeth recv n, some .otherError⟩]

def funEvents (ρ : Env) (n : Text) (targs : List Ev) (args : Args) : List Ev :=
  if calleeResolves ρ n then ⟨.loadFn n, none⟩ :: callEvents targs args (evCall ρ n)
  else [⟨.loadFn n, some .otherError⟩]

mutual
  /-- the operations Python performs to evaluate the source expression, in order -/
  def trace (ρ : Env) : Expr → List Ev
    | .name x => [evLoad ρ x]
    | .const _ => []
    | .member e n => trace ρ e ++ onVal (eval ρ e) fun v => [evGetattr v n]
    | .index c i =>
      trace ρ c ++ onVal (eval ρ c) fun cv => trace ρ i ++ onVal (eval ρ i) fun iv => [evIndex cv iv]
    | .cmp l op r =>
      trace ρ l ++ onVal (eval ρ l) fun lv => trace ρ r ++ onVal (eval ρ r) fun rv => [evCmp ρ.fops op lv rv]
    | .isIn m c =>
      trace ρ m ++ onVal (eval ρ m) fun mv => trace ρ c ++ onVal (eval ρ c) fun cv => [evIsIn ρ.fops mv cv]
    | .impl a c => trace ρ a ++ onVal (eval ρ a) fun av => if av.truthy ρ.fops then trace ρ c else []
    | .methodCall inst n args =>
      trace ρ inst ++ onVal (eval ρ inst) fun recv => methodEvents ρ recv n (traceArgs ρ args) (evalArgs ρ args)
    | .funCall n args => funEvents ρ n (traceArgs ρ args) (evalArgs ρ args)
    | .isNone e => trace ρ e
    | .isNotNone e => trace ρ e
    | .not e => trace ρ e
    | .and es => traceAnd ρ es
    | .or es => traceOr ρ es
    | .add l r =>
      trace ρ l ++ onVal (eval ρ l) fun lv => trace ρ r ++ onVal (eval ρ r) fun rv => [evArith ρ.fops true lv rv]
    | .sub l r =>
      trace ρ l ++ onVal (eval ρ l) fun lv => trace ρ r ++ onVal (eval ρ r) fun rv => [evArith ρ.fops false lv rv]
    | .joinedStr ps => traceParts ρ ps
    | .any g c =>
      traceGen ρ g ++
        (match evalGen ρ g with
         | .items x items =>
           traceLoop ρ.fops true (fun item => trace (ρ.bind x item) c) (fun item => eval (ρ.bind x item) c) items
         | .range x s n =>
           traceRange ρ.fops true (fun i => trace (ρ.bind x i) c) (fun i => eval (ρ.bind x i) c) s n
         | .err _ => [])
    | .all g c =>
      traceGen ρ g ++
        (match evalGen ρ g with
         | .items x items =>
           traceLoop ρ.fops false (fun item => trace (ρ.bind x item) c) (fun item => eval (ρ.bind x item) c) items
         | .range x s n =>
           traceRange ρ.fops false (fun i => trace (ρ.bind x i) c) (fun i => eval (ρ.bind x i) c) s n
         | .err _ => [])
  /-- the iterable (or the two arguments of `range`), evaluated in the enclosing scope, then
  the start of the iteration -/
  def traceGen (ρ : Env) : Gen → List Ev
    | .forEach _ it => trace ρ it ++ onVal (eval ρ it) fun iv => [evIter iv]
    | .forRange _ a b =>
      trace ρ a ++ onVal (eval ρ a) fun av => trace ρ b ++ onVal (eval ρ b) fun bv => [evRange av bv]
  def traceAnd (ρ : Env) : List Expr → List Ev
    | [] => []
    | [e] => trace ρ e
    | e :: es => trace ρ e ++ onVal (eval ρ e) fun v => if v.truthy ρ.fops then traceAnd ρ es else []
  def traceOr (ρ : Env) : List Expr → List Ev
    | [] => []
    | [e] => trace ρ e
    | e :: es => trace ρ e ++ onVal (eval ρ e) fun v => if v.truthy ρ.fops then [] else traceOr ρ es
  def traceArgs (ρ : Env) : List Expr → List Ev
    | [] => []
    | e :: es => trace ρ e ++ onVal (eval ρ e) fun _ => traceArgs ρ es
  def traceParts (ρ : Env) : List JPart → List Ev
    | [] => []
    | .lit _ :: ps => traceParts ρ ps
    | .fv e :: ps =>
      trace ρ e ++ onVal (eval ρ e) fun v =>
        evFmt ρ v :: (match fmtVal ρ v with
          | .val (.str _) => traceParts ρ ps
          | _ => [])
end

end AasVerif.Expr

namespace AasVerif.PyEmit
open AasVerif AasVerif.Expr

/-- the event of a comparison operator (`is` / `is not` cannot raise) -/
def cmpEvent (fo : FloatOps) (op : PyCmp) (l r : Val) : List Ev :=
  match op with
  | .cmp c => [evCmp fo c l r]
  | .in_ => [evIsIn fo l r]
  | .is_ => []
  | .isNot => []

mutual
  /-- the operations Python performs to evaluate the emitted expression, in order -/
  def PyExpr.trace (ρ : Env) : PyExpr → List Ev
    | .that => [evLoad ρ selfName]
    | .var x => [evLoad ρ x]
    | .constRef x => [evLoad ρ x]
    | .enumRef x => [evLoad ρ x]
    | .funRef x => [evLoad ρ x]
    | .noneC => []
    | .tru => []
    | .fls => []
    | .int _ => []
    | .float _ => []
    | .str _ => []
    | .neg e => PyExpr.trace ρ e
    | .attr e _ n => PyExpr.trace ρ e ++ onVal (PyExpr.eval ρ e) fun v => [evGetattr v n]
    | .subscript c i =>
      PyExpr.trace ρ c ++ onVal (PyExpr.eval ρ c) fun cv =>
        PyExpr.trace ρ i ++ onVal (PyExpr.eval ρ i) fun iv => [evIndex cv iv]
    | .callMethod inst n args =>
      PyExpr.trace ρ inst ++ onVal (PyExpr.eval ρ inst) fun recv =>
        methodEvents ρ recv n (traceArgs ρ args) (evalArgs ρ args)
    | .callFun n args => funEvents ρ n (traceArgs ρ args) (evalArgs ρ args)
    | .compare l op r =>
      PyExpr.trace ρ l ++ onVal (PyExpr.eval ρ l) fun lv =>
        PyExpr.trace ρ r ++ onVal (PyExpr.eval ρ r) fun rv => cmpEvent ρ.fops op lv rv
    | .not e => PyExpr.trace ρ e
    | .boolop isAnd vals => traceBool ρ isAnd vals
    | .binop isAdd l r =>
      PyExpr.trace ρ l ++ onVal (PyExpr.eval ρ l) fun lv =>
        PyExpr.trace ρ r ++ onVal (PyExpr.eval ρ r) fun rv => [evArith ρ.fops isAdd lv rv]
    | .fstring parts => traceParts ρ parts
    | .quant isAny elt x iter =>
      traceIter ρ iter ++
        (match evalIter ρ iter with
         | .items items =>
           traceLoop ρ.fops isAny (fun item => PyExpr.trace (ρ.bind x item) elt)
             (fun item => PyExpr.eval (ρ.bind x item) elt) items
         | .range s n =>
           traceRange ρ.fops isAny (fun i => PyExpr.trace (ρ.bind x i) elt)
             (fun i => PyExpr.eval (ρ.bind x i) elt) s n
         | .err _ => [])
    | .paren e => PyExpr.trace ρ e
  def traceIter (ρ : Env) : PyIter → List Ev
    | .each e => PyExpr.trace ρ e ++ onVal (PyExpr.eval ρ e) fun iv => [evIter iv]
    | .range a b =>
      PyExpr.trace ρ a ++ onVal (PyExpr.eval ρ a) fun av =>
        PyExpr.trace ρ b ++ onVal (PyExpr.eval ρ b) fun bv => [evRange av bv]
  def traceBool (ρ : Env) (isAnd : Bool) : List PyExpr → List Ev
    | [] => []
    | [e] => PyExpr.trace ρ e
    | e :: es =>
      PyExpr.trace ρ e ++ onVal (PyExpr.eval ρ e) fun v =>
        if v.truthy ρ.fops == isAnd then traceBool ρ isAnd es else []
  def traceArgs (ρ : Env) : List PyExpr → List Ev
    | [] => []
    | e :: es => PyExpr.trace ρ e ++ onVal (PyExpr.eval ρ e) fun _ => traceArgs ρ es
  def traceParts (ρ : Env) : List PyPart → List Ev
    | [] => []
    | .lit _ :: ps => traceParts ρ ps
    | .fv e :: ps =>
      PyExpr.trace ρ e ++ onVal (PyExpr.eval ρ e) fun v =>
        evFmt ρ v :: (match fmtVal ρ v with
          | .val (.str _) => traceParts ρ ps
          | _ => [])
end

end AasVerif.PyEmit
