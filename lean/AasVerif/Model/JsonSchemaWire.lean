import AasVerif.Model.JsonSchemaGen
/-!
Wire format (space separated prefix tokens; the Python twin is in `harness/props/c11.py`).

    mm     := M <n> type*n
    type   := E <mt> <n> text*n | P | C <mt> <abstract> <withModelType> <n> inh*n <n> prop*n <n> mt*n
    inh    := <mt> <concrete> <withModelType>
    prop   := <name> <optional> <own> ta <n> ocons*n
    ta     := p <prim> ocons | e <mt> | c <mt> <choice> | l ta ocons
    prim   := bool | int | float | str | bytes
    ocons  := n | s olen opats
    olen   := n | L oint oint
    oint   := n | i<int>
    opats  := n | P <n> text*n
    json   := N | T | F | I<int> | D<0/1> | S<text> | A <n> json*n | O <n> (text json)*n

Texts are `Text.enc` (dot separated hex code points, `-` for empty); booleans `0`/`1`.
`encJson` prints objects with their keys sorted (canonical form compared with `schema.json`).
-/
namespace AasVerif.JsonSchema.Wire
open AasVerif AasVerif.JsonSchema

abbrev P (α : Type) := List String → Option (α × List String)

def pBool : P Bool
  | "0" :: r => some (false, r)
  | "1" :: r => some (true, r)
  | _ => none

def pNat : P Nat
  | s :: r => s.toNat?.map (·, r)
  | _ => none

def pText : P Text
  | s :: r => (Text.dec s).map (·, r)
  | _ => none

def pInt (s : String) : Option Int :=
  if s.startsWith "-" then (s.drop 1).toString.toNat?.map (fun n => - (n : Int))
  else s.toNat?.map (fun n => (n : Int))

def pMany {α : Type} (p : P α) : Nat → P (List α)
  | 0, ts => some ([], ts)
  | n + 1, ts => do
    let (x, ts) ← p ts
    let (xs, ts) ← pMany p n ts
    some (x :: xs, ts)

def pCounted {α : Type} (p : P α) : P (List α) := fun ts => do
  let (n, ts) ← pNat ts
  pMany p n ts

def pOInt : P (Option Int)
  | "n" :: r => some (none, r)
  | s :: r => if s.startsWith "i" then (pInt (s.drop 1).toString).map (fun i => (some i, r)) else none
  | _ => none

def pOLen : P (Option LenC)
  | "n" :: r => some (none, r)
  | "L" :: r => do
    let (a, r) ← pOInt r
    let (b, r) ← pOInt r
    some (some ⟨a, b⟩, r)
  | _ => none

def pOPats : P (Option (List Text))
  | "n" :: r => some (none, r)
  | "P" :: r => do
    let (ps, r) ← pCounted pText r
    some (some ps, r)
  | _ => none

def pOCons : P (Option Cons)
  | "n" :: r => some (none, r)
  | "s" :: r => do
    let (l, r) ← pOLen r
    let (ps, r) ← pOPats r
    some (some ⟨l, ps⟩, r)
  | _ => none

def pPrim : P Prim
  | "bool" :: r => some (.bool, r)
  | "int" :: r => some (.int, r)
  | "float" :: r => some (.float, r)
  | "str" :: r => some (.str, r)
  | "bytes" :: r => some (.bytes, r)
  | _ => none

/-- fuel: the number of tokens bounds the nesting -/
def pTA : Nat → P TA
  | 0, _ => none
  | n + 1, ts =>
    match ts with
    | "p" :: r => do
      let (p, r) ← pPrim r
      let (cs, r) ← pOCons r
      some (.prim p cs, r)
    | "e" :: r => do
      let (mt, r) ← pText r
      some (.enum mt, r)
    | "c" :: r => do
      let (mt, r) ← pText r
      let (ch, r) ← pBool r
      some (.cls mt ch, r)
    | "l" :: r => do
      let (items, r) ← pTA n r
      let (cs, r) ← pOCons r
      some (.list items cs, r)
    | _ => none

def pProp : P Prp := fun ts => do
  let (name, ts) ← pText ts
  let (optional, ts) ← pBool ts
  let (own, ts) ← pBool ts
  let (ty, ts) ← pTA ts.length ts
  let (parents, ts) ← pCounted pOCons ts
  some (⟨name, optional, own, ty, parents⟩, ts)

def pInh : P Inh := fun ts => do
  let (mt, ts) ← pText ts
  let (c, ts) ← pBool ts
  let (w, ts) ← pBool ts
  some (⟨mt, c, w⟩, ts)

def pType : P OurType
  | "P" :: r => some (.cprim, r)
  | "E" :: r => do
    let (mt, r) ← pText r
    let (vs, r) ← pCounted pText r
    some (.enum mt vs, r)
  | "C" :: r => do
    let (mt, r) ← pText r
    let (abstract, r) ← pBool r
    let (wmt, r) ← pBool r
    let (inh, r) ← pCounted pInh r
    let (props, r) ← pCounted pProp r
    let (cdesc, r) ← pCounted pText r
    some (.cls ⟨mt, abstract, wmt, inh, props, cdesc⟩, r)
  | _ => none

def pMM : P MM
  | "M" :: r => do
    let (ts, r) ← pCounted pType r
    some (⟨ts⟩, r)
  | _ => none

def pJson : Nat → P Json
  | 0, _ => none
  | n + 1, ts =>
    match ts with
    | "N" :: r => some (.null, r)
    | "T" :: r => some (.bool true, r)
    | "F" :: r => some (.bool false, r)
    | "D0" :: r => some (.num false, r)
    | "D1" :: r => some (.num true, r)
    | "A" :: r => do
      let (k, r) ← pNat r
      let (xs, r) ← pMany (pJson n) k r
      some (.arr xs, r)
    | "O" :: r => do
      let (k, r) ← pNat r
      let (kvs, r) ← pMany (fun ts => do
        let (key, ts) ← pText ts
        let (v, ts) ← pJson n ts
        some ((key, v), ts)) k r
      some (.obj kvs, r)
    | s :: r =>
      if s.startsWith "I" then (pInt (s.drop 1).toString).map (fun i => (.int i, r))
      else if s.startsWith "S" then (Text.dec (s.drop 1).toString).map (fun t => (.str t, r))
      else none
    | [] => none

def encInt (i : Int) : String := if i < 0 then "-" ++ toString i.natAbs else toString i.natAbs

mutual
  def encJson : Json → List String
    | .null => ["N"]
    | .bool true => ["T"]
    | .bool false => ["F"]
    | .int i => ["I" ++ encInt i]
    | .num integral => [if integral then "D1" else "D0"]
    | .str s => ["S" ++ Text.enc s]
    | .arr xs => "A" :: toString xs.length :: encJsons xs
    | .obj kvs => "O" :: toString kvs.length :: encKvs kvs
  def encJsons : List Json → List String
    | [] => []
    | x :: xs => encJson x ++ encJsons xs
  def encKvs : List (Text × Json) → List String
    | [] => []
    | (k, v) :: r => Text.enc k :: (encJson v ++ encKvs r)
end

mutual
  /-- sort the keys of every object (canonical form) -/
  def canon : Json → Json
    | .arr xs => .arr (canonList xs)
    | .obj kvs => .obj (sortBy (fun a b => ltText a.1 b.1) (canonKvs kvs))
    | j => j
  def canonList : List Json → List Json
    | [] => []
    | x :: xs => canon x :: canonList xs
  def canonKvs : List (Text × Json) → List (Text × Json)
    | [] => []
    | (k, v) :: r => (k, canon v) :: canonKvs r
end

def showJson (j : Json) : String := " ".intercalate (encJson (canon j))

end AasVerif.JsonSchema.Wire
