import AasVerif.Model.JsonSchemaData
import AasVerif.Model.JsonSchemaMatch
import AasVerif.Model.Fix16
/-!
# JSON Schema — the subset `aas_core_codegen/jsonschema/main.py` emits — and its validation semantics

A schema is the ordered list of its keywords (the generator's `OrderedDict`).  Keywords:
`type`, `properties`, `required`, `items`, `allOf`, `oneOf`, `$ref` (always of the form
`#/definitions/<name>`), `const` and `enum` (strings only), `minLength`/`maxLength`,
`minItems`/`maxItems`, `pattern`, `contentEncoding` (annotation only, as in draft 2019-09).

`pattern` holds the regex *tree*; its JSON text is `Retree.render` of the tree (see
`JsonSchemaGen.Schema.toJson`).  Semantics of `pattern`: the schema's convention is "regex engine
working on UTF-16 code units", i.e. the string is encoded with `Fix16.utf16` and the tree is searched
(un-anchored) by `searchB` on the units.

`validates defs fuel s j : Option Bool` — `none` is "fuel exhausted".  Every nested schema costs one
unit of fuel, so the definition is structural on the fuel alone; the keyword semantics `validKw` is
a plain case analysis that receives the recursive call as a parameter.  `some true` means *every*
keyword holds, `some false` that *some* keyword definitely fails (`Lemmas/JsonSchemaValid`); both
verdicts are stable under more fuel (`validates_mono`).  References are resolved in `defs`; a dangling reference validates nothing
(`some false`; the `jsonschema` library raises an error there — C11a proves it does not happen).

Modelled, not verified: these semantics are my reading of the JSON Schema 2019-09 specification for
the subset; the C11/C12 correspondence compares every verdict with the independent `jsonschema`
library.
-/
namespace AasVerif.JsonSchema
open AasVerif AasVerif.Retree

inductive JType where
  | object | array | string | integer | number | boolean
  deriving DecidableEq, Repr, Inhabited

mutual
  inductive Schema where
    | mk (kws : List Kw)
  inductive Kw where
    | type (t : JType)
    | properties (ps : List (Text × Schema))
    | required (rs : List Text)
    | items (s : Schema)
    | allOf (ss : List Schema)
    | oneOf (ss : List Schema)
    | ref (name : Text)
    | const (c : Text)
    | enum (vs : List Text)
    | minLength (n : Int)
    | maxLength (n : Int)
    | minItems (n : Int)
    | maxItems (n : Int)
    | pattern (r : Regex)
    | contentEncoding (e : Text)
end

instance : Inhabited Schema := ⟨.mk []⟩

def Schema.kws : Schema → List Kw | .mk ks => ks

abbrev Defs := List (Text × Schema)

/-- JSON Schema `type` -/
def hasType : JType → Json → Bool
  | .object, .obj _ => true
  | .array, .arr _ => true
  | .string, .str _ => true
  | .integer, .int _ => true
  | .integer, .num integral => integral
  | .number, .int _ => true
  | .number, .num _ => true
  | .boolean, .bool _ => true
  | _, _ => false

/-- conjunction of keyword verdicts: one definite rejection decides (`some false`), whatever the
others say; otherwise an exhausted branch (`none`) leaves the verdict open -/
def allO : List (Option Bool) → Option Bool
  | [] => some true
  | some false :: _ => some false
  | some true :: r => allO r
  | none :: r => match allO r with
    | some false => some false
    | _ => none

/-- number of `some true` answers, `none` if any is `none` -/
def countO : List (Option Bool) → Option Nat
  | [] => some 0
  | none :: _ => none
  | some b :: r => match countO r with
    | none => none
    | some k => some (if b then k + 1 else k)

def R.toO : R → Option Bool
  | .yes => some true
  | .no => some false
  | .out => none

/-- the length JSON Schema compares with `minLength`/`maxLength`: code points -/
def inLo (n : Int) (len : Nat) : Bool := decide (n ≤ (len : Int))
def inHi (n : Int) (len : Nat) : Bool := decide ((len : Int) ≤ n)

/-- one keyword; `rec` validates a nested schema -/
def validKw (defs : Defs) (rec : Schema → Json → Option Bool) : Kw → Json → Option Bool
  | .type t, j => some (hasType t j)
  | .properties ps, .obj kvs =>
    allO (ps.map fun (k, s) => match lookup k kvs with
      | none => some true
      | some v => rec s v)
  | .properties _, _ => some true
  | .required rs, .obj kvs => some (rs.all fun k => hasKey k kvs)
  | .required _, _ => some true
  | .items s, .arr xs => allO (xs.map (rec s))
  | .items _, _ => some true
  | .allOf ss, j => allO (ss.map fun s => rec s j)
  | .oneOf ss, j => (countO (ss.map fun s => rec s j)).map (· == 1)
  | .ref name, j => match lookup name defs with
    | none => some false
    | some s => rec s j
  | .const c, .str s => some (decide (s = c))
  | .const _, _ => some false
  | .enum vs, .str s => some (vs.contains s)
  | .enum _, _ => some false
  | .minLength n, .str s => some (inLo n s.length)
  | .minLength _, _ => some true
  | .maxLength n, .str s => some (inHi n s.length)
  | .maxLength _, _ => some true
  | .minItems n, .arr xs => some (inLo n xs.length)
  | .minItems _, _ => some true
  | .maxItems n, .arr xs => some (inHi n xs.length)
  | .maxItems _, _ => some true
  | .pattern r, .str s => (searchB r (Fix16.utf16 s)).toO
  | .pattern _, _ => some true
  | .contentEncoding _, _ => some true

def validates (defs : Defs) : Nat → Schema → Json → Option Bool
  | 0, _, _ => none
  | n + 1, .mk kws, j => allO (kws.map fun k => validKw defs (validates defs n) k j)

/-- "the validator accepts" -/
def Valid (defs : Defs) (s : Schema) (j : Json) : Prop := ∃ n, validates defs n s j = some true

/-- "the validator rejects" -/
def Invalid (defs : Defs) (s : Schema) (j : Json) : Prop := ∃ n, validates defs n s j = some false

/-- fuel the driver supplies -/
def driverFuel : Nat := 100000

/-! ### `$ref` bookkeeping (C11a) -/

mutual
  def refsSchema : Schema → List Text
    | .mk ks => refsKws ks
  def refsKws : List Kw → List Text
    | [] => []
    | k :: ks => refsKw k ++ refsKws ks
  def refsKw : Kw → List Text
    | .properties ps => refsProps ps
    | .items s => refsSchema s
    | .allOf ss => refsSchemas ss
    | .oneOf ss => refsSchemas ss
    | .ref name => [name]
    | _ => []
  def refsSchemas : List Schema → List Text
    | [] => []
    | s :: ss => refsSchema s ++ refsSchemas ss
  def refsProps : List (Text × Schema) → List Text
    | [] => []
    | (_, s) :: ps => refsSchema s ++ refsProps ps
end

/-- every `$ref` anywhere in the definitions -/
def refsDefs : Defs → List Text
  | [] => []
  | (_, s) :: ds => refsSchema s ++ refsDefs ds

end AasVerif.JsonSchema
