import AasVerif.Model.Text
import AasVerif.Model.Retree.Parse
import AasVerif.Gen.Rules
/-!
# C06 — structural rules of a meta-model: abstract meta-model, executable checker, declarative spec

`MM` is a compact abstract meta-model (names are `Text`, types a small inductive).  It is the
projection of a meta-model source text onto what the structural rules of C06 talk about.

`check : MM → List RuleId` is an executable checker *structured like the battery of the real
front end*: the stages follow `parse._translate._classdef_to_our_type` / `_verify_duplicate_names`
(stage 1), `_verify_symbol_table` (stages 2–4), `intermediate._hierarchy.map_symbol_table_to_ontology`
(stages 5–6: depth-first search with temporary/permanent marks, dictionaries of observed members; the clash between two ancestors is tested on all pairs of ancestors, which reports the same verdict as the dictionary),
`intermediate._translate.translate` second passes (stage 7) and `_verify` (stage 8).  As in the
implementation, a stage that reports errors ends the run: `check` returns the errors of the first
failing stage.

`Spec : MM → Prop` states the documented rules declaratively.  `Props/C06.lean` proves
`check m = [] ↔ Spec m`.

Modelled, not verified (validated by correspondence on every run): how source constructs map
to `MM`; `str.lower()` is modelled on ASCII letters only (generated names are ASCII); the stacking
of inherited properties/invariants and the list of ancestors are the recursive definitions below
(`stacked`, `ancestors`; property C05 is about their faithfulness); constructor bodies are
canonical (every property is assigned from the argument of the same name), so the
"properly initialized" stage only depends on names and optionality.
-/
namespace AasVerif.Rules
open AasVerif

/-! ## Abstract meta-model -/

inductive Ty where
  | prim (n : Text)
  | ref (n : Text)
  | list (t : Ty)
  | opt (t : Ty)
  deriving DecidableEq, Repr, Inhabited

inductive Dflt where
  | absent | none | other
  deriving DecidableEq, Repr, Inhabited

structure PropDecl where
  name : Text
  ty : Ty
  deriving DecidableEq, Repr, Inhabited

structure Arg where
  name : Text
  ty : Ty
  dflt : Dflt
  deriving DecidableEq, Repr, Inhabited

structure Cls where
  name : Text
  parents : List Text
  props : List PropDecl
  /-- own methods without `__init__` -/
  methods : List Text
  /-- descriptions of the own invariants -/
  invs : List Text
  /-- `none`: the class body has no `__init__` -/
  ctor : Option (List Arg)
  deriving DecidableEq, Repr, Inhabited

structure EnumDecl where
  name : Text
  literals : List Text
  deriving DecidableEq, Repr, Inhabited

structure Fn where
  name : Text
  /-- `some p`: a pattern verification function whose inferred pattern is `p` -/
  pattern : Option Text
  deriving DecidableEq, Repr, Inhabited

inductive DocRef where
  | cls (n : Text)
  | attr (n : Text)
  | attr2 (t n : Text)
  | const (n : Text)
  deriving DecidableEq, Repr, Inhabited

structure Doc where
  /-- the class or enumeration the description belongs to, if any -/
  scope : Option Text
  refs : List DocRef
  deriving DecidableEq, Repr, Inhabited

structure MM where
  enums : List EnumDecl
  classes : List Cls
  consts : List Text
  fns : List Fn
  docs : List Doc
  deriving Repr, Inhabited

inductive RuleId where
  | dupProperty | dupMethod | memberClash | dupSymbol
  | reservedTypePrefix | reservedTypeName | reservedPropertyName | reservedMethodName
  | reservedConstantName | reservedFunctionName
  | missingBase | baseNotClass | danglingType
  | cycle
  | redeclaredProperty | redeclaredMethod | inheritedClash | ctorMissingInherited
  | danglingDocClass | danglingDocConst | danglingDocAttr
  | ctorDefault | ctorPropInit | ctorMissing | ctorArgNames | ctorArgOrder | ctorArgType
  | nestedOptional | listOfOptional
  | patternInvalid | patternEmpty | patternNotAnchored
  | dupInvariantDescription
  deriving DecidableEq, Repr, Inhabited

/-! ## Small helpers -/

/-- `str.lower()` on ASCII letters (see the module comment). -/
def lowerC (c : Nat) : Nat := if 65 ≤ c ∧ c ≤ 90 then c + 32 else c
def lower (t : Text) : Text := t.map lowerC

def Cls.propNames (c : Cls) : List Text := c.props.map (·.name)
def MM.classNames (m : MM) : List Text := m.classes.map (·.name)
def MM.enumNames (m : MM) : List Text := m.enums.map (·.name)
/-- our types: enumerations and classes share one name space -/
def MM.typeNames (m : MM) : List Text := m.enumNames ++ m.classNames
def MM.fnNames (m : MM) : List Text := m.fns.map (·.name)

/-- `symbol_table.find_our_type` / `must_find_class`: the first class of that name. -/
def findCls (cs : List Cls) (n : Text) : Option Cls := cs.find? (fun c => c.name = n)
def findEnum (es : List EnumDecl) (n : Text) : Option EnumDecl := es.find? (fun e => e.name = n)

/-- One error `r` for every element satisfying `bad`. -/
def report {α : Type} (r : RuleId) (bad : α → Bool) (l : List α) : List RuleId :=
  l.flatMap (fun x => if bad x then [r] else [])

/-- The errors of the first stage that reports any. -/
def firstFailing : List (List RuleId) → List RuleId
  | [] => []
  | s :: ss => if s = [] then firstFailing ss else s

/-- Duplicate detection with a dictionary of observed names:
the elements that were observed before (in `seen` or earlier in the list). -/
def dups (seen : List Text) : List Text → List Text
  | [] => []
  | x :: xs => if x ∈ seen then x :: dups seen xs else dups (x :: seen) xs

/-! ## Stage 1 — class bodies and the common name space (`parse`) -/

def scanProps (seen : List Text) : List Text → Option RuleId
  | [] => none
  | x :: xs => if x ∈ seen then some .dupProperty else scanProps (x :: seen) xs

def scanMethods (props : List Text) (seen : List Text) : List Text → Option RuleId
  | [] => none
  | x :: xs =>
    if x ∈ seen then some .dupMethod
    else if x ∈ props then some .memberClash
    else scanMethods props (x :: seen) xs

/-- `_classdef_to_our_type` returns at the first member it cannot accept. -/
def classParse (c : Cls) : Option RuleId :=
  match scanProps [] c.propNames with
  | some r => some r
  | none => scanMethods c.propNames [] c.methods

def parsedClasses (m : MM) : List Cls := m.classes.filter (fun c => classParse c = none)

/-- `itertools.chain(our_types, constants, verification_functions)` of `_verify_duplicate_names`
(classes that failed to parse are not in `our_types`). -/
def symbolNames (m : MM) : List Text :=
  m.enumNames ++ (parsedClasses m).map (·.name) ++ m.consts ++ m.fnNames

def stage1 (m : MM) : List RuleId :=
  m.classes.flatMap (fun c => match classParse c with | some r => [r] | none => [])
  ++ (dups [] (symbolNames m)).map (fun _ => .dupSymbol)

/-! ## Stage 2 — reserved names (`_verify_symbol_table`) -/

def hasTypePrefix (n : Text) : Bool := Gen.Rules.typePrefixes.any (fun p => p.isPrefixOf n)
def reservedTypeName (n : Text) : Bool := decide (lower n ∈ Gen.Rules.reservedTypeNames)
def reservedMember (n : Text) : Bool := decide (lower n ∈ Gen.Rules.reservedMemberNames)
def mutablePrefix (n : Text) : Bool := Gen.Rules.memberPrefix.isPrefixOf (lower n)
def overOrEmpty (n : Text) : Bool :=
  Gen.Rules.overPrefix.isPrefixOf (lower n) && Gen.Rules.overSuffixes.any (fun s => s.isSuffixOf (lower n))
def reservedProperty (n : Text) : Bool := reservedMember n || mutablePrefix n
def reservedMethod (n : Text) : Bool := reservedMember n || overOrEmpty n || mutablePrefix n
def reservedSymbol (n : Text) : Bool := reservedMember n || reservedTypeName n

def stage2 (m : MM) : List RuleId :=
  m.typeNames.flatMap (fun n =>
    (Gen.Rules.typePrefixes.filter (fun p => p.isPrefixOf n)).map (fun _ => RuleId.reservedTypePrefix)
    ++ (if reservedTypeName n then [.reservedTypeName] else []))
  ++ m.classes.flatMap (fun c =>
    report .reservedMethodName reservedMethod c.methods
    ++ report .reservedPropertyName reservedProperty c.propNames)
  ++ report .reservedConstantName reservedSymbol m.consts
  ++ report .reservedFunctionName reservedSymbol m.fnNames

/-! ## Stage 3 — dangling inheritances -/

def parentError (m : MM) (p : Text) : List RuleId :=
  if p ∈ m.classNames then []
  else if p ∈ m.enumNames then [.baseNotClass]
  else [.missingBase]

def stage3 (m : MM) : List RuleId :=
  m.classes.flatMap (fun c => c.parents.flatMap (parentError m))

/-! ## Stage 4 — dangling references in property types -/

def Ty.refs : Ty → List Text
  | .prim _ => []
  | .ref n => [n]
  | .list t => t.refs
  | .opt t => t.refs

def danglingTy (m : MM) (t : Ty) : Bool := t.refs.any (fun n => decide (n ∉ m.typeNames))

def stage4 (m : MM) : List RuleId :=
  m.classes.flatMap (fun c => report .danglingType (fun p => danglingTy m p.ty) c.props)

/-! ## Stage 5 — cycles: depth-first search with temporary and permanent marks

`_hierarchy._topologically_sort`.  The temporary marks are exactly the classes on the
recursion stack (`path`); the permanent marks are threaded through (`perm`).  Parents are
looked up by name (`must_find_class`); parents that are not declared classes are skipped
(the implementation cannot get here with such parents: stage 3).  The recursion depth is
bounded by the number of classes; `Dfs.fuel` is the explicit third outcome for running out
of fuel, proved unreachable (`Lemmas/RulesCycle.lean`).  The roots are taken in declaration
order (the implementation takes them in name order — the verdict does not depend on it). -/

def parentsOf (cs : List Cls) (n : Text) : List Text :=
  match findCls cs n with
  | some c => c.parents.filter (fun p => (findCls cs p).isSome)
  | none => []

inductive Dfs where
  | ok (perm : List Text)
  | cycle (n : Text)
  | fuel
  deriving DecidableEq, Repr

mutual
  def visit (cs : List Cls) : Nat → List Text → List Text → Text → Dfs
    | 0, _, _, _ => .fuel
    | fuel + 1, path, perm, n =>
      if n ∈ perm then .ok perm
      else if n ∈ path then .cycle n
      else match visitAll cs fuel (n :: path) perm (parentsOf cs n) with
        | .ok perm' => .ok (n :: perm')
        | r => r
  def visitAll (cs : List Cls) : Nat → List Text → List Text → List Text → Dfs
    | _, _, perm, [] => .ok perm
    | fuel, path, perm, p :: ps =>
      match visit cs fuel path perm p with
      | .ok perm' => visitAll cs fuel path perm' ps
      | r => r
end

/-- All classes as roots, enough fuel for the longest simple path. -/
def dfsCycle (cs : List Cls) : Dfs := visitAll cs (cs.length + 1) [] [] (cs.map (·.name))

def stage5 (m : MM) : List RuleId :=
  match dfsCycle m.classes with
  | .ok _ => []
  | _ => [.cycle]

/-! ## Stage 6 — re-declared inherited members, missing constructor below a constructor -/

/-- `ontology.list_ancestors`: for every parent its ancestors, then the parent. -/
def ancestors (cs : List Cls) : Nat → Text → List Text
  | 0, _ => []
  | fuel + 1, n =>
    match findCls cs n with
    | none => []
    | some c => c.parents.flatMap (fun p => ancestors cs fuel p ++ [p])

def ancestorClasses (cs : List Cls) (c : Cls) : List Cls :=
  (ancestors cs cs.length c.name).filterMap (findCls cs)

def inheritedMemberNames (cs : List Cls) (c : Cls) : List Text :=
  (ancestorClasses cs c).flatMap (fun a => a.propNames ++ a.methods)

def ctorHasArgs (a : Cls) : Bool :=
  match a.ctor with
  | some (_ :: _) => true
  | _ => false

/-- Two different ancestors declare a property of the same name (the dictionary of observed
properties already holds the name for another ancestor). -/
def clashing (a b : Cls) : Bool := a.name != b.name && a.propNames.any (fun n => decide (n ∈ b.propNames))

def ancestorPairs (cs : List Cls) (c : Cls) : List (Cls × Cls) :=
  (ancestorClasses cs c).flatMap (fun a => (ancestorClasses cs c).map (fun b => (a, b)))

def stage6 (m : MM) : List RuleId :=
  m.classes.flatMap (fun c =>
    report .inheritedClash (fun ab => clashing ab.1 ab.2) (ancestorPairs m.classes c)
    ++ report .redeclaredProperty (fun n => decide (n ∈ inheritedMemberNames m.classes c)) c.propNames
    ++ report .redeclaredMethod (fun n => decide (n ∈ inheritedMemberNames m.classes c)) c.methods
    ++ (if c.ctor.isNone then report .ctorMissingInherited ctorHasArgs (ancestorClasses m.classes c) else []))

/-! ## Stage 7 — references to types and constants in the descriptions -/

def allRefs (m : MM) : List DocRef := m.docs.flatMap (·.refs)

def stage7 (m : MM) : List RuleId :=
  (allRefs m).flatMap (fun r => match r with
    | .cls n => if n ∈ m.typeNames then [] else [.danglingDocClass]
    | .const n => if n ∈ m.consts then [] else [.danglingDocConst]
    | _ => [])

/-! ## Stage 8 — `_verify` (together with the references to attributes) -/

/-- Stacked members `(owner, index in the owner, x)`: the parents' stacked lists in parent order,
first occurrence kept (`id(...)`-based de-duplication for diamonds), then the own ones. -/
def stacked {α : Type} [DecidableEq α] (own : Cls → List α) (cs : List Cls) : Nat → Text → List (Text × Nat × α)
  | 0, _ => []
  | fuel + 1, n =>
    match findCls cs n with
    | none => []
    | some c =>
      (c.parents.flatMap (stacked own cs fuel)).eraseDups
      ++ (own c).zipIdx.map (fun (x, i) => (c.name, i, x))

def stackedProps (cs : List Cls) (c : Cls) : List PropDecl :=
  (stacked (·.props) cs cs.length c.name).map (fun x => x.2.2)

def stackedInvs (cs : List Cls) (c : Cls) : List Text :=
  (stacked (·.invs) cs cs.length c.name).map (fun x => x.2.2)

def attrResolves (m : MM) (t n : Text) : Bool :=
  match findEnum m.enums t with
  | some e => decide (n ∈ e.literals)
  | none =>
    match findCls m.classes t with
    | some c => decide (n ∈ (stackedProps m.classes c).map (·.name))
    | none => false

def attrErrors (m : MM) : List RuleId :=
  m.docs.flatMap (fun d => d.refs.flatMap (fun r => match r with
    | .attr n => (match d.scope with
        | some t => if attrResolves m t n then [] else [.danglingDocAttr]
        | none => [.danglingDocAttr])
    | .attr2 t n => if attrResolves m t n then [] else [.danglingDocAttr]
    | _ => []))

def Ty.isOpt : Ty → Bool
  | .opt _ => true
  | _ => false

def Cls.args (c : Cls) : List Arg := c.ctor.getD []

/-- `_verify_optional_constructor_arguments_default_to_none` -/
def defaultErrors (m : MM) : List RuleId :=
  m.classes.flatMap (fun c => report .ctorDefault (fun a => a.ty.isOpt && a.dflt != .none) c.args)

def findArg (args : List Arg) (n : Text) : Option Arg := args.find? (fun a => a.name = n)

/-- `_verify_all_properties_are_initialized_in_the_constructor` for canonical constructor bodies. -/
def propInitialized (args : List Arg) (p : PropDecl) : Bool :=
  match findArg args p.name with
  | none => false
  | some a => p.ty.isOpt || !a.ty.isOpt

def initErrors (m : MM) : List RuleId :=
  m.classes.flatMap (fun c =>
    report .ctorPropInit (fun p => !propInitialized c.args p) (stackedProps m.classes c))

def sameNames (a b : List Text) : Bool := a.all (fun x => decide (x ∈ b)) && b.all (fun x => decide (x ∈ a))

def hasDefault (args : List Arg) (n : Text) : Bool :=
  match findArg args n with
  | some a => a.dflt != .absent
  | none => false

/-- arguments without default in argument order, then those with default -/
def orderedArgs (args : List Arg) : List Text :=
  (args.filter (fun a => a.dflt == .absent)).map (·.name) ++ (args.filter (fun a => a.dflt != .absent)).map (·.name)

/-- properties whose argument has no default in property order, then those whose argument has one -/
def orderedProps (args : List Arg) (props : List Text) : List Text :=
  props.filter (fun n => !hasDefault args n) ++ props.filter (fun n => hasDefault args n)

def typeErrors (args : List Arg) (props : List PropDecl) : List RuleId :=
  report .ctorArgType (fun p => match findArg args p.name with
    | some a => a.ty != p.ty
    | none => true) props

/-- `_verify_constructor_arguments_and_properties_match`: the loop over the classes with the
accumulated error list (`continue` after a missing constructor, a name or an order error;
`return errors` before the type comparison if anything has been reported so far). -/
def matchLoop (cs : List Cls) : List Cls → List RuleId → List RuleId
  | [], errs => errs
  | c :: rest, errs =>
    if c.props ≠ [] ∧ c.ctor = none then matchLoop cs rest (errs ++ [.ctorMissing])
    else if sameNames (c.args.map (·.name)) ((stackedProps cs c).map (·.name)) = false then
      matchLoop cs rest (errs ++ [.ctorArgNames])
    else if orderedArgs c.args ≠ orderedProps c.args ((stackedProps cs c).map (·.name)) then
      matchLoop cs rest (errs ++ [.ctorArgOrder])
    else if errs ≠ [] then errs
    else matchLoop cs rest (errs ++ typeErrors c.args (stackedProps cs c))

def matchErrors (m : MM) : List RuleId := matchLoop m.classes m.classes []

/-- Is there a nested optional / a list of optionals at any depth? (`_verify_only_simple_type_patterns`
over `_over_type_annotation_and_nested_type_annotations`) -/
def Ty.hasNestedOpt : Ty → Bool
  | .prim _ => false
  | .ref _ => false
  | .list t => t.hasNestedOpt
  | .opt t => t.isOpt || t.hasNestedOpt

def Ty.hasListOfOpt : Ty → Bool
  | .prim _ => false
  | .ref _ => false
  | .list t => t.isOpt || t.hasListOfOpt
  | .opt t => t.hasListOfOpt

def shapeErrors (m : MM) : List RuleId :=
  m.classes.flatMap (fun c => (stackedProps m.classes c).flatMap (fun p =>
    (if p.ty.hasNestedOpt then [RuleId.nestedOptional] else [])
    ++ (if p.ty.hasListOfOpt then [RuleId.listOfOptional] else [])))

def isStart : Retree.Value → Bool
  | .sym .start => true
  | _ => false

def isStop : Retree.Value → Bool
  | .sym .stop => true
  | _ => false

open Retree in
/-- `_verify_patterns_anchored_at_start_and_end` for one inferred pattern. -/
def patternError (p : Text) : Option RuleId :=
  match Retree.parse [.str p] with
  | .err _ => some .patternInvalid
  | .crash _ => some .patternInvalid
  | .ok (.mk uniates) =>
    match uniates with
    | [] => some .patternEmpty
    | (.mk []) :: _ => some .patternEmpty
    | (.mk (t :: ts)) :: rest =>
      if rest.isEmpty && isStart t.value && isStop ((t :: ts).getLast (List.cons_ne_nil t ts)).value
      then none else some .patternNotAnchored

def patternErrors (m : MM) : List RuleId :=
  m.fns.flatMap (fun f => match f.pattern with
    | some p => (match patternError p with | some r => [r] | none => [])
    | none => [])

/-- `_verify_invariant_descriptions_unique`: a dictionary of the descriptions seen so far. -/
def invErrors (m : MM) : List RuleId :=
  m.classes.flatMap (fun c => (dups [] (stackedInvs m.classes c)).map (fun _ => RuleId.dupInvariantDescription))

def stage8 (m : MM) : List RuleId :=
  attrErrors m ++ defaultErrors m
  ++ (initErrors m ++ (if initErrors m = [] then matchErrors m else []))
  ++ shapeErrors m ++ patternErrors m ++ invErrors m

/-! ## The checker -/

def stages (m : MM) : List (List RuleId) :=
  [stage1 m, stage2 m, stage3 m, stage4 m, stage5 m, stage6 m, stage7 m, stage8 m]

def check (m : MM) : List RuleId := firstFailing (stages m)

/-! ## The declarative specification -/

/-- `b` is a parent of `a` (both declared classes; `a`'s parents are those of the first class named `a`). -/
def Edge (cs : List Cls) (a b : Text) : Prop := b ∈ parentsOf cs a

/-- Transitive closure of `Edge`. -/
inductive Reach (cs : List Cls) : Text → Text → Prop
  | step {a b : Text} : Edge cs a b → Reach cs a b
  | cons {a b c : Text} : Edge cs a b → Reach cs b c → Reach cs a c

/-- `s` occurs in `t` (reflexive). -/
inductive Ty.Sub : Ty → Ty → Prop
  | refl (t : Ty) : Ty.Sub t t
  | list {s t : Ty} : Ty.Sub s t → Ty.Sub s (.list t)
  | opt {s t : Ty} : Ty.Sub s t → Ty.Sub s (.opt t)

/-- no nested optionals, no lists of optionals, at any depth -/
def Ty.Supported (t : Ty) : Prop :=
  ∀ s, Ty.Sub s t → (∀ u, s ≠ .opt (.opt u)) ∧ (∀ u, s ≠ .list (.opt u))

/-- The pattern parses to exactly one alternative `^ … $`. -/
def Anchored (p : Text) : Prop :=
  ∃ mid : List Retree.Term, ∃ q1 q2,
    Retree.parse [.str p] = .ok (.mk [.mk (Retree.Term.mk (.sym .start) q1 :: mid ++ [Retree.Term.mk (.sym .stop) q2])])

def RefResolves (m : MM) (scope : Option Text) : DocRef → Prop
  | .cls n => n ∈ m.typeNames
  | .const n => n ∈ m.consts
  | .attr n => ∃ t, scope = some t ∧ attrResolves m t n = true
  | .attr2 t n => attrResolves m t n = true

/-- The constructor of `c` matches its (stacked) properties in name, order and type. -/
structure CtorMatches (cs : List Cls) (c : Cls) : Prop where
  /-- a class with own properties has a constructor -/
  present : c.props ≠ [] → c.ctor.isSome = true
  /-- the argument names are the property names -/
  names : (∀ a ∈ c.args, a.name ∈ (stackedProps cs c).map (·.name)) ∧ (∀ p ∈ stackedProps cs c, p.name ∈ c.args.map (·.name))
  /-- the arguments follow the property order (required ones first) -/
  order : orderedArgs c.args = orderedProps c.args ((stackedProps cs c).map (·.name))
  /-- every property has the type of its argument -/
  types : ∀ p ∈ stackedProps cs c, ∃ a, findArg c.args p.name = some a ∧ a.ty = p.ty

structure Spec (m : MM) : Prop where
  /-- member names are unique within a class (properties and methods share the name space) -/
  membersUnique : ∀ c ∈ m.classes, (c.propNames ++ c.methods).Nodup
  /-- types, constants and verification functions share one name space without duplicates -/
  symbolsUnique : (m.typeNames ++ m.consts ++ m.fnNames).Nodup
  /-- no reserved names -/
  typeNamesFree : ∀ n ∈ m.typeNames, (∀ p ∈ Gen.Rules.typePrefixes, ¬ p <+: n) ∧ lower n ∉ Gen.Rules.reservedTypeNames
  memberNamesFree : ∀ c ∈ m.classes, (∀ n ∈ c.methods, reservedMethod n = false) ∧ (∀ n ∈ c.propNames, reservedProperty n = false)
  constNamesFree : ∀ n ∈ m.consts, reservedSymbol n = false
  fnNamesFree : ∀ n ∈ m.fnNames, reservedSymbol n = false
  /-- inheritance from existing classes -/
  parentsExist : ∀ c ∈ m.classes, ∀ p ∈ c.parents, p ∈ m.classNames
  /-- property types refer to declared types -/
  typesExist : ∀ c ∈ m.classes, ∀ p ∈ c.props, ∀ n ∈ p.ty.refs, n ∈ m.typeNames
  /-- acyclic inheritance: no class reaches itself through the transitive closure of `parent` -/
  acyclic : ∀ n, ¬ Reach m.classes n n
  /-- no re-declared inherited member -/
  noRedeclaration : ∀ c ∈ m.classes, ∀ n ∈ c.propNames ++ c.methods, n ∉ inheritedMemberNames m.classes c
  /-- inherited properties are unique: two different ancestors never declare a property of the same name -/
  inheritedUnique : ∀ c ∈ m.classes, ∀ a ∈ ancestorClasses m.classes c, ∀ b ∈ ancestorClasses m.classes c,
    a.name ≠ b.name → ∀ n ∈ a.propNames, n ∉ b.propNames
  /-- a class without constructor has no ancestor whose constructor takes arguments -/
  ctorInherited : ∀ c ∈ m.classes, c.ctor = none → ∀ a ∈ ancestorClasses m.classes c, ctorHasArgs a = false
  /-- documentation references resolve -/
  docsResolve : ∀ d ∈ m.docs, ∀ r ∈ d.refs, RefResolves m d.scope r
  /-- optional constructor arguments default to `None` -/
  optionalDefaults : ∀ c ∈ m.classes, ∀ a ∈ c.args, a.ty.isOpt = true → a.dflt = .none
  /-- constructor arguments match the properties in name, order and type -/
  ctorMatches : ∀ c ∈ m.classes, CtorMatches m.classes c
  /-- only supported type shapes -/
  shapes : ∀ c ∈ m.classes, ∀ p ∈ stackedProps m.classes c, p.ty.Supported
  /-- pattern functions are non-empty and anchored -/
  patterns : ∀ f ∈ m.fns, ∀ p, f.pattern = some p → Anchored p
  /-- invariant descriptions are unique per class, inherited ones included -/
  invariantsUnique : ∀ c ∈ m.classes, (stackedInvs m.classes c).Nodup

end AasVerif.Rules
