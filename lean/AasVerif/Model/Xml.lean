import AasVerif.Model.Text
/-!
XML 1.0 character data, written from the recommendation (productions [2] Char, [14] CharData,
[43] content, [68] EntityRef with the five predefined entities of 4.6).
`content t` decodes a piece of element content that consists of character data and predefined
entity references only; `none` for anything that is not well-formed as such (`<`, a bare `&`,
`]]>`, a code point outside `Char`).  Numeric character references are outside the model.
-/
namespace AasVerif.Xml

def isChar (c : Nat) : Bool :=
  c == 9 || c == 10 || c == 13 || (32 ≤ c && c ≤ 0xD7FF) || (0xE000 ≤ c && c ≤ 0xFFFD) ||
  (0x10000 ≤ c && c ≤ 0x10FFFF)

def content : Text → Option Text
  | [] => some []
  | 38 :: 97 :: 109 :: 112 :: 59 :: r => (content r).map (38 :: ·)
  | 38 :: 108 :: 116 :: 59 :: r => (content r).map (60 :: ·)
  | 38 :: 103 :: 116 :: 59 :: r => (content r).map (62 :: ·)
  | 38 :: 113 :: 117 :: 111 :: 116 :: 59 :: r => (content r).map (34 :: ·)
  | 38 :: 97 :: 112 :: 111 :: 115 :: 59 :: r => (content r).map (39 :: ·)
  | 93 :: 93 :: 62 :: _ => none
  | c :: r => if c = 38 ∨ c = 60 ∨ isChar c = false then none else (content r).map (c :: ·)

end AasVerif.Xml
