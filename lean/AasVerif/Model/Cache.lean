/-!
# Model of the opt-in pickle cache of `run.load_model` (C23, C24)

* The *program* a run executes is NOT written here: it is the op skeleton `List GOp`
  regenerated from the AST of `run.load_model` (`Gen/Cache.lean`), filtered by the
  `cache_model` flag (`program`).  This file only gives the ops their meaning.
* File system: `Path → Option Content`, a content being (text it was computed from,
  complete?).  Final entries are `model-<hash>.pickle`, temporaries
  `model-<hash>.<uid>.tmp`; the uid of a run is its index (fresh by construction:
  the uuid4-never-collides assumption).
* Events: a run is spawned (with its model text and flag), executes its next op,
  gets an exception instead of its next op (the `finally` part still runs, an open
  file is closed by `with`), or is killed (nothing runs any more, unflushed data
  are lost).  A schedule is an arbitrary list of events: any number of runs, any
  interleaving, any crash points; sequential runs with edits are the schedules in
  which each run finishes before the next spawn.
* Every place where the Python raises is explicit: `exec` returns `none` = the op
  raised (missing file, unpickling a partial file, no open handle, …).
-/
namespace AasVerif.Cache

/-- symbolic path used by an op, relative to the run executing it -/
inductive PathE
  | final   -- cache_path = <tmpdir>/aas-core-codegen-<ver>/model-<sha256(text)>.pickle
  | tmp     -- tmp_path   = cache_path.with_suffix(".<uuid4>.tmp")
  deriving DecidableEq, Repr

inductive Op
  | readText                      -- model_path.read_text
  | hashText                      -- hashlib.sha256(text.encode()).hexdigest()
  | tempDir                       -- tempfile.gettempdir()  (probes the temp directory)
  | freshUid                      -- uuid.uuid4()
  | exists (p : PathE)            -- p.exists()  as the test of an `if`
  | openR (p : PathE)             -- with p.open("rb") as fid
  | load                          -- pickle.load(fid) (+ isinstance assert)
  | retCached                     -- return (cached.symbol_table, cached.atok), None
  | compute                       -- parse + translate (returns the error early)
  | mkdir (existOk : Bool)        -- cache_path.parent.mkdir(parents=True, exist_ok=…)
  | openW (p : PathE)             -- with p.open("wb") as fid
  | dump                          -- pickle.dump(_Cached(...), fid)
  | closeW                        -- end of the `with` block
  | rename (src dst : PathE)      -- src.rename(dst)
  | unlink (p : PathE) (missingOk : Bool)
  | ret                           -- return (ir_symbol_table, atok), None
  deriving DecidableEq, Repr

/-- an op of the skeleton with its lexical position -/
structure GOp where
  op : Op
  guarded : Bool   -- lexically under `if cache_model:`
  onHit : Bool     -- lexically under `if cache_path.exists():`
  inTry : Bool     -- in the body of the try/finally
  inFin : Bool     -- in the `finally` part
  deriving DecidableEq, Repr

/-- what a run with the given flag executes: the guarded ops only if the flag is set -/
def program (ops : List GOp) (flag : Bool) : List GOp :=
  ops.filter (fun g => !g.guarded || flag)

structure Content where
  src : Nat          -- the model text the pickled symbol table was computed from
  complete : Bool    -- whole pickle present (false: empty / partially written)
  deriving DecidableEq, Repr

inductive Path
  | final (h : Nat)
  | tmp (h : Nat) (uid : Nat)
  deriving DecidableEq, Repr

abbrev FS := Path → Option Content

def FS.set (fs : FS) (p : Path) (v : Option Content) : FS :=
  fun q => if q = p then v else fs q

inductive Access
  | probe               -- temp directory probed (file created and deleted there)
  | mkdir               -- cache directory created
  | look (p : Path)     -- exists()
  | read (p : Path)     -- opened for reading
  | write (p : Path)    -- created / truncated / renamed from or onto / removed
  deriving DecidableEq, Repr

inductive Outcome
  | ok (src : Nat)      -- returned the symbol table of text `src`
  | err (src : Nat)     -- returned the error message of text `src`
  | crashed             -- an exception left load_model
  | killed
  deriving DecidableEq, Repr

inductive Mode
  | running
  | unwinding           -- an exception is propagating; only `finally` ops still run
  | finished (o : Outcome)
  deriving DecidableEq, Repr

/-- world parameters -/
structure Cfg where
  hash : Nat → Nat       -- sha256 of the text
  valid : Nat → Bool     -- does the text compile to a symbol table
  ops : List GOp         -- the skeleton of load_model (Gen)

structure Proc where
  text : Nat
  flag : Bool
  todo : List GOp
  mode : Mode
  hit : Option Bool            -- outcome of the `exists` test once evaluated
  rh : Option Content          -- open read handle (the content it refers to)
  loaded : Option Nat          -- text of the unpickled symbol table
  w : Option (Path × Bool)     -- open write handle: (path, dump done)
  tc : Bool                    -- a dumped handle was closed since the last openW
  computed : Bool
  mkd : Bool := false          -- ghost: this run executed mkdir
  te : Bool := false           -- ghost: this run created its tmp file and has not renamed/unlinked it since
  faulted : Bool := false      -- ghost: an `exc` or `kill` event was injected into this run
  deriving Repr

structure St where
  fs : FS
  dir : Bool                   -- the cache directory exists
  n : Nat                      -- number of runs spawned so far
  procs : Nat → Option Proc
  log : List (Nat × Access)    -- newest first
  trace : List (Nat × Op × Bool)  -- every op executed (newest first); true = it raised

def St.init : St := { fs := fun _ => none, dir := false, n := 0, procs := fun _ => none, log := [], trace := [] }

def pathOf (cfg : Cfg) (i : Nat) (p : Proc) : PathE → Path
  | .final => .final (cfg.hash p.text)
  | .tmp => .tmp (cfg.hash p.text) i

/-- is the op at the head skipped in the current control state? -/
def skip (m : Mode) (hit : Option Bool) (g : GOp) : Bool :=
  (m == .unwinding && !g.inFin) || (g.onHit && hit == some false)

def dropSkipped (m : Mode) (hit : Option Bool) : List GOp → List GOp
  | [] => []
  | g :: rest => if skip m hit g then dropSkipped m hit rest else g :: rest

/-- after every step: skip what the control state skips; falling off the end ends the run -/
def settle (p : Proc) : Proc :=
  match p.mode with
  | .finished _ => { p with todo := [] }
  | m =>
    if (dropSkipped m p.hit p.todo).isEmpty then { p with todo := [], mode := .finished .crashed }
    else { p with todo := dropSkipped m p.hit p.todo }

/-- the result of executing one op -/
structure Eff where
  p : Proc
  fs : FS
  dir : Bool
  acc : List Access

/-- Execute op `g` as run `i` (whose record `p` already has `g` removed from `todo`).
`none` = the op raised. -/
def exec (cfg : Cfg) (i : Nat) (p : Proc) (fs : FS) (dir : Bool) (g : GOp) : Option Eff :=
  match g.op with
  | .readText => some ⟨p, fs, dir, []⟩
  | .hashText => some ⟨p, fs, dir, []⟩
  | .freshUid => some ⟨p, fs, dir, []⟩
  | .tempDir => some ⟨p, fs, dir, [.probe]⟩
  | .exists pe =>
    some ⟨{ p with hit := some (fs (pathOf cfg i p pe)).isSome }, fs, dir, [.look (pathOf cfg i p pe)]⟩
  | .openR pe =>
    match fs (pathOf cfg i p pe) with
    | none => none                                   -- FileNotFoundError
    | some c => some ⟨{ p with rh := some c }, fs, dir, [.read (pathOf cfg i p pe)]⟩
  | .load =>
    match p.rh with
    | none => none                                   -- no handle
    | some c => if c.complete then some ⟨{ p with loaded := some c.src }, fs, dir, []⟩
                else none                            -- UnpicklingError / EOFError
  | .retCached =>
    match p.loaded with
    | none => none
    | some s => some ⟨{ p with mode := .finished (.ok s) }, fs, dir, []⟩
  | .compute =>
    if cfg.valid p.text then some ⟨{ p with computed := true }, fs, dir, []⟩
    else some ⟨{ p with mode := .finished (.err p.text) }, fs, dir, []⟩
  | .mkdir eok => if dir && !eok then none else some ⟨{ p with mkd := true }, fs, true, [.mkdir]⟩   -- FileExistsError
  | .openW pe =>
    if dir then
      some ⟨{ p with w := some (pathOf cfg i p pe, false), tc := false, te := (pe == .tmp) || p.te },
            fs.set (pathOf cfg i p pe) (some ⟨p.text, false⟩), dir, [.write (pathOf cfg i p pe)]⟩
    else none                                        -- FileNotFoundError (no directory)
  | .dump =>
    match p.w with
    | some (q, false) => if p.computed then some ⟨{ p with w := some (q, true) }, fs, dir, []⟩ else none
    | _ => none
  | .closeW =>
    match p.w with
    | some (q, true) => some ⟨{ p with w := none, tc := true }, fs.set q (some ⟨p.text, true⟩), dir, []⟩
    | some (_, false) => some ⟨{ p with w := none }, fs, dir, []⟩
    | none => none
  | .rename s d =>
    match fs (pathOf cfg i p s) with
    | none => none                                   -- FileNotFoundError
    | some c =>
      some ⟨{ p with te := !(s == .tmp) && p.te }, (fs.set (pathOf cfg i p d) (some c)).set (pathOf cfg i p s) none, dir,
            [.write (pathOf cfg i p s), .write (pathOf cfg i p d)]⟩
  | .unlink pe mok =>
    match fs (pathOf cfg i p pe) with
    | none => if mok then some ⟨{ p with te := !(pe == .tmp) && p.te }, fs, dir, [.write (pathOf cfg i p pe)]⟩ else none
    | some _ => some ⟨{ p with te := !(pe == .tmp) && p.te }, fs.set (pathOf cfg i p pe) none, dir, [.write (pathOf cfg i p pe)]⟩
  | .ret =>
    if p.computed then some ⟨{ p with mode := .finished (.ok p.text) }, fs, dir, []⟩ else none

/-- An exception leaves op `g` (raised by the op itself or injected): `with` closes an
open write handle (flushing what was dumped), then only the `finally` ops remain if the
op was inside the `try`; otherwise, or during unwinding, the run is over. -/
def raise (p : Proc) (fs : FS) (g : GOp) : Proc × FS :=
  let fs' := match p.w with
    | some (q, true) => fs.set q (some ⟨p.text, true⟩)
    | _ => fs
  let tc' := match p.w with
    | some (_, true) => true
    | _ => p.tc
  let mode' := if p.mode == .running && g.inTry then Mode.unwinding else .finished .crashed
  ({ p with w := none, tc := tc', mode := mode' }, fs')

inductive Event
  | spawn (text : Nat) (flag : Bool)
  | step (i : Nat)     -- run i executes its next op
  | exc (i : Nat)      -- run i gets an exception instead of its next op
  | kill (i : Nat)     -- run i is killed
  deriving DecidableEq, Repr

def spawnProc (cfg : Cfg) (text : Nat) (flag : Bool) : Proc :=
  settle { text := text, flag := flag, todo := program cfg.ops flag, mode := .running, hit := none,
           rh := none, loaded := none, w := none, tc := false, computed := false }

def setProc (s : St) (i : Nat) (p : Proc) : Nat → Option Proc :=
  fun j => if j = i then some p else s.procs j

def step (cfg : Cfg) (s : St) : Event → St
  | .spawn text flag =>
    { s with n := s.n + 1, procs := setProc s s.n (spawnProc cfg text flag) }
  | .step i =>
    match s.procs i with
    | none => s
    | some p =>
      match p.todo with
      | [] => s
      | g :: rest =>
        match exec cfg i { p with todo := rest } s.fs s.dir g with
        | some e =>
          { s with fs := e.fs, dir := e.dir, procs := setProc s i (settle e.p),
                   log := (e.acc.map (fun a => (i, a))).reverse ++ s.log,
                   trace := (i, g.op, false) :: s.trace }
        | none =>
          let r := raise { p with todo := rest } s.fs g
          { s with fs := r.2, procs := setProc s i (settle r.1), trace := (i, g.op, true) :: s.trace }
  | .exc i =>
    match s.procs i with
    | none => s
    | some p =>
      match p.todo with
      | [] => s
      | g :: rest =>
        let r := raise { p with todo := rest } s.fs g
        { s with fs := r.2, procs := setProc s i (settle { r.1 with faulted := true }), trace := (i, g.op, true) :: s.trace }
  | .kill i =>
    match s.procs i with
    | none => s
    | some p =>
      match p.todo with
      | [] => s
      | _ :: _ => { s with procs := setProc s i { p with todo := [], mode := .finished .killed, w := none, faulted := true } }

def run (cfg : Cfg) (sched : List Event) (s : St) : St :=
  sched.foldl (step cfg) s

/-- what an uncached run returns -/
def uncached (cfg : Cfg) (text : Nat) : Outcome :=
  if cfg.valid text then .ok text else .err text

/-! ## The static checker of an op skeleton

`Safe` walks the remaining ops with the abstract control/handle state and accepts only if
* files are opened for writing, dumped into and unlinked only at the run's own tmp path,
* `exists`/`open("rb")` only look at the final path,
* `rename` goes tmp → final, only when the dump was completed and the handle closed,
* every exception edge (from inside the `try`) leads to an accepted `finally` part.
The invariant theorems hold for EVERY skeleton accepted by `Safe`; the skeleton
extracted from the source is accepted by `decide`. -/

inductive WK | none | opened | dumped
  deriving DecidableEq, Repr

def wkOf : Option (Path × Bool) → WK
  | .none => .none
  | some (_, false) => .opened
  | some (_, true) => .dumped

def safeOp (o : Op) (w : WK) (tc computed : Bool) (loadedOk : Bool) : Bool :=
  match o with
  | .exists pe => pe == .final
  | .openR pe => pe == .final
  | .openW pe => pe == .tmp && w == .none
  | .dump => w == .opened && computed
  | .closeW => true
  | .rename s d => s == .tmp && d == .final && tc && w == .none
  | .unlink pe _ => pe == .tmp && w == .none
  | .retCached => loadedOk
  | _ => true

/-- abstract successor state `(w, tc, computed, rdOpen, loadedOk)` of an op that did not raise -/
def absNext (o : Op) (w : WK) (tc computed rd ld : Bool) : WK × Bool × Bool × Bool × Bool :=
  match o with
  | .openR _ => (w, tc, computed, true, ld)
  | .load => (w, tc, computed, rd, rd)
  | .compute => (w, tc, true, rd, ld)
  | .openW _ => (.opened, false, computed, rd, ld)
  | .dump => (.dumped, tc, computed, rd, ld)
  | .closeW => (.none, tc || w == .dumped, computed, rd, ld)
  | _ => (w, tc, computed, rd, ld)

def Safe (m : Mode) (hit : Option Bool) (w : WK) (tc computed rd ld : Bool) : List GOp → Bool
  | [] => true
  | g :: rest =>
    if skip m hit g then Safe m hit w tc computed rd ld rest
    else
      -- the `if exists` body is only entered after the test
      (!g.onHit || hit == some true) &&
      -- exception edge
      (if m == .running && g.inTry then Safe .unwinding hit .none (tc || w == .dumped) computed rd ld rest else true) &&
      -- normal edge
      safeOp g.op w tc computed ld &&
      (match g.op with
       | .exists _ =>
         Safe m (some true) w tc computed rd ld rest && Safe m (some false) w tc computed rd ld rest
       | .retCached => true
       | .ret => true
       | o =>
         let a := absNext o w tc computed rd ld
         Safe m hit a.1 a.2.1 a.2.2.1 a.2.2.2.1 a.2.2.2.2 rest)

/-- ops that touch nothing outside the model file -/
def pureOp : Op → Bool
  | .readText | .compute | .ret => true
  | _ => false

end AasVerif.Cache
