import AasVerif.Model.Text
/-!
Model of the name conversions of `aas_core_codegen/naming.py` and of the
`<target>/naming.py` modules (cpp, csharp, golang, java, python, typescript, xsd).

Domain.  Meta-model identifiers are `common.Identifier`s, i.e. they match
`[a-zA-Z_][a-zA-Z_0-9]*` (`isIdent`).  On that domain Python's Unicode-aware
`str.upper/lower/capitalize/isupper` coincide with the ASCII functions below; the model is
*only* claimed for texts satisfying `isIdent` (the correspondence harness checks that the real
front end never accepts a non-ASCII identifier).

Every `@require`/`@ensure`/`assert` of the Python functions is an explicit `Except.error site`
(site = `<ExceptionType>@<function>`), never hidden by totality.
-/
namespace AasVerif.Naming

/-! ### ASCII character functions -/

def isUpperC (c : Nat) : Bool := 65 ≤ c && c ≤ 90
def isLowerC (c : Nat) : Bool := 97 ≤ c && c ≤ 122
def isDigitC (c : Nat) : Bool := 48 ≤ c && c ≤ 57
def isAlnumC (c : Nat) : Bool := isUpperC c || isLowerC c || isDigitC c

/-- `IDENTIFIER_RE = [a-zA-Z_][a-zA-Z_0-9]*` (fullmatch). -/
def isIdent : Text → Bool
  | [] => false
  | c :: cs => (isUpperC c || isLowerC c || c == 95) && cs.all (fun d => isAlnumC d || d == 95)

def upC (c : Nat) : Nat := if isLowerC c then c - 32 else c
def loC (c : Nat) : Nat := if isUpperC c then c + 32 else c

/-- `str.upper()` on ASCII. -/
def upper (t : Text) : Text := t.map upC
/-- `str.lower()` on ASCII. -/
def lower (t : Text) : Text := t.map loC
/-- `str.capitalize()` on ASCII: first upper-cased, the rest lower-cased. -/
def capitalize : Text → Text
  | [] => []
  | c :: cs => upC c :: lower cs

/-- `s[0].isupper()` for an ASCII text (`IndexError` on the empty text cannot happen for identifiers;
it is modelled as `false`, and the callers guard it). -/
def firstIsUpper : Text → Bool
  | [] => false
  | c :: _ => isUpperC c

/-- `s.split(sep)` for a one-character separator: always at least one part. -/
def splitC (sep : Nat) : Text → List Text
  | [] => [[]]
  | c :: cs =>
    if c = sep then [] :: splitC sep cs
    else match splitC sep cs with
      | [] => [[c]]
      | p :: ps => (c :: p) :: ps

/-- `sep.join(parts)` -/
def joinC (sep : Nat) : List Text → Text
  | [] => []
  | [p] => p
  | p :: ps => p ++ sep :: joinC sep ps

/-- `identifier.split("_")` -/
abbrev parts (t : Text) : List Text := splitC 95 t

abbrev R := Except String Text

/-- `Identifier(value)`: `@require(lambda value: IDENTIFIER_RE.fullmatch(value))` — every naming function
wraps its result in `Identifier(…)`, so a result that is empty or starts with a digit (`_1a` → `1a`)
is an icontract violation. -/
def identR (r : Text) : R := if isIdent r then .ok r else .error "ViolationError@Identifier"

/-! ### `aas_core_codegen/naming.py` -/

/-- `"_".join(part.lower() for part in parts)` -/
def lowerSnakeRaw (t : Text) : Text := joinC 95 ((parts t).map lower)
def upperSnakeRaw (t : Text) : Text := joinC 95 ((parts t).map upper)

def lowerCamelRaw (t : Text) : Text :=
  match parts t with
  | [] => []            -- unreachable (assert len(parts) > 0)
  | [p] => lower p
  | p :: ps => lower p ++ (ps.map capitalize).flatten

def capCamelRaw (t : Text) : Text := ((parts t).map capitalize).flatten

/-- `lower_snake_case`. The `assert len(parts) > 0` can never fire (`splitC` returns at least one part). -/
def lowerSnake (t : Text) : R := identR (lowerSnakeRaw t)
/-- `upper_snake_case` -/
def upperSnake (t : Text) : R := identR (upperSnakeRaw t)
/-- `lower_camel_case` -/
def lowerCamel (t : Text) : R := identR (lowerCamelRaw t)
/-- `capitalized_camel_case` -/
def capCamel (t : Text) : R := identR (capCamelRaw t)

/-- `json_model_type`: `@require identifier[0].isupper()`, two `@ensure`s on the result. -/
def jsonModelType (t : Text) : R :=
  if !firstIsUpper t then .error "ViolationError@json_model_type.require"
  else
    match capCamel t with
    | .error e => .error e
    | .ok r =>
      if r.contains 95 then .error "ViolationError@json_model_type.ensure_no_underscore"
      else if r.contains 34 || r.contains 39 || r.contains 92 then
        .error "ViolationError@json_model_type.ensure_no_quotes"
      else .ok r

/-- `xml_class_name`: `@require identifier[0].upper() == identifier[0]`. -/
def xmlClassName (t : Text) : R :=
  match t with
  | [] => .error "IndexError@xml_class_name.require"
  | c :: _ => if upC c = c then lowerCamel t else .error "ViolationError@xml_class_name.require"

/-! ### `python/naming.py` custom loops -/

/-- `part if part.upper() == part else part.capitalize()` -/
def keepUpperOrCapitalize (p : Text) : Text := if upper p = p then p else capitalize p

/-- python `enum_name` / `class_name` (identical bodies), `@require identifier[0].isupper()`. -/
def pyClassName (fn : String) (t : Text) : R :=
  if !firstIsUpper t then .error s!"ViolationError@python.{fn}.require"
  else identR ((parts t).map keepUpperOrCapitalize).flatten

/-! ### `golang/naming.py` -/

/-- `_capitalize_or_leave_abbreviation` (`@require len > 0`, `@require "_" not in part`). -/
def goCapOrLeave (p : Text) : R :=
  match p with
  | [] => .error "ViolationError@golang._capitalize_or_leave_abbreviation.require_nonempty"
  | c :: _ =>
    if p.contains 95 then .error "ViolationError@golang._capitalize_or_leave_abbreviation.require_no_underscore"
    else if isUpperC c then .ok p else .ok (capitalize p)

def mapR (f : Text → R) : List Text → Except String (List Text)
  | [] => .ok []
  | a :: as =>
    match f a with
    | .error s => .error s
    | .ok b =>
      match mapR f as with
      | .error s => .error s
      | .ok bs => .ok (b :: bs)

/-- golang `capital_camel_case`: empty parts are skipped. -/
def goCapitalCamel (t : Text) : R :=
  match mapR goCapOrLeave ((parts t).filter (fun p => p.length > 0)) with
  | .error s => .error s
  | .ok ps => identR ps.flatten

/-- golang `_lower_camel_case`: empty later parts (`a__b`, a trailing underscore) are skipped,
as in `capital_camel_case` (since the repair of the `IndexError` on `class_`). -/
def goLowerCamel (t : Text) : R :=
  match parts t with
  | [] => .error "AssertionError@golang._lower_camel_case"
  | p :: ps =>
    match mapR goCapOrLeave (ps.filter (fun q => q.length > 0)) with
    | .error s => .error s
    | .ok qs => identR (lower p ++ qs.flatten)

/-- golang `enum_literal_name(enumeration_name, literal_name)` -/
def goEnumLiteral (enumName lit : Text) : R :=
  match goCapitalCamel enumName, goCapitalCamel lit with
  | .ok a, .ok b => identR (a ++ b)
  | .error s, _ => .error s
  | _, .error s => .error s

/-! ### `xsd/naming.py` -/

/-- `group_name` (and the stem of `type_name`, `choice_group_name`): same shape as `lower_camel_case`. -/
def xsdStem (t : Text) : Text :=
  match parts t with
  | [] => []
  | [p] => lower p
  | p :: ps => lower p ++ (ps.map capitalize).flatten

/-! ### Table-driven naming functions

Most `<target>/naming.py` functions have the shape
`return [Identifier(f"<pre>{] <callee>([Identifier(f"<inner>{]identifier[}")]) [}<post>")]`,
optionally guarded by `@require(lambda identifier: identifier[0].isupper())` or (golang) by
`if identifier == "type": return "typE"`.  The extractor turns each of them into a `ConvSpec`
(`Gen.Naming.convTable`); `interp` below gives them meaning. -/

structure ConvSpec where
  pre : Text
  inner : Text
  callee : String
  post : Text
  requireUpperFirst : Bool
  typeSpecial : Bool
deriving Repr, DecidableEq

/-- One `for x in symbol_table.<coll>:` loop of a `_verify_…_collisions` function of `<target>/lib/_generate_types.py`
that feeds the function's dictionary with `<fn>(Identifier(f"<pre>{x.name}<post>"))` (`pre = post = []`: `<fn>(x.name)`),
optionally wrapped as `Identifier(f"<opre>{<fn>(…)}<opost>")`. -/
structure CheckLoop where
  coll : String
  fn : String
  pre : Text
  post : Text
  opre : Text
  opost : Text
deriving Repr, DecidableEq

/-- The callees a `ConvSpec` may name. -/
def callee (name : String) (t : Text) : R :=
  if name = "lower_snake_case" then lowerSnake t
  else if name = "upper_snake_case" then upperSnake t
  else if name = "lower_camel_case" then lowerCamel t
  else if name = "capitalized_camel_case" then capCamel t
  else if name = "capital_camel_case" then goCapitalCamel t
  else if name = "_lower_camel_case" then goLowerCamel t
  else .error s!"unknown-callee:{name}"

def interp (fn : String) (s : ConvSpec) (t : Text) : R :=
  if s.requireUpperFirst && !firstIsUpper t then .error s!"ViolationError@{fn}.require"
  else if s.typeSpecial && t = [116, 121, 112, 101] then .ok [116, 121, 112, 69]
  else
    match (if s.inner = [] then .ok t else identR (s.inner ++ t)) with
    | .error e => .error e
    | .ok t' =>
      match callee s.callee t' with
      | .error e => .error e
      | .ok r => if s.pre = [] ∧ s.post = [] then .ok r else identR (s.pre ++ r ++ s.post)

/-- Hand-modelled functions (everything that is not of the table shape). `fn` is `<module>.<function>`,
where `<module>` is `naming` for the shared module and the target name otherwise. -/
def custom (fn : String) (ctx t : Text) : R :=
  if fn = "naming.lower_snake_case" then lowerSnake t
  else if fn = "naming.upper_snake_case" then upperSnake t
  else if fn = "naming.lower_camel_case" then lowerCamel t
  else if fn = "naming.capitalized_camel_case" then capCamel t
  else if fn = "naming.json_model_type" then jsonModelType t
  else if fn = "naming.xml_class_name" then xmlClassName t
  else if fn = "python.enum_name" then pyClassName "enum_name" t
  else if fn = "python.class_name" then pyClassName "class_name" t
  else if fn = "python.private_class_name" then
    (match pyClassName "private_class_name" t with | .ok r => identR (95 :: r) | .error e => .error e)
  else if fn = "typescript.constant_name" then upperSnake t
  else if fn = "golang.capital_camel_case" then goCapitalCamel t
  else if fn = "golang._lower_camel_case" then goLowerCamel t
  else if fn = "golang._capitalize_or_leave_abbreviation" then goCapOrLeave t
  else if fn = "golang.enum_literal_name" then goEnumLiteral ctx t
  else if fn = "xsd.group_name" then identR (xsdStem t)
  else if fn = "xsd.type_name" then identR (xsdStem t ++ [95, 116])
  else if fn = "xsd.choice_group_name" then identR (xsdStem t ++ [95, 99, 104, 111, 105, 99, 101])
  -- keys of the JSON schema `definitions` (jsonschema/main.py), built on json_model_type
  else if fn = "jsonschema.def" then jsonModelType t
  else if fn = "jsonschema.def_abstract" then
    (match jsonModelType t with | .ok r => .ok (r ++ [95, 97, 98, 115, 116, 114, 97, 99, 116]) | .error e => .error e)
  else if fn = "jsonschema.def_choice" then
    (match jsonModelType t with | .ok r => .ok (r ++ [95, 99, 104, 111, 105, 99, 101]) | .error e => .error e)
  else if fn = "literal" then .ok t     -- a fixed generated name (e.g. `ModelType`, `valueDataType`)
  else .error s!"unknown-conv:{fn}"

/-- `conv table fn ctx t`: the generated name for identifier `t` under naming function `fn`. -/
def conv (table : List (String × ConvSpec)) (fn : String) (ctx t : Text) : R :=
  match table.lookup fn with
  | some s => interp fn s t
  | none => custom fn ctx t

end AasVerif.Naming
