/-!
Text is a list of code points (`Nat`): Python `str` may hold lone surrogates,
Lean `Char` may not.  Wire format: dot-separated lower-case hex, `-` for empty.
Lists of texts on the wire: comma separated, `[]` for the empty list.
-/
namespace AasVerif

abbrev Text := List Nat

namespace Text

def ofString (s : String) : Text := s.toList.map Char.toNat

def hexDigit (n : Nat) : Char :=
  if n < 10 then Char.ofNat (48 + n) else Char.ofNat (87 + n)

partial def hexAux (n : Nat) (acc : List Char) : List Char :=
  if n < 16 then hexDigit n :: acc else hexAux (n / 16) (hexDigit (n % 16) :: acc)

def hex (n : Nat) : String := String.ofList (hexAux n [])

def unhexDigit (c : Char) : Option Nat :=
  if '0' ≤ c ∧ c ≤ '9' then some (c.toNat - 48)
  else if 'a' ≤ c ∧ c ≤ 'f' then some (c.toNat - 87)
  else none

def unhex (s : String) : Option Nat :=
  if s.isEmpty then none else
  s.toList.foldl (fun acc c => match acc, unhexDigit c with
    | some a, some d => some (a * 16 + d)
    | _, _ => none) (some 0)

def enc (t : Text) : String :=
  if t.isEmpty then "-" else ".".intercalate (t.map hex)

def dec (s : String) : Option Text :=
  if s == "-" then some [] else
  (s.splitOn ".").foldr (fun p acc => match unhex p, acc with
    | some n, some l => some (n :: l)
    | _, _ => none) (some [])

def encList (ts : List Text) : String :=
  if ts.isEmpty then "[]" else ",".intercalate (ts.map enc)

def decList (s : String) : Option (List Text) :=
  if s == "[]" then some [] else
  (s.splitOn ",").foldr (fun p acc => match dec p, acc with
    | some t, some l => some (t :: l)
    | _, _ => none) (some [])

end Text
end AasVerif
