import AasVerif.Model.Text
/-!
JSON values as the schema validator sees them (C11, C12).

Own minimal definition (builder c10's `Model/SdkJson.lean` was not available when this was
written; the file name differs on purpose so both can coexist).

* strings are `Text` (code points; Python `str` may hold lone surrogates),
* numbers: `int i` for a JSON integer literal, `num integral` for a literal with fraction or
  exponent — the only thing JSON Schema's `type` needs to know about it is whether its value is
  integral (`1.0` is an `integer` from draft 6 on),
* objects are association lists in document order (duplicate keys do not occur in documents the
  SDK writes; `lookup` takes the first).
-/
namespace AasVerif.JsonSchema

inductive Json where
  | null
  | bool (b : Bool)
  | int (i : Int)
  | num (integral : Bool)
  | str (s : Text)
  | arr (xs : List Json)
  | obj (kvs : List (Text × Json))
  deriving Repr, Inhabited

/-- first value stored under the key -/
def lookup {α : Type} (k : Text) : List (Text × α) → Option α
  | [] => none
  | (k', v) :: r => if k' = k then some v else lookup k r

def hasKey {α : Type} (k : Text) (kvs : List (Text × α)) : Bool := (lookup k kvs).isSome

/-- `OrderedDict.__setitem__`: replace in place, else append -/
def setKey {α : Type} (k : Text) (v : α) : List (Text × α) → List (Text × α)
  | [] => [(k, v)]
  | (k', v') :: r => if k' = k then (k, v) :: r else (k', v') :: setKey k v r

/-- Python's `str.__lt__`: lexicographic by code point -/
def ltText : Text → Text → Bool
  | [], [] => false
  | [], _ :: _ => true
  | _ :: _, [] => false
  | a :: as, b :: bs => if a < b then true else if b < a then false else ltText as bs

def insertSorted {α : Type} (lt : α → α → Bool) (x : α) : List α → List α
  | [] => [x]
  | y :: ys => if lt x y then x :: y :: ys else y :: insertSorted lt x ys

/-- stable insertion sort (`sorted`) -/
def sortBy {α : Type} (lt : α → α → Bool) (xs : List α) : List α :=
  xs.foldr (insertSorted (fun a b => !lt b a)) []

def sortTexts (xs : List Text) : List Text := sortBy ltText xs

def ascii (s : String) : Text := Text.ofString s

end AasVerif.JsonSchema
