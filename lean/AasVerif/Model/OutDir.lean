import AasVerif.Model.Text
/-!
# The output directory as the generators use it (C22: "regardless of pre-existing files")

Every back end ends in the same loop (`<target>/main.py:execute`): for each generated file
`pth.parent.mkdir(parents=True, exist_ok=True)` and `pth.write_text(code, encoding="utf-8")`.
`Path.write_text` opens with mode `"w"`: the file is created or **truncated**, then the encoded
text is written.  No back end looks at what the output directory held before.

* `Fs` — the regular files below the output directory before the run (the *history*), an
  association list path ↦ bytes; paths and bytes are `Text` (`List Nat`).
* `writeFile` — one `write_text`: whatever was at the path is replaced.
* `writeAll` — the loop over the generated files, in generation order.
* `writeUnless same` — the variant "leave the file alone if it already holds the text", `same old
  new` being the comparison; with byte equality it is unobservable, with a lenient comparison
  (`universalNewlines`: what `read_text()` returns in text mode) it makes the output depend on
  the history.

Directories, permissions and the error branch (`OSError` of `mkdir`/`write_text`: an entry of
the other kind at an owned path, finding C22-F1) are not modelled.
-/
namespace AasVerif.OutDir

abbrev Fs := List (Text × Text)

/-- content of the file at `p`, `none` if there is none -/
def read : Fs → Text → Option Text
  | [], _ => none
  | (q, c) :: rest, p => if q == p then some c else read rest p

/-- all entries but those at `p` -/
def remove : Fs → Text → Fs
  | [], _ => []
  | (q, c) :: rest, p => if q == p then remove rest p else (q, c) :: remove rest p

/-- `pth.write_text(code, encoding="utf-8")`: create or truncate, then write -/
def writeFile (fs : Fs) (p c : Text) : Fs := (p, c) :: remove fs p

/-- the writing loop of `execute` over the generated files -/
def writeAll (fs : Fs) : List (Text × Text) → Fs
  | [] => fs
  | (p, c) :: rest => writeAll (writeFile fs p c) rest

/-- "write the text unless the file already contains it", for a comparison `same old new` -/
def writeUnless (same : Text → Text → Bool) (fs : Fs) (p c : Text) : Fs :=
  match read fs p with
  | some old => if same old c then fs else writeFile fs p c
  | none => writeFile fs p c

def writeAllUnless (same : Text → Text → Bool) (fs : Fs) : List (Text × Text) → Fs
  | [] => fs
  | (p, c) :: rest => writeAllUnless same (writeUnless same fs p c) rest

/-- What text mode hands out for the bytes (universal newlines): `\r\n` and lone `\r` become `\n`. -/
def universalNewlines : Text → Text
  | [] => []
  | 13 :: 10 :: rest => 10 :: universalNewlines rest
  | 13 :: rest => 10 :: universalNewlines rest
  | x :: rest => x :: universalNewlines rest

/-- the comparison of a helper that reads the old file with `read_text()` -/
def sameModuloNewlines (old new : Text) : Bool := universalNewlines old == new

end AasVerif.OutDir
