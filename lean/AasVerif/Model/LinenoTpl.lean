import AasVerif.Model.Text
/-!
Pieces of the f-string template of the location prefix in
`common.LinenoColumner.error_message` (the template itself is regenerated into `Gen/Lineno.lean`).
-/
namespace AasVerif.Lineno

inductive Piece where
  | lit (t : Text)   -- constant text
  | line             -- `{lineno}`: first component of `self.positions[start]`
  | col              -- `{column}`: second component of `self.positions[start]`
  deriving DecidableEq, Repr

end AasVerif.Lineno
