import AasVerif.Model.Revm
/-!
The clean compositional form of the regex → VM compiler (DESIGN.md 6.1): no labels, no
no-ops, every fragment is emitted for a known start address `base` with absolute targets.
`Lemmas/RevmEq` proves that `translate` (fresh labels, relabelling, no-op removal) yields
exactly this program; `Lemmas/RevmSem` proves the fragment invariant on this form.
The driver exposes it (`compile`) so that the equality is also cross-checked dynamically.
-/
namespace AasVerif.Revm
open AasVerif.Retree

/-- `k` consecutive copies of a fragment of size `sz`. -/
def repAt (f : Nat → Program) (sz : Nat) : Nat → Nat → Program
  | 0, _ => []
  | k + 1, base => f base ++ repAt f sz k (base + sz)

/-- `k` nested optional copies, all leaving to `final`. -/
def optAt (f : Nat → Program) (sz : Nat) (final : Nat) : Nat → Nat → Program
  | 0, _ => []
  | k + 1, base => .split (base + 1) final :: (f (base + 1) ++ optAt f sz final k (base + 1 + sz))

def quantSize (sz : Nat) (q : Quant) : Nat :=
  if q.min = 1 ∧ q.max = some 1 then sz
  else match q.max with
    | some mx => q.min * sz + (mx - q.min) * (sz + 1)
    | none => if q.min = 0 then sz + 2 else q.min * sz + 1

def quantAt (f : Nat → Program) (sz : Nat) (q : Quant) (base : Nat) : Program :=
  if q.min = 1 ∧ q.max = some 1 then f base
  else match q.max with
    | some mx =>
      repAt f sz q.min base
        ++ optAt f sz (base + q.min * sz + (mx - q.min) * (sz + 1)) (mx - q.min) (base + q.min * sz)
    | none =>
      if q.min = 0 then .split (base + 1) (base + sz + 2) :: (f (base + 1) ++ [.jump base])
      else
        let b := base + (q.min - 1) * sz
        repAt f sz (q.min - 1) base ++ (f b ++ [.split b (b + sz + 1)])

def pureRange (r : Rng) : Range :=
  ⟨r.start.code, match r.stop with | none => r.start.code | some e => e.code⟩

mutual
  def sizeV : Value → Nat
    | .group u => sizeU u
    | .char _ => 1
    | .set _ _ => 1
    | .fv _ => 0
    | .sym .start => 0
    | .sym .stop => 1
    | .sym .dot => 1
  def sizeT : Term → Nat
    | .mk v none => sizeV v
    | .mk v (some q) => quantSize (sizeV v) q
  def sizeTs : List Term → Nat
    | [] => 0
    | t :: ts => sizeT t + sizeTs ts
  def sizeC : Concat → Nat
    | .mk ts => sizeTs ts
  /-- size of the code for the uniates of a union with at least two uniates -/
  def sizeCs : List Concat → Nat
    | [] => 0
    | [c] => sizeC c
    | c :: c' :: cs => sizeC c + 2 + sizeCs (c' :: cs)
  def sizeU : Union → Nat
    | .mk us => sizeCs us
end

mutual
  def compV : Value → Nat → Program
    | .group u, base => compU u base
    | .char c, _ => [.char c.code]
    | .set compl rs, _ =>
      let xs := sortRanges (rs.map pureRange)
      [if compl then .notSet xs else .set xs]
    | .fv _, _ => []
    | .sym .start, _ => []
    | .sym .stop, _ => [.atEnd]
    | .sym .dot, _ => [.any]
  def compT : Term → Nat → Program
    | .mk v none, base => compV v base
    | .mk v (some q), base => quantAt (compV v) (sizeV v) q base
  def compTs : List Term → Nat → Program
    | [], _ => []
    | t :: ts, base => compT t base ++ compTs ts (base + sizeT t)
  def compC : Concat → Nat → Program
    | .mk ts, base => compTs ts base
  def compCs (final : Nat) : List Concat → Nat → Program
    | [], _ => []
    | [c], base => compC c base
    | c :: c' :: cs, base =>
      .split (base + 1) (base + sizeC c + 2) ::
        (compC c (base + 1) ++ .jump final :: compCs final (c' :: cs) (base + sizeC c + 2))
  def compU : Union → Nat → Program
    | .mk us, base => compCs (base + sizeCs us) us base
end

/-- The whole program for an anchored pattern. -/
def compileTop (r : Regex) : Program :=
  match r with
  | .mk (.mk ts :: _) => compTs (bodyTerms ts) 0 ++ [.matched]
  | _ => [.matched]

end AasVerif.Revm
