import AasVerif.Model.Text
/-!
Order-normalisation steps of the two schema generators (C22).

* `jsonschema/main.py:generate`
    - `definition["enum"] = sorted(literal.value for literal in enumeration.literals)`
    - `model_types = sorted(naming.json_model_type(cls.name) for cls in … if …)`
    - `schema["definitions"] = OrderedDict([(name, definitions_mapping[name])
                                            for name in sorted(definitions_mapping.keys())])`
* `xsd/main.py:_sort_by_tags_and_names_in_place`
    - the children of the root are distributed over five lists by tag (an `if/elif` chain),
      each list is sorted **in place** with `list.sort(key=lambda elt: elt.attrib.get("name", ""))`,
      the lists are concatenated, `assert len(children) == len(root)`.

Python's `sorted`/`list.sort` is a *stable* sort and, with `key=`, compares only the keys.
Python compares `str` lexicographically by code point, a proper prefix being smaller; on
`Text = List Nat` this is `tle`.  `isort` is the stable insertion sort (structural recursion,
so concrete instances reduce by `decide`); sortedness + permutation + stability
(`Props.C22.sortBy_stable`) determine the result of any stable sort uniquely, which is what
ties `isort` to CPython's timsort (validated by correspondence on lists with ties).
-/
namespace AasVerif.SortedEmit

/-- Python `a <= b` on `str` (code points). -/
def tle : Text → Text → Bool
  | [], _ => true
  | _ :: _, [] => false
  | a :: as, b :: bs => decide (a < b) || (a == b && tle as bs)

/-- Insert `x` before the first element that is not smaller (keeps `x` in front of its ties). -/
def ins {α : Type} (le : α → α → Bool) (x : α) : List α → List α
  | [] => [x]
  | y :: ys => if le x y then x :: y :: ys else y :: ins le x ys

/-- Stable insertion sort. -/
def isort {α : Type} (le : α → α → Bool) : List α → List α
  | [] => []
  | x :: xs => ins le x (isort le xs)

/-- `sorted(l, key=key)` / `l.sort(key=key)`. -/
def sortBy {α : Type} (key : α → Text) (l : List α) : List α :=
  isort (fun a b => tle (key a) (key b)) l

/-- `sorted(l)` for a list of `str`. -/
def sortTexts (l : List Text) : List Text := sortBy id l

/-! ### JSON schema -/

/-- The `definitions` dict in insertion order. A Python dict has pairwise distinct keys;
that invariant is the hypothesis `(m.map Prod.fst).Nodup` of the theorems. -/
abbrev Dict (V : Type) := List (Text × V)

/-- `[(name, mapping[name]) for name in sorted(mapping.keys())]`;
`mapping[name]` raising `KeyError` is the `none` outcome. -/
def emitDefinitions {V : Type} (m : Dict V) : Option (Dict V) :=
  (sortTexts (m.map Prod.fst)).mapM (fun k => (m.lookup k).map (fun v => (k, v)))

/-! ### XSD -/

/-- A child of the schema root: tag, optional `name` attribute, and the rest (an identity). -/
structure Elt where
  tag : Text
  name : Option Text
  uid : Nat
  deriving DecidableEq, Repr

/-- `elt.attrib.get("name", "")` -/
def nameKey (e : Elt) : Text := e.name.getD []

/-- `"xs:group"` -/
def xsGroup : Text := [120, 115, 58, 103, 114, 111, 117, 112]
/-- `"xs:simpleType"` -/
def xsSimpleType : Text := [120, 115, 58, 115, 105, 109, 112, 108, 101, 84, 121, 112, 101]
/-- `"xs:complexType"` -/
def xsComplexType : Text := [120, 115, 58, 99, 111, 109, 112, 108, 101, 120, 84, 121, 112, 101]
/-- `"xs:element"` -/
def xsElement : Text := [120, 115, 58, 101, 108, 101, 109, 101, 110, 116]

/-- The five lists of `_sort_by_tags_and_names_in_place`. -/
structure Buckets where
  groups : List Elt
  simpleTypes : List Elt
  complexTypes : List Elt
  miscellaneous : List Elt
  elements : List Elt
  deriving DecidableEq, Repr

/-- The `for child in root: if child.tag == … elif …` loop (appending keeps document order). -/
def classify : List Elt → Buckets
  | [] => ⟨[], [], [], [], []⟩
  | e :: es =>
    let b := classify es
    if e.tag = xsGroup then { b with groups := e :: b.groups }
    else if e.tag = xsSimpleType then { b with simpleTypes := e :: b.simpleTypes }
    else if e.tag = xsComplexType then { b with complexTypes := e :: b.complexTypes }
    else if e.tag = xsElement then { b with elements := e :: b.elements }
    else { b with miscellaneous := e :: b.miscellaneous }

/-- The list `[groups, simple_types, complex_types, miscellaneous, elements]` that is sorted. -/
def Buckets.toList (b : Buckets) : List (List Elt) :=
  [b.groups, b.simpleTypes, b.complexTypes, b.miscellaneous, b.elements]

/-- `children = groups + simple_types + complex_types + elements + miscellaneous`
after sorting each list by `nameKey`. -/
def xsdChildren (root : List Elt) : List Elt :=
  let b := classify root
  sortBy nameKey b.groups ++ sortBy nameKey b.simpleTypes ++ sortBy nameKey b.complexTypes
    ++ sortBy nameKey b.elements ++ sortBy nameKey b.miscellaneous

/-- `_sort_by_tags_and_names_in_place`: `none` is the failing `assert len(children) == len(root)`. -/
def xsdSort (root : List Elt) : Option (List Elt) :=
  let children := xsdChildren root
  if children.length = root.length then some children else none

end AasVerif.SortedEmit
