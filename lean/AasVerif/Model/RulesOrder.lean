import AasVerif.Model.Rules
/-!
# C06 — stage 6 over the members in SOURCE order

`parse.Class.methods` holds the functions of a class body in source order, `__init__` included at the place where it is
written; the abstract `Cls` keeps the constructor apart (`ctor`) and `methods` lists the other functions.  Here the loop
of `intermediate._hierarchy.map_symbol_table_to_ontology` over the members of the ancestors (the dictionaries
`observed_properties` / `observed_methods`) and over the own members is modelled for an ARBITRARY place of `__init__`
among the functions of every class: `initAt n` is the number of methods written before `__init__` in the class named `n`.
`Props/C06.lean` proves that the place does not matter (`stage6_source_order_free`): the errors are those of
`Rules.stage6` for every `initAt`, which is why the abstract meta-model does not carry the member order.
-/
namespace AasVerif.Rules
open AasVerif

/-- `"__init__"` -/
def initName : Text := [95, 95, 105, 110, 105, 116, 95, 95]

/-- The functions of the class body in source order: `__init__` (if the class has one) after the first `k` methods. -/
def Cls.sourceMethods (c : Cls) (k : Nat) : List Text :=
  match c.ctor with
  | none => c.methods
  | some _ => c.methods.take k ++ initName :: c.methods.drop k

/-- `for method in ancestor.methods: if method.name not in observed_methods: observed_methods[method.name] = ancestor`
— the dictionary as an association list `(method name, name of the ancestor)`. -/
def observe (owner : Text) : List (Text × Text) → List Text → List (Text × Text)
  | seen, [] => seen
  | seen, n :: ns => observe owner (if seen.any (fun e => e.1 == n) then seen else seen ++ [(n, owner)]) ns

/-- The dictionary `observed_methods` after the loop over all ancestors. -/
def observedMethods (initAt : Text → Nat) : List (Text × Text) → List Cls → List (Text × Text)
  | seen, [] => seen
  | seen, a :: as => observedMethods initAt (observe a.name seen (a.sourceMethods (initAt a.name))) as

/-- The loop over the own functions: `__init__` is skipped (`continue`), the others are looked up in both dictionaries. -/
def ownMethodErrors (obsM obsP : List Text) : List Text → List RuleId
  | [] => []
  | n :: ns =>
    (if n = initName then [] else if decide (n ∈ obsM) || decide (n ∈ obsP) then [RuleId.redeclaredMethod] else [])
      ++ ownMethodErrors obsM obsP ns

/-- Stage 6 as the implementation runs it, the members in source order. -/
def stage6Source (initAt : Text → Nat) (m : MM) : List RuleId :=
  m.classes.flatMap (fun c =>
    let ancs := ancestorClasses m.classes c
    let obsP := ancs.flatMap (·.propNames)
    let obsM := (observedMethods initAt [] ancs).map (·.1)
    report .inheritedClash (fun ab => clashing ab.1 ab.2) (ancestorPairs m.classes c)
    ++ report .redeclaredProperty (fun n => decide (n ∈ obsP) || decide (n ∈ obsM)) c.propNames
    ++ ownMethodErrors obsM obsP (c.sourceMethods (initAt c.name))
    ++ (if c.ctor.isNone then report .ctorMissingInherited ctorHasArgs ancs else []))

end AasVerif.Rules
