import AasVerif.Model.Text
/-!
# C30 — constants, constant sets and enumerations: front end and generated Python SDK

Executable model of

* `parse/_translate.py:_parse_constant_primitive` (the `isinstance(value, expected_type)` check),
  `_verify_symbol_table` ("Check dangling subsets in constant sets"),
* `intermediate/_translate.py:_to_constant_primitive`, `_to_constant_set_of_primitives`,
  `_to_constant_set_of_enumeration_literals`, `_resolve_subsets_in_constant_set_of_primitives`,
  `_resolve_subsets_in_constant_set_of_enumeration_literals`,
  `_second_pass_to_resolve_constant_subsets_in_place`,
* what the generated Python modules `constants`, `types` (enumerations) and `stringification`
  expose (`python/lib/_generate_constants.py`, `_generate_enum`, `_generate_stringification.py`)
  once CPython has evaluated them: set displays (first element of a `==`-class wins),
  `enum.Enum` aliasing (the FIRST member with a value is the member, later ones are aliases),
  the from-string `dict` display (the LAST entry with a key wins).

Values are what sits in `ast.Constant.value`: no negative number and no `bytearray` can be
written in a meta-model, `bytes` literals can (and are rejected).  A float is the opaque text of
its `repr` (never compared numerically; `-0.0` and `nan` can not be written, so `repr` equality
is `==` on the floats that can occur).  Identity of an enumeration literal object is
(enumeration name, literal name); identity of an enumeration is its name.

Every place where the Python raises is an explicit `crash` outcome.  Only core Lean.
-/
namespace AasVerif.SdkConst

abbrev Name := Text

/-- the primitive types of the meta-model (`PRIMITIVE_TYPES`) -/
inductive Prim
  | bool | int | float | str | bytearray
  deriving DecidableEq, Repr, Inhabited

/-- a Python constant as the `ast` module delivers it -/
inductive Val
  | bool (b : Bool)
  | int (n : Nat)
  | float (repr : Text)
  | str (t : Text)
  | bytes (b : List Nat)
  deriving DecidableEq, Repr, Inhabited

/-- `isinstance(value, <python type of t>)`; `bool` is a subclass of `int`, `bytes` is not a `bytearray` -/
def Val.isInstance : Val → Prim → Bool
  | .bool _, .bool => true
  | .bool _, .int => true
  | .int _, .int => true
  | .float _, .float => true
  | .str _, .str => true
  | _, _ => false

/-- `PYTHON_CONSTANT_TYPE_TO_PRIMITIVE_TYPE[type(value)]` (total on our values) -/
def Val.aType : Val → Prim
  | .bool _ => .bool
  | .int _ => .int
  | .float _ => .float
  | .str _ => .str
  | .bytes _ => .bytearray

/-- Canonical representative of the class of a value under Python `==`/`hash`, among values
that can meet in one set (`True == 1`, `False == 0`). -/
def Val.key : Val → Val
  | .bool b => .int (if b then 1 else 0)
  | v => v

/-- some element occurs twice -/
def hasDup {α : Type} [BEq α] : List α → Bool
  | [] => false
  | x :: xs => xs.contains x || hasDup xs

/-- `value in frozenset(values)` -/
def memKey (v : Val) (vs : List Val) : Bool := vs.any fun w => w.key == v.key

/-! ## The meta-model as written -/

inductive Const
  /-- `name: <declared> = constant_<declared>(value=<value>)` -/
  | prim (name : Name) (declared : Prim) (value : Val)
  /-- `name: Set[<item>] = constant_set(values=[…], superset_of=[…])`, `item` a primitive type -/
  | primSet (name : Name) (item : Prim) (values : List Val) (supersetOf : List Name)
  /-- `name: Set[<enum>] = constant_set(values=[<enum>.<lit>, …], superset_of=[…])` -/
  | enumSet (name : Name) (enum : Name) (values : List Name) (supersetOf : List Name)
  deriving DecidableEq, Repr, Inhabited

def Const.name : Const → Name
  | .prim n _ _ => n | .primSet n _ _ _ => n | .enumSet n _ _ _ => n

def Const.supersetOf : Const → List Name
  | .prim _ _ _ => [] | .primSet _ _ _ s => s | .enumSet _ _ _ s => s

structure EnumDecl where
  name : Name
  /-- (literal name, literal value) in declaration order -/
  literals : List (Name × Text)
  deriving DecidableEq, Repr, Inhabited

def EnumDecl.names (e : EnumDecl) : List Name := e.literals.map (·.1)
def EnumDecl.values (e : EnumDecl) : List Text := e.literals.map (·.2)

structure MM where
  enums : List EnumDecl
  /-- names of our types which are not enumerations (classes, constrained primitives) -/
  classes : List Name
  constants : List Const
  deriving DecidableEq, Repr, Inhabited

/-! ## The intermediate representation -/

inductive IConst
  | prim (name : Name) (aType : Prim) (value : Val)
  | primSet (name : Name) (aType : Prim) (literals : List Val) (subsets : List Name)
  | enumSet (name : Name) (enum : Name) (literals : List Name) (subsets : List Name)
  deriving DecidableEq, Repr, Inhabited

def IConst.name : IConst → Name
  | .prim n _ _ => n | .primSet n _ _ _ => n | .enumSet n _ _ _ => n

def IConst.subsets : IConst → List Name
  | .prim _ _ _ => [] | .primSet _ _ _ s => s | .enumSet _ _ _ s => s

def IConst.withSubsets : IConst → List Name → IConst
  | .prim n t v, _ => .prim n t v
  | .primSet n t l _, s => .primSet n t l s
  | .enumSet n e l _, s => .enumSet n e l s

inductive Err
  /-- parse: `Expected the value as <type>, but got <type>` -/
  | valueType (c : Name)
  /-- parse verification: `The subset … of the constant set … is dangling` -/
  | dangling (c s : Name)
  /-- parse verification: `… is not a constant set` -/
  | notASet (c s : Name)
  /-- parse verification: the item type of the set is neither a primitive nor one of our types -/
  | danglingType (c : Name)
  /-- `_to_constant_set_of_primitives`: literal `i` is not of the item type -/
  | literalType (c : Name) (i : Nat)
  /-- `_to_constant`: the item type is neither a primitive nor an enumeration -/
  | itemType (c : Name)
  /-- `_to_constant_set_of_enumeration_literals`: element `i` is not a literal of the enumeration -/
  | notALiteral (c : Name) (i : Nat)
  /-- second pass: `The subset with the name … could not be found` -/
  | subsetMissing (c s : Name)
  /-- second pass: `Expected a subset as a set of primitive values / enumeration literals` -/
  | subsetKind (c s : Name)
  /-- second pass: `Expected the subset … to be of the same primitive type / enumeration` -/
  | subsetType (c s : Name)
  /-- second pass: literal `i` of the subset `s` is not contained in the set `c` -/
  | notContained (c s : Name) (i : Nat)
  deriving DecidableEq, Repr, Inhabited

inductive Res (α : Type)
  | ok (a : α)
  | err (es : List Err)
  | crash (site : String)
  deriving Repr

/-! ### parse stage -/

/-- `_parse_constant_primitive`: `isinstance(value_arg_node.value, expected_type)` -/
def parseConst : Const → List Err
  | .prim n d v => if v.isInstance d then [] else [.valueType n]
  | _ => []

def findConst (cs : List Const) (n : Name) : Option Const := cs.find? fun c => c.name == n

/-- `_verify_symbol_table`, region "Check dangling subsets in constant sets" -/
def verifySubsetsOf (cs : List Const) (c : Const) : List Err :=
  c.supersetOf.flatMap fun s =>
    match findConst cs s with
    | none => [.dangling c.name s]
    | some (.prim _ _ _) => [.notASet c.name s]
    | some _ => []

def parseVerify (cs : List Const) : List Err := cs.flatMap (verifySubsetsOf cs)

/-- `_verify_symbol_table`, region "Check type annotations": the items type of a constant set -/
def verifyItemTypes (ourTypes : List Name) (cs : List Const) : List Err :=
  cs.flatMap fun c =>
    match c with
    | .enumSet n e _ _ => if ourTypes.contains e then [] else [.danglingType n]
    | _ => []

/-! ### first pass of the intermediate stage -/

def findEnum (es : List EnumDecl) (n : Name) : Option EnumDecl := es.find? fun e => e.name == n

/-- indices `i` of `xs` where `bad xs[i]` -/
def badIndices {α : Type} (bad : α → Bool) (xs : List α) (mk : Nat → Err) (start : Nat := 0) : List Err :=
  match xs with
  | [] => []
  | x :: rest => (if bad x then [mk start] else []) ++ badIndices bad rest mk (start + 1)

/-- `_to_constant`; the crash site is the `@ensure` of `ConstantSetOfEnumerationLiterals.__init__`
(`len(self.literals) == len(self.literal_id_set)`) -/
def toIConst (enums : List EnumDecl) : Const → Res IConst
  | .prim n _ v => .ok (.prim n v.aType v)
  | .primSet n t vs ss =>
    let errs := badIndices (fun v => !v.isInstance t) vs (.literalType n)
    if errs.isEmpty then .ok (.primSet n t vs ss) else .err errs
  | .enumSet n e ls ss =>
    match findEnum enums e with
    | none => .err [.itemType n]
    | some ed =>
      let errs := badIndices (fun l => !ed.names.contains l) ls (.notALiteral n)
      if !errs.isEmpty then .err errs
      else if hasDup ls then .crash "ConstantSetOfEnumerationLiterals.__init__"
      else .ok (.enumSet n e ls ss)

/-- the loop of `translate` over `parsed_symbol_table.constants`: an exception propagates at once,
errors are collected -/
def firstPass (enums : List EnumDecl) : List Const → Res (List IConst)
  | [] => .ok []
  | c :: rest =>
    match toIConst enums c with
    | .crash s => .crash s
    | .err es =>
      match firstPass enums rest with
      | .crash s => .crash s
      | .err es' => .err (es ++ es')
      | .ok _ => .err es
    | .ok ic =>
      match firstPass enums rest with
      | .crash s => .crash s
      | .err es' => .err es'
      | .ok ics => .ok (ic :: ics)

/-! ### second pass: `_resolve_subsets_in_constant_set_of_*` -/

/-- `symbol_table.constants_by_name.get(name, None)` -/
def lookup (table : List IConst) (n : Name) : Option IConst := table.find? fun c => c.name == n

/-- One iteration of `for placeholder in constant_set.subsets` in
`_resolve_subsets_in_constant_set_of_primitives`: (is the subset appended, errors appended). -/
def stepPrim (table : List IConst) (c : Name) (aType : Prim) (lits : List Val) (s : Name) : Bool × List Err :=
  match lookup table s with
  | none => (false, [.subsetMissing c s])
  | some (.primSet _ t' lits' _) =>
    if t' != aType then (false, [.subsetType c s])
    else (true, badIndices (fun l => !memKey l lits) lits' (.notContained c s))
  | some _ => (false, [.subsetKind c s])

/-- the same for `_resolve_subsets_in_constant_set_of_enumeration_literals` -/
def stepEnum (table : List IConst) (c : Name) (enum : Name) (lits : List Name) (s : Name) : Bool × List Err :=
  match lookup table s with
  | none => (false, [.subsetMissing c s])
  | some (.enumSet _ e' lits' _) =>
    if e' != enum then (false, [.subsetType c s])
    else (true, badIndices (fun l => !lits.contains l) lits' (.notContained c s))
  | some _ => (false, [.subsetKind c s])

/-- the loop: the lists `subsets` and `errors` grow side by side -/
def resolveLoop (step : Name → Bool × List Err) : List Name → List Name × List Err
  | [] => ([], [])
  | s :: rest =>
    let (appended, errs) := step s
    let (subs, errs') := resolveLoop step rest
    ((if appended then s :: subs else subs), errs ++ errs')

/-- `if len(errors) > 0: return None, errors` / `return subsets, None` -/
def finish (r : List Name × List Err) : Except (List Err) (List Name) :=
  if r.2.isEmpty then .ok r.1 else .error r.2

def resolveSubsets (table : List IConst) : IConst → Except (List Err) (List Name)
  | .prim _ _ _ => .ok []
  | .primSet n t lits ss => finish (resolveLoop (stepPrim table n t lits) ss)
  | .enumSet n e lits ss => finish (resolveLoop (stepEnum table n e lits) ss)

/-- The two `@ensure`s of the resolvers evaluated on a result ("All the subsets resolved",
"Every subset is a true subset"); a `false` here would be an `icontract.ViolationError`. -/
def ensuresHold (table : List IConst) (c : IConst) (result : List Name) : Bool :=
  result == c.subsets &&
  result.all fun s =>
    match c, lookup table s with
    | .primSet _ _ lits _, some (.primSet _ _ lits' _) => lits'.all fun l => memKey l lits
    | .enumSet _ _ lits _, some (.enumSet _ _ lits' _) => lits'.all fun l => lits.contains l
    | _, _ => false

/-- `_second_pass_to_resolve_constant_subsets_in_place`: the collected errors -/
def secondPass (table : List IConst) : List Err :=
  table.flatMap fun c =>
    match resolveSubsets table c with
    | .ok _ => []
    | .error es => es

/-! ### enumerations in the front end -/

/-- `parse.Enumeration.__init__` ("Literal map consistent on name") and
`intermediate.Enumeration.__init__` ("Literal map by value complete") raise
`icontract.ViolationError` on repeated literal names / values. -/
def enumNamesUnique (e : EnumDecl) : Bool := !hasDup e.names
def enumValuesUnique (e : EnumDecl) : Bool := !hasDup e.values

inductive Stage
  | parse | verify | translate
  deriving DecidableEq, Repr, Inhabited

inductive Verdict
  | accepted (table : List IConst)
  | rejected (stage : Stage) (errs : List Err)
  | crash (site : String)
  deriving Repr

def parseErrs (mm : MM) : List Err := mm.constants.flatMap parseConst

def verifyErrs (mm : MM) : List Err :=
  parseVerify mm.constants ++ verifyItemTypes (mm.enums.map (·.name) ++ mm.classes) mm.constants

/-- The front end, as far as constants, constant sets and enumerations are concerned. -/
def frontEnd (mm : MM) : Verdict :=
  if !mm.enums.all enumNamesUnique then .crash "parse.Enumeration.__init__" else
  if !(parseErrs mm).isEmpty then .rejected .parse (parseErrs mm) else
  if !(verifyErrs mm).isEmpty then .rejected .verify (verifyErrs mm) else
  if !mm.enums.all enumValuesUnique then .crash "intermediate.Enumeration.__init__" else
  match firstPass mm.enums mm.constants with
  | .crash s => .crash s
  | .err es => .rejected .translate es
  | .ok table =>
    if !(secondPass table).isEmpty then .rejected .translate (secondPass table) else .accepted table

/-! ## The generated Python SDK after import -/

/-- A Python set display `{v₀, v₁, …}`: elements are inserted from the left, an element equal
(`==`) to one already present is dropped. -/
def pySet : List Val → List Val
  | [] => []
  | v :: rest => v :: (pySet rest).filter fun w => w.key != v.key

/-- The same for hashable atoms compared by `=` (enumeration members). -/
def pySetOf {α : Type} [BEq α] : List α → List α
  | [] => []
  | v :: rest => v :: (pySetOf rest).filter fun w => w != v

/-- `enum.Enum`: the member that `E.<name>` denotes — the first literal with the same value
(a later literal with a repeated value is an alias of it). -/
def canonical (e : EnumDecl) (lit : Name × Text) : Name :=
  match e.literals.find? fun l => l.2 == lit.2 with
  | some l => l.1
  | none => lit.1

/-- `list(E)`: the members (aliases are not members), as (name, value) -/
def enumMembersOf : List (Name × Text) → List (Name × Text)
  | [] => []
  | l :: rest => l :: (enumMembersOf rest).filter fun m => m.2 != l.2

def enumMembers (e : EnumDecl) : List (Name × Text) := enumMembersOf e.literals

/-- `E.<name>` for a declared literal name -/
def memberOf (e : EnumDecl) (name : Name) : Option Name :=
  (e.literals.find? fun l => l.1 == name).map (canonical e)

/-- `member.value` -/
def enumToStr (e : EnumDecl) (member : Name) : Option Text :=
  (e.literals.find? fun l => l.1 == member).map (·.2)

/-- the dict display `_E_FROM_STR = {value₀: E.L₀, value₁: E.L₁, …}` as association list in
source order -/
def fromStrMap (e : EnumDecl) : List (Text × Name) := e.literals.map fun l => (l.2, canonical e l)

/-- `_E_FROM_STR.get(text, None)`: the last entry with the key wins -/
def enumFromStr (e : EnumDecl) (text : Text) : Option Name :=
  ((fromStrMap e).reverse.find? fun kv => kv.1 == text).map (·.2)

/-- What a module attribute holds after `import`. -/
inductive Exposed
  | val (v : Val)
  | set (vs : List Val)
  | enumSet (enum : Name) (members : List Name)
  /-- the literal text did not evaluate: the module `constants` can not be imported -/
  | broken
  deriving DecidableEq, Repr, Inhabited

/-- all or nothing -/
def allSome {α : Type} : List (Option α) → Option (List α)
  | [] => some []
  | none :: _ => none
  | some a :: rest => (allSome rest).map (a :: ·)

/-- `rt v` is what CPython evaluates the literal text to, which the generator wrote for `v`
(`rt = dec ∘ enc` for the literal encoders of `python/common.py`: C19). Only `constant.literals`
are emitted, never the subsets. -/
def exposed (rt : Val → Option Val) (enums : List EnumDecl) : IConst → Exposed
  | .prim _ _ v => match rt v with | some w => .val w | none => .broken
  | .primSet _ _ lits _ => match allSome (lits.map rt) with | some ws => .set (pySet ws) | none => .broken
  | .enumSet _ e lits _ =>
    match findEnum enums e with
    | none => .broken
    | some ed => match allSome (lits.map (memberOf ed)) with
      | some ms => .enumSet e (pySetOf ms)
      | none => .broken

def constants (rt : Val → Option Val) (enums : List EnumDecl) (table : List IConst) : List (Name × Exposed) :=
  table.map fun c => (c.name, exposed rt enums c)

/-! ## The skeleton of the source the model was written against (compared with `Gen.SdkConst`) -/

/- Local variables are replaced by role names (`SUBSET` = the looked-up constant, `LITERAL` = the
loop variable over literals, `ERRORS`/`SUBSETS` = the two result lists), so renaming a local is
not a change. -/

def expectedPrimGuards : List String :=
  ["SUBSET is None",
   "not isinstance(SUBSET, ConstantSetOfPrimitives)",
   "SUBSET.a_type is not constant_set.a_type"]

def expectedEnumGuards : List String :=
  ["SUBSET is None",
   "not isinstance(SUBSET, ConstantSetOfEnumerationLiterals)",
   "SUBSET.enumeration is not constant_set.enumeration"]

def expectedPrimMembership : String := "LITERAL.value not in constant_set.literal_value_set"
def expectedEnumMembership : String := "id(LITERAL) not in constant_set.literal_id_set"
def expectedFinal : List String := ["len(ERRORS) > 0", "(None, ERRORS)", "(SUBSETS, None)"]
/-- only `constant.literals` are written, never the subsets -/
def expectedEmittedLoops : List String := ["enumerate(constant.literals)", "enumerate(constant.literals)"]
/-- the key of an entry of the from-string map, and `return {map}.get(text, None)` -/
def expectedFromStrEntry : List String := ["python_common.string_literal(LITERAL.value)"]
def expectedFromStrLookup : String := ".get(text, None)"
/-- `{literal_name} = {repr(literal.value)}` -/
def expectedEnumMemberLine : List String := ["repr(LITERAL.value)"]

end AasVerif.SdkConst
