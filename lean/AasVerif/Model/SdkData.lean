import AasVerif.Model.Text
/-!
# Abstract meta-model for DATA of a generated SDK (shared, self-contained)

What the generators of the SDK (de)serializers consume from `intermediate.SymbolTable`,
nothing more:

* a class = name, abstract/concrete, `serialization.with_model_type`, the ORDERED list of
  ALL its properties (`cls.properties`: inherited ones first, as resolved by the
  intermediate stage — C05 owns that resolution), the list of its concrete descendants
  (`cls.concrete_descendants`, in the generator's iteration order);
* an enumeration = name + ordered literals (name, value);
* property types `prim | enum | cls | list | opt`  (constrained primitives are already
  replaced by their constrainee: that is what every (de)serializer does).

Values (`Val`) are what lives in the attributes of SDK objects.  An *instance* is
`Val.inst className fields` with `fields` aligned POSITIONALLY with `ClassDecl.props`.
`Val`/`Vals` are a plain mutual pair (no nested `List`) so that functions and theorems
recurse structurally.  Floats are opaque `repr` texts (never compared numerically), bytes
are `List Nat` with `< 256` demanded by `Conforms`, text is `List Nat` (code points; their range
`textOk` is NOT part of `Conforms`: no (de)serializer depends on it).

Only core Lean; no Mathlib.  Namespace `AasVerif.Sdk`.
-/
namespace AasVerif.Sdk

abbrev Name := Text

inductive Prim
  | bool | int | float | str | bytes
  deriving DecidableEq, Repr, Inhabited

inductive Ty
  | prim (p : Prim)
  | enum (e : Name)
  | cls (c : Name)
  | list (item : Ty)
  | opt (t : Ty)
  deriving DecidableEq, Repr, Inhabited

structure PropDecl where
  name : Name
  ty : Ty
  deriving DecidableEq, Repr, Inhabited

structure ClassDecl where
  name : Name
  abstract : Bool
  withModelType : Bool
  /-- all properties incl. inherited ones, in the order of `cls.properties` -/
  props : List PropDecl
  /-- names of the concrete descendants, in the order of `cls.concrete_descendants` -/
  concreteDescendants : List Name
  deriving DecidableEq, Repr, Inhabited

structure EnumDecl where
  name : Name
  /-- (literal name, literal value) in declaration order -/
  literals : List (Name × Text)
  deriving DecidableEq, Repr, Inhabited

structure MM where
  classes : List ClassDecl
  enums : List EnumDecl
  deriving DecidableEq, Repr, Inhabited

def MM.findClass (mm : MM) (c : Name) : Option ClassDecl :=
  mm.classes.find? (fun d => d.name == c)

def MM.findEnum (mm : MM) (e : Name) : Option EnumDecl :=
  mm.enums.find? (fun d => d.name == e)

/-- `true` iff the type sits directly under an `Optional` -/
def Ty.isOpt : Ty → Bool
  | .opt _ => true
  | _ => false

/-- `intermediate.beneath_optional` -/
def Ty.beneathOpt : Ty → Ty
  | .opt t => t
  | t => t

mutual
  inductive Val
    | none
    | bool (b : Bool)
    | int (i : Int)
    | float (repr : Text)
    | str (s : Text)
    | bytes (bs : List Nat)
    | enum (e : Name) (lit : Name)
    | list (items : Vals)
    | inst (cls : Name) (fields : Vals)
  inductive Vals
    | nil
    | cons (v : Val) (vs : Vals)
end

mutual
  def Val.beq : Val → Val → Bool
    | .none, .none => true
    | .bool a, .bool b => a == b
    | .int a, .int b => a == b
    | .float a, .float b => a == b
    | .str a, .str b => a == b
    | .bytes a, .bytes b => a == b
    | .enum e l, .enum e' l' => e == e' && l == l'
    | .list a, .list b => Vals.beq a b
    | .inst c a, .inst c' b => c == c' && Vals.beq a b
    | _, _ => false
  def Vals.beq : Vals → Vals → Bool
    | .nil, .nil => true
    | .cons a as, .cons b bs => Val.beq a b && Vals.beq as bs
    | _, _ => false
end

def Vals.toList : Vals → List Val
  | .nil => []
  | .cons v vs => v :: vs.toList

def Vals.ofList : List Val → Vals
  | [] => .nil
  | v :: vs => .cons v (Vals.ofList vs)

def Vals.length : Vals → Nat
  | .nil => 0
  | .cons _ vs => vs.length + 1

theorem Vals.ofList_toList : (vs : Vals) → Vals.ofList vs.toList = vs
  | .nil => rfl
  | .cons v vs => by simp [Vals.toList, Vals.ofList, Vals.ofList_toList vs]

theorem Vals.toList_ofList (l : List Val) : (Vals.ofList l).toList = l := by
  induction l with
  | nil => rfl
  | cons v vs ih => simp [Vals.toList, Vals.ofList, ih]

/-- code points of a Python `str` -/
def textOk (t : Text) : Bool := t.all (fun c => c < 0x110000)

def bytesOk (bs : List Nat) : Bool := bs.all (fun b => b < 256)

/-
`conforms mm ty v`: the value `v` is a legal content of an attribute declared with type `ty`
(what "built through the generated SDK, type-conforming" means):
`None` only under `Optional`; an instance is of a CONCRETE class that is the declared class
or one of its concrete descendants, and its fields conform positionally to that class'
properties; enumeration literals exist; list items conform to the item type.
-/
mutual
  def conforms (mm : MM) : Ty → Val → Bool
    | .opt _, .none => true
    | .opt t, v => conformsNN mm t v
    | t, v => conformsNN mm t v
  /-- non-`None` part -/
  def conformsNN (mm : MM) : Ty → Val → Bool
    | .prim .bool, .bool _ => true
    | .prim .int, .int _ => true
    | .prim .float, .float _ => true
    | .prim .str, .str _ => true
    | .prim .bytes, .bytes bs => bytesOk bs
    | .enum e, .enum e' l =>
      e == e' && (match mm.findEnum e with
        | some ed => ed.literals.any (fun p => p.1 == l)
        | Option.none => false)
    | .cls c, .inst d fs =>
      (match mm.findClass c with
        | some cd => d == c || cd.concreteDescendants.contains d
        | Option.none => false)
      && (match mm.findClass d with
        | some dd => !dd.abstract && conformsFields mm dd.props fs
        | Option.none => false)
    | .list t, .list vs => conformsAll mm t vs
    | _, _ => false
  def conformsFields (mm : MM) : List PropDecl → Vals → Bool
    | [], .nil => true
    | p :: ps, .cons v vs => conforms mm p.ty v && conformsFields mm ps vs
    | _, _ => false
  def conformsAll (mm : MM) (t : Ty) : Vals → Bool
    | .nil => true
    | .cons v vs => conformsNN mm t v && conformsAll mm t vs
end

/-- A conforming top-level instance of the meta-model. -/
def Conforms (mm : MM) (i : Val) : Prop :=
  ∃ c fs, i = .inst c fs ∧ conformsNN mm (.cls c) i = true

/-- class name of an instance value -/
def Val.classOf : Val → Name
  | .inst c _ => c
  | _ => []

end AasVerif.Sdk
