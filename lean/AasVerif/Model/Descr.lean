import AasVerif.Model.Text
import AasVerif.Model.PyStr
/-!
Models of the description/comment wrappers of the six SDK targets
(`<target>/description.py`): `python.docstring`, `python.documentation_comment`,
`java.documentation_comment`, `typescript.documentation_comment`,
`golang.documentation_comment`, `cpp.documentation_comment`, and of the two text
functions of `csharp/description.py` (`_ToTextDirectivesVisitor.visit_text` and the
`///` line wrapping of `_generate_summary_remarks*`).

All string constants (prefixes, replacement pairs, limits) are parameters; the
instances with the constants extracted from the source live in `Gen/Descr.lean`.

Every wrapper ends in `Stripped(...)`, an icontract `@require`: that is the crash
site `stripped`.  `_slash_slash_slash_line` has `@require "\n" not in line`: crash site
`sss-newline`.
-/
namespace AasVerif.Descr

inductive Res where
  | ok (t : Text)
  | crash (site : String)
deriving DecidableEq, Repr

/-- Python `str.replace(old, new)` for a non-empty `old`: leftmost, non-overlapping.
`skip` counts the characters of a match that are still to be dropped. -/
def replaceAux (old new : Text) : Nat → Text → Text
  | _, [] => []
  | skip + 1, _ :: r => replaceAux old new skip r
  | 0, c :: r =>
    if old.isPrefixOf (c :: r) then new ++ replaceAux old new (old.length - 1) r
    else c :: replaceAux old new 0 r

def replace (old new : Text) (t : Text) : Text := replaceAux old new 0 t

/-- `text.replace(a1, b1).replace(a2, b2)…` -/
def applyRepls : List (Text × Text) → Text → Text
  | [], t => t
  | (a, b) :: rs, t => applyRepls rs (replace a b t)

/-- `text.splitlines()` (CPython 3.12), without the line ends. -/
def splitLines : Text → List Text
  | [] => []
  | 13 :: 10 :: rest => [] :: splitLines rest
  | c :: rest =>
    if PyStr.isBreak c then [] :: splitLines rest
    else match splitLines rest with
      | [] => [[c]]
      | l :: ls => (c :: l) :: ls

/-- `"\n".join(lines)` -/
def joinNl : List Text → Text
  | [] => []
  | [l] => l
  | l :: ls => l ++ 10 :: joinNl ls

def endsWith (suffix t : Text) : Bool := suffix.reverse.isPrefixOf t.reverse

def isWs3 (c : Nat) : Bool := c == 10 || c == 32 || c == 9

/-- `common.is_stripped` -/
def isStripped (t : Text) : Bool :=
  !(match t.head? with | some c => isWs3 c | none => false) &&
  !(match t.getLast? with | some c => isWs3 c | none => false)

/-- `Stripped(out)` -/
def stripped (out : Text) : Res := if isStripped out then .ok out else .crash "stripped"

/-- The line-comment wrappers (Python `#:`, Go `//`, C++ `///`):
`empty` for a blank line, otherwise `pre ++ fix line`. -/
def lineCommentText (empty pre : Text) (fix : Text → Text) (t : Text) : Text :=
  joinNl ((splitLines t).map fun l => if PyStr.hasNonSpace l then pre ++ fix l else empty)

def lineComment (empty pre : Text) (fix : Text → Text) (t : Text) : Res :=
  stripped (lineCommentText empty pre fix t)

/-- `line.rstrip(chars)` -/
def rstripSet (chars : Text) (l : Text) : Text := (l.reverse.dropWhile (fun c => chars.contains c)).reverse

/-- The C++ line fix: a backslash before the trailing white space is replaced by `repl`. -/
def cppFixLine (trail repl : Text) (l : Text) : Text :=
  let w := rstripSet trail l
  if endsWith [92] w then w.dropLast ++ repl ++ l.drop w.length else l

/-- The block-comment wrappers (Java, TypeScript). -/
def blockCommentText (repls : List (Text × Text)) (open_ linePre lineSuf emptyLine close_ : Text)
    (t : Text) : Text :=
  open_ ++ (((splitLines (applyRepls repls t)).map fun l =>
    if PyStr.hasNonSpace l then linePre ++ l ++ lineSuf else emptyLine).flatten) ++ close_

def blockComment (repls : List (Text × Text)) (open_ linePre lineSuf emptyLine close_ : Text)
    (t : Text) : Res :=
  stripped (blockCommentText repls open_ linePre lineSuf emptyLine close_ t)

/-- `python.description.docstring` -/
def docstringText (repls : List (Text × Text)) (limit : Nat) (noShortSuffix : Text)
    (short long : Text × Text) (t : Text) : Text :=
  let e := applyRepls repls t
  if 3 + e.length + 3 < limit ∧ endsWith noShortSuffix e = false then short.1 ++ e ++ short.2
  else long.1 ++ e ++ long.2

def docstring (repls : List (Text × Text)) (limit : Nat) (noShortSuffix : Text)
    (short long : Text × Text) (t : Text) : Res :=
  stripped (docstringText repls limit noShortSuffix short long t)

/-! ### C# -/

def inRanges (ranges : List (Nat × Nat)) (c : Nat) : Bool := ranges.any fun r => r.1 ≤ c && c ≤ r.2

/-- `_NON_XML_CHARACTER_RE.sub(repl, content)`: the class is the complement of `ranges`. -/
def csSanitize (ranges : List (Nat × Nat)) (repl : Text) (t : Text) : Text :=
  t.flatMap fun c => if inRanges ranges c then [c] else repl

/-- `xml.sax.saxutils.escape` -/
def saxEscape (t : Text) : Text :=
  t.flatMap fun c =>
    if c = 38 then [38, 97, 109, 112, 59]
    else if c = 62 then [38, 103, 116, 59]
    else if c = 60 then [38, 108, 116, 59]
    else [c]

/-- `_ToTextDirectivesVisitor.visit_text` -/
def csVisitText (ranges : List (Nat × Nat)) (repl : Text) (t : Text) : Text :=
  saxEscape (csSanitize ranges repl t)

/-- `_slash_slash_slash_line` incl. its `@require`. -/
def sssLine (empty pre : Text) (l : Text) : Option Text :=
  if l.contains 10 then none else some (if l.length = 0 then empty else pre ++ l)

def sssAll (empty pre : Text) : List Text → Option (List Text)
  | [] => some []
  | l :: ls => match sssLine empty pre l, sssAll empty pre ls with
    | some x, some xs => some (x :: xs)
    | _, _ => none

/-- `Stripped("\n".join(_slash_slash_slash_line(line) for line in text.splitlines()))` -/
def csComment (empty pre : Text) (t : Text) : Res :=
  match sssAll empty pre (splitLines t) with
  | none => .crash "sss-newline"
  | some ls => stripped (joinNl ls)

end AasVerif.Descr
