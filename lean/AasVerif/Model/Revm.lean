import AasVerif.Model.Retree.Types
/-!
Model of `aas_core_codegen/intermediate/revm.py` (regex → program of the regex VM) and of
the generated C++ matcher (`cpp/lib/_generate_revm.py`, function `Match`).

* `Instr` — the instruction set (`InstructionChar … InstructionEnd`, `_InstructionNoop`).
* `transformRegex` … — `_Translator`, nested emission with fresh labels (`Tree`, state = `_next_label`);
  every `assert` / `raise` / `@require` on the way is a `Res.crash` site.
* `relabel` — `_relabel_in_place`, `removeNoops` — `_remove_noop_in_place`,
  `translate` — `revm.translate` followed by the in-order walk every client does
  (`_linearize` order = order of `_write_instructions_recursively`).
* `Step`/`accepts` — the documented thread semantics (docstrings of the C++ instruction structs).
* `runCpp` — the literal `Match` loop: two `ThreadList`s (`has_` bitmap + LIFO `items_`), per character
  loop, final drain.  `clr` says whether `ThreadList::Pop` resets the `has_` bit (it did before
  the fix; the value for the current tree is extracted into `Gen.Revm.popClearsHas`).
-/
namespace AasVerif.Revm
open AasVerif.Retree

inductive Res (α : Type) where
  | ok (a : α)
  | crash (site : String)
  deriving Repr, DecidableEq

/-- `revm.Range(first, last)` (code points). -/
structure Range where
  first : Nat
  last : Nat
  deriving DecidableEq, Repr, Inhabited

inductive Instr where
  | char (c : Nat)
  | set (rs : List Range)
  | notSet (rs : List Range)
  | any
  | matched
  | jump (t : Nat)
  | split (t1 t2 : Nat)
  | atEnd
  | noop
  deriving DecidableEq, Repr, Inhabited

def Instr.isNoop : Instr → Bool
  | .noop => true
  | _ => false

/-- `_Leaf(instruction, label)` -/
structure Leaf where
  instr : Instr
  label : Option Nat
  deriving DecidableEq, Repr, Inhabited

/-- `_Node(re_node, children)` / `_Leaf` (the `re_node` is only used for comments). -/
inductive Tree where
  | leaf (l : Leaf)
  | node (children : List Tree)
  deriving Repr, Inhabited

/-! ## Emission (`_Translator`) -/

/-- State monad over `_next_label` with crash. -/
abbrev Em (α : Type) := Nat → Res (α × Nat)

@[inline] def Em.pure {α} (a : α) : Em α := fun n => .ok (a, n)
@[inline] def Em.bind {α β} (m : Em α) (f : α → Em β) : Em β := fun n =>
  match m n with
  | .ok (a, n') => f a n'
  | .crash s => .crash s
@[inline] def Em.fail {α} (site : String) : Em α := fun _ => .crash site
/-- `_obtain_label` -/
@[inline] def fresh : Em Nat := fun n => .ok (n, n + 1)

instance : Monad Em where
  pure := Em.pure
  bind := Em.bind

def lf (i : Instr) (label : Option Nat := none) : Tree := .leaf ⟨i, label⟩

/-- `for _ in range(k): children.append(self.transform(node.value))` -/
def repeatEm (f : Em Tree) : Nat → Em (List Tree)
  | 0 => pure []
  | k + 1 => do
    let t ← f
    let ts ← repeatEm f k
    pure (t :: ts)

/-- The loop over `optional_count` in `transform_term`. -/
def optionalEm (f : Em Tree) (final : Nat) : Nat → Em (List Tree)
  | 0 => pure []
  | k + 1 => do
    let l1 ← fresh
    let t ← f
    let ts ← optionalEm f final k
    pure (lf (.split l1 final) :: lf .noop (some l1) :: t :: ts)

/-- `Range(first=Character(start), last=Character(end or start))`; `@require first <= last`. -/
def mkRange (r : Rng) : Res Range :=
  let last := match r.stop with | none => r.start.code | some e => e.code
  if r.start.code ≤ last then .ok ⟨r.start.code, last⟩ else .crash "ViolationError:Range"

def mkRanges : List Rng → Res (List Range)
  | [] => .ok []
  | r :: rs =>
    match mkRange r with
    | .crash s => .crash s
    | .ok x =>
      match mkRanges rs with
      | .crash s => .crash s
      | .ok xs => .ok (x :: xs)

/-- `check_ranges_sorted_and_non_overlapping(ranges) is None` -/
def rangesOk : List Range → Bool
  | a :: b :: rest => !(a.first ≥ b.last) && !(a.last ≥ b.first) && rangesOk (b :: rest)
  | _ => true

/-- `ranges.sort(key=lambda rng: rng.first)` (stable). -/
def sortRanges (rs : List Range) : List Range := rs.mergeSort (fun a b => a.first ≤ b.first)

def transformCharSet (compl : Bool) (rs : List Rng) : Em Tree := fun n =>
  match mkRanges rs with
  | .crash s => .crash s
  | .ok xs =>
    let xs := sortRanges xs
    if rangesOk xs then
      .ok (.node [lf (if compl then .notSet xs else .set xs)], n)
    else .crash "ViolationError:InstructionSet"

/-- The quantifier part of `transform_term`, given the translation `f` of `node.value`. -/
def transformQuantified (f : Em Tree) (q : Quant) : Em Tree :=
  if q.nonGreedy then Em.fail "AssertionError:non-greedy"
  else if q.min = 1 ∧ q.max = some 1 then f
  else
    match q.max with
    | some mx => do
      let reps ← repeatEm f q.min
      let optionalCount := mx - q.min
      if optionalCount > 0 then do
        let final ← fresh
        let opts ← optionalEm f final optionalCount
        pure (.node (reps ++ opts ++ [lf .noop (some final)]))
      else
        pure (.node reps)
    | none =>
      if q.min = 0 then do
        let l1 ← fresh
        let l2 ← fresh
        let final ← fresh
        let t ← f
        pure (.node [lf (.split l2 final) (some l1), lf .noop (some l2), t, lf (.jump l1), lf .noop (some final)])
      else do
        let reps ← repeatEm f (q.min - 1)
        let l1 ← fresh
        let final ← fresh
        let t ← f
        pure (.node (reps ++ [lf .noop (some l1), t, lf (.split l1 final), lf .noop (some final)]))

mutual
  def transformValue : Value → Em Tree
    | .group u => transformUnion u
    | .char c => pure (.node [lf (.char c.code)])
    | .set compl rs => transformCharSet compl rs
    | .fv _ => Em.fail "AssertionError:formatted-value"
    | .sym .start => Em.fail "AssertionError:start-anchor"
    | .sym .stop => pure (.node [lf .atEnd])
    | .sym .dot => pure (.node [lf .any])
  def transformTerm : Term → Em Tree
    | .mk v none => transformValue v
    | .mk v (some q) =>
      match v with
      | .fv _ => Em.fail "AssertionError:formatted-value"
      | _ => transformQuantified (transformValue v) q
  def transformTerms : List Term → Em (List Tree)
    | [] => pure []
    | t :: ts => do
      let x ← transformTerm t
      let xs ← transformTerms ts
      pure (x :: xs)
  def transformConcat : Concat → Em Tree
    | .mk [] => pure (.node [lf .noop])
    | .mk [t] => transformTerm t
    | .mk (t :: t' :: ts) => do
      let xs ← transformTerms (t :: t' :: ts)
      pure (.node xs)
  /-- The loop of `transform_union_expr` over at least two uniates. -/
  def transformUniates (final : Nat) : List Concat → Em (List Tree)
    | [] => pure []
    | [c] => do
      let t ← transformConcat c
      pure [t, lf .noop (some final)]
    | c :: c' :: cs => do
      let l0 ← fresh
      let l1 ← fresh
      let t ← transformConcat c
      let rest ← transformUniates final (c' :: cs)
      pure (lf (.split l0 l1) :: lf .noop (some l0) :: t :: lf (.jump final) :: lf .noop (some l1) :: rest)
  def transformUnion : Union → Em Tree
    | .mk [] => pure (.node [lf .noop])
    | .mk [c] => transformConcat c
    | .mk (c :: c' :: cs) => do
      let final ← fresh
      let xs ← transformUniates final (c :: c' :: cs)
      pure (.node xs)
end

/-! `_CheckForFormattedValue`, `_CheckForNonGreedyQuantifiers` -/
mutual
  def hasFvV : Value → Bool
    | .group u => hasFvU u
    | .fv _ => true
    | _ => false
  def hasFvT : Term → Bool
    | .mk v _ => hasFvV v
  def hasFvTs : List Term → Bool
    | [] => false
    | t :: ts => hasFvT t || hasFvTs ts
  def hasFvC : Concat → Bool
    | .mk ts => hasFvTs ts
  def hasFvCs : List Concat → Bool
    | [] => false
    | c :: cs => hasFvC c || hasFvCs cs
  def hasFvU : Union → Bool
    | .mk us => hasFvCs us
end

mutual
  def hasNonGreedyV : Value → Bool
    | .group u => hasNonGreedyU u
    | _ => false
  def hasNonGreedyT : Term → Bool
    | .mk v none => hasNonGreedyV v
    | .mk v (some q) => hasNonGreedyV v || q.nonGreedy
  def hasNonGreedyTs : List Term → Bool
    | [] => false
    | t :: ts => hasNonGreedyT t || hasNonGreedyTs ts
  def hasNonGreedyC : Concat → Bool
    | .mk ts => hasNonGreedyTs ts
  def hasNonGreedyCs : List Concat → Bool
    | [] => false
    | c :: cs => hasNonGreedyC c || hasNonGreedyCs cs
  def hasNonGreedyU : Union → Bool
    | .mk us => hasNonGreedyCs us
end

def termIsSym (t : Term) (k : SymKind) : Bool :=
  match t with
  | .mk (.sym k') _ => k == k'
  | _ => false

/-- `.*` as the penultimate term (`Symbol DOT`, quantifier minimum 0, no maximum; greediness not looked at). -/
def termIsDotStar : Term → Bool
  | .mk (.sym .dot) (some q) => q.min == 0 && q.max.isNone
  | _ => false

/-- The terms that `transform_regex` translates (the start anchor and, for a `.*$` suffix, the last two terms are skipped). -/
def bodyTerms (ts : List Term) : List Term :=
  let penultimate : Option Term := if ts.length ≥ 2 then ts[ts.length - 2]? else none
  match penultimate with
  | some t => if termIsDotStar t then (ts.drop 1).take (ts.length - 3) else ts.drop 1
  | none => ts.drop 1

/-- `transform_regex` -/
def transformRegex (r : Regex) : Em Tree :=
  -- the message for the non-anchored case is rendered eagerly; rendering asserts that there is no formatted value
  if hasFvU r then Em.fail "AssertionError:formatted-value" else
  match r with
  | .mk [] => Em.fail "NotImplementedError:not-anchored"
  | .mk (.mk [] :: _) => Em.fail "NotImplementedError:not-anchored"
  | .mk (.mk (t :: ts) :: us) =>
    let terms := t :: ts
    let last := terms.getLast?.getD t
    if !us.isEmpty || !termIsSym t .start || !termIsSym last .stop then Em.fail "NotImplementedError:not-anchored"
    else if hasNonGreedyU r then Em.fail "NotImplementedError:non-greedy"
    else do
      let children ← transformTerms (bodyTerms terms)
      pure (.node (children ++ [lf .matched]))

/-! ## Post-passes -/

mutual
  /-- `_linearize` -/
  def linearize : Tree → List Leaf
    | .leaf l => [l]
    | .node cs => linearizeList cs
  def linearizeList : List Tree → List Leaf
    | [] => []
    | t :: ts => linearize t ++ linearizeList ts
end

def Leaf.real (l : Leaf) : Bool := !l.instr.isNoop

def countReal (ls : List Leaf) : Nat := (ls.filter Leaf.real).length

/-- `old_to_new_label` of `_relabel_in_place`: the index (among the non-no-op leaves) of the first
non-no-op leaf at or after the first leaf that carries `l`.  `none`: the label is not attached
(`KeyError`).  A labelled no-op without a non-no-op leaf after it is `labelledNoopAtEnd`. -/
def labelPos : List Leaf → Nat → Option Nat
  | [], _ => none
  | x :: rest, l =>
    if x.label = some l then some 0
    else (labelPos rest l).map (· + (if x.real then 1 else 0))

/-- The `assert leaf_after_noop is not None` of the reverse pass. -/
def labelledNoopAtEnd : List Leaf → Bool
  | [] => false
  | x :: rest =>
    if labelledNoopAtEnd rest then true
    else (!x.real && x.label.isSome && countReal rest == 0)

def Instr.mapTargets (ρ : Nat → Option Nat) : Instr → Option Instr
  | .jump t => (ρ t).map .jump
  | .split a b => match ρ a, ρ b with
    | some a', some b' => some (.split a' b')
    | _, _ => none
  | i => some i

/-- The last loop of `_relabel_in_place`; `idx` is `leaf_to_index` of the current leaf. -/
def relabelFrom (ρ : Nat → Option Nat) (newLabels : List Nat) : Nat → List Leaf → Res (List Leaf)
  | _, [] => .ok []
  | idx, x :: rest =>
    if x.real then
      match x.instr.mapTargets ρ with
      | none => .crash "KeyError:old_to_new_label"
      | some i =>
        match relabelFrom ρ newLabels (idx + 1) rest with
        | .crash s => .crash s
        | .ok rest' => .ok (⟨i, if idx ∈ newLabels then some idx else none⟩ :: rest')
    else
      match relabelFrom ρ newLabels idx rest with
      | .crash s => .crash s
      | .ok rest' => .ok (⟨x.instr, none⟩ :: rest')

def labelsOf : List Leaf → List Nat
  | [] => []
  | x :: rest => match x.label with
    | some l => l :: labelsOf rest
    | none => labelsOf rest

/-- `_relabel_in_place` on the linearised leaves. -/
def relabel (ls : List Leaf) : Res (List Leaf) :=
  if labelledNoopAtEnd ls then .crash "AssertionError:relabel"
  else
    let ρ := labelPos ls
    let newLabels := (labelsOf ls).filterMap ρ
    relabelFrom ρ newLabels 0 ls

/-- `_remove_noop_in_place` (asserts that no no-op carries a label any more). -/
def removeNoops : List Leaf → Res (List Leaf)
  | [] => .ok []
  | x :: rest =>
    if x.real then
      match removeNoops rest with
      | .crash s => .crash s
      | .ok r => .ok (x :: r)
    else if x.label.isSome then .crash "AssertionError:remove-noop"
    else removeNoops rest

mutual
  /-- Nesting of the final tree (what `dump` / the C++ writer bracket): `(`…`)` per node, `.` per leaf. -/
  def shape : Tree → List Char
    | .leaf l => if l.real then ['.'] else []
    | .node cs => '(' :: shapeList cs ++ [')']
  def shapeList : List Tree → List Char
    | [] => []
    | t :: ts => shape t ++ shapeList ts
end

/-- `revm.translate` (flattened in program order). -/
def translateFrom (r : Regex) : Res (List Leaf × String) :=
  match transformRegex r 0 with
  | .crash s => .crash s
  | .ok (t, _) =>
    match relabel (linearize t) with
    | .crash s => .crash s
    | .ok ls =>
      match removeNoops ls with
      | .crash s => .crash s
      | .ok p => .ok (p, String.ofList (shape t))

def translate (r : Regex) : Res (List Leaf) :=
  match translateFrom r with
  | .crash s => .crash s
  | .ok (p, _) => .ok p

abbrev Program := List Instr

def instrs (ls : List Leaf) : Program := ls.map (·.instr)

/-! ## Documented instruction semantics -/

/-- "Check whether the character is in any of the given character ranges." -/
def inRanges (rs : List Range) (c : Nat) : Bool := rs.any (fun r => r.first ≤ c && c ≤ r.last)

/-- One thread step: configuration = (program counter, rest of the input). -/
inductive Step (p : Program) : Nat × Text → Nat × Text → Prop where
  | char (pc c : Nat) (s : Text) : p[pc]? = some (.char c) → Step p (pc, c :: s) (pc + 1, s)
  | set (pc c : Nat) (rs : List Range) (s : Text) : p[pc]? = some (.set rs) → inRanges rs c = true →
      Step p (pc, c :: s) (pc + 1, s)
  | notSet (pc c : Nat) (rs : List Range) (s : Text) : p[pc]? = some (.notSet rs) → inRanges rs c = false →
      Step p (pc, c :: s) (pc + 1, s)
  | any (pc c : Nat) (s : Text) : p[pc]? = some .any → Step p (pc, c :: s) (pc + 1, s)
  | jump (pc t : Nat) (s : Text) : p[pc]? = some (.jump t) → Step p (pc, s) (t, s)
  | split1 (pc a b : Nat) (s : Text) : p[pc]? = some (.split a b) → Step p (pc, s) (a, s)
  | split2 (pc a b : Nat) (s : Text) : p[pc]? = some (.split a b) → Step p (pc, s) (b, s)
  | atEnd (pc : Nat) : p[pc]? = some .atEnd → Step p (pc, []) (pc + 1, [])

inductive Steps (p : Program) : Nat × Text → Nat × Text → Prop where
  | refl (a) : Steps p a a
  | head (a b c) : Step p a b → Steps p b c → Steps p a c

/-- Some thread started at instruction 0 on the whole text reaches a `match` instruction. -/
def accepts (p : Program) (s : Text) : Prop :=
  ∃ pc rest, Steps p (0, s) (pc, rest) ∧ p[pc]? = some .matched

/-- Reference interpreter with fuel = bound on the length of a thread (used by the driver and the proofs). -/
def accN (p : Program) : Nat → Nat → Text → Bool
  | 0, _, _ => false
  | n + 1, pc, x =>
    match p[pc]? with
    | some (.char c) => match x with
      | d :: y => d == c && accN p n (pc + 1) y
      | [] => false
    | some (.set rs) => match x with
      | d :: y => inRanges rs d && accN p n (pc + 1) y
      | [] => false
    | some (.notSet rs) => match x with
      | d :: y => !inRanges rs d && accN p n (pc + 1) y
      | [] => false
    | some .any => match x with
      | _ :: y => accN p n (pc + 1) y
      | [] => false
    | some .matched => true
    | some (.jump t) => accN p n t x
    | some (.split a b) => accN p n a x || accN p n b x
    | some .atEnd => match x with
      | [] => accN p n (pc + 1) []
      | _ :: _ => false
    | some .noop => false
    | none => false

/-! ## The generated C++ `Match` -/

/-- `CharacterInRanges`: the literal binary search; `fuel` bounds the `while (true)`. -/
def cppInRangesLoop (rs : List Range) (c : Nat) : Nat → Nat → Nat → Bool
  | 0, _, _ => false
  | fuel + 1, b, e =>
    if b = e then false
    else if e - b ≤ 3 then
      ((List.range (e - b)).any fun k =>
        match rs[b + k]? with
        | some r => r.first ≤ c && c ≤ r.last
        | none => false)
    else
      let middle := (b + e) / 2
      match rs[middle]? with
      | none => false
      | some r =>
        if c < r.first then cppInRangesLoop rs c fuel b middle
        else if c > r.last then cppInRangesLoop rs c fuel middle e
        else true

def cppInRanges (rs : List Range) (c : Nat) : Bool :=
  match rs with
  | [] => false
  | [r] => r.first ≤ c && c ≤ r.last
  | _ => cppInRangesLoop rs c (rs.length + 1) 0 rs.length

/-- `ThreadList`: `has_` as a map from program counters, `items_` with the back of the vector at the head. -/
structure ThreadList where
  has : Nat → Bool
  items : List Nat

def ThreadList.empty : ThreadList := ⟨fun _ => false, []⟩

def setBit (f : Nat → Bool) (i : Nat) (v : Bool) : Nat → Bool := fun j => if j = i then v else f j

/-- `Spawn`; `none` = index beyond `has_` (undefined behaviour in C++). -/
def ThreadList.spawn (n : Nat) (t : ThreadList) (pc : Nat) : Option ThreadList :=
  if pc ≥ n then none
  else if t.has pc then some t
  else some ⟨setBit t.has pc true, pc :: t.items⟩

inductive Out where
  | ret (b : Bool)
  | crash (site : String)
  deriving DecidableEq, Repr

/-- Result of one `while (!clist->Empty())` loop. -/
inductive LoopOut where
  | returned (o : Out)
  | next (nlist : ThreadList)

/-- Result of the `switch` for one popped thread. -/
inductive Act where
  | ret (o : Out)
  | cont (clist nlist : ThreadList)

def spawnC (n : Nat) (cl nl : ThreadList) (pc : Nat) : Act :=
  match cl.spawn n pc with
  | none => .ret (.crash "oob-spawn")
  | some cl' => .cont cl' nl

def spawnN (n : Nat) (cl nl : ThreadList) (pc : Nat) : Act :=
  match nl.spawn n pc with
  | none => .ret (.crash "oob-spawn")
  | some nl' => .cont cl nl'

/-- The body of the `switch (instruction.kind())` for the thread `pc` just popped from `cl`;
`c = some ch`: the per-character loop, `c = none`: the final drain. -/
def stepThread (p : Program) (c : Option Nat) (cl nl : ThreadList) (pc : Nat) : Act :=
  match p[pc]? with
  | none => .ret (.crash "oob-pc")
  | some (.char ch) => (match c with
    | some d => if d ≠ ch then .cont cl nl else spawnN p.length cl nl (pc + 1)
    | none => .cont cl nl)
  | some (.set rs) => (match c with
    | some d => if !cppInRanges rs d then .cont cl nl else spawnN p.length cl nl (pc + 1)
    | none => .cont cl nl)
  | some (.notSet rs) => (match c with
    | some d => if cppInRanges rs d then .cont cl nl else spawnN p.length cl nl (pc + 1)
    | none => .cont cl nl)
  | some .any => (match c with
    | some _ => spawnN p.length cl nl (pc + 1)
    | none => .cont cl nl)
  | some .matched => .ret (.ret true)
  | some (.jump t) => spawnC p.length cl nl t
  | some (.split a b) =>
    (match cl.spawn p.length a with
    | none => .ret (.crash "oob-spawn")
    | some cl' => spawnC p.length cl' nl b)
  | some .atEnd => (match c with
    | some _ => .cont cl nl
    | none => spawnC p.length cl nl (pc + 1))
  | some .noop => .ret (.crash "logic_error")

/-- `Pop()`: remove the back item; `clr` = the `has_` bit is reset. -/
def popped (clr : Bool) (cl : ThreadList) (pc : Nat) (rest : List Nat) : ThreadList :=
  ⟨if clr then setBit cl.has pc false else cl.has, rest⟩

/-- One `while (!clist->Empty())` loop. `none` = out of fuel. -/
def runList (clr : Bool) (p : Program) (c : Option Nat) : Nat → ThreadList → ThreadList → Option LoopOut
  | 0, _, _ => none
  | fuel + 1, cl, nl =>
    match cl.items with
    | [] => some (.next nl)
    | pc :: rest =>
      match stepThread p c (popped clr cl pc rest) nl pc with
      | .ret o => some (.returned o)
      | .cont cl' nl' => runList clr p c fuel cl' nl'

/-- The `for (const wchar_t character : text)` loop followed by the drain
(`std::swap(clist, nlist); nlist->Clear();` = continue with `nlist` as `clist` and an empty `nlist`). -/
def runText (clr : Bool) (p : Program) (fuel : Nat) : Text → ThreadList → Option Out
  | [], cl =>
    match runList clr p none fuel cl ThreadList.empty with
    | none => none
    | some (.returned o) => some o
    | some (.next _) => some (.ret false)
  | ch :: s, cl =>
    match runList clr p (some ch) fuel cl ThreadList.empty with
    | none => none
    | some (.returned o) => some o
    | some (.next nl) => runText clr p fuel s nl

/-- The pre-validation loop of `Match`. -/
def targetsValid (p : Program) : Bool :=
  p.all fun i => match i with
    | .jump t => t < p.length
    | .split a b => a < p.length && b < p.length
    | _ => true

/-- `Match(program, text)`; `fuel` bounds each `while (!clist->Empty())` loop; `none` = fuel exhausted. -/
def runCpp (clr : Bool) (fuel : Nat) (p : Program) (s : Text) : Option Out :=
  if p.isEmpty then some (.ret false)
  else if !targetsValid p then some (.crash "invalid_argument")
  else
    match ThreadList.empty.spawn p.length 0 with
    | none => some (.crash "oob-spawn")
    | some cl => runText clr p fuel s cl

/-- The constructors of `InstructionSet`/`InstructionNotSet`/`Range` in `revm.cpp` throw on empty or
unsorted ranges (at static initialisation of the program constant). -/
def cppRangesOk (rs : List Range) : Bool :=
  let rec sorted : List Range → Bool
    | a :: b :: rest => !(a.last ≥ b.first) && sorted (b :: rest)
    | _ => true
  !rs.isEmpty && rs.all (fun r => r.first ≤ r.last) && sorted rs

def cppConstructible (p : Program) : Bool :=
  p.all fun i => match i with
    | .set rs => cppRangesOk rs
    | .notSet rs => cppRangesOk rs
    | _ => true

end AasVerif.Revm
