import AasVerif.Model.Expr.Infer
/-!
`_Inferrer.type_map` of a successful inference: the type recorded for every node, listed in
pre-order.  Every entry is `infer` of the sub-expression in *its* context (environment and
facts), computed with the same fact-flow helpers (`andFact`, `orFact`, `implFacts`) as `infer`.

Order of the nodes (the harness walks the project's tree in the same order):
the node itself, then — `member`: instance; `index`: collection, index; `cmp`/`isIn`/`impl`/
`add`/`sub`: left, right; `methodCall`: the `Member` node of the call, its instance, the
arguments; `funCall`: the `Name` node of the function, the arguments; `isNone`/`isNotNone`/
`not`: operand; `and`/`or`: operands; `joinedStr`: per formatted value the `FormattedValue`
node (`str`) and its value; `any`/`all`: the generator node (`None`), the loop variable, the
iterable (or start, end), the condition.
-/
namespace AasVerif.Expr

variable {κ : Type} [DecidableEq κ]

def resTy {α : Type} : Res α → Option α
  | .ok τ => some τ
  | _ => none

mutual
  def tmap (key : Expr → κ) (Γ : TEnv) (F : Facts κ) : Expr → List (Option Ty)
    | .member i n => resTy (infer key Γ F (.member i n)) :: tmap key Γ F i
    | .index c i => resTy (infer key Γ F (.index c i)) :: (tmap key Γ F c ++ tmap key Γ F i)
    | .cmp l op r => resTy (infer key Γ F (.cmp l op r)) :: (tmap key Γ F l ++ tmap key Γ F r)
    | .isIn m c => resTy (infer key Γ F (.isIn m c)) :: (tmap key Γ F m ++ tmap key Γ F c)
    | .impl a c =>
      resTy (infer key Γ F (.impl a c)) :: (tmap key Γ F a ++ tmap key Γ (implFacts key F a) c)
    | .methodCall i n args =>
      resTy (infer key Γ F (.methodCall i n args)) :: resTy (infer key Γ F (.member i n))
        :: (tmap key Γ F i ++ tmapList key Γ F args)
    | .name x => [resTy (infer key Γ F (.name x))]
    | .funCall n args =>
      resTy (infer key Γ F (.funCall n args)) :: resTy (inferName key Γ F n) :: tmapList key Γ F args
    | .const c => [some (constTy c)]
    | .isNone e => resTy (infer key Γ F (.isNone e)) :: tmap key Γ F e
    | .isNotNone e => resTy (infer key Γ F (.isNotNone e)) :: tmap key Γ F e
    | .not e => resTy (infer key Γ F (.not e)) :: tmap key Γ F e
    | .and es => resTy (infer key Γ F (.and es)) :: tmapAnd key Γ F es
    | .or es => resTy (infer key Γ F (.or es)) :: tmapOr key Γ F es
    | .add l r => resTy (infer key Γ F (.add l r)) :: (tmap key Γ F l ++ tmap key Γ F r)
    | .sub l r => resTy (infer key Γ F (.sub l r)) :: (tmap key Γ F l ++ tmap key Γ F r)
    | .joinedStr ps => resTy (infer key Γ F (.joinedStr ps)) :: tmapParts key Γ F ps
    | .any g c =>
      resTy (infer key Γ F (.any g c)) :: (tmapGen key Γ F g ++
        match inferGen key Γ F g with
        | .ok (x, τx) => tmap key (Γ.bind x τx) F c
        | _ => [])
    | .all g c =>
      resTy (infer key Γ F (.all g c)) :: (tmapGen key Γ F g ++
        match inferGen key Γ F g with
        | .ok (x, τx) => tmap key (Γ.bind x τx) F c
        | _ => [])
  def tmapGen (key : Expr → κ) (Γ : TEnv) (F : Facts κ) : Gen → List (Option Ty)
    | .forEach x it =>
      some (.prim .none) :: (resTy (inferGen key Γ F (.forEach x it))).map (·.2) :: tmap key Γ F it
    | .forRange x a b =>
      some (.prim .none) :: (resTy (inferGen key Γ F (.forRange x a b))).map (·.2)
        :: (tmap key Γ F a ++ tmap key Γ F b)
  def tmapList (key : Expr → κ) (Γ : TEnv) (F : Facts κ) : List Expr → List (Option Ty)
    | [] => []
    | e :: es => tmap key Γ F e ++ tmapList key Γ F es
  def tmapAnd (key : Expr → κ) (Γ : TEnv) (F : Facts κ) : List Expr → List (Option Ty)
    | [] => []
    | e :: es => tmap key Γ F e ++ tmapAnd key Γ (andFact key F e) es
  def tmapOr (key : Expr → κ) (Γ : TEnv) (F : Facts κ) : List Expr → List (Option Ty)
    | [] => []
    | e :: es => tmap key Γ F e ++ tmapOr key Γ (orFact key F e) es
  def tmapParts (key : Expr → κ) (Γ : TEnv) (F : Facts κ) : List JPart → List (Option Ty)
    | [] => []
    | .lit _ :: ps => tmapParts key Γ F ps
    | .fv e :: ps => some (.prim .str) :: (tmap key Γ F e ++ tmapParts key Γ F ps)
end

end AasVerif.Expr
