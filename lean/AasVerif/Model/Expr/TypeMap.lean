import AasVerif.Model.Expr.Infer
/-!
`_Inferrer.type_map` of a successful inference: the type recorded for every node, listed in
pre-order.  Every entry is `infer` of the sub-expression in *its* context (environment and
facts), computed with the same fact-flow helpers (`andFact`, `orFact`, `implFacts`) as `infer`.

Order of the nodes (the harness walks the project's tree in the same order):
the node itself, then — `member`: instance; `index`: collection, index; `cmp`/`isIn`/`impl`/
`add`/`sub`: left, right; `methodCall`: the `Member` node of the call, its instance, the
arguments; `funCall`: the `Name` node of the function, the arguments; `isNone`/`isNotNone`/
`not`: operand; `and`/`or`: operands; `joinedStr`: per formatted value the `FormattedValue`
node (`str`) and its value; `any`/`all`: the generator node (`None`), the loop variable, the
iterable (or start, end), the condition.
-/
namespace AasVerif.Expr

variable {κ : Type} [DecidableEq κ]

def resTy {α : Type} : Res α → Option α
  | .ok τ => some τ
  | _ => none

mutual
  def tmap (key : Expr → κ) (Γ : TEnv) (F : Facts κ) : Expr → List (Option Ty)
    | .member i n => resTy (infer key Γ F (.member i n)) :: tmap key Γ F i
    | .index c i => resTy (infer key Γ F (.index c i)) :: (tmap key Γ F c ++ tmap key Γ F i)
    | .cmp l op r => resTy (infer key Γ F (.cmp l op r)) :: (tmap key Γ F l ++ tmap key Γ F r)
    | .isIn m c => resTy (infer key Γ F (.isIn m c)) :: (tmap key Γ F m ++ tmap key Γ F c)
    | .impl a c =>
      resTy (infer key Γ F (.impl a c)) :: (tmap key Γ F a ++ tmap key Γ (implFacts key F a) c)
    | .methodCall i n args =>
      resTy (infer key Γ F (.methodCall i n args)) :: resTy (infer key Γ F (.member i n))
        :: (tmap key Γ F i ++ tmapList key Γ F args)
    | .name x => [resTy (infer key Γ F (.name x))]
    | .funCall n args =>
      resTy (infer key Γ F (.funCall n args)) :: resTy (inferName key Γ F n) :: tmapList key Γ F args
    | .const c => [some (constTy c)]
    | .isNone e => resTy (infer key Γ F (.isNone e)) :: tmap key Γ F e
    | .isNotNone e => resTy (infer key Γ F (.isNotNone e)) :: tmap key Γ F e
    | .not e => resTy (infer key Γ F (.not e)) :: tmap key Γ F e
    | .and es => resTy (infer key Γ F (.and es)) :: tmapAnd key Γ F es
    | .or es => resTy (infer key Γ F (.or es)) :: tmapOr key Γ F es
    | .add l r => resTy (infer key Γ F (.add l r)) :: (tmap key Γ F l ++ tmap key Γ F r)
    | .sub l r => resTy (infer key Γ F (.sub l r)) :: (tmap key Γ F l ++ tmap key Γ F r)
    | .joinedStr ps => resTy (infer key Γ F (.joinedStr ps)) :: tmapParts key Γ F ps
    | .any g c =>
      resTy (infer key Γ F (.any g c)) :: (tmapGen key Γ F g ++
        match inferGen key Γ F g with
        | .ok (x, τx) => tmap key (Γ.bind x τx) F c
        | _ => [])
    | .all g c =>
      resTy (infer key Γ F (.all g c)) :: (tmapGen key Γ F g ++
        match inferGen key Γ F g with
        | .ok (x, τx) => tmap key (Γ.bind x τx) F c
        | _ => [])
  def tmapGen (key : Expr → κ) (Γ : TEnv) (F : Facts κ) : Gen → List (Option Ty)
    | .forEach x it =>
      some (.prim .none) :: (resTy (inferGen key Γ F (.forEach x it))).map (·.2) :: tmap key Γ F it
    | .forRange x a b =>
      some (.prim .none) :: (resTy (inferGen key Γ F (.forRange x a b))).map (·.2)
        :: (tmap key Γ F a ++ tmap key Γ F b)
  def tmapList (key : Expr → κ) (Γ : TEnv) (F : Facts κ) : List Expr → List (Option Ty)
    | [] => []
    | e :: es => tmap key Γ F e ++ tmapList key Γ F es
  def tmapAnd (key : Expr → κ) (Γ : TEnv) (F : Facts κ) : List Expr → List (Option Ty)
    | [] => []
    | e :: es => tmap key Γ F e ++ tmapAnd key Γ (andFact key F e) es
  def tmapOr (key : Expr → κ) (Γ : TEnv) (F : Facts κ) : List Expr → List (Option Ty)
    | [] => []
    | e :: es => tmap key Γ F e ++ tmapOr key Γ (orFact key F e) es
  def tmapParts (key : Expr → κ) (Γ : TEnv) (F : Facts κ) : List JPart → List (Option Ty)
    | [] => []
    | .lit _ :: ps => tmapParts key Γ F ps
    | .fv e :: ps => some (.prim .str) :: (tmap key Γ F e ++ tmapParts key Γ F ps)
end

/-! ## Side conditions of the soundness theorem

`vtypes`: the types of the nodes in *value* position — `tmap` without the callee entries (the
`Member` of a method call, the `Name` of a function call) and without the pseudo-entries of
generators and formatted values.  `noFnValuesB`: none of them is a function or a method, i.e. no
function / bound method is used as a first-class value (`len == len`, `self.it.label in xs`):
the evaluator `Eval.lean` has no such values (it would answer `NameError`), CPython has.
`Expr.wf`: `and` / `or` have operands (`ast.BoolOp` has at least two). -/

mutual
  def vtypes (key : Expr → κ) (Γ : TEnv) (F : Facts κ) : Expr → List (Option Ty)
    | .member i n => resTy (infer key Γ F (.member i n)) :: vtypes key Γ F i
    | .index c i => resTy (infer key Γ F (.index c i)) :: (vtypes key Γ F c ++ vtypes key Γ F i)
    | .cmp l op r => resTy (infer key Γ F (.cmp l op r)) :: (vtypes key Γ F l ++ vtypes key Γ F r)
    | .isIn m c => resTy (infer key Γ F (.isIn m c)) :: (vtypes key Γ F m ++ vtypes key Γ F c)
    | .impl a c =>
      resTy (infer key Γ F (.impl a c)) :: (vtypes key Γ F a ++ vtypes key Γ (implFacts key F a) c)
    | .methodCall i n args =>
      resTy (infer key Γ F (.methodCall i n args)) :: (vtypes key Γ F i ++ vtypesList key Γ F args)
    | .name x => [resTy (infer key Γ F (.name x))]
    | .funCall n args => resTy (infer key Γ F (.funCall n args)) :: vtypesList key Γ F args
    | .const c => [resTy (infer key Γ F (.const c))]
    | .isNone e => resTy (infer key Γ F (.isNone e)) :: vtypes key Γ F e
    | .isNotNone e => resTy (infer key Γ F (.isNotNone e)) :: vtypes key Γ F e
    | .not e => resTy (infer key Γ F (.not e)) :: vtypes key Γ F e
    | .and es => resTy (infer key Γ F (.and es)) :: vtypesAnd key Γ F es
    | .or es => resTy (infer key Γ F (.or es)) :: vtypesOr key Γ F es
    | .add l r => resTy (infer key Γ F (.add l r)) :: (vtypes key Γ F l ++ vtypes key Γ F r)
    | .sub l r => resTy (infer key Γ F (.sub l r)) :: (vtypes key Γ F l ++ vtypes key Γ F r)
    | .joinedStr ps => resTy (infer key Γ F (.joinedStr ps)) :: vtypesParts key Γ F ps
    | .any g c =>
      resTy (infer key Γ F (.any g c)) :: (vtypesGen key Γ F g ++
        match inferGen key Γ F g with
        | .ok (x, τx) => vtypes key (Γ.bind x τx) F c
        | _ => [])
    | .all g c =>
      resTy (infer key Γ F (.all g c)) :: (vtypesGen key Γ F g ++
        match inferGen key Γ F g with
        | .ok (x, τx) => vtypes key (Γ.bind x τx) F c
        | _ => [])
  def vtypesGen (key : Expr → κ) (Γ : TEnv) (F : Facts κ) : Gen → List (Option Ty)
    | .forEach _ it => vtypes key Γ F it
    | .forRange _ a b => vtypes key Γ F a ++ vtypes key Γ F b
  def vtypesList (key : Expr → κ) (Γ : TEnv) (F : Facts κ) : List Expr → List (Option Ty)
    | [] => []
    | e :: es => vtypes key Γ F e ++ vtypesList key Γ F es
  def vtypesAnd (key : Expr → κ) (Γ : TEnv) (F : Facts κ) : List Expr → List (Option Ty)
    | [] => []
    | e :: es => vtypes key Γ F e ++ vtypesAnd key Γ (andFact key F e) es
  def vtypesOr (key : Expr → κ) (Γ : TEnv) (F : Facts κ) : List Expr → List (Option Ty)
    | [] => []
    | e :: es => vtypes key Γ F e ++ vtypesOr key Γ (orFact key F e) es
  def vtypesParts (key : Expr → κ) (Γ : TEnv) (F : Facts κ) : List JPart → List (Option Ty)
    | [] => []
    | .lit _ :: ps => vtypesParts key Γ F ps
    | .fv e :: ps => vtypes key Γ F e ++ vtypesParts key Γ F ps
end

/-- not a function / method type (an unknown type — the inference failed there — passes) -/
def valTy : Option Ty → Bool
  | some τ => !τ.isFn
  | none => true

def noFnValuesB (key : Expr → κ) (Γ : TEnv) (F : Facts κ) (e : Expr) : Bool := (vtypes key Γ F e).all valTy

mutual
  /-- what the parser produces: `and` / `or` have operands -/
  def Expr.wf : Expr → Bool
    | .member i _ => i.wf
    | .index c i => c.wf && i.wf
    | .cmp l _ r => l.wf && r.wf
    | .isIn m c => m.wf && c.wf
    | .impl a c => a.wf && c.wf
    | .methodCall i _ args => i.wf && wfList args
    | .name _ => true
    | .funCall _ args => wfList args
    | .const _ => true
    | .isNone e => e.wf
    | .isNotNone e => e.wf
    | .not e => e.wf
    | .and es => !es.isEmpty && wfList es
    | .or es => !es.isEmpty && wfList es
    | .add l r => l.wf && r.wf
    | .sub l r => l.wf && r.wf
    | .joinedStr ps => wfParts ps
    | .any g c => wfGen g && c.wf
    | .all g c => wfGen g && c.wf
  def wfList : List Expr → Bool
    | [] => true
    | e :: es => e.wf && wfList es
  def wfParts : List JPart → Bool
    | [] => true
    | .lit _ :: ps => wfParts ps
    | .fv e :: ps => e.wf && wfParts ps
  def wfGen : Gen → Bool
    | .forEach _ it => it.wf
    | .forRange _ a b => a.wf && b.wf
end

end AasVerif.Expr
