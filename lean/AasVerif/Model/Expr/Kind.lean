import AasVerif.Model.Expr.Syntax
/-!
The node classes of `parse/tree.py` as an enumeration (`isinstance(node, (…))` tests of the
transpilers become membership in a list of kinds; those lists are Gen data).
-/
namespace AasVerif.Expr

inductive Kind where
  | Member | Index | Comparison | IsIn | Implication | MethodCall | Name | FunctionCall
  | Constant | IsNone | IsNotNone | Not | And | Or | Add | Sub | JoinedStr | Any | All
  deriving DecidableEq, Repr, Inhabited

def Expr.kind : Expr → Kind
  | .member _ _ => .Member
  | .index _ _ => .Index
  | .cmp _ _ _ => .Comparison
  | .isIn _ _ => .IsIn
  | .impl _ _ => .Implication
  | .methodCall _ _ _ => .MethodCall
  | .name _ => .Name
  | .funCall _ _ => .FunctionCall
  | .const _ => .Constant
  | .isNone _ => .IsNone
  | .isNotNone _ => .IsNotNone
  | .not _ => .Not
  | .and _ => .And
  | .or _ => .Or
  | .add _ _ => .Add
  | .sub _ _ => .Sub
  | .joinedStr _ => .JoinedStr
  | .any _ _ => .Any
  | .all _ _ => .All

end AasVerif.Expr
