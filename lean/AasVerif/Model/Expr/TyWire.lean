import AasVerif.Model.Expr.Wire
import AasVerif.Model.Expr.Infer
/-!
Wire format of types, declarations and inference errors (Python twin: `harness/props/c07.py`).
Comma-separated prefix tokens, texts as in `Text.enc`.

    ty    := pb|pi|pf|ps|pa|pl|pn            primitives bool int float str bytearray length None
           | o <text> | E <text>             our type / enumeration-as-type
           | v <text> ty | b <text> ty | m <text> ty     verification fn / builtin / method (with return type)
           | L ty | S ty | O ty              List / Set / Optional
    decls := <n> our*n <n> fn*n <n> const*n
    our   := C <text> <n> (<text> ty)*n <n> (<text> ty)*n <n> <text>*n     class: props, methods, descendants
           | N <text> <n> <text>*n                                         enumeration: literals
           | P <text> ty                                                   constrained primitive (ty is a primitive)
    fn    := <text> <nargs> ty
    const := <text> ty
-/
namespace AasVerif.Expr.TyWire
open AasVerif AasVerif.Expr.Wire

def encPrim : Prim → String
  | .bool => "pb" | .int => "pi" | .float => "pf" | .str => "ps" | .bytearray => "pa"
  | .length => "pl" | .none => "pn"

def decPrim : String → Option Prim
  | "pb" => some .bool | "pi" => some .int | "pf" => some .float | "ps" => some .str
  | "pa" => some .bytearray | "pl" => some .length | "pn" => some .none | _ => none

def encTyL : Ty → List String
  | .prim p => [encPrim p]
  | .our n => ["o", Text.enc n]
  | .enumType n => ["E", Text.enc n]
  | .verif n r => "v" :: Text.enc n :: encTyL r
  | .builtin n r => "b" :: Text.enc n :: encTyL r
  | .method n r => "m" :: Text.enc n :: encTyL r
  | .list i => "L" :: encTyL i
  | .set i => "S" :: encTyL i
  | .opt i => "O" :: encTyL i

def encTy (τ : Ty) : String := ",".intercalate (encTyL τ)

partial def pTy : P Ty
  | "o" :: ts => do let (n, ts) ← pText ts; some (.our n, ts)
  | "E" :: ts => do let (n, ts) ← pText ts; some (.enumType n, ts)
  | "v" :: ts => do let (n, ts) ← pText ts; let (r, ts) ← pTy ts; some (.verif n r, ts)
  | "b" :: ts => do let (n, ts) ← pText ts; let (r, ts) ← pTy ts; some (.builtin n r, ts)
  | "m" :: ts => do let (n, ts) ← pText ts; let (r, ts) ← pTy ts; some (.method n r, ts)
  | "L" :: ts => do let (i, ts) ← pTy ts; some (.list i, ts)
  | "S" :: ts => do let (i, ts) ← pTy ts; some (.set i, ts)
  | "O" :: ts => do let (i, ts) ← pTy ts; some (.opt i, ts)
  | p :: ts => do let p ← decPrim p; some (.prim p, ts)
  | [] => none

def pMany {α : Type} (p : P α) : Nat → P (List α)
  | 0, ts => some ([], ts)
  | k + 1, ts => do let (a, ts) ← p ts; let (as, ts) ← pMany p k ts; some (a :: as, ts)

def pCounted {α : Type} (p : P α) : P (List α) := fun ts => do
  let (k, ts) ← pNat ts
  pMany p k ts

def pNamedTy : P (Text × Ty) := fun ts => do
  let (n, ts) ← pText ts; let (τ, ts) ← pTy ts; some ((n, τ), ts)

def pOur : P (Text × OurDecl)
  | "C" :: ts => do
    let (n, ts) ← pText ts
    let (props, ts) ← pCounted pNamedTy ts
    let (meths, ts) ← pCounted pNamedTy ts
    let (desc, ts) ← pCounted pText ts
    some ((n, .cls { props := props, methods := meths, descendants := desc }), ts)
  | "N" :: ts => do
    let (n, ts) ← pText ts; let (lits, ts) ← pCounted pText ts; some ((n, .enum lits), ts)
  | "P" :: ts => do
    let (n, ts) ← pText ts
    match ts with
    | p :: ts => do let p ← decPrim p; some ((n, .cprim p), ts)
    | [] => none
  | _ => none

def pFn : P FnSig := fun ts => do
  let (n, ts) ← pText ts; let (k, ts) ← pNat ts; let (r, ts) ← pTy ts
  some ({ name := n, nargs := k, returns := r }, ts)

def pDecls : P Decls := fun ts => do
  let (ours, ts) ← pCounted pOur ts
  let (fns, ts) ← pCounted pFn ts
  let (consts, ts) ← pCounted pNamedTy ts
  some ({ ours := ours, fns := fns, consts := consts }, ts)

def decDecls (s : String) : Option Decls :=
  match pDecls (s.splitOn ",") with
  | some (d, []) => some d
  | _ => none

def decTy (s : String) : Option Ty :=
  match pTy (s.splitOn ",") with
  | some (d, []) => some d
  | _ => none

def encErr : Err → String
  | .ourTypeNotClass => "ourTypeNotClass" | .memberNotFound => "memberNotFound"
  | .literalNotFound => "literalNotFound" | .instanceOptional => "instanceOptional"
  | .instanceNotInstance => "instanceNotInstance" | .collectionOptional => "collectionOptional"
  | .indexOptional => "indexOptional" | .indexOnNonList => "indexOnNonList" | .indexNotInt => "indexNotInt"
  | .leftOptional => "leftOptional" | .rightOptional => "rightOptional"
  | .isInMemberOptional => "isInMemberOptional" | .containerOptional => "containerOptional"
  | .antecedentOptional => "antecedentOptional" | .methodMemberOptional => "methodMemberOptional"
  | .notAMethod => "notAMethod" | .notAFunction => "notAFunction"
  | .isNoneOnNonOptional => "isNoneOnNonOptional" | .isNotNoneOnNonOptional => "isNotNoneOnNonOptional"
  | .operandOptional => "operandOptional" | .unknownName => "unknownName" | .valueOptional => "valueOptional"
  | .leftNotNumeric => "leftNotNumeric" | .rightNotNumeric => "rightNotNumeric" | .mixFloatInt => "mixFloatInt"
  | .fvOptional => "fvOptional" | .varAlreadyDefined => "varAlreadyDefined" | .iterOptional => "iterOptional"
  | .iterNotList => "iterNotList" | .startOptional => "startOptional" | .endOptional => "endOptional"
  | .startNotInt => "startNotInt" | .endNotInt => "endNotInt" | .conditionNotBool => "conditionNotBool"

end AasVerif.Expr.TyWire
