import AasVerif.Model.Expr.Wire
import AasVerif.Model.Expr.Infer
/-!
Wire format of types, declarations and inference errors (Python twin: `harness/props/c07.py`).
Comma-separated prefix tokens, texts as in `Text.enc`.

    ty    := pb|pi|pf|ps|pa|pl|pn            primitives bool int float str bytearray length None
           | o <text> | E <text>             our type / enumeration-as-type
           | v <text> ty | b <text> ty | m <text> ty     verification fn / builtin / method (with return type)
           | L ty | S ty | O ty              List / Set / Optional
    decls := <n> our*n <n> fn*n <n> const*n
    our   := C <text> <n> (<text> ty)*n <n> meth*n <n> <text>*n     class: props, methods, descendants
           | N <text> <n> <text>*n                                  enumeration: literals
           | P <text> ty <0|1> <n> <text>*n                         constrained primitive (ty is a primitive), has invariants, descendants
    meth  := <text> <k> ty*k ty                                     name, declared argument types, return type
    fn    := <text> <k> ty*k ty
    const := <text> ty
-/
namespace AasVerif.Expr.TyWire
open AasVerif AasVerif.Expr.Wire

def encPrim : Prim → String
  | .bool => "pb" | .int => "pi" | .float => "pf" | .str => "ps" | .bytearray => "pa"
  | .length => "pl" | .none => "pn"

def decPrim : String → Option Prim
  | "pb" => some .bool | "pi" => some .int | "pf" => some .float | "ps" => some .str
  | "pa" => some .bytearray | "pl" => some .length | "pn" => some .none | _ => none

def encTyL : Ty → List String
  | .prim p => [encPrim p]
  | .our n => ["o", Text.enc n]
  | .enumType n => ["E", Text.enc n]
  | .verif n r => "v" :: Text.enc n :: encTyL r
  | .builtin n r => "b" :: Text.enc n :: encTyL r
  | .method n r => "m" :: Text.enc n :: encTyL r
  | .list i => "L" :: encTyL i
  | .set i => "S" :: encTyL i
  | .opt i => "O" :: encTyL i

def encTy (τ : Ty) : String := ",".intercalate (encTyL τ)

partial def pTy : P Ty
  | "o" :: ts => do let (n, ts) ← pText ts; some (.our n, ts)
  | "E" :: ts => do let (n, ts) ← pText ts; some (.enumType n, ts)
  | "v" :: ts => do let (n, ts) ← pText ts; let (r, ts) ← pTy ts; some (.verif n r, ts)
  | "b" :: ts => do let (n, ts) ← pText ts; let (r, ts) ← pTy ts; some (.builtin n r, ts)
  | "m" :: ts => do let (n, ts) ← pText ts; let (r, ts) ← pTy ts; some (.method n r, ts)
  | "L" :: ts => do let (i, ts) ← pTy ts; some (.list i, ts)
  | "S" :: ts => do let (i, ts) ← pTy ts; some (.set i, ts)
  | "O" :: ts => do let (i, ts) ← pTy ts; some (.opt i, ts)
  | p :: ts => do let p ← decPrim p; some (.prim p, ts)
  | [] => none

def pMany {α : Type} (p : P α) : Nat → P (List α)
  | 0, ts => some ([], ts)
  | k + 1, ts => do let (a, ts) ← p ts; let (as, ts) ← pMany p k ts; some (a :: as, ts)

def pCounted {α : Type} (p : P α) : P (List α) := fun ts => do
  let (k, ts) ← pNat ts
  pMany p k ts

def pNamedTy : P (Text × Ty) := fun ts => do
  let (n, ts) ← pText ts; let (τ, ts) ← pTy ts; some ((n, τ), ts)

/-- name, declared argument types, return type -/
def pSig : P (Text × List Ty × Ty) := fun ts => do
  let (n, ts) ← pText ts; let (ps, ts) ← pCounted pTy ts; let (r, ts) ← pTy ts
  some ((n, ps, r), ts)

def pOur : P (Text × OurDecl)
  | "C" :: ts => do
    let (n, ts) ← pText ts
    let (props, ts) ← pCounted pNamedTy ts
    let (meths, ts) ← pCounted pSig ts
    let (desc, ts) ← pCounted pText ts
    some ((n, .cls { props := props, methods := meths.map (fun (m, _, r) => (m, r)),
                     mparams := meths.map (fun (m, ps, _) => (m, ps)), descendants := desc }), ts)
  | "N" :: ts => do
    let (n, ts) ← pText ts; let (lits, ts) ← pCounted pText ts; some ((n, .enum lits), ts)
  | "P" :: ts => do
    let (n, ts) ← pText ts
    match ts with
    | p :: c :: ts => do
      let p ← decPrim p
      let c ← (match c with | "0" => some false | "1" => some true | _ => none)
      let (desc, ts) ← pCounted pText ts
      some ((n, .cprim p c desc), ts)
    | _ => none
  | _ => none

def pFn : P FnSig := fun ts => do
  let ((n, ps, r), ts) ← pSig ts
  some ({ name := n, params := ps, returns := r }, ts)

def pDecls : P Decls := fun ts => do
  let (ours, ts) ← pCounted pOur ts
  let (fns, ts) ← pCounted pFn ts
  let (consts, ts) ← pCounted pNamedTy ts
  some ({ ours := ours, fns := fns, consts := consts }, ts)

def decDecls (s : String) : Option Decls :=
  match pDecls (s.splitOn ",") with
  | some (d, []) => some d
  | _ => none

def decTy (s : String) : Option Ty :=
  match pTy (s.splitOn ",") with
  | some (d, []) => some d
  | _ => none

def encErr : Err → String
  | .ourTypeNotClass => "ourTypeNotClass" | .memberNotFound => "memberNotFound"
  | .literalNotFound => "literalNotFound" | .instanceOptional => "instanceOptional"
  | .instanceNotInstance => "instanceNotInstance" | .collectionOptional => "collectionOptional"
  | .indexOptional => "indexOptional" | .indexOnNonList => "indexOnNonList" | .indexNotInt => "indexNotInt"
  | .leftOptional => "leftOptional" | .rightOptional => "rightOptional" | .cmpNotOrderable => "cmpNotOrderable"
  | .isInMemberOptional => "isInMemberOptional" | .containerOptional => "containerOptional"
  | .memberUnhashable => "memberUnhashable" | .memberNotSamePrim => "memberNotSamePrim"
  | .containerNotContainer => "containerNotContainer"
  | .antecedentOptional => "antecedentOptional" | .antecedentNotBool => "antecedentNotBool"
  | .consequentNotBool => "consequentNotBool" | .methodMemberOptional => "methodMemberOptional"
  | .notAMethod => "notAMethod" | .notAFunction => "notAFunction"
  | .argCount => "argCount" | .argNotPassable => "argNotPassable" | .lenArgCount => "lenArgCount"
  | .lenArgOptional => "lenArgOptional" | .lenKind => "lenKind"
  | .isNoneOnNonOptional => "isNoneOnNonOptional" | .isNotNoneOnNonOptional => "isNotNoneOnNonOptional"
  | .operandOptional => "operandOptional" | .operandNotBool => "operandNotBool" | .unknownName => "unknownName"
  | .valueOptional => "valueOptional" | .valueNotBool => "valueNotBool" | .bodyNotBool => "bodyNotBool"
  | .leftNotNumeric => "leftNotNumeric" | .rightNotNumeric => "rightNotNumeric" | .mixFloatInt => "mixFloatInt"
  | .fvOptional => "fvOptional" | .varAlreadyDefined => "varAlreadyDefined" | .iterOptional => "iterOptional"
  | .iterNotList => "iterNotList" | .startOptional => "startOptional" | .endOptional => "endOptional"
  | .startNotInt => "startNotInt" | .endNotInt => "endNotInt" | .conditionNotBool => "conditionNotBool"

end AasVerif.Expr.TyWire
