import AasVerif.Model.Expr.Ty
/-!
`intermediate/_translate.py:_ContractChecker` on the body of a class invariant — the one check
of the *front end proper* on invariant bodies: every function call goes to a verification
function or to `len`, with the declared number of arguments.  (Method calls are NOT checked.)
`contractErrs` is the number of errors appended; the front end rejects the model iff it is > 0.
-/
namespace AasVerif.Expr

mutual
  def contractErrs (D : Decls) : Expr → Nat
    | .member i _ => contractErrs D i
    | .index c i => contractErrs D c + contractErrs D i
    | .cmp l _ r => contractErrs D l + contractErrs D r
    | .isIn m c => contractErrs D m + contractErrs D c
    | .impl a c => contractErrs D a + contractErrs D c
    -- NOT CHECKED: the number of arguments of a method call
    | .methodCall i _ args => contractErrs D i + contractErrsList D args
    | .name _ => 0
    | .funCall n args =>
      match D.findFn n with
      | some f => (if args.length = f.nargs then 0 else 1) + contractErrsList D args
      | none =>
        if n = lenName then (if args.length = 1 then 0 else 1) + contractErrsList D args
        else 1  -- "not implemented as we do not know how many arguments it expects"; arguments not visited
    | .const _ => 0
    | .isNone e => contractErrs D e
    | .isNotNone e => contractErrs D e
    | .not e => contractErrs D e
    | .and es => contractErrsList D es
    | .or es => contractErrsList D es
    | .add l r => contractErrs D l + contractErrs D r
    | .sub l r => contractErrs D l + contractErrs D r
    | .joinedStr ps => contractErrsParts D ps
    | .any g c => contractErrsGen D g + contractErrs D c
    | .all g c => contractErrsGen D g + contractErrs D c
  def contractErrsList (D : Decls) : List Expr → Nat
    | [] => 0
    | e :: es => contractErrs D e + contractErrsList D es
  def contractErrsParts (D : Decls) : List JPart → Nat
    | [] => 0
    | .lit _ :: ps => contractErrsParts D ps
    | .fv e :: ps => contractErrs D e + contractErrsParts D ps
  def contractErrsGen (D : Decls) : Gen → Nat
    | .forEach _ it => contractErrs D it
    | .forRange _ a b => contractErrs D a + contractErrs D b
end

end AasVerif.Expr
