import AasVerif.Model.Text
/-!
Shared syntax of the invariant / verification-function expression language
(`aas_core_codegen/parse/tree.py`).  Identifiers and string constants are `Text`
(code points); float constants are opaque (`repr` text), never computed with.
-/
namespace AasVerif.Expr

inductive Cmp where
  | lt | le | gt | ge | eq | ne
  deriving DecidableEq, Repr, Inhabited

inductive Const where
  | bool (b : Bool)
  | int (i : Int)
  | float (repr : Text)
  | str (s : Text)
  deriving DecidableEq, Repr, Inhabited

mutual
  inductive Expr where
    | member (inst : Expr) (name : Text)
    | index (coll : Expr) (idx : Expr)
    | cmp (l : Expr) (op : Cmp) (r : Expr)
    | isIn (m : Expr) (container : Expr)
    | impl (antecedent : Expr) (consequent : Expr)
    | methodCall (inst : Expr) (name : Text) (args : List Expr)
    | name (id : Text)
    | funCall (name : Text) (args : List Expr)
    | const (c : Const)
    | isNone (e : Expr)
    | isNotNone (e : Expr)
    | not (e : Expr)
    | and (es : List Expr)
    | or (es : List Expr)
    | add (l : Expr) (r : Expr)
    | sub (l : Expr) (r : Expr)
    | joinedStr (parts : List JPart)
    | any (g : Gen) (cond : Expr)
    | all (g : Gen) (cond : Expr)
  /-- part of an f-string: literal text or a formatted value -/
  inductive JPart where
    | lit (s : Text)
    | fv (e : Expr)
  /-- the generator of an `any`/`all` -/
  inductive Gen where
    | forEach (var : Text) (iter : Expr)
    | forRange (var : Text) (start : Expr) (stop : Expr)
end

end AasVerif.Expr
