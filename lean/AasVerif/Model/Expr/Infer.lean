import AasVerif.Model.Expr.Ty
import AasVerif.Model.Expr.Canon
/-!
Model of `type_inference._Inferrer` (`aas_core_codegen/intermediate/type_inference.py`).

`infer key Γ F e`:

* `Γ` — `self._environment` (declarations + scopes),
* `F` — `self._non_null`: the keys (canonical strings) that are assumed non-null *at this
  point of the traversal*.  The Python code increments / decrements a counting map around the
  sub-trees in which a fact holds (`contextlib.ExitStack`); here the fact list is passed down,
  which is the same scoping (`at_least_once(k)` = `k ∈ F`).
* `key` — `self._representation_map[node]`; the real one is `canon` (`inferC`).  It is a
  parameter so that the theorems can say exactly what they need from it (injectivity).

Outcome (`Res`): `.ok τ` = the Python method returned `τ` *and appended no error in this
sub-tree*; `.err es` = it returned `None` having appended exactly `es` (in this order);
`.crash site` = it raised.  (`transform` has the post-condition `result is None ⇒ errors`,
and `None` is propagated by every parent, so these are the only observable outcomes.)

What the inferrer does **NOT** check is kept visible as `-- NOT CHECKED` comments: these are
the places where full type soundness fails (findings `C07:unchecked:*`).
-/
namespace AasVerif.Expr

/-- The error sites of `_Inferrer` (one constructor per `self.errors.append`). -/
inductive Err where
  | ourTypeNotClass | memberNotFound | literalNotFound | instanceOptional | instanceNotInstance
  | collectionOptional | indexOptional | indexOnNonList | indexNotInt
  | leftOptional | rightOptional
  | isInMemberOptional | containerOptional
  | antecedentOptional
  | methodMemberOptional | notAMethod
  | notAFunction
  | isNoneOnNonOptional | isNotNoneOnNonOptional
  | operandOptional
  | unknownName
  | valueOptional
  | leftNotNumeric | rightNotNumeric | mixFloatInt
  | fvOptional
  | varAlreadyDefined | iterOptional | iterNotList
  | startOptional | endOptional | startNotInt | endNotInt
  | conditionNotBool
  deriving DecidableEq, Repr, Inhabited

inductive Res (α : Type) where
  | ok (a : α)
  | err (es : List Err)
  | crash (site : String)
  deriving DecidableEq, Repr, Inhabited

/-- the keys of the non-null facts; the real inferrer uses canonical strings (`κ = Text`) -/
abbrev Facts (κ : Type) := List κ

variable {κ : Type} [DecidableEq κ]

/-- `_strip_optional_if_non_null` -/
def strip (F : Facts κ) (k : κ) : Ty → Ty
  | .opt v => if F.contains k then v else .opt v
  | τ => τ

/-- `transform_constant` -/
def constTy : Const → Ty
  | .bool _ => .prim .bool
  | .int _ => .prim .int
  | .float _ => .prim .float
  | .str _ => .prim .str

/-- `returns` of a function / method (`returns is None` is already `prim none`, see `Ty`). -/
def retTy (τ : Ty) : Ty := τ

/-- the fact a conjunct contributes to the *following* conjuncts (`transform_and`) -/
def andFact (key : Expr → κ) (F : Facts κ) : Expr → Facts κ
  | .isNotNone x => key x :: F
  | _ => F

/-- the fact a disjunct contributes to the *following* disjuncts (`transform_or`) -/
def orFact (key : Expr → κ) (F : Facts κ) : Expr → Facts κ
  | .isNone x => key x :: F
  | _ => F

/-- facts of all the `is not None` conjuncts (`transform_implication`, antecedent `And`) -/
def andFacts (key : Expr → κ) (F : Facts κ) : List Expr → Facts κ
  | [] => F
  | e :: es => andFacts key (andFact key F e) es

/-- the facts under which the consequent is inferred (`transform_implication`) -/
def implFacts (key : Expr → κ) (F : Facts κ) : Expr → Facts κ
  | .isNotNone x => key x :: F
  | .and vs => andFacts key F vs
  | _ => F  -- "We do not know how to infer any non-nullness in this case."

/-- `transform_name` -/
def inferName (key : Expr → κ) (Γ : TEnv) (F : Facts κ) (x : Text) : Res Ty :=
  match Γ.find x with
  | none => .err [.unknownName]
  | some τ => .ok (strip F (key (.name x)) τ)

/-- result type of `+` / `-` after all checks (`_transform_add_or_sub`, last part) -/
def arithTy : Ty → Ty → Res Ty
  | .prim .length, .prim .int | .prim .length, .prim .length | .prim .int, .prim .length => .ok (.prim .length)
  | .prim .int, .prim .int => .ok (.prim .int)
  | .prim .float, .prim .float => .ok (.prim .float)
  | _, _ => .crash "add_or_sub:unhandled"

def isFloatTy : Ty → Bool
  | .prim .float => true
  | _ => false

/-- `transform_member` after the instance has been transformed (`ri`); `k` is the key of the
member node itself -/
def memberRes (Γ : TEnv) (F : Facts κ) (k : κ) (n : Text) (ri : Res Ty) : Res Ty :=
  match ri with
  | .ok (.our c) =>
    match Γ.decls.findOur c with
    | some (.cls cd) =>
      match assoc n cd.props with
      | some τ => .ok (strip F k τ)
      | none =>
        match assoc n cd.methods with
        | some ret => .ok (.method n ret)
        | none => .err [.memberNotFound]
    | _ => .err [.ourTypeNotClass]
  | .ok (.enumType en) =>
    match Γ.decls.findOur en with
    | some (.enum lits) => if lits.contains n then .ok (.our en) else .err [.literalNotFound]
    | _ => .err [.literalNotFound]
  | .ok (.opt _) => .err [.instanceOptional]
  | .ok _ => .err [.instanceNotInstance]
  | .err es => .err es
  | .crash s => .crash s

/-- `_transform_add_or_sub` after both operands have been transformed (the right one is not
looked at when the left one failed) -/
def arithRes (rl rr : Res Ty) : Res Ty :=
  match rl with
  | .ok lt =>
    match rr with
    | .ok rt =>
      let e1 := (if lt.isOpt then [Err.leftOptional] else []) ++ (if rt.isOpt then [Err.rightOptional] else [])
      if e1 ≠ [] then .err e1 else
      let e2 := (if lt.isNumeric then [] else [Err.leftNotNumeric]) ++ (if rt.isNumeric then [] else [Err.rightNotNumeric])
      if e2 ≠ [] then .err e2 else
      if isFloatTy lt != isFloatTy rt then .err [.mixFloatInt] else
      arithTy lt rt
    | .err es => .err es
    | .crash s => .crash s
  | .err es => .err es
  | .crash s => .crash s

/-- `_transform_any_or_all` after the condition has been transformed -/
def condRes : Res Ty → Res Ty
  | .ok (.prim .bool) => .ok .bool
  | .ok _ => .err [.conditionNotBool]   -- the ONE place where `bool` is demanded
  | .err es => .err es
  | .crash s => .crash s

/-- the errors a list of sub-trees appended (none when it succeeded) -/
def errsOf : Res Unit → List Err
  | .err es => es
  | _ => []

mutual
  def infer (key : Expr → κ) (Γ : TEnv) (F : Facts κ) : Expr → Res Ty
    | .member i n => memberRes Γ F (key (.member i n)) n (infer key Γ F i)
    | .index c i =>
      match infer key Γ F c with
      | .ok ct =>
        match infer key Γ F i with
        | .ok it =>
          let es := (if ct.isOpt then [Err.collectionOptional] else []) ++ (if it.isOpt then [Err.indexOptional] else [])
          if es ≠ [] then .err es else
          match ct with
          | .list items => if it.isIntLike then .ok items else .err [.indexNotInt]
          | _ => .err [.indexOnNonList]
        | .err es => .err es
        | .crash s => .crash s
      | .err es => .err es
      | .crash s => .crash s
    | .cmp l _ r =>
      match infer key Γ F l with
      | .ok lt =>
        match infer key Γ F r with
        | .ok rt =>
          -- NOT CHECKED: that the operand types are comparable with each other
          -- (`self.some_str < 3`, `self.some_instance > 0` are accepted)  [C07:unchecked:comparison-operand-types]
          let es := (if lt.isOpt then [Err.leftOptional] else []) ++ (if rt.isOpt then [Err.rightOptional] else [])
          if es ≠ [] then .err es else .ok .bool
        | .err es => .err es
        | .crash s => .crash s
      | .err es => .err es
      | .crash s => .crash s
    | .isIn m c =>
      -- both operands are transformed before either result is looked at
      match infer key Γ F m with
      | .crash s => .crash s
      | rm =>
        match infer key Γ F c with
        | .crash s => .crash s
        | rc =>
          match rm, rc with
          | .ok mt, .ok ct =>
            -- NOT CHECKED: that the container is a container at all, and of what
            -- (`self.n in self.m` with two ints is accepted)  [C07:unchecked:isin-operand-types]
            let es := (if mt.isOpt then [Err.isInMemberOptional] else []) ++ (if ct.isOpt then [Err.containerOptional] else [])
            if es ≠ [] then .err es else .ok .bool
          | .err e1, .err e2 => .err (e1 ++ e2)
          | .err e1, _ => .err e1
          | _, .err e2 => .err e2
          | _, _ => .crash "unreachable"
    | .impl a c =>
      match infer key Γ F a with
      | .ok at_ =>
        -- NOT CHECKED: that antecedent and consequent are `bool`  [C07:unchecked:bool-context]
        let here := if at_.isOpt then [Err.antecedentOptional] else []
        match infer key Γ (implFacts key F a) c with
        | .ok _ => if here ≠ [] then .err here else .ok .bool
        | .err es => .err (here ++ es)
        | .crash s => .crash s
      | .err es => .err es
      | .crash s => .crash s
    | .methodCall i n args =>
      -- "Simply recurse to track the type, but we don't care about the arguments"
      -- NOT CHECKED: number and types of the arguments  [C07:unchecked:call-argument-types]
      match inferArgs key Γ F args with
      | .crash s => .crash s
      | ra =>
        match memberRes Γ F (key (.member i n)) n (infer key Γ F i) with
        | .crash s => .crash s
        | .err es => .err (errsOf ra ++ es)
        | .ok (.opt _) => .err (errsOf ra ++ [.methodMemberOptional])
        | .ok mt =>
          match ra with
          | .err ea => .err ea
          | _ =>
            match mt with
            | .method _ ret => .ok (strip F (key (.methodCall i n args)) (retTy ret))
            | _ => .err [.notAMethod]
    | .name x => inferName key Γ F x
    | .funCall n args =>
      match inferName key Γ F n with
      | .crash s => .crash s
      | rf =>
        -- NOT CHECKED: number and types of the arguments ("we are sloppy here")
        -- [C07:unchecked:call-argument-types]; in particular an Optional argument is accepted
        match inferArgs key Γ F args with
        | .crash s => .crash s
        | ra =>
          match rf with
          | .err e0 => .err (e0 ++ errsOf ra)
          | .ok (.verif _ ret) =>
            match ra with
            | .err ea => .err ea
            | _ => .ok (strip F (key (.funCall n args)) (retTy ret))
          | .ok (.builtin _ ret) =>
            match ra with
            | .err ea => .err ea
            | _ => .ok (strip F (key (.funCall n args)) (retTy ret))
          | .ok _ =>
            -- the error is appended but `failed` stays False: `assert result is not None` raises
            match ra with
            | .err ea => .err (Err.notAFunction :: ea)
            | _ => .crash "function_call:assert-result"
          | .crash s => .crash s
    | .const c => .ok (constTy c)
    | .isNone e =>
      match infer key Γ F e with
      | .ok (.opt _) => .ok .bool
      | .ok _ => .err [.isNoneOnNonOptional]
      | .err es => .err es
      | .crash s => .crash s
    | .isNotNone e =>
      match infer key Γ F e with
      | .ok (.opt _) => .ok .bool
      | .ok _ => .err [.isNotNoneOnNonOptional]
      | .err es => .err es
      | .crash s => .crash s
    | .not e =>
      match infer key Γ F e with
      -- NOT CHECKED: that the operand is `bool`  [C07:unchecked:bool-context]
      | .ok τ => if τ.isOpt then .err [.operandOptional] else .ok .bool
      | .err es => .err es
      | .crash s => .crash s
    | .and es =>
      match inferAnd key Γ F es with
      | .ok _ => .ok .bool
      | .err xs => .err xs
      | .crash s => .crash s
    | .or es =>
      match inferOr key Γ F es with
      | .ok _ => .ok .bool
      | .err xs => .err xs
      | .crash s => .crash s
    | .add l r => arithRes (infer key Γ F l) (infer key Γ F r)
    | .sub l r => arithRes (infer key Γ F l) (infer key Γ F r)
    | .joinedStr ps =>
      match inferParts key Γ F ps with
      | .ok _ => .ok (.prim .str)
      | .err xs => .err xs
      | .crash s => .crash s
    | .any g c =>
      match inferGen key Γ F g with
      -- the facts stay in force inside the generator
      | .ok (x, τx) => condRes (infer key (Γ.bind x τx) F c)
      | .err es => .err es
      | .crash s => .crash s
    | .all g c =>
      match inferGen key Γ F g with
      | .ok (x, τx) => condRes (infer key (Γ.bind x τx) F c)
      | .err es => .err es
      | .crash s => .crash s
  /-- the loop variable and its type -/
  def inferGen (key : Expr → κ) (Γ : TEnv) (F : Facts κ) : Gen → Res (Text × Ty)
    | .forEach x it =>
      if (Γ.find x).isSome then .err [.varAlreadyDefined] else
      match infer key Γ F it with
      | .ok (.opt _) => .err [.iterOptional]
      | .ok (.list items) => .ok (x, items)
      | .ok _ => .err [.iterNotList]
      | .err es => .err es
      | .crash s => .crash s
    | .forRange x a b =>
      if (Γ.find x).isSome then .err [.varAlreadyDefined] else
      match infer key Γ F a with
      | .ok at_ =>
        match infer key Γ F b with
        | .ok bt =>
          let es := (if at_.isOpt then [Err.startOptional] else []) ++ (if bt.isOpt then [Err.endOptional] else [])
          if es ≠ [] then .err es else
          if !at_.isIntLike then .err [.startNotInt] else
          if !bt.isIntLike then .err [.endNotInt] else
          .ok (x, if at_ = .prim .length || bt = .prim .length then .prim .length else .prim .int)
        | .err es => .err es
        | .crash s => .crash s
      | .err es => .err es
      | .crash s => .crash s
  /-- the conjuncts of `transform_and`, left to right, each `is not None` conjunct adding its
  fact for the conjuncts after it -/
  def inferAnd (key : Expr → κ) (Γ : TEnv) (F : Facts κ) : List Expr → Res Unit
    | [] => .ok ()
    | e :: es =>
      match infer key Γ F e with
      | .ok τ =>
        -- NOT CHECKED: that the conjunct is `bool`  [C07:unchecked:bool-context]
        let here := if τ.isOpt then [Err.valueOptional] else []
        match inferAnd key Γ (andFact key F e) es with
        | .ok _ => if here ≠ [] then .err here else .ok ()
        | .err xs => .err (here ++ xs)
        | .crash s => .crash s
      | .err xs => .err xs
      | .crash s => .crash s
  /-- the disjuncts of `transform_or`; each `is None` disjunct adds its fact for the rest -/
  def inferOr (key : Expr → κ) (Γ : TEnv) (F : Facts κ) : List Expr → Res Unit
    | [] => .ok ()
    | e :: es =>
      match infer key Γ F e with
      | .ok τ =>
        -- NOT CHECKED: that the disjunct is `bool`  [C07:unchecked:bool-context]
        let here := if τ.isOpt then [Err.valueOptional] else []
        match inferOr key Γ (orFact key F e) es with
        | .ok _ => if here ≠ [] then .err here else .ok ()
        | .err xs => .err (here ++ xs)
        | .crash s => .crash s
      | .err xs => .err xs
      | .crash s => .crash s
  /-- all the arguments are transformed, the errors accumulate; their types are dropped -/
  def inferArgs (key : Expr → κ) (Γ : TEnv) (F : Facts κ) : List Expr → Res Unit
    | [] => .ok ()
    | e :: es =>
      match infer key Γ F e with
      | .crash s => .crash s
      | .err xs =>
        match inferArgs key Γ F es with
        | .ok _ => .err xs
        | .err ys => .err (xs ++ ys)
        | .crash s => .crash s
      | .ok _ => inferArgs key Γ F es
  /-- `transform_joined_str` / `transform_formatted_value` -/
  def inferParts (key : Expr → κ) (Γ : TEnv) (F : Facts κ) : List JPart → Res Unit
    | [] => .ok ()
    | .lit _ :: ps => inferParts key Γ F ps
    | .fv e :: ps =>
      match infer key Γ F e with
      | .crash s => .crash s
      | .err xs =>
        match inferParts key Γ F ps with
        | .ok _ => .err xs
        | .err ys => .err (xs ++ ys)
        | .crash s => .crash s
      | .ok τ =>
        if τ.isOpt then
          match inferParts key Γ F ps with
          | .ok _ => .err [.fvOptional]
          | .err ys => .err (.fvOptional :: ys)
          | .crash s => .crash s
        else inferParts key Γ F ps
end

/-- The real inferrer: keys are the canonical strings. -/
def inferC (Γ : TEnv) (e : Expr) : Res Ty := infer canon Γ [] e

