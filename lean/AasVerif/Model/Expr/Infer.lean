import AasVerif.Model.Expr.Ty
import AasVerif.Model.Expr.Canon
/-!
Model of `type_inference._Inferrer` (`aas_core_codegen/intermediate/type_inference.py`).

`infer key Γ F e`:

* `Γ` — `self._environment` (declarations + scopes),
* `F` — `self._non_null`: the keys (canonical strings) that are assumed non-null *at this
  point of the traversal*.  The Python code increments / decrements a counting map around the
  sub-trees in which a fact holds (`contextlib.ExitStack`); here the fact list is passed down,
  which is the same scoping (`at_least_once(k)` = `k ∈ F`).
* `key` — `self._representation_map[node]`; the real one is `canon` (`inferC`).  It is a
  parameter so that the theorems can say exactly what they need from it (injectivity).

Outcome (`Res`): `.ok τ` = the Python method returned `τ` *and appended no error in this
sub-tree*; `.err es` = it returned `None` having appended exactly `es` (in this order);
`.crash site` = it raised.  (`transform` has the post-condition `result is None ⇒ errors`,
and `None` is propagated by every parent, so these are the only observable outcomes.)

The checks of the operand types of ordering comparisons (`orderable`), of `in` (`isInCheck`),
of the boolean contexts (`Decls.isBool`) and of the call arguments (`checkArgs` with `passable` /
`assignable`, `len`) are the repairs of the former findings `C07:unchecked:*`.

`inferInv` is `infer_for_invariant`: `infer` of the body plus the check that the body is boolean.
With `Γ.backend` the traversal also applies the check of the Python transpiler on the argument
of `len` (`Err.lenKind`), which is made on the recorded types after a successful inference; the
verdict is the same as that of the two passes.
-/
namespace AasVerif.Expr

/-- The error sites of `_Inferrer` (one constructor per `self.errors.append`). -/
inductive Err where
  | ourTypeNotClass | memberNotFound | literalNotFound | instanceOptional | instanceNotInstance
  | collectionOptional | indexOptional | indexOnNonList | indexNotInt
  | leftOptional | rightOptional | cmpNotOrderable
  | isInMemberOptional | containerOptional | memberUnhashable | memberNotSamePrim | containerNotContainer
  | antecedentOptional | antecedentNotBool | consequentNotBool
  | methodMemberOptional | notAMethod
  | notAFunction
  | argCount | argNotPassable | lenArgCount | lenArgOptional
  /-- the Python transpiler: "We do not know how to compute the length on type …" -/
  | lenKind
  | isNoneOnNonOptional | isNotNoneOnNonOptional
  | operandOptional | operandNotBool
  | unknownName
  | valueOptional | valueNotBool
  | bodyNotBool
  | leftNotNumeric | rightNotNumeric | mixFloatInt
  | fvOptional
  | varAlreadyDefined | iterOptional | iterNotList
  | startOptional | endOptional | startNotInt | endNotInt
  | conditionNotBool
  deriving DecidableEq, Repr, Inhabited

inductive Res (α : Type) where
  | ok (a : α)
  | err (es : List Err)
  | crash (site : String)
  deriving DecidableEq, Repr, Inhabited

/-- the keys of the non-null facts; the real inferrer uses canonical strings (`κ = Text`) -/
abbrev Facts (κ : Type) := List κ

variable {κ : Type} [DecidableEq κ]

/-- `_strip_optional_if_non_null` -/
def strip (F : Facts κ) (k : κ) : Ty → Ty
  | .opt v => if F.contains k then v else .opt v
  | τ => τ

/-- `transform_constant` -/
def constTy : Const → Ty
  | .bool _ => .prim .bool
  | .int _ => .prim .int
  | .float _ => .prim .float
  | .str _ => .prim .str

/-- `returns` of a function / method (`returns is None` is already `prim none`, see `Ty`). -/
def retTy (τ : Ty) : Ty := τ

/-- the fact a conjunct contributes to the *following* conjuncts (`transform_and`) -/
def andFact (key : Expr → κ) (F : Facts κ) : Expr → Facts κ
  | .isNotNone x => key x :: F
  | _ => F

/-- the fact a disjunct contributes to the *following* disjuncts (`transform_or`) -/
def orFact (key : Expr → κ) (F : Facts κ) : Expr → Facts κ
  | .isNone x => key x :: F
  | _ => F

/-- facts of all the `is not None` conjuncts (`transform_implication`, antecedent `And`) -/
def andFacts (key : Expr → κ) (F : Facts κ) : List Expr → Facts κ
  | [] => F
  | e :: es => andFacts key (andFact key F e) es

/-- the facts under which the consequent is inferred (`transform_implication`) -/
def implFacts (key : Expr → κ) (F : Facts κ) : Expr → Facts κ
  | .isNotNone x => key x :: F
  | .and vs => andFacts key F vs
  | _ => F  -- "We do not know how to infer any non-nullness in this case."

/-- `transform_name` -/
def inferName (key : Expr → κ) (Γ : TEnv) (F : Facts κ) (x : Text) : Res Ty :=
  match Γ.find x with
  | none => .err [.unknownName]
  | some τ => .ok (strip F (key (.name x)) τ)

/-- result type of `+` / `-` after all checks (`_transform_add_or_sub`, last part) -/
def arithTy : Ty → Ty → Res Ty
  | .prim .length, .prim .int | .prim .length, .prim .length | .prim .int, .prim .length => .ok (.prim .length)
  | .prim .int, .prim .int => .ok (.prim .int)
  | .prim .float, .prim .float => .ok (.prim .float)
  | _, _ => .crash "add_or_sub:unhandled"

def isFloatTy : Ty → Bool
  | .prim .float => true
  | _ => false

/-- `transform_member` after the instance has been transformed (`ri`); `k` is the key of the
member node itself -/
def memberRes (Γ : TEnv) (F : Facts κ) (k : κ) (n : Text) (ri : Res Ty) : Res Ty :=
  match ri with
  | .ok (.our c) =>
    match Γ.decls.findOur c with
    | some (.cls cd) =>
      match assoc n cd.props with
      | some τ => .ok (strip F k τ)
      | none =>
        match assoc n cd.methods with
        | some ret => .ok (.method n ret)
        | none => .err [.memberNotFound]
    | _ => .err [.ourTypeNotClass]
  | .ok (.enumType en) =>
    match Γ.decls.findOur en with
    | some (.enum lits) => if lits.contains n then .ok (.our en) else .err [.literalNotFound]
    | _ => .err [.literalNotFound]
  | .ok (.opt _) => .err [.instanceOptional]
  | .ok _ => .err [.instanceNotInstance]
  | .err es => .err es
  | .crash s => .crash s

/-- `_transform_add_or_sub` after both operands have been transformed (the right one is not
looked at when the left one failed) -/
def arithRes (rl rr : Res Ty) : Res Ty :=
  match rl with
  | .ok lt =>
    match rr with
    | .ok rt =>
      let e1 := (if lt.isOpt then [Err.leftOptional] else []) ++ (if rt.isOpt then [Err.rightOptional] else [])
      if e1 ≠ [] then .err e1 else
      let e2 := (if lt.isNumeric then [] else [Err.leftNotNumeric]) ++ (if rt.isNumeric then [] else [Err.rightNotNumeric])
      if e2 ≠ [] then .err e2 else
      if isFloatTy lt != isFloatTy rt then .err [.mixFloatInt] else
      arithTy lt rt
    | .err es => .err es
    | .crash s => .crash s
  | .err es => .err es
  | .crash s => .crash s

/-- `_transform_any_or_all` after the condition has been transformed -/
def condRes : Res Ty → Res Ty
  | .ok (.prim .bool) => .ok .bool
  | .ok _ => .err [.conditionNotBool]   -- the ONE place where `bool` is demanded
  | .err es => .err es
  | .crash s => .crash s

/-- the errors a list of sub-trees appended (none when it succeeded) -/
def errsOf {α : Type} : Res α → List Err
  | .err es => es
  | _ => []

/-! ### The checks on operand and argument types -/

def Cmp.isOrdering : Cmp → Bool
  | .lt | .le | .gt | .ge => true
  | .eq | .ne => false

/-- `a_type in (INT, FLOAT, LENGTH)` -/
def Prim.isNumber : Prim → Bool
  | .int | .float | .length => true
  | _ => false

/-- `transform_comparison`: the ordering is defined between two numbers, two strings, two byte
arrays (constrained primitives count as their constrainees) -/
def orderable (D : Decls) (lt rt : Ty) : Bool :=
  match D.tryPrim lt, D.tryPrim rt with
  | some a, some b =>
    (a.isNumber && b.isNumber) || (a == .str && b == .str) || (a == .bytearray && b == .bytearray)
  | _, _ => false

/-- `transform_is_in` after the non-None checks -/
def isInCheck (D : Decls) (mt ct : Ty) : Res Ty :=
  match ct with
  | .list _ => .ok .bool
  | .set _ =>
    match mt with
    | .prim _ | .our _ => .ok .bool
    | _ => .err [.memberUnhashable]
  | _ =>
    match D.tryPrim ct with
    | some .str => if D.tryPrim mt = some .str then .ok .bool else .err [.memberNotSamePrim]
    | some .bytearray => if D.tryPrim mt = some .bytearray then .ok .bool else .err [.memberNotSamePrim]
    | _ => .err [.containerNotContainer]

/-- `_assignable(target_type, value_type)` for a declared, non-Optional, non-list target -/
def assignable (D : Decls) : Ty → Ty → Bool
  | .prim p, .prim q => p == q
  | .prim p, .our c =>
    match D.findOur c with
    | some (.cprim q _ _) => p == q
    | _ => false
  | .our t, v =>
    match D.findOur t with
    | some (.enum _) => v == .our t
    | some (.cprim q constrained desc) =>
      match v with
      | .prim r => !constrained && q == r
      | .our c =>
        match D.findOur c with
        | some (.cprim r _ _) => q == r && (c == t || desc.contains c)
        | _ => false
      | _ => false
    | some (.cls cd) =>
      match v with
      | .our c =>
        match D.findOur c with
        | some (.cls _) => c == t || cd.descendants.contains c
        | _ => false
      | _ => false
    | none => false
  | _, _ => false

/-- `_passable(parameter_type, argument_type)`: as `_assignable`, but lists are co-variant and a
length passes for an integer -/
def passable (D : Decls) : Ty → Ty → Bool
  | .opt p, .opt a => passable D p a
  | .opt p, a => passable D p a
  | _, .opt _ => false
  | .list p, .list a => passable D p a
  | .list _, _ => false
  | .prim .int, .prim .length => true
  | _, .enumType _ => false
  | p, a => assignable D p a

/-- the errors of `_check_arguments`: the number of arguments, then one error per argument that
cannot be passed -/
def passErrs (D : Decls) : List Ty → List Ty → List Err
  | p :: ps, a :: as => (if passable D p a then [] else [Err.argNotPassable]) ++ passErrs D ps as
  | _, _ => []

def checkArgs (D : Decls) (params args : List Ty) : List Err :=
  if args.length ≠ params.length then [.argCount] else passErrs D params args

/-- the types whose length the Python transpiler computes (as the C#, Java, TypeScript ones) -/
def lenable (D : Decls) (τ : Ty) : Bool :=
  match τ with
  | .list _ => true
  | _ => D.tryPrim τ == some .str || D.tryPrim τ == some .bytearray

/-- the declared argument types of the method `n` of the class of the instance -/
def methodParams (Γ : TEnv) (ri : Res Ty) (n : Text) : Option (List Ty) :=
  match ri with
  | .ok (.our c) =>
    match Γ.decls.findOur c with
    | some (.cls cd) => assoc n cd.mparams
    | _ => none
  | _ => none

mutual
  def infer (key : Expr → κ) (Γ : TEnv) (F : Facts κ) : Expr → Res Ty
    | .member i n => memberRes Γ F (key (.member i n)) n (infer key Γ F i)
    | .index c i =>
      match infer key Γ F c with
      | .ok ct =>
        match infer key Γ F i with
        | .ok it =>
          let es := (if ct.isOpt then [Err.collectionOptional] else []) ++ (if it.isOpt then [Err.indexOptional] else [])
          if es ≠ [] then .err es else
          match ct with
          | .list items => if it.isIntLike then .ok items else .err [.indexNotInt]
          | _ => .err [.indexOnNonList]
        | .err es => .err es
        | .crash s => .crash s
      | .err es => .err es
      | .crash s => .crash s
    | .cmp l op r =>
      match infer key Γ F l with
      | .ok lt =>
        match infer key Γ F r with
        | .ok rt =>
          let es := (if lt.isOpt then [Err.leftOptional] else []) ++ (if rt.isOpt then [Err.rightOptional] else [])
          if es ≠ [] then .err es else
          -- `==` / `!=` are defined between any two values; the ordering is not
          if op.isOrdering && !orderable Γ.decls lt rt then .err [.cmpNotOrderable] else .ok .bool
        | .err es => .err es
        | .crash s => .crash s
      | .err es => .err es
      | .crash s => .crash s
    | .isIn m c =>
      -- both operands are transformed before either result is looked at
      match infer key Γ F m with
      | .crash s => .crash s
      | rm =>
        match infer key Γ F c with
        | .crash s => .crash s
        | rc =>
          match rm, rc with
          | .ok mt, .ok ct =>
            let es := (if mt.isOpt then [Err.isInMemberOptional] else []) ++ (if ct.isOpt then [Err.containerOptional] else [])
            if es ≠ [] then .err es else isInCheck Γ.decls mt ct
          | .err e1, .err e2 => .err (e1 ++ e2)
          | .err e1, _ => .err e1
          | _, .err e2 => .err e2
          | _, _ => .crash "unreachable"
    | .impl a c =>
      match infer key Γ F a with
      | .ok at_ =>
        let here := if at_.isOpt then [Err.antecedentOptional]
          else if Γ.decls.isBool at_ then [] else [Err.antecedentNotBool]
        match infer key Γ (implFacts key F a) c with
        | .ok ct =>
          let all := here ++ (if Γ.decls.isBool ct then [] else [Err.consequentNotBool])
          if all ≠ [] then .err all else .ok .bool
        | .err es => .err (here ++ es)
        | .crash s => .crash s
      | .err es => .err es
      | .crash s => .crash s
    | .methodCall i n args =>
      -- the arguments first, then the member; `_check_arguments` when nothing failed
      match inferArgs key Γ F args with
      | .crash s => .crash s
      | ra =>
        match memberRes Γ F (key (.member i n)) n (infer key Γ F i) with
        | .crash s => .crash s
        | .err es => .err (errsOf ra ++ es)
        | .ok (.opt _) => .err (errsOf ra ++ [.methodMemberOptional])
        | .ok mt =>
          match ra with
          | .err ea => .err ea
          | .crash s => .crash s
          | .ok ts =>
            match mt with
            | .method _ ret =>
              match methodParams Γ (infer key Γ F i) n with
              | some ps =>
                if checkArgs Γ.decls ps ts ≠ [] then .err (checkArgs Γ.decls ps ts)
                else .ok (strip F (key (.methodCall i n args)) (retTy ret))
              | none => .crash "method_call:no-such-method"  -- a method type comes from the class
            | _ => .err [.notAMethod]
    | .name x => inferName key Γ F x
    | .funCall n args =>
      match inferName key Γ F n with
      | .crash s => .crash s
      | rf =>
        -- the arguments are transformed even if the name failed (errors accumulate)
        match inferArgs key Γ F args with
        | .crash s => .crash s
        | ra =>
          match rf with
          | .err e0 => .err (e0 ++ errsOf ra)
          | .ok (.verif m ret) =>
            match ra with
            | .err ea => .err ea
            | .crash s => .crash s
            | .ok ts =>
              match Γ.decls.findFn m with
              | some f =>
                if checkArgs Γ.decls f.params ts ≠ [] then .err (checkArgs Γ.decls f.params ts)
                else .ok (strip F (key (.funCall n args)) (retTy ret))
              | none => .crash "function_call:no-such-function"  -- a function type comes from the declarations
          | .ok (.builtin m ret) =>
            match ra with
            | .err ea => .err ea
            | .crash s => .crash s
            | .ok ts =>
              if m ≠ lenName then .ok (strip F (key (.funCall n args)) (retTy ret)) else
              -- `len`: exactly one argument, which is not `None`; which types have a length is left
              -- to the transpilers (the Python one: `Γ.backend`)
              match ts with
              | [t] =>
                if t.isOpt then .err [.lenArgOptional]
                else if Γ.backend && !lenable Γ.decls t then .err [.lenKind]
                else .ok (strip F (key (.funCall n args)) (retTy ret))
              | _ => .err [.lenArgCount]
          -- not a function: the error, `failed = True`, then the errors of the arguments
          | .ok _ => .err (Err.notAFunction :: errsOf ra)
          | .crash s => .crash s
    | .const c => .ok (constTy c)
    | .isNone e =>
      match infer key Γ F e with
      | .ok (.opt _) => .ok .bool
      | .ok _ => .err [.isNoneOnNonOptional]
      | .err es => .err es
      | .crash s => .crash s
    | .isNotNone e =>
      match infer key Γ F e with
      | .ok (.opt _) => .ok .bool
      | .ok _ => .err [.isNotNoneOnNonOptional]
      | .err es => .err es
      | .crash s => .crash s
    | .not e =>
      match infer key Γ F e with
      | .ok τ =>
        if τ.isOpt then .err [.operandOptional]
        else if Γ.decls.isBool τ then .ok .bool else .err [.operandNotBool]
      | .err es => .err es
      | .crash s => .crash s
    | .and es =>
      match inferAnd key Γ F es with
      | .ok _ => .ok .bool
      | .err xs => .err xs
      | .crash s => .crash s
    | .or es =>
      match inferOr key Γ F es with
      | .ok _ => .ok .bool
      | .err xs => .err xs
      | .crash s => .crash s
    | .add l r => arithRes (infer key Γ F l) (infer key Γ F r)
    | .sub l r => arithRes (infer key Γ F l) (infer key Γ F r)
    | .joinedStr ps =>
      match inferParts key Γ F ps with
      | .ok _ => .ok (.prim .str)
      | .err xs => .err xs
      | .crash s => .crash s
    | .any g c =>
      match inferGen key Γ F g with
      -- the facts stay in force inside the generator
      | .ok (x, τx) => condRes (infer key (Γ.bind x τx) F c)
      | .err es => .err es
      | .crash s => .crash s
    | .all g c =>
      match inferGen key Γ F g with
      | .ok (x, τx) => condRes (infer key (Γ.bind x τx) F c)
      | .err es => .err es
      | .crash s => .crash s
  /-- the loop variable and its type -/
  def inferGen (key : Expr → κ) (Γ : TEnv) (F : Facts κ) : Gen → Res (Text × Ty)
    | .forEach x it =>
      if (Γ.find x).isSome then .err [.varAlreadyDefined] else
      match infer key Γ F it with
      | .ok (.opt _) => .err [.iterOptional]
      | .ok (.list items) => .ok (x, items)
      | .ok _ => .err [.iterNotList]
      | .err es => .err es
      | .crash s => .crash s
    | .forRange x a b =>
      if (Γ.find x).isSome then .err [.varAlreadyDefined] else
      match infer key Γ F a with
      | .ok at_ =>
        match infer key Γ F b with
        | .ok bt =>
          let es := (if at_.isOpt then [Err.startOptional] else []) ++ (if bt.isOpt then [Err.endOptional] else [])
          if es ≠ [] then .err es else
          if !at_.isIntLike then .err [.startNotInt] else
          if !bt.isIntLike then .err [.endNotInt] else
          .ok (x, if at_ = .prim .length || bt = .prim .length then .prim .length else .prim .int)
        | .err es => .err es
        | .crash s => .crash s
      | .err es => .err es
      | .crash s => .crash s
  /-- the conjuncts of `transform_and`, left to right, each `is not None` conjunct adding its
  fact for the conjuncts after it -/
  def inferAnd (key : Expr → κ) (Γ : TEnv) (F : Facts κ) : List Expr → Res Unit
    | [] => .ok ()
    | e :: es =>
      match infer key Γ F e with
      | .ok τ =>
        let here := if τ.isOpt then [Err.valueOptional] else if Γ.decls.isBool τ then [] else [Err.valueNotBool]
        match inferAnd key Γ (andFact key F e) es with
        | .ok _ => if here ≠ [] then .err here else .ok ()
        | .err xs => .err (here ++ xs)
        | .crash s => .crash s
      | .err xs => .err xs
      | .crash s => .crash s
  /-- the disjuncts of `transform_or`; each `is None` disjunct adds its fact for the rest -/
  def inferOr (key : Expr → κ) (Γ : TEnv) (F : Facts κ) : List Expr → Res Unit
    | [] => .ok ()
    | e :: es =>
      match infer key Γ F e with
      | .ok τ =>
        let here := if τ.isOpt then [Err.valueOptional] else if Γ.decls.isBool τ then [] else [Err.valueNotBool]
        match inferOr key Γ (orFact key F e) es with
        | .ok _ => if here ≠ [] then .err here else .ok ()
        | .err xs => .err (here ++ xs)
        | .crash s => .crash s
      | .err xs => .err xs
      | .crash s => .crash s
  /-- all the arguments are transformed, the errors accumulate; the types of the arguments -/
  def inferArgs (key : Expr → κ) (Γ : TEnv) (F : Facts κ) : List Expr → Res (List Ty)
    | [] => .ok []
    | e :: es =>
      match infer key Γ F e with
      | .crash s => .crash s
      | .err xs =>
        match inferArgs key Γ F es with
        | .ok _ => .err xs
        | .err ys => .err (xs ++ ys)
        | .crash s => .crash s
      | .ok τ =>
        match inferArgs key Γ F es with
        | .ok ts => .ok (τ :: ts)
        | .err ys => .err ys
        | .crash s => .crash s
  /-- `transform_joined_str` / `transform_formatted_value` -/
  def inferParts (key : Expr → κ) (Γ : TEnv) (F : Facts κ) : List JPart → Res Unit
    | [] => .ok ()
    | .lit _ :: ps => inferParts key Γ F ps
    | .fv e :: ps =>
      match infer key Γ F e with
      | .crash s => .crash s
      | .err xs =>
        match inferParts key Γ F ps with
        | .ok _ => .err xs
        | .err ys => .err (xs ++ ys)
        | .crash s => .crash s
      | .ok τ =>
        if τ.isOpt then
          match inferParts key Γ F ps with
          | .ok _ => .err [.fvOptional]
          | .err ys => .err (.fvOptional :: ys)
          | .crash s => .crash s
        else inferParts key Γ F ps
end

/-- `infer_for_invariant`: the body, then "Expected the body of an invariant to be a boolean". -/
def inferInv (key : Expr → κ) (Γ : TEnv) (e : Expr) : Res Ty :=
  match infer key Γ [] e with
  | .ok τ => if Γ.decls.isBool τ then .ok τ else .err [.bodyNotBool]
  | r => r

/-- The real inferrer: keys are the canonical strings. -/
def inferC (Γ : TEnv) (e : Expr) : Res Ty := infer canon Γ [] e

/-- The real `infer_for_invariant`. -/
def inferInvC (Γ : TEnv) (e : Expr) : Res Ty := inferInv canon Γ e

def TEnv.withBackend (Γ : TEnv) : TEnv := { Γ with backend := true }

/-- The invariant passes the inference AND the Python transpiler's check of `len`. -/
def acceptsPy (Γ : TEnv) (e : Expr) : Res Ty := inferInv canon Γ.withBackend e

