import AasVerif.Model.Expr.Syntax
/-!
Wire format of expressions: comma-separated prefix tokens without spaces
(`harness/expr_wire.py` is the Python twin).  Texts are dot-separated hex (`Text.enc`).

    expr := m expr <text>            member            | x expr expr          index
          | c <lt|le|gt|ge|eq|ne> expr expr  comparison | i expr expr          is in
          | p expr expr              implication       | M expr <text> <n> expr*n   method call
          | n <text>                 name              | F <text> <n> expr*n   function call
          | kb <0|1> | ki <int> | kf <text> | ks <text>  constants
          | z expr  is None | Z expr  is not None | N expr  not
          | A <n> expr*n  and | O <n> expr*n  or | a expr expr  add | s expr expr  sub
          | j <n> part*n  joined str | y gen expr  any | Y gen expr  all
    part := l <text> | v expr
    gen  := e <text> expr | r <text> expr expr
-/
namespace AasVerif.Expr.Wire
open AasVerif

def encCmp : Cmp → String
  | .lt => "lt" | .le => "le" | .gt => "gt" | .ge => "ge" | .eq => "eq" | .ne => "ne"

def decCmp : String → Option Cmp
  | "lt" => some .lt | "le" => some .le | "gt" => some .gt | "ge" => some .ge
  | "eq" => some .eq | "ne" => some .ne | _ => none

mutual
  def encExpr : Expr → List String
    | .member i n => "m" :: encExpr i ++ [Text.enc n]
    | .index c i => "x" :: encExpr c ++ encExpr i
    | .cmp l op r => "c" :: encCmp op :: encExpr l ++ encExpr r
    | .isIn m c => "i" :: encExpr m ++ encExpr c
    | .impl a c => "p" :: encExpr a ++ encExpr c
    | .methodCall i n args => "M" :: encExpr i ++ Text.enc n :: toString args.length :: encExprs args
    | .name n => ["n", Text.enc n]
    | .funCall n args => "F" :: Text.enc n :: toString args.length :: encExprs args
    | .const (.bool b) => ["kb", if b then "1" else "0"]
    | .const (.int i) => ["ki", toString i]
    | .const (.float r) => ["kf", Text.enc r]
    | .const (.str s) => ["ks", Text.enc s]
    | .isNone e => "z" :: encExpr e
    | .isNotNone e => "Z" :: encExpr e
    | .not e => "N" :: encExpr e
    | .and es => "A" :: toString es.length :: encExprs es
    | .or es => "O" :: toString es.length :: encExprs es
    | .add l r => "a" :: encExpr l ++ encExpr r
    | .sub l r => "s" :: encExpr l ++ encExpr r
    | .joinedStr ps => "j" :: toString ps.length :: encParts ps
    | .any g c => "y" :: encGen g ++ encExpr c
    | .all g c => "Y" :: encGen g ++ encExpr c
  def encExprs : List Expr → List String
    | [] => []
    | e :: es => encExpr e ++ encExprs es
  def encPart : JPart → List String
    | .lit s => ["l", Text.enc s]
    | .fv e => "v" :: encExpr e
  def encParts : List JPart → List String
    | [] => []
    | p :: ps => encPart p ++ encParts ps
  def encGen : Gen → List String
    | .forEach v it => "e" :: Text.enc v :: encExpr it
    | .forRange v a b => "r" :: Text.enc v :: encExpr a ++ encExpr b
end

def enc (e : Expr) : String := ",".intercalate (encExpr e)

abbrev P (α : Type) := List String → Option (α × List String)

def pText : P Text
  | s :: r => (Text.dec s).map (·, r)
  | _ => none

def pNat : P Nat
  | s :: r => s.toNat?.map (·, r)
  | _ => none

def pInt : P Int
  | s :: r => s.toInt?.map (·, r)
  | _ => none

mutual
  partial def pExpr : P Expr
    | "m" :: ts => do let (i, ts) ← pExpr ts; let (n, ts) ← pText ts; some (.member i n, ts)
    | "x" :: ts => do let (c, ts) ← pExpr ts; let (i, ts) ← pExpr ts; some (.index c i, ts)
    | "c" :: op :: ts => do
      let op ← decCmp op
      let (l, ts) ← pExpr ts; let (r, ts) ← pExpr ts; some (.cmp l op r, ts)
    | "i" :: ts => do let (m, ts) ← pExpr ts; let (c, ts) ← pExpr ts; some (.isIn m c, ts)
    | "p" :: ts => do let (a, ts) ← pExpr ts; let (c, ts) ← pExpr ts; some (.impl a c, ts)
    | "M" :: ts => do
      let (i, ts) ← pExpr ts; let (n, ts) ← pText ts; let (k, ts) ← pNat ts
      let (args, ts) ← pExprs k ts; some (.methodCall i n args, ts)
    | "n" :: ts => do let (n, ts) ← pText ts; some (.name n, ts)
    | "F" :: ts => do
      let (n, ts) ← pText ts; let (k, ts) ← pNat ts
      let (args, ts) ← pExprs k ts; some (.funCall n args, ts)
    | "kb" :: "0" :: ts => some (.const (.bool false), ts)
    | "kb" :: "1" :: ts => some (.const (.bool true), ts)
    | "ki" :: ts => do let (i, ts) ← pInt ts; some (.const (.int i), ts)
    | "kf" :: ts => do let (r, ts) ← pText ts; some (.const (.float r), ts)
    | "ks" :: ts => do let (s, ts) ← pText ts; some (.const (.str s), ts)
    | "z" :: ts => do let (e, ts) ← pExpr ts; some (.isNone e, ts)
    | "Z" :: ts => do let (e, ts) ← pExpr ts; some (.isNotNone e, ts)
    | "N" :: ts => do let (e, ts) ← pExpr ts; some (.not e, ts)
    | "A" :: ts => do let (k, ts) ← pNat ts; let (es, ts) ← pExprs k ts; some (.and es, ts)
    | "O" :: ts => do let (k, ts) ← pNat ts; let (es, ts) ← pExprs k ts; some (.or es, ts)
    | "a" :: ts => do let (l, ts) ← pExpr ts; let (r, ts) ← pExpr ts; some (.add l r, ts)
    | "s" :: ts => do let (l, ts) ← pExpr ts; let (r, ts) ← pExpr ts; some (.sub l r, ts)
    | "j" :: ts => do let (k, ts) ← pNat ts; let (ps, ts) ← pParts k ts; some (.joinedStr ps, ts)
    | "y" :: ts => do let (g, ts) ← pGen ts; let (c, ts) ← pExpr ts; some (.any g c, ts)
    | "Y" :: ts => do let (g, ts) ← pGen ts; let (c, ts) ← pExpr ts; some (.all g c, ts)
    | _ => none
  partial def pExprs : Nat → P (List Expr)
    | 0, ts => some ([], ts)
    | k + 1, ts => do let (e, ts) ← pExpr ts; let (es, ts) ← pExprs k ts; some (e :: es, ts)
  partial def pParts : Nat → P (List JPart)
    | 0, ts => some ([], ts)
    | k + 1, ts => do
      let (p, ts) ← (match ts with
        | "l" :: ts => do let (s, ts) ← pText ts; some (JPart.lit s, ts)
        | "v" :: ts => do let (e, ts) ← pExpr ts; some (JPart.fv e, ts)
        | _ => none)
      let (ps, ts) ← pParts k ts; some (p :: ps, ts)
  partial def pGen : P Gen
    | "e" :: ts => do let (v, ts) ← pText ts; let (it, ts) ← pExpr ts; some (.forEach v it, ts)
    | "r" :: ts => do
      let (v, ts) ← pText ts; let (a, ts) ← pExpr ts; let (b, ts) ← pExpr ts; some (.forRange v a b, ts)
    | _ => none
end

def dec (s : String) : Option Expr :=
  match pExpr (s.splitOn ",") with
  | some (e, []) => some e
  | _ => none

end AasVerif.Expr.Wire
