import AasVerif.Model.Expr.Syntax
/-! Syntactic fragments of the expression language used in theorem statements. -/
namespace AasVerif.Expr

mutual
  /-- no `any` / `all` anywhere -/
  def noQuant : Expr → Bool
    | .member i _ => noQuant i
    | .index c i => noQuant c && noQuant i
    | .cmp l _ r => noQuant l && noQuant r
    | .isIn m c => noQuant m && noQuant c
    | .impl a c => noQuant a && noQuant c
    | .methodCall i _ args => noQuant i && noQuantList args
    | .name _ => true
    | .funCall _ args => noQuantList args
    | .const _ => true
    | .isNone e => noQuant e
    | .isNotNone e => noQuant e
    | .not e => noQuant e
    | .and es => noQuantList es
    | .or es => noQuantList es
    | .add l r => noQuant l && noQuant r
    | .sub l r => noQuant l && noQuant r
    | .joinedStr ps => noQuantParts ps
    | .any _ _ => false
    | .all _ _ => false
  def noQuantList : List Expr → Bool
    | [] => true
    | e :: es => noQuant e && noQuantList es
  def noQuantParts : List JPart → Bool
    | [] => true
    | .lit _ :: ps => noQuantParts ps
    | .fv e :: ps => noQuant e && noQuantParts ps
end

end AasVerif.Expr
