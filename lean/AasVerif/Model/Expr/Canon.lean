import AasVerif.Model.Expr.Syntax
/-!
`type_inference._Canonicalizer`: the canonical string of every node, which the inferrer uses
as the key of its non-null facts (`_Inferrer._non_null`, a counting map over these strings).

Faithful to the bracket logic (`_needs_no_brackets`).  `repr(...)` of constants: `bool`,
`int` exactly, `float` is its `repr` text already, `str` as CPython's `repr` for printable
ASCII and the usual escapes (other code points are written as they are — CPython escapes the
non-printable ones; the correspondence harness compares whole strings only where that makes
no difference and equality *classes* of keys everywhere).
-/
namespace AasVerif.Expr

def t (s : String) : Text := Text.ofString s

def natText (n : Nat) : Text := Text.ofString (toString n)

def intText' (i : Int) : Text :=
  if i < 0 then 45 :: natText i.natAbs else natText i.natAbs

def hex2 (n : Nat) : Text :=
  let d (k : Nat) : Nat := if k < 10 then 48 + k else 87 + k
  [d (n / 16), d (n % 16)]

/-- CPython `repr` of a `str` (see the module docstring for the approximation). -/
def reprStr (s : Text) : Text :=
  let q : Nat := if s.contains 39 && !s.contains 34 then 34 else 39
  let esc (c : Nat) : Text :=
    if c = 92 then [92, 92]
    else if c = q then [92, q]
    else if c = 10 then [92, 110]
    else if c = 13 then [92, 114]
    else if c = 9 then [92, 116]
    else if c < 32 || c = 127 then [92, 120] ++ hex2 c
    else [c]
  [q] ++ (s.map esc).flatten ++ [q]

def reprConst : Const → Text
  | .bool true => t "True"
  | .bool false => t "False"
  | .int i => intText' i
  | .float r => r
  | .str s => reprStr s

/-- `node.op.value`: the values of `parse.tree.Comparator` are the literal names -/
def cmpText : Cmp → Text
  | .lt => t "LT" | .le => t "LE" | .gt => t "GT" | .ge => t "GE" | .eq => t "EQ" | .ne => t "NE"

/-- `_Canonicalizer._needs_no_brackets` -/
def needsNoBrackets : Expr → Bool
  | .member .. | .methodCall .. | .name .. | .funCall .. | .const .. | .joinedStr ..
  | .any .. | .all .. => true
  | _ => false

def joinWith (sep : Text) : List Text → Text
  | [] => []
  | [a] => a
  | a :: r => a ++ sep ++ joinWith sep r

def brk (nnb : Bool) (s : Text) : Text := if nnb then s else t "(" ++ s ++ t ")"

mutual
  /-- `_Canonicalizer.transform` -/
  def canon : Expr → Text
    | .member i n => brk (needsNoBrackets i) (canon i) ++ t "." ++ n
    | .index c i => brk (needsNoBrackets c) (canon c) ++ t "[" ++ canon i ++ t "]"
    | .cmp l op r =>
      brk (needsNoBrackets l) (canon l) ++ t " " ++ cmpText op ++ t " " ++ brk (needsNoBrackets r) (canon r)
    | .isIn m c => brk (needsNoBrackets m) (canon m) ++ t " in " ++ brk (needsNoBrackets c) (canon c)
    | .impl a c => brk (needsNoBrackets a) (canon a) ++ [32, 8658, 32] ++ brk (needsNoBrackets c) (canon c)
    | .methodCall i n args =>
      brk (needsNoBrackets i) (canon i) ++ t "." ++ n ++ t "(" ++ joinWith (t ", ") (canonList args) ++ t ")"
    | .name x => x
    | .funCall n args => n ++ t "(" ++ joinWith (t ", ") (canonList args) ++ t ")"
    | .const c => reprConst c
    | .isNone e => brk (needsNoBrackets e) (canon e) ++ t " is None"
    | .isNotNone e => brk (needsNoBrackets e) (canon e) ++ t " is not None"
    -- `transform_not` tests `_needs_no_brackets(node)` on the `Not` node itself: always bracketed
    | .not e => t "not (" ++ canon e ++ t ")"
    | .and es => joinWith (t " and ") (canonWrapped es)
    | .or es => joinWith (t " or ") (canonWrapped es)
    | .add l r => brk (needsNoBrackets l) (canon l) ++ t " + " ++ brk (needsNoBrackets r) (canon r)
    | .sub l r => brk (needsNoBrackets l) (canon l) ++ t " - " ++ brk (needsNoBrackets r) (canon r)
    | .joinedStr ps => canonParts ps
    | .any g c => t "any(" ++ brk (needsNoBrackets c) (canon c) ++ t " " ++ canonGen g ++ t ")"
    | .all g c => t "all(" ++ brk (needsNoBrackets c) (canon c) ++ t " " ++ canonGen g ++ t ")"
  def canonList : List Expr → List Text
    | [] => []
    | e :: es => canon e :: canonList es
  def canonWrapped : List Expr → List Text
    | [] => []
    | e :: es => brk (needsNoBrackets e) (canon e) :: canonWrapped es
  def canonParts : List JPart → Text
    | [] => []
    | .lit s :: ps => reprStr s ++ canonParts ps
    | .fv e :: ps => t "{" ++ canon e ++ t "}" ++ canonParts ps
  def canonGen : Gen → Text
    | .forEach v it => t "for " ++ v ++ t " in " ++ brk (needsNoBrackets it) (canon it)
    | .forRange v a b => t "for " ++ v ++ t " in range(" ++ canon a ++ t ", " ++ canon b ++ t ")"
end

end AasVerif.Expr
