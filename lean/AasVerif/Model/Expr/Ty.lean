import AasVerif.Model.Expr.Syntax
/-!
Types of the type inference (`aas_core_codegen/intermediate/type_inference.py`): the
`TypeAnnotationUnion` of that module, the declarations of a meta-model that the inferrer
consults (class table with properties / methods / descendants, enumerations, constrained
primitives, constants, verification functions) and the environment (`Environment.find`).

Function-like types carry their declared return type, so a type is self-contained:
`verif f ret` is `VerificationTypeAnnotation(func)`, `builtin len length` is the
only `BuiltinFunctionTypeAnnotation` of `populate_base_environment`, `method m ret` is
`MethodTypeAnnotation(method)`.  A function without a return annotation (`returns is None`)
has `ret = prim none`, which is what the inferrer makes of it at every call.
-/
namespace AasVerif.Expr

/-- `type_inference.PrimitiveType` (incl. `LENGTH` and the statement type `NONE`). -/
inductive Prim where
  | bool | int | float | str | bytearray | length | none
  deriving DecidableEq, Repr, Inhabited

/-- `type_inference.TypeAnnotationUnion`. -/
inductive Ty where
  | prim (p : Prim)
  /-- `OurTypeAnnotation`: class, enumeration or constrained primitive, by name -/
  | our (name : Text)
  | verif (name : Text) (returns : Ty)
  | builtin (name : Text) (returns : Ty)
  | method (name : Text) (returns : Ty)
  | list (items : Ty)
  | set (items : Ty)
  | opt (value : Ty)
  /-- `EnumerationAsTypeTypeAnnotation`: what the *name* of an enumeration denotes -/
  | enumType (name : Text)
  deriving DecidableEq, Repr, Inhabited

def Ty.isOpt : Ty → Bool
  | .opt _ => true
  | _ => false

def Ty.bool : Ty := .prim .bool

/-- function-like types: their names are not variables of the evaluation environment -/
def Ty.isFn : Ty → Bool
  | .verif .. | .builtin .. | .method .. => true
  | _ => false

/-- `isinstance(t, PrimitiveTypeAnnotation) and t.a_type in (INT, LENGTH)` -/
def Ty.isIntLike : Ty → Bool
  | .prim .int | .prim .length => true
  | _ => false

/-- `isinstance(t, PrimitiveTypeAnnotation) and t.a_type in (INT, FLOAT, LENGTH)` -/
def Ty.isNumeric : Ty → Bool
  | .prim .int | .prim .float | .prim .length => true
  | _ => false

/-- A class as the inferrer sees it (`properties_by_name`, `methods_by_name` — both include
the inherited members — and the transitive descendants for the subclass relation).
`methods` maps a method to its return type, `mparams` (same keys) to the declared types of its
arguments (`method.arguments`, no `self`). -/
structure ClassDecl where
  props : List (Text × Ty)
  methods : List (Text × Ty)
  mparams : List (Text × List Ty)
  descendants : List Text
  deriving Repr, Inhabited

/-- `_types.OurType`. -/
inductive OurDecl where
  | cls (c : ClassDecl)
  | enum (literals : List Text)
  /-- constrained primitive: its constrainee, whether it has invariants (`len(invariants) > 0`)
  and its transitive descendants (`descendant_id_set`) -/
  | cprim (constrainee : Prim) (constrained : Bool) (descendants : List Text)
  deriving Repr, Inhabited

/-- A verification function: the declared types of its arguments and its return type. -/
structure FnSig where
  name : Text
  params : List Ty
  returns : Ty
  deriving Repr, Inhabited

def FnSig.nargs (f : FnSig) : Nat := f.params.length

/-- What the inferrer reads from the symbol table. -/
structure Decls where
  ours : List (Text × OurDecl)
  /-- verification functions -/
  fns : List FnSig
  /-- constants: primitive (`prim p`) or constant set (`set items`) -/
  consts : List (Text × Ty)
  deriving Repr, Inhabited

def assoc {α : Type} (k : Text) : List (Text × α) → Option α
  | [] => none
  | (k', v) :: r => if k' = k then some v else assoc k r

def Decls.findOur (D : Decls) (n : Text) : Option OurDecl := assoc n D.ours

def Decls.findFn (D : Decls) (n : Text) : Option FnSig := D.fns.find? (fun f => f.name = n)

def lenName : Text := [108, 101, 110]
def selfName : Text := [115, 101, 108, 102]

/-- `populate_base_environment`: `len`, the constants, the verification functions, the
enumerations as types.  (The Python code builds a dict; names are unique in an accepted
meta-model, so first-match lookup in this list is the same function.) -/
def Decls.baseScope (D : Decls) : List (Text × Ty) :=
  (lenName, Ty.builtin lenName (.prim .length))
    :: D.consts
    ++ D.fns.map (fun f => (f.name, Ty.verif f.name f.returns))
    ++ D.ours.filterMap (fun (n, d) => match d with
        | .enum _ => some (n, Ty.enumType n)
        | _ => none)

/-- Typing environment: declarations and the chain of scopes flattened, innermost first
(loop variables, then `self`, then the base environment).

`backend = true` makes the inference also apply the one check that the *Python transpiler*
(`python/transpilation.py`, after a successful inference, on the recorded `type_map`) makes on
the types: the argument of `len` is a string, a byte array or a list.  The inferrer proper is
`backend = false`. -/
structure TEnv where
  decls : Decls
  scope : List (Text × Ty)
  backend : Bool := false
  deriving Repr, Inhabited

/-- `Environment.find`. -/
def TEnv.find (Γ : TEnv) (x : Text) : Option Ty := assoc x Γ.scope

/-- `MutableEnvironment.set` of a loop variable (removed again after the generator). -/
def TEnv.bind (Γ : TEnv) (x : Text) (τ : Ty) : TEnv := { Γ with scope := (x, τ) :: Γ.scope }

/-- The environment of the invariants of our type `self`: `self ↦ our self` over the base. -/
def TEnv.forSelf (D : Decls) (self : Text) : TEnv :=
  { decls := D, scope := (selfName, Ty.our self) :: D.baseScope }

/-- `try_primitive_type`: the primitive type of a primitive or of a constrained primitive. -/
def Decls.tryPrim (D : Decls) : Ty → Option Prim
  | .prim p => some p
  | .our n =>
    match D.findOur n with
    | some (.cprim p _ _) => some p
    | _ => none
  | _ => none

/-- a boolean context accepts `bool` and constrained primitives over `bool` -/
def Decls.isBool (D : Decls) (τ : Ty) : Bool := D.tryPrim τ == some .bool

end AasVerif.Expr
