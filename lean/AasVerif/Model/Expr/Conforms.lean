import AasVerif.Model.Expr.Eval
import AasVerif.Model.Expr.Infer
/-!
Run-time values against inferred types: `HasTy D v τ` ("`v` inhabits `τ`", `None` only under
`Optional` — and as the value of the statement type `None`), `Conforms` (the evaluation
environment conforms to the typing environment) and the assumptions about the *parameters*
of the evaluation (`Env.funs`, `Env.meths`, `FloatOps`, `fmtOther`), which are not expressions
of the language.
-/
namespace AasVerif.Expr

/-- `v` inhabits `τ`.  For an instance only the properties of the *static* class are
demanded (the dynamic class is not constrained: a weaker hypothesis, hence stronger theorems). -/
inductive HasTy (D : Decls) : Val → Ty → Prop where
  | bool (b : Bool) : HasTy D (.bool b) (.prim .bool)
  | int (i : Int) : HasTy D (.int i) (.prim .int)
  | length (i : Int) : HasTy D (.int i) (.prim .length)
  | float (r : Text) : HasTy D (.float r) (.prim .float)
  | str (s : Text) : HasTy D (.str s) (.prim .str)
  | bytes (b : List Nat) : HasTy D (.bytes b) (.prim .bytearray)
  /-- what a function without a return annotation returns -/
  | noneStmt : HasTy D .none (.prim .none)
  | optNone (τ : Ty) : HasTy D .none (.opt τ)
  | optSome {v : Val} {τ : Ty} : HasTy D v τ → HasTy D v (.opt τ)
  | list {items : List Val} {τ : Ty} : (∀ x, x ∈ items → HasTy D x τ) → HasTy D (.list items) (.list τ)
  | set {items : List Val} {τ : Ty} : (∀ x, x ∈ items → HasTy D x τ) → HasTy D (.set items) (.set τ)
  | enumLit {e l : Text} {lits : List Text} :
      D.findOur e = some (.enum lits) → l ∈ lits → HasTy D (.enumLit e l) (.our e)
  | enumCls {e : Text} {lits : List Text} :
      D.findOur e = some (.enum lits) → HasTy D (.enumCls e lits) (.enumType e)
  | cprim {n : Text} {p : Prim} {v : Val} :
      D.findOur n = some (.cprim p) → p ≠ .none → HasTy D v (.prim p) → HasTy D v (.our n)
  | inst {c : Text} {cd : ClassDecl} {oid : Nat} {d : Text} {fields : List (Text × Val)} :
      D.findOur c = some (.cls cd) →
      (∀ p τ, assoc p cd.props = some τ → (lookup p fields).isSome = true) →
      (∀ p τ v, assoc p cd.props = some τ → lookup p fields = some v → HasTy D v τ) →
      HasTy D (.inst oid d fields) (.our c)

/-- function-like types: their names are not variables of the evaluation environment -/
def Ty.isFn : Ty → Bool
  | .verif .. | .builtin .. | .method .. => true
  | _ => false

/-- declared types (of properties): never a function, not even under `Optional` -/
def Ty.isValTy : Ty → Bool
  | .verif .. | .builtin .. | .method .. => false
  | .opt τ => τ.isValTy
  | _ => true

/-- Well-formed declarations: properties have value types. -/
def Decls.WF (D : Decls) : Prop :=
  ∀ c cd p τ, D.findOur c = some (.cls cd) → assoc p cd.props = some τ → τ.isValTy = true

/-- The values conform to the declared types: every variable of the typing environment that is
not a function has a value of its type. -/
def Conforms (ρ : Env) (Γ : TEnv) : Prop :=
  ∀ x τ, Γ.find x = some τ → τ.isFn = true ∨ ∃ v, lookup x ρ.vars = some v ∧ HasTy Γ.decls v τ

/-- The parameters of the evaluation never raise `AttributeError` on `None` themselves. -/
structure EnvSafe (ρ : Env) : Prop where
  funs : ∀ n f vs, ρ.funs n = some f → f vs ≠ .noneDeref
  meths : ∀ r n f vs, ρ.meths r n = some f → f vs ≠ .noneDeref
  cmp : ∀ op a b, ρ.fops.cmp op a b ≠ .noneDeref
  arith : ∀ ad a b, ρ.fops.arith ad a b ≠ .noneDeref
  fmt : ∀ v, ρ.fmtOther v ≠ .noneDeref

/-- Functions and methods return values of their declared return type — whatever the arguments
(the inferrer does not check the arguments, so nothing can be assumed about them). -/
structure CallsConform (ρ : Env) (Γ : TEnv) : Prop where
  /-- every verification function in scope is implemented -/
  impl : ∀ n m ret, Γ.find n = some (.verif m ret) → (ρ.funs n).isSome = true
  /-- built-in functions (`len`) return primitives -/
  builtin : ∀ n m ret, Γ.find n = some (.builtin m ret) → ∃ p, ret = .prim p
  funs : ∀ n m ret f vs v, (Γ.find n = some (.verif m ret) ∨ Γ.find n = some (.builtin m ret)) →
    ρ.funs n = some f → f vs = .val v → HasTy Γ.decls v ret
  meths : ∀ r c cd n ret f vs v, HasTy Γ.decls r (.our c) → Γ.decls.findOur c = some (.cls cd) →
    assoc n cd.methods = some ret → ρ.meths r n = some f → f vs = .val v → HasTy Γ.decls v ret

end AasVerif.Expr
