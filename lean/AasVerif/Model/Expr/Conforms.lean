import AasVerif.Model.Expr.Eval
import AasVerif.Model.Expr.Infer
/-!
Run-time values against inferred types: `HasTy D v τ` ("`v` inhabits `τ`", `None` only under
`Optional` — and as the value of the statement type `None`), `Conforms` (the evaluation
environment conforms to the typing environment), well-formed declarations (`Decls.WF`, with the
decidable `Decls.wfb` that the harness evaluates on the declarations of every real symbol table)
and the assumptions about the *parameters* of the evaluation (`Env.funs`, `Env.meths`, `FloatOps`,
`fmtOther`), which are not expressions of the language.
-/
namespace AasVerif.Expr

/-- `v` inhabits `τ`.  For an instance only the properties of the *static* class are
demanded (the dynamic class is not constrained: a weaker hypothesis, hence stronger theorems). -/
inductive HasTy (D : Decls) : Val → Ty → Prop where
  | bool (b : Bool) : HasTy D (.bool b) (.prim .bool)
  | int (i : Int) : HasTy D (.int i) (.prim .int)
  | length (i : Int) : HasTy D (.int i) (.prim .length)
  | float (r : Text) : HasTy D (.float r) (.prim .float)
  | str (s : Text) : HasTy D (.str s) (.prim .str)
  | bytes (b : List Nat) : HasTy D (.bytes b) (.prim .bytearray)
  /-- what a function without a return annotation returns -/
  | noneStmt : HasTy D .none (.prim .none)
  | optNone (τ : Ty) : HasTy D .none (.opt τ)
  | optSome {v : Val} {τ : Ty} : HasTy D v τ → HasTy D v (.opt τ)
  | list {items : List Val} {τ : Ty} : (∀ x, x ∈ items → HasTy D x τ) → HasTy D (.list items) (.list τ)
  | set {items : List Val} {τ : Ty} : (∀ x, x ∈ items → HasTy D x τ) → HasTy D (.set items) (.set τ)
  | enumLit {e l : Text} {lits : List Text} :
      D.findOur e = some (.enum lits) → l ∈ lits → HasTy D (.enumLit e l) (.our e)
  | enumCls {e : Text} {lits : List Text} :
      D.findOur e = some (.enum lits) → HasTy D (.enumCls e lits) (.enumType e)
  | cprim {n : Text} {p : Prim} {k : Bool} {ds : List Text} {v : Val} :
      D.findOur n = some (.cprim p k ds) → p ≠ .none → HasTy D v (.prim p) → HasTy D v (.our n)
  | inst {c : Text} {cd : ClassDecl} {oid : Nat} {d : Text} {fields : List (Text × Val)} :
      D.findOur c = some (.cls cd) →
      (∀ p τ, assoc p cd.props = some τ → (lookup p fields).isSome = true) →
      (∀ p τ v, assoc p cd.props = some τ → lookup p fields = some v → HasTy D v τ) →
      HasTy D (.inst oid d fields) (.our c)

/-- declared types (of properties): never a function, not even under `Optional` -/
def Ty.isValTy : Ty → Bool
  | .verif .. | .builtin .. | .method .. => false
  | .opt τ => τ.isValTy
  | _ => true

/-- Well-formed declarations. -/
structure Decls.WF (D : Decls) : Prop where
  /-- properties have value types -/
  props : ∀ c cd p τ, D.findOur c = some (.cls cd) → assoc p cd.props = some τ → τ.isValTy = true
  /-- a descendant is a class that has the properties of its ancestor, with the same types -/
  sub : ∀ t cd c, D.findOur t = some (.cls cd) → c ∈ cd.descendants →
    ∃ cd', D.findOur c = some (.cls cd') ∧ ∀ p τ, assoc p cd.props = some τ → assoc p cd'.props = some τ
  /-- a constrained primitive constrains a primitive type of the meta-model -/
  cprim : ∀ n q k ds, D.findOur n = some (.cprim q k ds) → q ≠ .none

/-- `Decls.WF`, decidable: evaluated by the harness on the declarations of every symbol table. -/
def Decls.wfb (D : Decls) : Bool :=
  D.ours.all fun (_, d) =>
    match d with
    | .cls cd =>
      cd.props.all (fun (_, τ) => τ.isValTy) &&
      cd.descendants.all (fun c =>
        match D.findOur c with
        | some (.cls cd') => cd.props.all (fun (p, τ) => assoc p cd'.props == some τ)
        | _ => false)
    | .enum _ => true
    | .cprim q _ _ => q != .none

/-- The values conform to the declared types: every variable of the typing environment that is
not a function has a value of its type. -/
def Conforms (ρ : Env) (Γ : TEnv) : Prop :=
  ∀ x τ, Γ.find x = some τ → τ.isFn = true ∨ ∃ v, lookup x ρ.vars = some v ∧ HasTy Γ.decls v τ

/-- The float operations and the formatting behave as CPython's: comparing two numbers gives a
`bool`, adding / subtracting two floats gives a float (no exception: overflow is `inf`), formatting
never raises. -/
structure EnvOK (ρ : Env) : Prop where
  cmp : ∀ op a b, a.isNum = true → b.isNum = true → ∃ r, ρ.fops.cmp op a b = .val (.bool r)
  arith : ∀ ad (x y : Text), ∃ r, ρ.fops.arith ad (.float x) (.float y) = .val (.float r)
  fmt : ∀ v, ∃ s, ρ.fmtOther v = .val (.str s)

/-- the values have the types, one by one -/
inductive ArgsHave (D : Decls) : List Val → List Ty → Prop where
  | nil : ArgsHave D [] []
  | cons {v : Val} {τ : Ty} {vs : List Val} {τs : List Ty} :
      HasTy D v τ → ArgsHave D vs τs → ArgsHave D (v :: vs) (τ :: τs)

/-- a value of the type, or `IndexError` (which no type system can exclude) -/
def OutOK (D : Decls) (o : Out) (τ : Ty) : Prop := o = .indexError ∨ ∃ v, o = .val v ∧ HasTy D v τ

/-- Functions and methods: implemented, and on arguments of their *declared* argument types they
return a value of their declared return type (or raise `IndexError`).  Nothing is assumed about
other arguments — the inferrer now refuses them. -/
structure CallsOK (ρ : Env) (Γ : TEnv) : Prop where
  /-- the names of functions are not variables of the evaluation environment -/
  notVar : ∀ n τ, Γ.find n = some τ → τ.isFn = true → lookup n ρ.vars = none
  /-- the one built-in function is `len`, and no global function shadows it -/
  builtin : ∀ n m ret, Γ.find n = some (.builtin m ret) →
    n = lenName ∧ m = lenName ∧ ret = .prim .length ∧ ρ.funs n = none
  funs : ∀ n m ret f, Γ.find n = some (.verif m ret) → Γ.decls.findFn m = some f →
    ∃ g, ρ.funs n = some g ∧ ∀ vs, ArgsHave Γ.decls vs f.params → OutOK Γ.decls (g vs) ret
  meths : ∀ r c cd n ret ps, HasTy Γ.decls r (.our c) → Γ.decls.findOur c = some (.cls cd) →
    assoc n cd.methods = some ret → assoc n cd.mparams = some ps →
    ∃ g, ρ.meths r n = some g ∧ ∀ vs, ArgsHave Γ.decls vs ps → OutOK Γ.decls (g vs) ret

end AasVerif.Expr
