import AasVerif.Model.Expr.Syntax
/-!
Python run-time semantics of the invariant / verification-function expression language.

`Expr.eval : Env → Expr → Out` is what CPython computes for the *source* expression of an
invariant (and for the code the Python transpiler emits from it, see `Model/PyEmit.lean`).

* Values (`Val`): `None`, `bool`, `int`, `float` (opaque atom: the text is never computed
  with here; comparing / adding / formatting floats are parameters of the environment,
  `FloatOps`), `str` (code points), `bytes`, `list`, enumeration literal, enumeration class
  (what the *name* of an enumeration evaluates to), instance (object identity `oid`, class
  name, field map keyed by *meta-model* property names), constant set (`frozenset`).
* Outcomes (`Out`): a value, or the exception raised: `typeError`, `noneDeref`
  (`AttributeError` for a member / method of `None`), `indexError`, `otherError` (every other
  exception: `NameError`, `AttributeError` on a non-`None` value, `ValueError`, what a called
  function raised, …).
* `and` / `or` short-circuit and return the deciding *operand* (truthiness), `not` returns a
  `bool`, implication is `not A or B`, comparison as Python does (`==` across unrelated types
  is `False`, ordering across unrelated types is `TypeError`, `bool ⊂ int`), `len`, `in`,
  `any` / `all` over an iterable or over `range(start, stop)` with the loop variable local to
  the generator, calls of verification functions and methods are parameters of the
  environment, f-strings.
* Evaluation order is Python's: left to right, the callee before the arguments, the first
  iterable of a generator in the enclosing scope.
* All loops recurse structurally (over the list iterated, over the `Nat` length of a range);
  no fuel.
-/
namespace AasVerif.Expr

/-- Python values of the invariant language. -/
inductive Val where
  | none
  | bool (b : Bool)
  | int (i : Int)
  /-- opaque atom (on the wire: Python `repr` text) -/
  | float (repr : Text)
  | str (s : Text)
  | bytes (b : List Nat)
  | list (items : List Val)
  /-- member of an enumeration -/
  | enumLit (enum : Text) (lit : Text)
  /-- the enumeration class itself (value of the enumeration's name) -/
  | enumCls (enum : Text) (lits : List Text)
  /-- instance of a class: object identity, class name, fields by meta-model property name -/
  | inst (oid : Nat) (cls : Text) (fields : List (Text × Val))
  /-- constant set (`frozenset`) -/
  | set (items : List Val)
  deriving Inhabited

/-- Outcome of evaluating an expression: a value or the exception class. -/
inductive Out where
  | val (v : Val)
  | typeError
  /-- `AttributeError` on `None` -/
  | noneDeref
  | indexError
  | otherError
  deriving Inhabited

/-- Operations on floats, which are opaque atoms in this model. Every function gets the
operands as values (at least one of them is a `float`, the others `int`/`bool`). -/
structure FloatOps where
  /-- comparison where at least one operand is a float and both are numbers -/
  cmp : Cmp → Val → Val → Out
  /-- `+` (`true`) / `-` (`false`) where at least one operand is a float and both are numbers -/
  arith : Bool → Val → Val → Out
  /-- `x == 0.0` (truthiness of a float is its negation) -/
  isZero : Text → Bool
  /-- `format(x, "")` of a float -/
  fmt : Text → Text

/-- Evaluation environment. -/
structure Env where
  /-- variables, innermost first (`self`, constants, enumeration classes, loop variables) -/
  vars : List (Text × Val)
  /-- global functions (verification functions) -/
  funs : Text → Option (List Val → Out)
  /-- methods: receiver (never `None`), method name -/
  meths : Val → Text → Option (List Val → Out)
  fops : FloatOps
  /-- `format(v, "")` for values other than `None`/`bool`/`int`/`float`/`str` -/
  fmtOther : Val → Out

def lookup (k : Text) : List (Text × Val) → Option Val
  | [] => none
  | (k', v) :: r => if k' = k then some v else lookup k r

def Env.bind (ρ : Env) (x : Text) (v : Val) : Env := { ρ with vars := (x, v) :: ρ.vars }

/-- Python truthiness (`bool(v)`). -/
def Val.truthy (f : FloatOps) : Val → Bool
  | .none => false
  | .bool b => b
  | .int i => i != 0
  | .float r => !f.isZero r
  | .str s => !s.isEmpty
  | .bytes b => !b.isEmpty
  | .list l => !l.isEmpty
  | .set l => !l.isEmpty
  | .enumLit _ _ => true
  | .enumCls _ _ => true
  | .inst _ _ _ => true

/-- The integer a `bool`/`int` stands for in arithmetic and comparisons. -/
def Val.asInt : Val → Option Int
  | .bool b => some (if b then 1 else 0)
  | .int i => some i
  | _ => Option.none

def Val.isFloat : Val → Bool
  | .float _ => true
  | _ => false

def Val.isNum : Val → Bool
  | .bool _ | .int _ | .float _ => true
  | _ => false

/-- Lexicographic `<` on code points / bytes. -/
def ltNats : List Nat → List Nat → Bool
  | [], [] => false
  | [], _ :: _ => true
  | _ :: _, [] => false
  | a :: as, b :: bs => if a < b then true else if b < a then false else ltNats as bs

def cmpOrd (op : Cmp) (lt eq : Bool) : Bool :=
  match op with
  | .lt => lt
  | .le => lt || eq
  | .gt => !(lt || eq)
  | .ge => !lt
  | .eq => eq
  | .ne => !eq

def Out.ofBool (b : Bool) : Out := .val (.bool b)

mutual
  /-- Python `a == b` on values (never raises); comparisons that involve a float go through
  `FloatOps.cmp`.  Instances are equal when they are the same object. -/
  def valEq (f : FloatOps) : Val → Val → Bool
    | .none, .none => true
    | .str a, .str b => a == b
    | .bytes a, .bytes b => a == b
    | .enumLit e a, .enumLit e' b => e == e' && a == b
    | .enumCls e _, .enumCls e' _ => e == e'
    | .inst i _ _, .inst j _ _ => i == j
    | .list as, .list bs => listEq f as bs
    | .set as, .set bs => subL f as bs && bs.all (fun b => memL f as b)
    | a, b =>
      if a.isNum && b.isNum then
        match a.asInt, b.asInt with
        | some x, some y => x == y
        | _, _ => match f.cmp .eq a b with
          | .val (.bool r) => r
          | _ => false
      else false
  termination_by structural a => a
  def listEq (f : FloatOps) : List Val → List Val → Bool
    | [], [] => true
    | a :: as, b :: bs => valEq f a b && listEq f as bs
    | _, _ => false
  termination_by structural as => as
  /-- every element of the first list equals some element of the second -/
  def subL (f : FloatOps) : List Val → List Val → Bool
    | [], _ => true
    | a :: as, bs => bs.any (fun b => valEq f a b) && subL f as bs
  termination_by structural as => as
  /-- some element of the list equals `x` -/
  def memL (f : FloatOps) : List Val → Val → Bool
    | [], _ => false
    | a :: as, x => valEq f a x || memL f as x
  termination_by structural as => as
end

/-- `x in items` by `==`. -/
def memVal (f : FloatOps) (x : Val) (items : List Val) : Bool := memL f items x

def subsetVal (f : FloatOps) (as bs : List Val) : Bool := subL f as bs

/-- Is `a` a (contiguous) sublist of `b` — `a in b` for `str`/`bytes`. -/
def isInfix (a : List Nat) : List Nat → Bool
  | [] => a.isEmpty
  | b :: bs => (a.isPrefixOf (b :: bs)) || isInfix a bs

/-- Python comparison `l op r` on values. -/
def cmpVals (f : FloatOps) (op : Cmp) : Val → Val → Out
  | l, r =>
    match op with
    | .eq => .ofBool (valEq f l r)
    | .ne => .ofBool (!valEq f l r)
    | _ => ord l r
where
  ord : Val → Val → Out
    | .str a, .str b => .ofBool (cmpOrd op (ltNats a b) (a == b))
    | .bytes a, .bytes b => .ofBool (cmpOrd op (ltNats a b) (a == b))
    | .list as, .list bs => ordList as bs
    | .set as, .set bs =>
      let sub := subsetVal f as bs
      let sup := subsetVal f bs as
      .ofBool (match op with
        | .lt => sub && !sup
        | .le => sub
        | .gt => sup && !sub
        | .ge => sup
        | .eq => sub && sup
        | .ne => !(sub && sup))
    | a, b =>
      if a.isNum && b.isNum then
        match a.asInt, b.asInt with
        | some x, some y => .ofBool (cmpOrd op (x < y) (x == y))
        | _, _ => f.cmp op a b
      else .typeError
  /-- list ordering: the first pair that differs by `==` decides through `op`,
  otherwise the lengths decide -/
  ordList : List Val → List Val → Out
    | [], [] => .ofBool (cmpOrd op false true)
    | [], _ :: _ => .ofBool (cmpOrd op true false)
    | _ :: _, [] => .ofBool (cmpOrd op false false)
    | a :: as, b :: bs => if valEq f a b then ordList as bs else ord a b

/-- Python `l + r` (`add = true`) / `l - r`. -/
def arithVals (f : FloatOps) (add : Bool) : Val → Val → Out
  | .str a, .str b => if add then .val (.str (a ++ b)) else .typeError
  | .bytes a, .bytes b => if add then .val (.bytes (a ++ b)) else .typeError
  | .list a, .list b => if add then .val (.list (a ++ b)) else .typeError
  | .set a, .set b => if add then .typeError else .val (.set (a.filter (fun x => !memVal f x b)))
  | a, b =>
    if a.isNum && b.isNum then
      match a.asInt, b.asInt with
      | some x, some y => .val (.int (if add then x + y else x - y))
      | _, _ => f.arith add a b
    else .typeError

/-- Built-in `len`. -/
def lenVal : Val → Out
  | .str s => .val (.int s.length)
  | .bytes b => .val (.int b.length)
  | .list l => .val (.int l.length)
  | .set l => .val (.int l.length)
  | _ => .typeError

/-- Python `m in c`. -/
def isInVals (f : FloatOps) (m : Val) : Val → Out
  | .set items =>
    match m with
    | .list _ => .typeError  -- unhashable
    | _ => .ofBool (memVal f m items)
  | .list items => .ofBool (memVal f m items)
  | .str s =>
    match m with
    | .str a => .ofBool (isInfix a s)
    | _ => .typeError
  | .bytes s =>
    match m with
    | .bytes a => .ofBool (isInfix a s)
    | .float _ => .typeError
    | x => match x.asInt with
      | some i => if 0 ≤ i ∧ i < 256 then .ofBool (s.contains i.toNat) else .otherError
      | none => .typeError
  | .enumCls e _ =>
    match m with
    | .enumLit e' _ => .ofBool (e == e')
    | _ => .otherError
  | _ => .typeError

/-- What `for x in v` iterates over (`none` = not iterable → `TypeError`). -/
def iterItems : Val → Option (List Val)
  | .list l => some l
  | .set l => some l
  | .str s => some (s.map (fun c => .str [c]))
  | .bytes b => some (b.map (fun c => .int (Int.ofNat c)))
  | .enumCls e lits => some (lits.map (fun l => .enumLit e l))
  | _ => none

/-- Python `c[i]`. -/
def indexVals (c i : Val) : Out :=
  let pick {α} (l : List α) (mk : α → Val) : Out :=
    match i with
    | .float _ => .typeError
    | _ =>
      match i.asInt with
      | none => .typeError
      | some k =>
        let k := if k < 0 then k + l.length else k
        if k < 0 then .indexError
        else match l[k.toNat]? with
          | some x => .val (mk x)
          | none => .indexError
  match c with
  | .list l => pick l id
  | .str s => pick s (fun c => .str [c])
  | .bytes b => pick b (fun c => .int (Int.ofNat c))
  | _ => .typeError

/-- decimal digits of a natural number as code points -/
def natDigits (n : Nat) : Text := (toString n).toList.map Char.toNat

def intText (i : Int) : Text :=
  if i < 0 then 45 :: natDigits i.natAbs else natDigits i.natAbs

/-- `format(v, "")` as used by f-strings. -/
def fmtVal (ρ : Env) : Val → Out
  | .none => .val (.str [78, 111, 110, 101])
  | .bool true => .val (.str [84, 114, 117, 101])
  | .bool false => .val (.str [70, 97, 108, 115, 101])
  | .int i => .val (.str (intText i))
  | .float r => .val (.str (ρ.fops.fmt r))
  | .str s => .val (.str s)
  | v => ρ.fmtOther v

/-- `any(f(x) for x in items)` (`isAny`) / `all(...)`: stops at the first deciding element
or at the first exception. -/
def quantLoop (fo : FloatOps) (isAny : Bool) (f : Val → Out) : List Val → Out
  | [] => .ofBool (!isAny)
  | x :: xs =>
    match f x with
    | .val v => if v.truthy fo == isAny then .ofBool isAny else quantLoop fo isAny f xs
    | err => err

/-- the integers `start, start+1, …` (`n` of them) -/
def rangeLoop (fo : FloatOps) (isAny : Bool) (f : Val → Out) (start : Int) : Nat → Out
  | 0 => .ofBool (!isAny)
  | n + 1 =>
    match f (.int start) with
    | .val v => if v.truthy fo == isAny then .ofBool isAny else rangeLoop fo isAny f (start + 1) n
    | err => err

/-- An argument of `range(…)`: `int` (or `bool`), anything else is a `TypeError`. -/
def rangeArg : Val → Option Int
  | .bool b => some (if b then 1 else 0)
  | .int i => some i
  | _ => none

def constVal : Const → Val
  | .bool b => .bool b
  | .int i => .int i
  | .float r => .float r
  | .str s => .str s

/-- What a generator iterates over: the loop variable with the items, or with the start and
the length of the range; or the exception raised while evaluating it. -/
inductive GenRes where
  | items (x : Text) (vs : List Val)
  | range (x : Text) (start : Int) (n : Nat)
  | err (o : Out)

/-- Result of evaluating an argument list left to right. -/
inductive Args where
  | ok (vs : List Val)
  | err (o : Out)

mutual
  /-- Python meaning of an expression. -/
  def eval (ρ : Env) : Expr → Out
    | .name x =>
      match lookup x ρ.vars with
      | some v => .val v
      | none => .otherError
    | .const c => .val (constVal c)
    | .member e n =>
      match eval ρ e with
      | .val .none => .noneDeref
      | .val (.inst _ _ fields) =>
        match lookup n fields with
        | some v => .val v
        | none => .otherError
      | .val (.enumCls en lits) => if lits.contains n then .val (.enumLit en n) else .otherError
      | .val _ => .otherError
      | err => err
    | .index c i =>
      match eval ρ c with
      | .val cv =>
        match eval ρ i with
        | .val iv => indexVals cv iv
        | err => err
      | err => err
    | .cmp l op r =>
      match eval ρ l with
      | .val lv =>
        match eval ρ r with
        | .val rv => cmpVals ρ.fops op lv rv
        | err => err
      | err => err
    | .isIn m c =>
      match eval ρ m with
      | .val mv =>
        match eval ρ c with
        | .val cv => isInVals ρ.fops mv cv
        | err => err
      | err => err
    | .impl a c =>
      match eval ρ a with
      | .val av => if av.truthy ρ.fops then eval ρ c else .ofBool true
      | err => err
    | .methodCall inst n args =>
      match eval ρ inst with
      | .val .none => .noneDeref
      | .val recv =>
        match ρ.meths recv n with
        | none => .otherError
        | some f =>
          match evalArgs ρ args with
          | .ok vs => f vs
          | .err o => o
      | err => err
    | .funCall n args =>
      match lookup n ρ.vars with
      | some _ =>
        -- a variable shadows the function: values are not callable
        match evalArgs ρ args with
        | .ok _ => .typeError
        | .err o => o
      | none =>
        match ρ.funs n with
        | some f =>
          match evalArgs ρ args with
          | .ok vs => f vs
          | .err o => o
        | none =>
          if n = [108, 101, 110] then  -- "len"
            match evalArgs ρ args with
            | .ok [v] => lenVal v
            | .ok _ => .typeError
            | .err o => o
          else .otherError
    | .isNone e =>
      match eval ρ e with
      | .val .none => .ofBool true
      | .val _ => .ofBool false
      | err => err
    | .isNotNone e =>
      match eval ρ e with
      | .val .none => .ofBool false
      | .val _ => .ofBool true
      | err => err
    | .not e =>
      match eval ρ e with
      | .val v => .ofBool (!v.truthy ρ.fops)
      | err => err
    | .and es => evalAnd ρ es
    | .or es => evalOr ρ es
    | .add l r =>
      match eval ρ l with
      | .val lv =>
        match eval ρ r with
        | .val rv => arithVals ρ.fops true lv rv
        | err => err
      | err => err
    | .sub l r =>
      match eval ρ l with
      | .val lv =>
        match eval ρ r with
        | .val rv => arithVals ρ.fops false lv rv
        | err => err
      | err => err
    | .joinedStr parts => evalParts ρ parts
    | .any g c =>
      match evalGen ρ g with
      | .items x items => quantLoop ρ.fops true (fun item => eval (ρ.bind x item) c) items
      | .range x s n => rangeLoop ρ.fops true (fun i => eval (ρ.bind x i) c) s n
      | .err o => o
    | .all g c =>
      match evalGen ρ g with
      | .items x items => quantLoop ρ.fops false (fun item => eval (ρ.bind x item) c) items
      | .range x s n => rangeLoop ρ.fops false (fun i => eval (ρ.bind x i) c) s n
      | .err o => o
  /-- The generator of an `any` / `all`: the iterable (or the two arguments of `range`)
  evaluated in the enclosing scope. -/
  def evalGen (ρ : Env) : Gen → GenRes
    | .forEach x it =>
      match eval ρ it with
      | .val iv =>
        match iterItems iv with
        | some items => .items x items
        | none => .err .typeError
      | err => .err err
    | .forRange x a b =>
      match eval ρ a with
      | .val av =>
        match eval ρ b with
        | .val bv =>
          match rangeArg av, rangeArg bv with
          | some s, some e => .range x s (e - s).toNat
          | _, _ => .err .typeError
        | err => .err err
      | err => .err err
  /-- `e₁ and e₂ and …`: the first falsy operand, else the last one. -/
  def evalAnd (ρ : Env) : List Expr → Out
    | [] => .otherError
    | [e] => eval ρ e
    | e :: es =>
      match eval ρ e with
      | .val v => if v.truthy ρ.fops then evalAnd ρ es else .val v
      | err => err
  /-- `e₁ or e₂ or …`: the first truthy operand, else the last one. -/
  def evalOr (ρ : Env) : List Expr → Out
    | [] => .otherError
    | [e] => eval ρ e
    | e :: es =>
      match eval ρ e with
      | .val v => if v.truthy ρ.fops then .val v else evalOr ρ es
      | err => err
  def evalArgs (ρ : Env) : List Expr → Args
    | [] => .ok []
    | e :: es =>
      match eval ρ e with
      | .val v =>
        match evalArgs ρ es with
        | .ok vs => .ok (v :: vs)
        | .err o => .err o
      | o => .err o
  /-- f-string: the parts formatted and concatenated, left to right. -/
  def evalParts (ρ : Env) : List JPart → Out
    | [] => .val (.str [])
    | .lit s :: ps =>
      match evalParts ρ ps with
      | .val (.str r) => .val (.str (s ++ r))
      | .val _ => .otherError
      | err => err
    | .fv e :: ps =>
      match eval ρ e with
      | .val v =>
        match fmtVal ρ v with
        | .val (.str t) =>
          match evalParts ρ ps with
          | .val (.str r) => .val (.str (t ++ r))
          | .val _ => .otherError
          | err => err
        | .val _ => .otherError
        | err => err
      | err => err
end

/-! ## Statements of transpilable verification functions -/

/-- `target = value` / `return value` / bare `return`. -/
inductive Stmt where
  | assign (target : Text) (value : Expr)
  | ret (value : Option Expr)

/-- Run a function body: the value returned (`None` when the body ends without `return`). -/
def execBody (ρ : Env) : List Stmt → Out
  | [] => .val .none
  | .assign x e :: rest =>
    match eval ρ e with
    | .val v => execBody (ρ.bind x v) rest
    | err => err
  | .ret none :: _ => .val .none
  | .ret (some e) :: _ => eval ρ e

/-- A function definition: parameter names and body. -/
structure FunDef where
  params : List Text
  body : List Stmt

def bindParams : List Text → List Val → List (Text × Val) → Option (List (Text × Val))
  | [], [], acc => some acc
  | p :: ps, v :: vs, acc => bindParams ps vs ((p, v) :: acc)
  | _, _, _ => none

/-- Calling a defined function with the given globals: a wrong number of arguments is a `TypeError`. -/
def FunDef.call (globals : Env) (d : FunDef) (args : List Val) : Out :=
  match bindParams d.params args globals.vars with
  | some vars => execBody { globals with vars := vars } d.body
  | none => .typeError

end AasVerif.Expr
