import AasVerif.Model.Expr.Syntax
/-!
A small model of the CPython `ast` node classes that `parse/_rules.py` looks at.
Everything else is `other`.
-/
namespace AasVerif.PyAst
open AasVerif AasVerif.Expr

/-- `ast.cmpop` -/
inductive PyCmpOp where
  | lt | le | gt | ge | eq | ne | in_ | notIn | is_ | isNot
  deriving DecidableEq, Repr, Inhabited

/-- the value of an `ast.Constant` -/
inductive PyConst where
  | none
  | bool (b : Bool)
  | int (i : Int)
  | float (repr : Text)
  | str (s : Text)
  /-- bytes, Ellipsis, complex -/
  | other
  deriving DecidableEq, Repr, Inhabited

inductive UnOp where
  | not | usub | uadd | invert
  deriving DecidableEq, Repr, Inhabited

inductive BinOpK where
  | add | sub | other
  deriving DecidableEq, Repr, Inhabited

mutual
  inductive PyAst where
    | compare (left : PyAst) (ops : List PyCmpOp) (comparators : List PyAst)
    | call (func : PyAst) (args : List PyAst) (keywords : Nat)
    | generatorExp (elt : PyAst) (generators : List Comp)
    | constant (c : PyConst)
    | unaryOp (op : UnOp) (operand : PyAst)
    | boolOp (isAnd : Bool) (values : List PyAst)
    | attribute (value : PyAst) (attr : Text)
    | subscript (value : PyAst) (slice : PyAst)
    | name (id : Text)
    | binOp (left : PyAst) (op : BinOpK) (right : PyAst)
    | joinedStr (values : List PyAst)
    | formattedValue (value : PyAst) (conversion : Int) (hasSpec : Bool)
    | other
  /-- `ast.comprehension` -/
  inductive Comp where
    | mk (target : PyAst) (iter : PyAst) (ifs : List PyAst) (isAsync : Bool)
end

instance : Inhabited PyAst := ⟨.other⟩

/-- the rule classes of `parse/_rules.py` (`_Parse<Name>`) -/
inductive Rule where
  | Comparison | IsIn | AnyOrAll | Call | Constant | Implication | Member | Index | Name
  | IsNoneOrIsNotNone | Not | AndOrOr | AddOrSub | Expression | JoinedStr | Assignment | Return
  deriving DecidableEq, Repr, Inhabited

end AasVerif.PyAst
