import AasVerif.Model.Len
/-!
Model of the recognisers and of the in-lining of `infer_for_schema`
(`match.py`, `_len.py`, `_pattern.py`, `_set.py`, `_inline.py`).

Invariant bodies are a small expression AST mirroring `parse/tree.py`; identifiers are
interned to numbers by the harness (`0` = `self`, `1` = `len`).  Type annotations carry
the identity of the Python object (`id`), because the implementation keys the inferred
constraints by the type-annotation *object*, which inherited properties share.
-/
namespace AasVerif.Infer
open AasVerif.Len

abbrev Ident := Nat
def idSelf : Ident := 0
def idLen : Ident := 1

/-- The part of `parse_tree.Expression` the recognisers can distinguish. -/
inductive Expr where
  | name (x : Ident)
  | member (inst : Expr) (p : Ident)
  | const (c : Int)
  | other (tag : Nat)
  | isNone (e : Expr)
  | isNotNone (e : Expr)
  | not (e : Expr)
  | and (es : List Expr)
  | or (es : List Expr)
  | implies (a c : Expr)
  | cmp (op : Op) (l r : Expr)
  | call (f : Ident) (args : List Expr)
  | isIn (m c : Expr)
  deriving Repr, Inhabited

/-- Outcome at the level of `infer_constraints_by_class`: value, reported errors, uncaught exception. -/
inductive IRes (α : Type) where
  | ok (a : α)
  | err
  | crash (site : String)
  deriving Repr

/-! ## `match.py` -/

/-- `try_property`: `self.p` -/
def tryProperty : Expr → Option Ident
  | .member (.name x) p => if x = idSelf then some p else none
  | _ => none

/-- `try_single_arg_function_on_member_or_name` -/
def trySingleArgCall : Expr → Option (Ident × Expr)
  | .call f [.name x] => some (f, .name x)
  | .call f [.member i p] => some (f, .member i p)
  | _ => none

/-- `try_conditional_on_prop`: `not (self.p is not None) or C` / `self.p is None or C` -/
def tryConditional : Expr → Option (Ident × Expr)
  | .implies (.isNotNone v) c => (tryProperty v).map (·, c)
  | .or [.isNone v, c] => (tryProperty v).map (·, c)
  | _ => none

/-! ## `_len.py` -/

/-- `_match_len_on_member_or_name` -/
def matchLenCall (e : Expr) : Option Expr :=
  match trySingleArgCall e with
  | some (f, arg) => if f = idLen then some arg else none
  | none => none

/-- `_match_int_constant` -/
def matchIntConst : Expr → Option Int
  | .const c => some c
  | _ => none

/-- `_match_len_constraint_on_member_or_name`: the two blocks in source order. -/
def matchLenCmp : Expr → Res (Option (Expr × Bound))
  | .cmp op l r =>
    let first : Res (Option (Expr × Bound)) :=
      match matchLenCall l, matchIntConst r with
      | some arg, some c =>
        match ofComparison op true c with
        | .ok (some b) => .ok (some (arg, b))
        | .ok none => .ok none
        | .err m => .err m
        | .crash s => .crash s
      | _, _ => .ok none
    match first with
    | .ok none =>
      match matchIntConst l, matchLenCall r with
      | some c, some arg =>
        match ofComparison op false c with
        | .ok (some b) => .ok (some (arg, b))
        | .ok none => .ok none
        | .err m => .err m
        | .crash s => .crash s
      | _, _ => .ok none
    | other => other
  | _ => .ok none

/-- `_match_len_constraint_on_property` -/
def matchLenOnProp (e : Expr) : Res (Option (Ident × Bound)) :=
  match matchLenCmp e with
  | .ok (some (arg, b)) =>
    match tryProperty arg with
    | some p => .ok (some (p, b))
    | none => .ok none
  | .ok none => .ok none
  | .err m => .err m
  | .crash s => .crash s

/-- The per-invariant part of `len_constraints_from_invariants`. -/
def recogLen (body : Expr) : Res (Option (Ident × Bound)) :=
  match tryConditional body with
  | some (g, cons) =>
    match matchLenOnProp cons with
    | .ok (some (p, b)) => if p ≠ g then .ok none else .ok (some (p, b))
    | other => other
  | none => matchLenOnProp body

/-- The per-invariant part of `infer_len_constraint_of_self`. -/
def recogLenSelf (body : Expr) : Res (Option Bound) :=
  match matchLenCmp body with
  | .ok (some (.name x, b)) => if x = idSelf then .ok (some b) else .ok none
  | .ok _ => .ok none
  | .err m => .err m
  | .crash s => .crash s

/-! ## `_pattern.py` -/

def lookupId {α : Type} (k : Nat) : List (Nat × α) → Option α
  | [] => none
  | (k', v) :: rest => if k' = k then some v else lookupId k rest

/-- `_match_constraint_on_property`; `pats` = `pattern_verifications_by_name` -/
def matchPat (pats : List (Ident × Nat)) : Expr → Option (Ident × Nat)
  | .call f [arg] =>
    match tryProperty arg with
    | some p => (lookupId f pats).map (p, ·)
    | none => none
  | _ => none

/-- The per-invariant part of `patterns_from_invariants`. -/
def recogPat (pats : List (Ident × Nat)) (body : Expr) : List (Ident × Nat) :=
  match tryConditional body with
  | some (g, cons) =>
    match cons with
    | .and vs => vs.filterMap (fun v =>
        match matchPat pats v with
        | some (p, k) => if p = g then some (p, k) else none
        | none => none)
    | .call f args =>
      match matchPat pats (.call f args) with
      | some (p, k) => if p = g then [(p, k)] else []
      | none => []
    | _ => []
  | none =>
    match body with
    | .and vs => vs.filterMap (matchPat pats)
    | .call f args => (matchPat pats (.call f args)).toList
    | _ => []

/-- `_match_pattern_on_self` -/
def matchPatSelf (pats : List (Ident × Nat)) : Expr → Option Nat
  | .call f [.name x] => if x = idSelf then lookupId f pats else none
  | _ => none

/-- The per-invariant part of `infer_patterns_on_self`. -/
def recogPatSelf (pats : List (Ident × Nat)) (body : Expr) : List Nat :=
  match body with
  | .and vs => vs.filterMap (matchPatSelf pats)
  | .call f args => (matchPatSelf pats (.call f args)).toList
  | _ => []

/-- `_merge_pattern_constraints` on two given lists: first occurrences of `that ++ other`. -/
def dedupAux (seen : List Nat) : List Nat → List Nat
  | [] => []
  | x :: xs => if x ∈ seen then dedupAux seen xs else x :: dedupAux (x :: seen) xs

def mergePats (a b : List Nat) : List Nat := dedupAux [] (a ++ b)

/-! ## `_set.py` -/

/-- `_match_prop_in_named_container`: `self.p in X` -/
def matchIn : Expr → Option (Ident × Ident)
  | .isIn m (.name x) => (tryProperty m).map (·, x)
  | _ => none

/-- The per-invariant part of `infer_set_constraints_by_property_from_invariants`. -/
def recogSet (body : Expr) : List (Ident × Ident) :=
  match tryConditional body with
  | some (g, cons) =>
    let ms := match cons with
      | .and vs => vs.filterMap matchIn
      | e => (matchIn e).toList
    ms.filter (fun m => m.1 = g)
  | none =>
    match body with
    | .and vs => vs.filterMap matchIn
    | e => (matchIn e).toList

/-- `_IntersectionOf…Literals`: the literals of the first list whose observation count equals
the number of observed lists (an observed list counts a value at most once). -/
def intersect : List (List Nat) → Option (List Nat)
  | [] => none  -- `@require(len(constraints) >= 1)`
  | l0 :: rest => some (l0.filter (fun v => rest.countP (fun l => decide (v ∈ l)) = rest.length))

/-- The reduce step of `infer_set_constraints_by_property_from_invariants` for one property: the
intersection of all its constant sets; `err` = the reported error "the constant sets have no literal in
common" when nothing is left. -/
def reduceSet (site : String) (ls : List (List Nat)) : IRes (List Nat) :=
  match intersect ls with
  | none => .crash site
  | some l => if l.isEmpty then .err else .ok l

/-- histogram entry of `_merge_set_of_…_constraints`: each of the two lists counts a value at most once -/
def histo (a b : List Nat) (v : Nat) : Nat :=
  (if v ∈ a then 1 else 0) + (if v ∈ b then 1 else 0)

/-- `_merge_set_of_…_constraints` on two given lists: values (in order of first occurrence in
`that ++ other`) counted twice. -/
def mergeSet (a b : List Nat) : List Nat :=
  (dedupAux [] (a ++ b)).filter (fun v => histo a b v = 2)

/-- `_merge_set_of_…_constraints(that, other)` with both constraints given: `none` = the error message
"the sets of allowed literals have no literal in common" (returned instead of an empty constraint). -/
def mergeSetE (a b : List Nat) : Option (List Nat) :=
  let m := mergeSet a b
  if m.isEmpty then none else some m

/-! ## `_types.Constraints` and `_inline.py` -/

structure Cons where
  len : Option LenC := none
  pats : Option (List Nat) := none
  /-- primitive type and literal values -/
  prims : Option (Nat × List Nat) := none
  /-- enumeration and literal ids -/
  enums : Option (Nat × List Nat) := none
  deriving Repr

def Cons.isEmpty (c : Cons) : Bool :=
  c.len.isNone && c.pats.isNone && c.prims.isNone && c.enums.isNone

/-- `Constraints.__init__`: `patterns` is `None` or non-empty. -/
def mkCons (len : Option LenC) (pats : Option (List Nat)) (prims enums : Option (Nat × List Nat)) : IRes Cons :=
  match pats with
  | some [] => .crash "Constraints.__init__:require"
  | _ => .ok ⟨len, pats, prims, enums⟩

def mergeOptPats : Option (List Nat) → Option (List Nat) → Option (List Nat)
  | some a, some b => some (mergePats a b)
  | some a, none => some a
  | none, some b => some b
  | none, none => none

/-- `ValueError` when the primitive types / enumerations differ; `err` when no literal is common. -/
def mergeOptSet (site : String) : Option (Nat × List Nat) → Option (Nat × List Nat) → IRes (Option (Nat × List Nat))
  | some (ta, a), some (tb, b) =>
    if ta ≠ tb then .crash site
    else match mergeSetE a b with
      | some m => .ok (some (ta, m))
      | none => .err
  | some a, none => .ok (some a)
  | none, some b => .ok (some b)
  | none, none => .ok none

/-- `_merge_constraints(that, other)`; `err` = the merged length range or a merged literal set is empty. -/
def mergeCons : Option Cons → Option Cons → IRes (Option Cons)
  | some a, some b =>
    match Len.merge a.len b.len with
    | .err _ => .err
    | .crash s => .crash s
    | .ok len =>
      match mergeOptSet "_merge_set_of_primitives_constraints:ValueError" a.prims b.prims with
      | .err => .err
      | .crash s => .crash s
      | .ok prims =>
        match mergeOptSet "_merge_set_of_enumeration_literals_constraints:ValueError" a.enums b.enums with
        | .err => .err
        | .crash s => .crash s
        | .ok enums =>
          match mkCons len (mergeOptPats a.pats b.pats) prims enums with
          | .ok c => .ok (some c)
          | .err => .err
          | .crash s => .crash s
  | some a, none => .ok (some a)
  | none, some b => .ok (some b)
  | none, none => .ok none

/-! ### The symbol table as the inference sees it -/

/-- `PrimitiveType`: 0 BOOL, 1 INT, 2 FLOAT, 3 STR, 4 BYTEARRAY -/
def primStr : Nat := 3
def primBytes : Nat := 4

inductive Ty where
  | prim (id : Nat) (kind : Nat)
  /-- `okind`: 0 constrained primitive, 1 enumeration, 2 class -/
  | our (id : Nat) (okind : Nat) (oid : Nat)
  | list (id : Nat) (items : Ty)
  | opt (id : Nat) (value : Ty)
  deriving Repr, Inhabited

def Ty.id : Ty → Nat
  | .prim i _ => i
  | .our i _ _ => i
  | .list i _ => i
  | .opt i _ => i

/-- `intermediate.beneath_optional` -/
def beneathOptional : Ty → Ty
  | .opt _ v => beneathOptional v
  | t => t

/-- `_over_non_optional_type_annotations` -/
def overNonOptional : Ty → List Ty
  | .opt _ v => overNonOptional v
  | .list i items => .list i items :: overNonOptional items
  | t => [t]

structure Inv where
  specifiedFor : Nat
  body : Expr
  deriving Repr

structure PropD where
  name : Ident
  ty : Ty
  deriving Repr

structure CpD where
  id : Nat
  parents : List Nat
  constrainee : Nat
  invs : List Inv
  deriving Repr

structure ClsD where
  id : Nat
  parents : List Nat
  props : List PropD
  invs : List Inv
  deriving Repr

inductive ConstD where
  | prim
  | primSet (aType : Nat) (lits : List Nat)
  | enumSet (enumId : Nat) (lits : List Nat)
  deriving Repr

structure MM where
  cps : List CpD
  classes : List ClsD
  consts : List (Ident × ConstD)
  pats : List (Ident × Nat)
  /-- `our_types_topologically_sorted` (ids of all our types) -/
  topo : List Nat
  deriving Repr

/-- `intermediate.try_primitive_type` -/
def tryPrimitiveType (mm : MM) : Ty → Option Nat
  | .prim _ k => some k
  | .our _ 0 oid => (mm.cps.find? (fun c => c.id = oid)).map (·.constrainee)
  | _ => none

abbrev ByValue := List (Nat × Cons)

def setKey {α : Type} (k : Nat) (v : α) : List (Nat × α) → List (Nat × α)
  | [] => [(k, v)]
  | (k', v') :: rest => if k' = k then (k, v) :: rest else (k', v') :: setKey k v rest

/-- append `v` to the list stored under `k` (dict of lists, insertion ordered) -/
def pushKey {α : Type} (k : Nat) (v : α) : List (Nat × List α) → List (Nat × List α)
  | [] => [(k, [v])]
  | (k', vs) :: rest => if k' = k then (k', vs ++ [v]) :: rest else (k', vs) :: pushKey k v rest

/-- State of a pass that collects errors and goes on (`errors.append(...); continue`). -/
structure St (α : Type) where
  val : α
  errors : Bool := false
  crash : Option String := none

/-- merge `c` into `mapping[key]`; an empty merged range is recorded as an error. -/
def mergeInto (st : St ByValue) (key : Nat) (c : Option Cons) (keepEmpty : Bool := true)
    (otherFirst : Bool := false) : St ByValue :=
  match st.crash with
  | some _ => st
  | none =>
    match (if otherFirst then mergeCons c (lookupId key st.val) else mergeCons (lookupId key st.val) c) with
    | .crash s => { st with crash := some s }
    | .err => { st with errors := true }
    | .ok none => st
    | .ok (some m) => if !keepEmpty && m.isEmpty then st else { st with val := setKey key m st.val }

/-- `_infer_constraints_of_constrained_primitive_without_inheritance` -/
def cpOwn (mm : MM) (cp : CpD) : IRes (Option Cons) :=
  let own := cp.invs.filter (fun i => i.specifiedFor = cp.id)
  let lenRes : IRes (Option LenC) :=
    if cp.constrainee = primStr ∨ cp.constrainee = primBytes then
      let collected : Res (List Bound) := own.foldl (fun acc i =>
        match acc with
        | .ok bs =>
          match recogLenSelf i.body with
          | .ok (some b) => .ok (bs ++ [b])
          | .ok none => .ok bs
          | .err m => .err m
          | .crash s => .crash s
        | other => other) (.ok [])
      match collected with
      | .crash s => .crash s
      | .err _ => .err
      | .ok bs =>
        match reduce bs with
        | .crash s => .crash s
        | .err _ => .err
        | .ok c => if c.lo.isNone && c.hi.isNone then .ok none else .ok (some c)
    else .ok none
  let pats : Option (List Nat) :=
    if cp.constrainee = primStr then
      match own.flatMap (fun i => recogPatSelf mm.pats i.body) with
      | [] => none
      | ps => some ps
    else none
  match lenRes with
  | .crash s => .crash s
  | .err => .err
  | .ok len =>
    if len.isNone && pats.isNone then .ok none
    else match mkCons len pats none none with
      | .ok c => .ok (some c)
      | .err => .err
      | .crash s => .crash s

/-- `_infer_constraints_by_constrained_primitive` -/
def cpAll (mm : MM) : IRes (List (Nat × Cons)) :=
  -- first pass, without inheritance
  let st1 : St (List (Nat × Cons)) := mm.cps.foldl (fun st cp =>
    match st.crash with
    | some _ => st
    | none =>
      match cpOwn mm cp with
      | .crash s => { st with crash := some s }
      | .err => { st with errors := true }
      | .ok none => st
      | .ok (some c) => { st with val := setKey cp.id c st.val }) ⟨[], false, none⟩
  match st1.crash with
  | some s => .crash s
  | none =>
    if st1.errors then .err
    else
      -- second pass in topological order
      let st2 : St (List (Nat × Cons)) := mm.topo.foldl (fun st tid =>
        match st.crash, mm.cps.find? (fun c => c.id = tid) with
        | some _, _ => st
        | none, none => st
        | none, some cp =>
          let inner : St (Option Cons) := cp.parents.foldl (fun s par =>
            match s.crash with
            | some _ => s
            | none =>
              match mergeCons (lookupId par st.val) s.val with
              | .crash site => { s with crash := some site }
              | .err => { s with errors := true }
              | .ok m => { s with val := m }) ⟨lookupId tid st.val, false, none⟩
          match inner.crash with
          | some site => { st with crash := some site }
          | none =>
            let st' := if inner.errors then { st with errors := true } else st
            match inner.val with
            | some c => { st' with val := setKey tid c st'.val }
            | none => st') ⟨st1.val, false, none⟩
      match st2.crash with
      | some s => .crash s
      | none => if st2.errors then .err else .ok st2.val

def findProp (cls : ClsD) (p : Ident) : Option PropD := cls.props.find? (fun d => d.name = p)

/-- `_infer_constraints_of_class_values_without_inheritance` -/
def classOwn (mm : MM) (cpMap : List (Nat × Cons)) (cls : ClsD) : IRes ByValue :=
  let own := cls.invs.filter (fun i => i.specifiedFor = cls.id)
  -- region: constraints on length (`len_constraints_from_invariants`)
  let lenCollected : St (List (Ident × List Bound)) := own.foldl (fun st i =>
    match st.crash with
    | some _ => st
    | none =>
      match recogLen i.body with
      | .crash s => { st with crash := some s }
      | .err _ => { st with errors := true }
      | .ok none => st
      | .ok (some (p, b)) =>
        match findProp cls p with
        | none => { st with errors := true }
        | some _ => { st with val := pushKey p b st.val }) ⟨[], false, none⟩
  let lenPart : St (List (Ident × LenC)) :=
    match lenCollected.crash with
    | some s => ⟨[], false, some s⟩
    | none =>
      if lenCollected.errors then ⟨[], true, none⟩
      else lenCollected.val.foldl (fun st (p, bs) =>
        match st.crash with
        | some _ => st
        | none =>
          match reduce bs with
          | .crash s => { st with crash := some s }
          | .err _ => { st with errors := true }
          | .ok c => { st with val := st.val ++ [(p, c)] }) ⟨[], false, none⟩
  match lenPart.crash with
  | some s => .crash s
  | none =>
  let st0 : St ByValue :=
    if lenPart.errors then ⟨[], true, none⟩
    else lenPart.val.foldl (fun st (p, c) =>
      if c.lo.isNone && c.hi.isNone then st
      else match findProp cls p with
        | none => { st with crash := some "len_constraints_from_invariants:assert" }
        | some d => mergeInto st (beneathOptional d.ty).id (some { len := some c })) ⟨[], false, none⟩
  -- region: pattern constraints (`patterns_from_invariants`)
  let patPairs := own.flatMap (fun i => recogPat mm.pats i.body)
  let patGroups : List (Ident × List Nat) := patPairs.foldl (fun acc (p, k) =>
    match findProp cls p with
    | none => acc
    | some _ => pushKey p k acc) []
  let st1 : St ByValue := patGroups.foldl (fun st (p, ks) =>
    match ks, findProp cls p with
    | [], _ => st
    | _, none => st
    | ks, some d => mergeInto st (beneathOptional d.ty).id (some { pats := some ks })) st0
  -- region: constraints from constant sets
  let setCollected : St (List (Ident × List (Nat × List Nat)) × List (Ident × List (Nat × List Nat))) :=
    (own.flatMap (fun i => recogSet i.body)).foldl (fun st (p, x) =>
      match findProp cls p with
      | none => { st with errors := true }
      | some d =>
        match lookupId x mm.consts with
        | none => st
        | some .prim => st
        | some (.primSet aType lits) =>
          if tryPrimitiveType mm (beneathOptional d.ty) ≠ some aType then { st with errors := true }
          else { st with val := (pushKey p (aType, lits) st.val.1, st.val.2) }
        | some (.enumSet enumId lits) =>
          match beneathOptional d.ty with
          | .our _ 1 oid =>
            if oid = enumId then { st with val := (st.val.1, pushKey p (enumId, lits) st.val.2) }
            else { st with errors := true }
          | _ => { st with errors := true }) ⟨([], []), false, none⟩
  -- reduce: all the intersections first (errors are collected; any error ends the set inference of the class) …
  let interSets (site : String) (st : St (List (Ident × Nat × List Nat)))
      (groups : List (Ident × List (Nat × List Nat))) : St (List (Ident × Nat × List Nat)) :=
    groups.foldl (fun st (p, cs) =>
      match st.crash, cs.head? with
      | some _, _ => st
      | none, none => { st with crash := some site }
      | none, some (t, _) =>
        match reduceSet site (cs.map (·.2)) with
        | .crash s => { st with crash := some s }
        | .err => { st with errors := true }
        | .ok lits => { st with val := st.val ++ [(p, t, lits)] }) st
  -- … then the merges into the mapping
  let mergeSets (site : String) (st : St ByValue) (sets : List (Ident × Nat × List Nat))
      (mk : Nat × List Nat → Cons) : St ByValue :=
    sets.foldl (fun st (p, t, lits) =>
      match st.crash, findProp cls p with
      | some _, _ => st
      | none, some d => mergeInto st (beneathOptional d.ty).id (some (mk (t, lits)))
      | none, none => { st with crash := some site }) st
  let st2 : St ByValue :=
    if setCollected.errors then { st1 with errors := true }
    else
      let ps := interSets "intersect_set_of_primitives_constraints:require" ⟨[], false, none⟩ setCollected.val.1
      let es := interSets "intersect_set_of_enumeration_literals_constraints:require" ⟨[], ps.errors, ps.crash⟩
        setCollected.val.2
      match es.crash with
      | some s => (match st1.crash with | some _ => st1 | none => { st1 with crash := some s })
      | none =>
        if es.errors then { st1 with errors := true }
        else
          let s := mergeSets "intersect_set_of_primitives_constraints:require" st1 ps.val
            (fun x => { prims := some x })
          mergeSets "intersect_set_of_enumeration_literals_constraints:require" s es.val
            (fun x => { enums := some x })
  match st2.crash with
  | some s => .crash s
  | none =>
    if st2.errors then .err
    else
      -- region: constraints from constrained primitives
      let st3 : St ByValue := cls.props.foldl (fun st d =>
        (overNonOptional d.ty).foldl (fun st anno =>
          match anno with
          | .our aid 0 oid => mergeInto st aid (lookupId oid cpMap) (keepEmpty := false)
          | _ => st) st) st2
      match st3.crash with
      | some s => .crash s
      | none => if st3.errors then .err else .ok st3.val

/-- `infer_constraints_by_class` -/
def byClass (mm : MM) : IRes (List (Nat × ByValue)) :=
  match cpAll mm with
  | .crash s => .crash s
  | .err => .err
  | .ok cpMap =>
    let st1 : St (List (Nat × ByValue)) := mm.classes.foldl (fun st cls =>
      match st.crash with
      | some _ => st
      | none =>
        match classOwn mm cpMap cls with
        | .crash s => { st with crash := some s }
        | .err => { st with errors := true }
        | .ok m => { st with val := st.val ++ [(cls.id, m)] }) ⟨[], false, none⟩
    match st1.crash with
    | some s => .crash s
    | none =>
      if st1.errors then .err
      else
        let st2 : St (List (Nat × ByValue)) := mm.topo.foldl (fun st tid =>
          match st.crash, mm.classes.find? (fun c => c.id = tid) with
          | some _, _ => st
          | none, none => st
          | none, some cls =>
            match lookupId tid st.val with
            | none => { st with crash := some "infer_constraints_by_class:KeyError" }
            | some mine =>
              let inner : St ByValue := cls.parents.foldl (fun s par =>
                match s.crash, lookupId par st.val with
                | some _, _ => s
                | none, none => { s with crash := some "infer_constraints_by_class:KeyError" }
                | none, some parentMap =>
                  parentMap.foldl (fun s (anno, pc) =>
                    mergeInto s anno (some pc) (otherFirst := true)) s) ⟨mine, false, none⟩
              match inner.crash with
              | some site => { st with crash := some site }
              | none =>
                { st with val := setKey tid inner.val st.val, errors := st.errors || inner.errors }) st1
        match st2.crash with
        | some s => .crash s
        | none => if st2.errors then .err else .ok st2.val

end AasVerif.Infer
