import AasVerif.Model.PyEmit
/-!
The emitted Python expression as a **token stream**, and a reader of token streams that
follows Python's expression grammar.

* `Tok` — the tokens of the emitted sub-grammar.  References to things the generated module
  names through the naming functions stay symbolic, exactly as in `PyExpr`: `that`,
  `var x` (= `variable_name(x)`), `constRef c` (= `aas_constants.<constant_name c>`, one
  primary), `enumRef e` (= `aas_types.<enum_name e>`), `funRef f` (= `function_name(f)`),
  `attrName k n` (the identifier after a dot, with the naming function that applies).  The
  harness renders each token with the real naming functions and compares the sequence with
  CPython's `tokenize` of the real transpiler text.
* `print : PyExpr → List Tok` — the text of an expression; a `paren` node prints `(` … `)`,
  nothing else prints a parenthesis that is not part of a call / subscript.
* `pOrList … pAtom` — recursive descent along Python's grammar
  (`disjunction → conjunction → inversion → comparison → sum → factor → primary → atom`;
  `primary` = atom followed by `.name`, `[expr]`, `(args)` trailers; `sum` is left
  associative; a comparison is `sum (op sum)*`, **a chain `a < b < c` and `not in` are
  recognised and reported as `outside`** — Python gives them a meaning no `PyExpr` has, they
  are *not* read as `(a < b) < c`).  Parentheses leave no trace in the tree read.
  The recursion is on a fuel argument that every call decrements; `parse` supplies
  `20 * length`, which `Lemmas/PyParse.lean` proves sufficient for every printed expression.
* An integer literal directly followed by `.` is rejected (`5.real` is lexed as the float `5.`).
-/
namespace AasVerif.PyEmit
open AasVerif AasVerif.Expr

inductive Tok where
  | that | var (x : Text) | constRef (c : Text) | enumRef (e : Text) | funRef (f : Text)
  | noneK | trueK | falseK
  | int (n : Nat) | float (r : Text) | str (s : Text)
  /-- f-string: start, literal piece, `{`, `}`, end -/
  | fstart | fmid (s : Text) | lbrace | rbrace | fend
  | lpar | rpar | lbrack | rbrack | comma | dot
  /-- the identifier after a dot -/
  | attrName (k : AttrKind) (n : Text)
  | plus | minus
  | cmp (op : Cmp)
  | kwIn | kwIs | kwNot | kwAnd | kwOr | kwFor
  /-- the built-in names `any`, `all`, `range` -/
  | anyK | allK | rangeK
  deriving DecidableEq, Repr, Inhabited

def opToks : PyCmp → List Tok
  | .cmp c => [.cmp c]
  | .in_ => [.kwIn]
  | .is_ => [.kwIs]
  | .isNot => [.kwIs, .kwNot]

def boolKw (isAnd : Bool) : Tok := if isAnd then .kwAnd else .kwOr

mutual
  /-- the token sequence of the emitted text -/
  def print : PyExpr → List Tok
    | .that => [.that]
    | .var x => [.var x]
    | .constRef c => [.constRef c]
    | .enumRef e => [.enumRef e]
    | .funRef f => [.funRef f]
    | .noneC => [.noneK]
    | .tru => [.trueK]
    | .fls => [.falseK]
    | .int n => [.int n]
    | .float r => [.float r]
    | .str s => [.str s]
    | .neg e => .minus :: print e
    | .attr e k n => print e ++ [.dot, .attrName k n]
    | .subscript e i => print e ++ .lbrack :: (print i ++ [.rbrack])
    | .callMethod e m args => print e ++ .dot :: .attrName .method m :: .lpar :: printArgs args
    | .callFun f args => .funRef f :: .lpar :: printArgs args
    | .compare l op r => print l ++ (opToks op ++ print r)
    | .not e => .kwNot :: print e
    | .boolop a vals => printVals (boolKw a) vals
    | .binop a l r => print l ++ (if a then Tok.plus else Tok.minus) :: print r
    | .fstring ps => .fstart :: printParts ps
    | .quant a elt x it =>
      (if a then Tok.anyK else Tok.allK) :: .lpar :: (print elt ++ .kwFor :: .var x :: .kwIn :: (printIter it ++ [.rpar]))
    | .paren e => .lpar :: (print e ++ [.rpar])
  /-- the arguments of a call after the `(`, with the closing `)` -/
  def printArgs : List PyExpr → List Tok
    | [] => [.rpar]
    | e :: es => print e ++ printArgsTail es
  def printArgsTail : List PyExpr → List Tok
    | [] => [.rpar]
    | e :: es => .comma :: (print e ++ printArgsTail es)
  /-- the operands of `and` / `or` joined by the keyword -/
  def printVals (kw : Tok) : List PyExpr → List Tok
    | [] => []
    | e :: es => print e ++ printValsTail kw es
  def printValsTail (kw : Tok) : List PyExpr → List Tok
    | [] => []
    | e :: es => kw :: (print e ++ printValsTail kw es)
  /-- the pieces of an f-string after the opening quote, with the closing quote -/
  def printParts : List PyPart → List Tok
    | [] => [.fend]
    | .lit s :: ps => .fmid s :: printParts ps
    | .fv e :: ps => .lbrace :: (print e ++ .rbrace :: printParts ps)
  def printIter : PyIter → List Tok
    | .each e => print e
    | .range a b => .rangeK :: .lpar :: (print a ++ .comma :: (print b ++ [.rpar]))
end

/-! ## Reader -/

/-- Result of reading a prefix of a token list. -/
inductive PR (α : Type) where
  /-- what was read and the tokens left -/
  | ok (x : α) (rest : List Tok)
  /-- a construct of Python's grammar that no `PyExpr` denotes was met (comparison chain, `not in`) -/
  | outside
  /-- not derivable in the sub-grammar -/
  | fail
  deriving Inhabited

def PR.bind {α β} : PR α → (α → List Tok → PR β) → PR β
  | .ok x r, f => f x r
  | .outside, _ => .outside
  | .fail, _ => .fail

/-- `BoolOp` only when there are at least two operands -/
def wrapB {isAnd : Bool} : PR (List PyExpr) → PR PyExpr
  | .ok [] _ => .fail
  | .ok [a] r => .ok a r
  | .ok as r => .ok (.boolop isAnd as) r
  | .outside => .outside
  | .fail => .fail

inductive OpRead where
  | op (o : PyCmp) (rest : List Tok)
  | notIn
  | noOp

/-- a comparison operator at the head of the tokens (`is not` and `not in` are two tokens) -/
def readOp : List Tok → OpRead
  | .cmp c :: r => .op (.cmp c) r
  | .kwIn :: r => .op .in_ r
  | .kwIs :: .kwNot :: r => .op .isNot r
  | .kwIs :: r => .op .is_ r
  | .kwNot :: .kwIn :: _ => .notIn
  | _ => .noOp

/-- `primary(args)`: the callee is a function name or a method of a receiver -/
def mkCall : PyExpr → List PyExpr → Option PyExpr
  | .funRef f, args => some (.callFun f args)
  | .attr e .method m, args => some (.callMethod e m args)
  | _, _ => none

mutual
  /-- `disjunction`: the operands of `or` -/
  def pOrList : Nat → List Tok → PR (List PyExpr)
    | 0, _ => .fail
    | n + 1, ts =>
      (wrapB (isAnd := true) (pAndList n ts)).bind fun a r =>
        match r with
        | .kwOr :: r' => (pOrList n r').bind fun as r'' => .ok (a :: as) r''
        | _ => .ok [a] r
  /-- `conjunction`: the operands of `and` -/
  def pAndList : Nat → List Tok → PR (List PyExpr)
    | 0, _ => .fail
    | n + 1, ts =>
      (pNot n ts).bind fun a r =>
        match r with
        | .kwAnd :: r' => (pAndList n r').bind fun as r'' => .ok (a :: as) r''
        | _ => .ok [a] r
  /-- `inversion` -/
  def pNot : Nat → List Tok → PR PyExpr
    | 0, _ => .fail
    | n + 1, ts =>
      match ts with
      | .kwNot :: r => (pNot n r).bind fun e r' => .ok (.not e) r'
      | _ => pCmp n ts
  /-- `comparison`: `sum (op sum)*`; two or more operators form a chain -/
  def pCmp : Nat → List Tok → PR PyExpr
    | 0, _ => .fail
    | n + 1, ts =>
      (pArith n ts).bind fun l r =>
        match readOp r with
        | .noOp => .ok l r
        | .notIn => .outside
        | .op o r1 =>
          (pArith n r1).bind fun rr r2 =>
            match readOp r2 with
            | .noOp => .ok (.compare l o rr) r2
            | _ => .outside
  /-- `sum`: left associative -/
  def pArith : Nat → List Tok → PR PyExpr
    | 0, _ => .fail
    | n + 1, ts => (pFactor n ts).bind fun a r => pArithRest n a r
  def pArithRest : Nat → PyExpr → List Tok → PR PyExpr
    | 0, _, _ => .fail
    | n + 1, acc, ts =>
      match ts with
      | .plus :: r => (pFactor n r).bind fun b r' => pArithRest n (.binop true acc b) r'
      | .minus :: r => (pFactor n r).bind fun b r' => pArithRest n (.binop false acc b) r'
      | _ => .ok acc ts
  /-- `factor` -/
  def pFactor : Nat → List Tok → PR PyExpr
    | 0, _ => .fail
    | n + 1, ts =>
      match ts with
      | .minus :: r => (pFactor n r).bind fun e r' => .ok (.neg e) r'
      | _ => pPrimary n ts
  /-- `primary`: an atom and its trailers -/
  def pPrimary : Nat → List Tok → PR PyExpr
    | 0, _ => .fail
    | n + 1, ts => (pAtom n ts).bind fun a r => pTrailers n a r
  def pTrailers : Nat → PyExpr → List Tok → PR PyExpr
    | 0, _, _ => .fail
    | n + 1, acc, ts =>
      match ts with
      | .dot :: .attrName k nm :: r => pTrailers n (.attr acc k nm) r
      | .lbrack :: r =>
        (wrapB (isAnd := false) (pOrList n r)).bind fun i r' =>
          match r' with
          | .rbrack :: r'' => pTrailers n (.subscript acc i) r''
          | _ => .fail
      | .lpar :: r =>
        (pArgs n r).bind fun args r' =>
          match mkCall acc args with
          | some c => pTrailers n c r'
          | none => .fail
      | _ => .ok acc ts
  /-- the arguments after `(` up to and including `)` -/
  def pArgs : Nat → List Tok → PR (List PyExpr)
    | 0, _ => .fail
    | n + 1, ts =>
      match ts with
      | .rpar :: r => .ok [] r
      | _ => pArgs1 n ts
  def pArgs1 : Nat → List Tok → PR (List PyExpr)
    | 0, _ => .fail
    | n + 1, ts =>
      (wrapB (isAnd := false) (pOrList n ts)).bind fun a r =>
        match r with
        | .rpar :: r' => .ok [a] r'
        | .comma :: .rpar :: r' => .ok [a] r'   -- a trailing comma
        | .comma :: r' => (pArgs1 n r').bind fun as r'' => .ok (a :: as) r''
        | _ => .fail
  def pAtom : Nat → List Tok → PR PyExpr
    | 0, _ => .fail
    | n + 1, ts =>
      match ts with
      | .that :: r => .ok .that r
      | .var x :: r => .ok (.var x) r
      | .constRef c :: r => .ok (.constRef c) r
      | .enumRef e :: r => .ok (.enumRef e) r
      | .funRef f :: r => .ok (.funRef f) r
      | .noneK :: r => .ok .noneC r
      | .trueK :: r => .ok .tru r
      | .falseK :: r => .ok .fls r
      | .int _ :: .dot :: _ => .fail
      | .int k :: r => .ok (.int k) r
      | .float x :: r => .ok (.float x) r
      | .str s :: r => .ok (.str s) r
      | .fstart :: r => (pParts n r).bind fun ps r' => .ok (.fstring ps) r'
      | .lpar :: r =>
        (wrapB (isAnd := false) (pOrList n r)).bind fun e r' =>
          match r' with
          | .rpar :: r'' => .ok e r''
          | _ => .fail
      | .anyK :: .lpar :: r => pQuant n true r
      | .allK :: .lpar :: r => pQuant n false r
      | _ => .fail
  /-- `any(` / `all(` has been read: `expr for x in iter )` -/
  def pQuant : Nat → Bool → List Tok → PR PyExpr
    | 0, _, _ => .fail
    | n + 1, isAny, ts =>
      (wrapB (isAnd := false) (pOrList n ts)).bind fun elt r =>
        match r with
        | .kwFor :: .var x :: .kwIn :: r1 =>
          (pIter n r1).bind fun it r2 =>
            match r2 with
            | .rpar :: r3 => .ok (.quant isAny elt x it) r3
            | _ => .fail
        | _ => .fail
  def pIter : Nat → List Tok → PR PyIter
    | 0, _ => .fail
    | n + 1, ts =>
      match ts with
      | .rangeK :: .lpar :: r =>
        (wrapB (isAnd := false) (pOrList n r)).bind fun a ra =>
          match ra with
          | .comma :: rb =>
            (wrapB (isAnd := false) (pOrList n rb)).bind fun b rc =>
              match rc with
              | .rpar :: rd => .ok (.range a b) rd
              | _ => .fail
          | _ => .fail
      | _ => (wrapB (isAnd := false) (pOrList n ts)).bind fun e r => .ok (.each e) r
  /-- the pieces of an f-string up to and including its end -/
  def pParts : Nat → List Tok → PR (List PyPart)
    | 0, _ => .fail
    | n + 1, ts =>
      match ts with
      | .fend :: r => .ok [] r
      | .fmid s :: r => (pParts n r).bind fun ps r' => .ok (.lit s :: ps) r'
      | .lbrace :: r =>
        (wrapB (isAnd := false) (pOrList n r)).bind fun e r' =>
          match r' with
          | .rbrace :: r'' => (pParts n r'').bind fun ps r3 => .ok (.fv e :: ps) r3
          | _ => .fail
      | _ => .fail
end

/-- Read a whole expression. -/
def pExpr (n : Nat) (ts : List Tok) : PR PyExpr := wrapB (isAnd := false) (pOrList n ts)

/-- The tree Python's grammar reads from a complete token sequence (`fail` when tokens are left over). -/
def parse (ts : List Tok) : PR PyExpr :=
  match pExpr (20 * ts.length) ts with
  | .ok x [] => .ok x []
  | .ok _ _ => .fail
  | r => r

/-- Python's meaning of a token sequence: the meaning of the tree it is read as. -/
def evalToks (ρ : Env) (ts : List Tok) : Option Out :=
  match parse ts with
  | .ok x _ => some (PyExpr.eval ρ x)
  | _ => none

end AasVerif.PyEmit
