/-!
Base types of the length-constraint inference (`infer_for_schema/_len.py`, `_types.py`):
comparison operators, the three kinds of loose bounds, the reduced `LenConstraint`
and the three-way outcome (`ok` / reported errors / crash site).
-/
namespace AasVerif.Len

/-- `parse_tree.Comparator` -/
inductive Op where
  | lt | le | gt | ge | eq | ne
  deriving DecidableEq, Repr, Inhabited

/-- Which of `_MinLength`, `_MaxLength`, `_ExactLength` a table row constructs. -/
inductive Kind where
  | min | max | exact
  deriving DecidableEq, Repr

/-- `_MinLength(value)`, `_MaxLength(value)`, `_ExactLength(value)`; values are Python ints. -/
inductive Bound where
  | min (v : Int)
  | max (v : Int)
  | exact (v : Int)
  deriving DecidableEq, Repr

def Bound.mk' : Kind → Int → Bound
  | .min, v => .min v
  | .max, v => .max v
  | .exact, v => .exact v

/-- The meaning of a loose bound for a value of length `n`. -/
def Bound.holds : Bound → Nat → Prop
  | .min v, n => v ≤ (n : Int)
  | .max v, n => (n : Int) ≤ v
  | .exact v, n => (n : Int) = v

instance (b : Bound) (n : Nat) : Decidable (b.holds n) := by
  cases b <;> unfold Bound.holds <;> infer_instance

/-- Python's `n op c` (length on the left) resp. `c op n` (constant on the left). -/
def pyCompare (op : Op) (lenOnLeft : Bool) (n : Nat) (c : Int) : Prop :=
  let l : Int := if lenOnLeft then n else c
  let r : Int := if lenOnLeft then c else n
  match op with
  | .lt => l < r
  | .le => l ≤ r
  | .gt => l > r
  | .ge => l ≥ r
  | .eq => l = r
  | .ne => l ≠ r

/-- One row of the operator table of `_match_len_constraint_on_member_or_name`:
`some (kind, delta)` = `constraint = _Kind(value=constant + delta)`, `none` = `pass`. -/
abbrev Row := Op × Option (Kind × Int)

/-- `infer_for_schema.LenConstraint` (both bounds inclusive, `None` = unbounded). -/
structure LenC where
  lo : Option Int
  hi : Option Int
  deriving DecidableEq, Repr

def LenC.admits (c : LenC) (n : Nat) : Prop :=
  (∀ lo, c.lo = some lo → lo ≤ (n : Int)) ∧ (∀ hi, c.hi = some hi → (n : Int) ≤ hi)

/-- The invariant of the `LenConstraint`s that the inference produces: bounds are not negative and,
when both are given, ordered.  (Established by `reduce`, preserved by `merge`, and sufficient for the
pre-condition of `LenConstraint.__init__`.) -/
def LenC.WF (c : LenC) : Prop :=
  (∀ lo, c.lo = some lo → 0 ≤ lo) ∧ (∀ hi, c.hi = some hi → 0 ≤ hi) ∧
  (∀ lo hi, c.lo = some lo → c.hi = some hi → lo ≤ hi)

def wfOpt : Option LenC → Prop
  | none => True
  | some c => c.WF

/-- An optional `LenConstraint`; `None` admits everything. -/
def admitsOpt : Option LenC → Nat → Prop
  | none, _ => True
  | some c, n => c.admits n

/-- The reasons `_reduce_constraints` / `_merge_len_constraints` report. -/
inductive Msg where
  | exactExact (e v : Int)
  | minExact (lo e : Int)
  | maxExact (hi e : Int)
  | minMax (lo hi : Int)
  | exactNegative (e : Int)
  | maxNegative (hi : Int)
  deriving DecidableEq, Repr

/-- Outcome of a function of the implementation: value, reported errors, or an uncaught exception. -/
inductive Res (α : Type) where
  | ok (a : α)
  | err (msgs : List Msg)
  | crash (site : String)
  deriving Repr

end AasVerif.Len
