import AasVerif.Model.Text
/-!
Model of `aas_core_codegen.common.wrap_text_into_lines`.

Faithful to the loop structure of the Python function: `parts = text.split(" ")`,
the article-gluing loop, the trailing-space pass and the re-flow loop with its
two accumulators.  `articles` and the default width come from `Gen.Wrap`.
-/
namespace AasVerif.Wrap

/-- Python `text.split(" ")`. Always at least one part. -/
def splitSp : Text → List Text
  | [] => [[]]
  | c :: cs =>
    if c = 32 then [] :: splitSp cs
    else match splitSp cs with
      | [] => [[c]]
      | p :: ps => (c :: p) :: ps

/-- `" ".join(parts)` -/
def joinSp : List Text → Text
  | [] => []
  | [p] => p
  | p :: ps => p ++ 32 :: joinSp ps

/-- The article-gluing loop; `pending` is the Python list `pending` (in order). -/
def tokensAux (arts : List Text) : List Text → List Text → List Text
  | pending, [] => pending
  | [], p :: ps =>
    if p ∈ arts then tokensAux arts [p] ps
    else p :: tokensAux arts [] ps
  | q :: qs, p :: ps =>
    if p ∈ arts ∨ p = [] then tokensAux arts (q :: qs ++ [p]) ps
    else joinSp (q :: qs ++ [p]) :: tokensAux arts [] ps

/-- `f"{token} " if i < len(tokens) - 1 else token`. -/
def addSpaces : List Text → List Text
  | [] => []
  | [t] => [t]
  | t :: ts => (t ++ [32]) :: addSpaces ts

/-- The re-flow loop: `accLen` is `accumulation_len`, `acc` is `"".join(accumulation)`. -/
def segAux (w : Nat) : Nat → Text → List Text → List Text
  | accLen, acc, [] => if accLen > 0 then [acc] else []
  | accLen, acc, t :: ts =>
    if t.length > w then acc :: t :: segAux w 0 [] ts
    else if accLen + t.length > w then acc :: segAux w t.length t ts
    else segAux w (accLen + t.length) (acc ++ t) ts

def tokens (arts : List Text) (t : Text) : List Text :=
  addSpaces (tokensAux arts [] (splitSp t))

def wrap (arts : List Text) (w : Nat) (t : Text) : List Text :=
  let parts := splitSp t
  if parts.length = 1 then [t]
  else segAux w 0 [] (tokens arts t)

end AasVerif.Wrap
