import AasVerif.Model.LenBase
import AasVerif.Gen.Len
/-!
Model of the length-bound arithmetic of `infer_for_schema`:

* `ofComparison`  = the operator chains of `_len._match_len_constraint_on_member_or_name`
  (tables regenerated from the source into `Gen.Len`);
* `mkLenC`        = `LenConstraint.__init__` with its icontract pre-condition as a crash site;
* `reduce`        = `_len._reduce_constraints`;
* `merge`         = `_inline._merge_len_constraints`.
-/
namespace AasVerif.Len

def lookup (op : Op) : List Row → Option (Option (Kind × Int))
  | [] => none
  | (o, r) :: rest => if o = op then some r else lookup op rest

/-- One `if/elif` chain: `crash` is the final `assert_never(node.op)`. -/
def ofComparisonIn (table : List Row) (op : Op) (c : Int) : Res (Option Bound) :=
  match lookup op table with
  | none => .crash "assert_never"
  | some none => .ok none
  | some (some (k, d)) => .ok (some (Bound.mk' k (c + d)))

/-- `_match_len_constraint_on_member_or_name` on `len(x) op c` (`lenOnLeft`) resp. `c op len(x)`. -/
def ofComparison (op : Op) (lenOnLeft : Bool) (c : Int) : Res (Option Bound) :=
  ofComparisonIn (if lenOnLeft then Gen.Len.lenOnLeft else Gen.Len.constOnLeft) op c

/-- The pre-condition of `LenConstraint.__init__`, parametrised by the extracted lower limit. -/
def preOK (lower : Int) (strict : Bool) (lo hi : Option Int) : Bool :=
  match lo, hi with
  | some l, some h => (if strict then decide (lower < l) else decide (lower ≤ l)) && decide (l ≤ h)
  | _, _ => true

/-- `LenConstraint(min_value=lo, max_value=hi)` -/
def mkLenC (lo hi : Option Int) : Res LenC :=
  if preOK Gen.Len.minLower Gen.Len.minLowerStrict lo hi then .ok ⟨lo, hi⟩
  else .crash "LenConstraint.__init__:require"

/-- `max_with_none(v, cur)` -/
def maxWithNone (v : Int) : Option Int → Option Int
  | none => some v
  | some m => some (max v m)

/-- `min_with_none(v, cur)` -/
def minWithNone (v : Int) : Option Int → Option Int
  | none => some v
  | some m => some (min v m)

/-- The loop state of `_reduce_constraints`. -/
structure Acc where
  minLen : Option Int := none
  maxLen : Option Int := none
  exactLen : Option Int := none
  errs : List Msg := []
  deriving Repr

def step (a : Acc) : Bound → Acc
  | .min v => { a with minLen := maxWithNone v a.minLen }
  | .max v => { a with maxLen := minWithNone v a.maxLen }
  | .exact v =>
    { a with
      errs := match a.exactLen with
        | some e => if e ≠ v then a.errs ++ [Msg.exactExact e v] else a.errs
        | none => a.errs
      exactLen := some v }

/-- The checks after the loop, in source order. -/
def finalErrs (a : Acc) : List Msg :=
  a.errs
  ++ (match a.exactLen, a.minLen with
      | some e, some lo => if lo > e then [Msg.minExact lo e] else []
      | _, _ => [])
  ++ (match a.exactLen, a.maxLen with
      | some e, some hi => if e > hi then [Msg.maxExact hi e] else []
      | _, _ => [])
  ++ (match a.minLen, a.maxLen with
      | some lo, some hi => if lo > hi then [Msg.minMax lo hi] else []
      | _, _ => [])
  ++ (match a.exactLen with
      | some e => if e < 0 then [Msg.exactNegative e] else []
      | none => [])
  ++ (match a.maxLen with
      | some hi => if hi < 0 then [Msg.maxNegative hi] else []
      | none => [])

/-- clip a (vacuous) negative lower bound to zero -/
def clipMin : Option Int → Option Int
  | some lo => if lo < 0 then some 0 else some lo
  | none => none

def finish (a : Acc) : Res LenC :=
  let errs := finalErrs a
  if errs ≠ [] then .err errs
  else
    match a.exactLen with
    | some e => mkLenC (clipMin (some e)) (some e)
    | none => mkLenC (clipMin a.minLen) a.maxLen

/-- `_reduce_constraints(constraints)` -/
def reduce (bs : List Bound) : Res LenC :=
  finish (bs.foldl step {})

/-- `_max_or_none` -/
def maxOrNone : Option Int → Option Int → Option Int
  | some a, some b => some (max a b)
  | none, some b => some b
  | some a, none => some a
  | none, none => none

/-- `_min_or_none` -/
def minOrNone : Option Int → Option Int → Option Int
  | some a, some b => some (min a b)
  | none, some b => some b
  | some a, none => some a
  | none, none => none

/-- `_merge_len_constraints(that, other)` -/
def merge : Option LenC → Option LenC → Res (Option LenC)
  | some a, some b =>
    let lo := maxOrNone a.lo b.lo
    let hi := minOrNone a.hi b.hi
    match lo, hi with
    | some l, some h =>
      if l > h then .err [Msg.minMax l h]
      else match mkLenC lo hi with
        | .ok c => .ok (some c)
        | .err m => .err m
        | .crash s => .crash s
    | _, _ =>
      match mkLenC lo hi with
      | .ok c => .ok (some c)
      | .err m => .err m
      | .crash s => .crash s
  | some a, none => .ok (some a)
  | none, some b => .ok (some b)
  | none, none => .ok none

end AasVerif.Len
