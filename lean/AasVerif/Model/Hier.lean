import AasVerif.Model.Text
/-!
Model of the inheritance passes of `aas_core_codegen.intermediate`
(`_hierarchy._topologically_sort`, `_UnverifiedOntology.__init__`,
`map_symbol_table_to_ontology`, `construction.understand_all` (the checks on
super-calls and assignments), `_second_pass_to_resolve_ancestors_and_descendants_in_place`,
`_second_pass_to_stack_{serializations,invariants,properties,methods,constructors}_in_place`,
`_second_pass_to_resolve_interfaces_in_place` and the constructor checks of `_verify`)
over an abstract class list in **declaration order**.

Faithful to the iteration orders of the code:
* the topological sort is the DFS of the code, started from the class with the
  smallest name among the not yet marked ones (`SortedSet(key=name)[0]`), parents
  visited in the order of the `class X(P1, P2)` list;
* the ontology concatenates `ancestors_of[parent] + [parent]` over the parents sorted by
  their topological index and keeps duplicates (pinned by `test_hierarchy.test_complex_graph`);
  the intermediate classes de-duplicate (the `fix:` commit) when the descendants are copied;
* intermediate `ancestors` are collected by inverting the descendants in declaration order;
* invariants / properties / methods / serialization settings are stacked in topological
  order over the parents in declared order, the constructors are in-lined in declaration
  order (`symbol_table.classes`).

In-place mutation is modelled by association lists over the initial value (`get`, `foldUpd`). A stacked
property / invariant / method is the pair `(owner, name)`: the code identifies them by
`id(…)` of the object created for the declaring class. An in-lined constructor statement
is `(owner, index in the owner's constructor, target)` for the same reason.
-/
namespace AasVerif.Hier

abbrev Name := Text

inductive Stmt where
  | callSuper (n : Name)
  | assign (p : Name)
deriving DecidableEq, Repr

structure ParsedClass where
  name : Name
  parents : List Name
  abstract : Bool
  ownProps : List Name
  ownInvs : List Name
  ownMethods : List Name
  /-- argument names of `__init__` (without `self`) -/
  args : List Name
  ctor : List Stmt
  withModelType : Option Bool
deriving Repr

abbrev Item := Name × Name

structure InlStmt where
  owner : Name
  idx : Nat
  target : Name
deriving DecidableEq, Repr

/-! ## small generic pieces -/

/-- `if x not in observed: out.append(x); observed.add(x)` -/
def pushNew {α} [DecidableEq α] (acc : List α) (x : α) : List α :=
  if x ∈ acc then acc else acc ++ [x]

/-- the de-duplicating `for x in xs` loop, continuing from `acc` -/
def addAll {α} [DecidableEq α] (acc xs : List α) : List α := xs.foldl pushNew acc

/-- A mutable map `class ↦ value` as an association list (latest entry first) over a default
(the value the attribute had before any pass touched it). -/
def get {β} (d : Name → β) : List (Name × β) → Name → β
  | [], k => d k
  | (k', v) :: m, k => if k = k' then v else get d m k

/-- A pass `for x in xs: x.attr = F(current state, x)` -/
def foldUpd {κ β} (key : κ → Name) (d : Name → β) (F : (Name → β) → κ → β) (xs : List κ) : List (Name × β) :=
  xs.foldl (fun m x => (key x, F (get d m) x) :: m) []

def find? (cs : List ParsedClass) (n : Name) : Option ParsedClass := cs.find? (fun c => c.name = n)

def names (cs : List ParsedClass) : List Name := cs.map (·.name)

def parentsOf (cs : List ParsedClass) (n : Name) : List Name :=
  match find? cs n with
  | some c => c.parents
  | none => []

/-- every `must_find_class(parent_name)` succeeds -/
def parentsExist (cs : List ParsedClass) : Bool :=
  cs.all (fun c => c.parents.all (fun p => (find? cs p).isSome))

/-! ## `_topologically_sort` -/

/-- `SortedSet(key=name).add` on the sorted list of names (Python `str` order = lexicographic on code points) -/
def insertSorted (n : Name) : List Name → List Name
  | [] => [n]
  | m :: ms => if n < m then n :: m :: ms else m :: insertSorted n ms

def sortNames (ns : List Name) : List Name := ns.foldr insertSorted []

structure TState where
  /-- `result`, which is also the set `permanent_marks` -/
  result : List Name
  temp : List Name
  /-- `visited_more_than_once` -/
  cycle : Option Name
  /-- the recursion budget of the model ran out (never, see `Lemmas.Hier`) -/
  outOfFuel : Bool
deriving Repr

/-- the inner function `visit` -/
def visit (par : Name → List Name) : Nat → Name → TState → TState
  | 0, _, st => { st with outOfFuel := true }
  | fuel + 1, c, st =>
    if st.cycle.isSome then st
    else if c ∈ st.result then st
    else if c ∈ st.temp then { st with cycle := some c }
    else
      let st2 := (par c).foldl (fun s p => visit par fuel p s) { st with temp := c :: st.temp }
      { st2 with temp := st2.temp.erase c, result := st2.result ++ [c] }

/-- `while len(without_permanent_marks) > 0 and not visited_more_than_once: visit(without_permanent_marks[0])`
as a walk over the sorted names that skips the ones already marked (= removed from the set). -/
def topoLoop (par : Name → List Name) (fuel : Nat) : List Name → TState → TState
  | [], st => st
  | n :: ns, st =>
    if st.cycle.isSome then st
    else if n ∈ st.result then topoLoop par fuel ns st
    else topoLoop par fuel ns (visit par fuel n st)

def topoState (cs : List ParsedClass) : TState :=
  topoLoop (parentsOf cs) (cs.length + 1) (sortNames (names cs)) ⟨[], [], none, false⟩

/-- topological order of the class names (whatever `result` holds when a cycle stopped the loop) -/
def topo (cs : List ParsedClass) : List Name := (topoState cs).result

/-! ## `_UnverifiedOntology.__init__` -/

/-- `first_not_in_topological_order` -/
def firstNotTopo (par : Name → List Name) : List Name → List Name → Option Name
  | _, [] => none
  | observed, c :: rest =>
    if (par c).all (· ∈ observed) then firstNotTopo par (observed ++ [c]) rest else some c

/-- stable `sorted(parents_with_order, key=order)` -/
def insertByIdx (order : List Name) (p : Name) : List Name → List Name
  | [] => [p]
  | q :: qs => if order.idxOf p < order.idxOf q then p :: q :: qs else q :: insertByIdx order p qs

def sortByIdx (order : List Name) (ps : List Name) : List Name := ps.foldr (insertByIdx order) []

/-- `_ancestors_of` of the ontology (duplicates over diamonds are kept there) -/
def ontAncL (par : Name → List Name) (order : List Name) : List (Name × List Name) :=
  foldUpd id (fun _ => []) (fun st c => (sortByIdx order (par c)).flatMap (fun p => st p ++ [p])) order

def ontAnc (par : Name → List Name) (order : List Name) : Name → List Name :=
  get (fun _ => []) (ontAncL par order)

/-- `_descendants_of`: "simply inverse" — `for cls, ancestors in ancestors_of.items(): for a in ancestors:
descendants_of[a].append(cls)`, read off per ancestor: one copy of `cls` per occurrence of `a`. -/
def ontDesc (anc : Name → List Name) (order : List Name) (a : Name) : List Name :=
  order.flatMap (fun d => ((anc d).filter (· = a)).map (fun _ => d))

/-! ## `map_symbol_table_to_ontology`: the checks after the sort -/

def ownOf (cs : List ParsedClass) (f : ParsedClass → List Name) (n : Name) : List Name :=
  match find? cs n with
  | some c => f c
  | none => []

def hasInit (c : ParsedClass) : Bool := !c.ctor.isEmpty || !c.args.isEmpty

/-- the name → declaring ancestor map `observed_properties` after one more ancestor `a`, and whether a
property name was already observed for *another* ancestor (`another_ancestor is not ancestor`; the ontology's
ancestor list repeats a class over diamonds, which is no conflict) -/
def observeProps (obs : List (Name × Name) × Bool) (a : Name) (ps : List Name) : List (Name × Name) × Bool :=
  ps.foldl (fun t p =>
    match t.1.find? (fun e => e.1 = p) with
    | none => (t.1 ++ [(p, a)], t.2)
    | some e => (t.1, t.2 || decide (e.2 ≠ a))) obs

def ontologyErrors (cs : List ParsedClass) (anc : Name → List Name) : Bool :=
  cs.any (fun c =>
    let obs := (anc c.name).foldl (fun (s : (List (Name × Name) × Bool) × List Name) a =>
        (observeProps s.1 a (ownOf cs (·.ownProps) a), s.2 ++ ownOf cs (·.ownMethods) a)) (([], false), [])
    let obsP := obs.1.1.map (·.1)
    obs.1.2
    || c.ownProps.any (fun p => obsP.contains p || obs.2.contains p)
    || c.ownMethods.any (fun m => obs.2.contains m || obsP.contains m)
    || (!hasInit c && (anc c.name).any (fun a => !(ownOf cs (·.args) a).isEmpty)))

/-! ## `construction.understand_all`: what can go wrong with a rendered constructor -/

/-- the properties assigned by the statements of a constructor as written, in order -/
def Stmt.assigned : Stmt → Option Name
  | .assign x => some x
  | .callSuper _ => none

def ownAssigns (c : ParsedClass) : List Name := c.ctor.filterMap Stmt.assigned

/-- `_understand_body` refuses a statement it does not understand and (since the repair of C05-F1) an understood
assignment to a property which an earlier statement of the same constructor assigned already
("The property x is assigned more than once"). -/
def constructionErrors (cs : List ParsedClass) : Bool :=
  cs.any (fun c => c.ctor.any (fun s =>
    match s with
    | .callSuper p =>
      !(c.parents.contains p) ||
      (match find? cs p with
       | some pc => !hasInit pc || pc.args.any (fun a => !(c.args.contains a))
       | none => true)
    | .assign x => !(c.ownProps.contains x) || !(c.args.contains x))
    || decide (¬ (ownAssigns c).Nodup))

/-! ## `_second_pass_to_resolve_ancestors_and_descendants_in_place` -/

/-- descendants of the intermediate class: the ontology's list, first occurrences only -/
def irDesc (desc : Name → List Name) (a : Name) : List Name :=
  addAll [] (desc a)

/-- ancestors of the intermediate classes: the inverse, collected over `our_types` in declaration order
(`ancestor_map_cls[descendant].append(our_type)`), read off per descendant. -/
def irAnc (ns : List Name) (ird : Name → List Name) (c : Name) : List Name :=
  ns.flatMap (fun a => ((ird a).filter (· = c)).map (fun _ => a))

def isConcrete (cs : List ParsedClass) (n : Name) : Bool :=
  match find? cs n with
  | some c => !c.abstract
  | none => false

/-- `_set_descendants`: `[d for d in descendants if isinstance(d, ConcreteClass)]` -/
def concreteDesc (cs : List ParsedClass) (ird : Name → List Name) (a : Name) : List Name :=
  (ird a).filter (isConcrete cs)

/-! ## stacking passes (topological order, parents in declared order) -/

def ownItems (cs : List ParsedClass) (f : ParsedClass → List Name) (n : Name) : List Item :=
  (ownOf cs f n).map (fun x => (n, x))

/-- invariants and properties: inherited ones de-duplicated by identity, then the own ones -/
def stackL (par : Name → List Name) (own : Name → List Item) (order : List Name) : List (Name × List Item) :=
  foldUpd id own (fun st c => addAll [] ((par c).flatMap st) ++ own c) order

def stackAll (par : Name → List Name) (own : Name → List Item) (order : List Name) : Name → List Item :=
  get own (stackL par own order)

/-- `_set_properties`: `@require` "No duplicate properties" (by name) -/
def firstNameClash (order : List Name) (st : Name → List Item) : Option Name :=
  order.find? (fun c => decide (¬ ((st c).map (·.2)).Nodup))

/-- A pass that may refuse a class: `F` gives the new value (or none: `continue`) and "an error was reported". -/
def foldUpdE {β} (d : Name → β) (F : (Name → β) → Name → Option β × Bool) (xs : List Name) : List (Name × β) × Bool :=
  xs.foldl (fun (s : List (Name × β) × Bool) x =>
    match F (get d s.1) x with
    | (some v, e) => ((x, v) :: s.1, s.2 || e)
    | (none, e) => (s.1, s.2 || e)) ([], false)

/-- methods: conflicts are detected by name -/
def methodsF (par : Name → List Name) (own : Name → List Item) (st : Name → List Item) (c : Name) :
    Option (List Item) × Bool :=
  let r := ((par c).flatMap st).foldl (fun (r : List Item × List Name × Bool) m =>
      if r.2.1.contains m.2 then (r.1, r.2.1, true) else (r.1 ++ [m], r.2.1 ++ [m.2], r.2.2)) ([], [], false)
  if (own c).any (fun m => r.2.1.contains m.2) then (none, true)
  else (some (r.1 ++ own c), r.2.2)

def stackMethods (par : Name → List Name) (own : Name → List Item) (order : List Name) : List (Name × List Item) × Bool :=
  foldUpdE own (methodsF par own) order

/-- `with_model_type`: parents' settings (declared order) then the own one must all agree with the first -/
def serF (par : Name → List Name) (own : Name → Option Bool) (st : Name → Option Bool) (c : Name) :
    Option (Option Bool) × Bool :=
  match (par c).filterMap st ++ (own c).toList with
  | [] => (none, false)
  | first :: rest => if rest.any (· != first) then (none, true) else (some (some first), false)

def stackSer (par : Name → List Name) (own : Name → Option Bool) (order : List Name) : List (Name × Option Bool) × Bool :=
  foldUpdE own (serF par own) order

def ownWmt (cs : List ParsedClass) (n : Name) : Option Bool :=
  match find? cs n with
  | some c => c.withModelType
  | none => none

/-- the second loop: unset ⇒ `False` -/
def finalWmt (st : Name → Option Bool) (n : Name) : Bool := (st n).getD false

/-! ## `_second_pass_to_stack_constructors_in_place` (declaration order, de-duplicated by statement identity) -/

def inlineOne (st : Name → List InlStmt) (c : ParsedClass) : List InlStmt :=
  (c.ctor.zipIdx).foldl (fun acc (si : Stmt × Nat) =>
    match si.1 with
    | .callSuper p => addAll acc (st p)
    | .assign x => acc ++ [⟨c.name, si.2, x⟩]) []

def inlineL (cs : List ParsedClass) : List (Name × List InlStmt) :=
  foldUpd (·.name) (fun _ => []) inlineOne cs

def inlineAll (cs : List ParsedClass) : Name → List InlStmt := get (fun _ => []) (inlineL cs)

/-! ## the whole pipeline -/

structure ClassOut where
  name : Name
  ancestors : List Name
  descendants : List Name
  concreteDescendants : List Name
  props : List Item
  invs : List Item
  methods : List Item
  inlined : List InlStmt
  hasInterface : Bool
  withModelType : Bool
deriving Repr

structure Out where
  topo : List Name
  classes : List ClassOut
deriving Repr

inductive Res where
  | cycle (n : Name)
  /-- an `Error` is returned by the named stage -/
  | err (stage : String)
  /-- an exception escapes at the named site -/
  | crash (site : String)
  | ok (o : Out)
deriving Repr

/-- `_verify_all_properties_are_initialized_in_the_constructor` -/
def uninitialized (props : List Item) (inl : List InlStmt) : Bool :=
  props.any (fun p => !((inl.map (·.target)).contains p.2))

def translate (cs : List ParsedClass) : Res :=
  if !parentsExist cs then .crash "KeyError" else
  let par := parentsOf cs
  let ts := topoState cs
  if ts.outOfFuel then .crash "RecursionError" else
  match ts.cycle with
  | some c => .cycle c
  | none =>
  let order := ts.result
  -- preconditions of `_UnverifiedOntology.__init__`
  if (firstNotTopo par [] order).isSome then .crash "ViolationError" else
  if decide (¬ order.Nodup) then .crash "ViolationError" else
  let ancL := ontAncL par order
  let anc := get (fun _ => []) ancL
  if ontologyErrors cs anc then .err "ontology" else
  if constructionErrors cs then .err "construction" else
  let ownI := ownItems cs (·.ownInvs)
  let ownP := ownItems cs (·.ownProps)
  let ownM := ownItems cs (·.ownMethods)
  let ser := stackSer par (ownWmt cs) order
  let invsL := stackL par ownI order
  let propsL := stackL par ownP order
  -- `_set_properties` raises for the first class (in topological order) whose stacked names clash
  if (firstNameClash order (get ownP propsL)).isSome then .crash "ViolationError" else
  let meths := stackMethods par ownM order
  let inlL := inlineL cs
  if ser.2 || meths.2 then .err "translate" else
  if cs.any (fun c => uninitialized (get ownP propsL c.name) (get (fun _ => []) inlL c.name)) then .err "translate" else
  if cs.any (fun c => c.args != (get ownP propsL c.name).map (·.2)) then .err "translate" else
  if cs.any (fun c => decide (¬ ((get ownI invsL c.name).map (·.2)).Nodup)) then .err "translate" else
  let descL := (names cs).map (fun a => (a, irDesc (ontDesc anc order) a))
  let ird := get (fun _ => []) descL
  .ok {
    topo := order
    classes := cs.map (fun c => {
      name := c.name
      ancestors := irAnc (names cs) ird c.name
      descendants := ird c.name
      concreteDescendants := concreteDesc cs ird c.name
      props := get ownP propsL c.name
      invs := get ownI invsL c.name
      methods := get ownM meths.1 c.name
      inlined := get (fun _ => []) inlL c.name
      hasInterface := c.abstract || !(ontDesc anc order c.name).isEmpty
      withModelType := finalWmt (get (ownWmt cs) ser.1) c.name }) }

/-! ## the components of `translate` by name (what the theorems talk about) -/

/-- `descendants` of the intermediate classes as `translate` tabulates them -/
def descendantsOf (cs : List ParsedClass) (order : List Name) : Name → List Name :=
  get (fun _ => []) ((names cs).map (fun a => (a, irDesc (ontDesc (get (fun _ => []) (ontAncL (parentsOf cs) order)) order) a)))

def ancestorsOf (cs : List ParsedClass) (order : List Name) (c : Name) : List Name :=
  irAnc (names cs) (descendantsOf cs order) c

def concreteDescendantsOf (cs : List ParsedClass) (order : List Name) (c : Name) : List Name :=
  concreteDesc cs (descendantsOf cs order) c

def propsOf (cs : List ParsedClass) (order : List Name) : Name → List Item :=
  stackAll (parentsOf cs) (ownItems cs (·.ownProps)) order

def invsOf (cs : List ParsedClass) (order : List Name) : Name → List Item :=
  stackAll (parentsOf cs) (ownItems cs (·.ownInvs)) order

def methodsOf (cs : List ParsedClass) (order : List Name) : Name → List Item :=
  get (ownItems cs (·.ownMethods)) (stackMethods (parentsOf cs) (ownItems cs (·.ownMethods)) order).1

def hasInterfaceOf (cs : List ParsedClass) (order : List Name) (c : ParsedClass) : Bool :=
  c.abstract || !(ontDesc (get (fun _ => []) (ontAncL (parentsOf cs) order)) order c.name).isEmpty

def wmtOf (cs : List ParsedClass) (order : List Name) (c : Name) : Bool :=
  finalWmt (get (ownWmt cs) (stackSer (parentsOf cs) (ownWmt cs) order).1) c

end AasVerif.Hier
