/-!
# Plumbing of the `--cache_model` flag from the command line to `run.load_model`

The four expressions are extracted from the source (`Gen.Cache.flag`); `plumb` evaluates
the chain  argparse → `main.main` → `Parameters.__init__` → `main.execute` → `load_model`.
`none` = an expression the evaluator does not understand (tie broken, not "false").
-/
namespace AasVerif.CacheFlag

inductive FlagE
  | name (n : String)               -- a local / parameter
  | const (b : Bool)
  | attr (obj n : String)           -- obj.n
  | boolOf (e : FlagE)              -- bool(e)
  | other (src : String)
  deriving DecidableEq, Repr

structure Table where
  argparseAction : String           -- action of parser.add_argument("--cache_model", …)
  mainPasses : FlagE                -- Parameters(cache_model=<this>) in main.main
  paramsRhs : FlagE                 -- self.cache_model = <this> in Parameters.__init__
  paramsDefault : Option Bool       -- default of the cache_model parameter of Parameters.__init__
  executePasses : FlagE             -- run.load_model(cache_model=<this>) in main.execute
  loadModelDefault : Option Bool    -- default of load_model's cache_model
  deriving Repr

/-- environment: value of the one name / attribute that is in scope -/
def eval (nm : String) (attrObj : String) (v : Bool) : FlagE → Option Bool
  | .name n => if n == nm then some v else none
  | .attr o n => if o == attrObj && n == nm then some v else none
  | .const b => some b
  | .boolOf e => eval nm attrObj v e
  | .other _ => none

/-- value of `cache_model` inside `load_model` for a command line with (`b = true`) or without the flag -/
def plumb (t : Table) (b : Bool) : Option Bool := do
  let args ← if t.argparseAction == "store_true" then some b else none
  let passed ← eval "cache_model" "args" args t.mainPasses
  let self ← eval "cache_model" "" passed t.paramsRhs
  eval "cache_model" "params" self t.executePasses

/-- API use: `Parameters(...)` without a `cache_model` argument, then `execute` -/
def plumbDefault (t : Table) : Option Bool := do
  let d ← t.paramsDefault
  let self ← eval "cache_model" "" d t.paramsRhs
  eval "cache_model" "params" self t.executePasses

end AasVerif.CacheFlag
