import AasVerif.Model.SdkDescend
/-!
Wire format of the SDK data model (`Model/SdkData.lean`) and of the statement trees of
`Model/SdkDescend.lean`: comma-separated prefix tokens without spaces
(`harness/sdk_wire.py` is the Python twin).  Texts are dot-separated hex (`Text.enc`).

    ty    := p <bool|int|float|str|bytes> | e <name> | c <name> | l ty | o ty
    mm    := <n> class*n <m> enum*m
    class := <name> <abstract 0|1> <with_model_type 0|1> <n> (<name> ty)*n <k> <name>*k
    enum  := <name> <n> (<name> <value>)*n
    val   := N | b <0|1> | i <int> | f <text> | s <text> | y <text> | E <enum> <literal>
           | L <n> val*n | I <class> <n> val*n
    node  := Y | D | F | L <n> node*n | O <n> node*n        (yield / descend / yield from / loop / optional)
-/
namespace AasVerif.SdkDescend.Wire
open AasVerif AasVerif.Sdk

abbrev P (α : Type) := List String → Option (α × List String)

def pText : P Text
  | s :: r => (Text.dec s).map (·, r)
  | _ => none

def pNat : P Nat
  | s :: r => s.toNat?.map (·, r)
  | _ => none

def pBool : P Bool
  | "0" :: r => some (false, r)
  | "1" :: r => some (true, r)
  | _ => none

def pPrim : P Prim
  | "bool" :: r => some (.bool, r)
  | "int" :: r => some (.int, r)
  | "float" :: r => some (.float, r)
  | "str" :: r => some (.str, r)
  | "bytes" :: r => some (.bytes, r)
  | _ => none

/-- `fuel` bounds the nesting depth of the type (the token list is long enough) -/
def pTy : Nat → P Ty
  | 0, _ => none
  | _ + 1, "p" :: r => (pPrim r).map (fun (p, r) => (.prim p, r))
  | _ + 1, "e" :: r => (pText r).map (fun (n, r) => (.enum n, r))
  | _ + 1, "c" :: r => (pText r).map (fun (n, r) => (.cls n, r))
  | k + 1, "l" :: r => (pTy k r).map (fun (t, r) => (.list t, r))
  | k + 1, "o" :: r => (pTy k r).map (fun (t, r) => (.opt t, r))
  | _ + 1, _ => none

def pMany {α} (p : P α) : Nat → P (List α)
  | 0, r => some ([], r)
  | n + 1, r => do
    let (a, r) ← p r
    let (as, r) ← pMany p n r
    pure (a :: as, r)

def pCounted {α} (p : P α) : P (List α) := fun r => do
  let (n, r) ← pNat r
  pMany p n r

def pProp : P PropDecl := fun r => do
  let (n, r) ← pText r
  let (t, r) ← pTy r.length r
  pure ({ name := n, ty := t }, r)

def pClass : P ClassDecl := fun r => do
  let (n, r) ← pText r
  let (a, r) ← pBool r
  let (w, r) ← pBool r
  let (ps, r) ← pCounted pProp r
  let (ds, r) ← pCounted pText r
  pure ({ name := n, abstract := a, withModelType := w, props := ps, concreteDescendants := ds }, r)

def pLit : P (Name × Text) := fun r => do
  let (n, r) ← pText r
  let (v, r) ← pText r
  pure ((n, v), r)

def pEnum : P EnumDecl := fun r => do
  let (n, r) ← pText r
  let (ls, r) ← pCounted pLit r
  pure ({ name := n, literals := ls }, r)

def pMM : P MM := fun r => do
  let (cs, r) ← pCounted pClass r
  let (es, r) ← pCounted pEnum r
  pure ({ classes := cs, enums := es }, r)

mutual
  def pVal : Nat → P Val
    | 0, _ => none
    | _ + 1, "N" :: r => some (.none, r)
    | _ + 1, "b" :: r => (pBool r).map (fun (b, r) => (.bool b, r))
    | _ + 1, "i" :: s :: r => s.toInt?.map (fun i => (.int i, r))
    | _ + 1, "f" :: r => (pText r).map (fun (t, r) => (.float t, r))
    | _ + 1, "s" :: r => (pText r).map (fun (t, r) => (.str t, r))
    | _ + 1, "y" :: r => (pText r).map (fun (t, r) => (.bytes t, r))
    | _ + 1, "E" :: r => do
      let (e, r) ← pText r
      let (l, r) ← pText r
      pure (.enum e l, r)
    | k + 1, "L" :: r => do
      let (n, r) ← pNat r
      let (vs, r) ← pVals k n r
      pure (.list vs, r)
    | k + 1, "I" :: r => do
      let (c, r) ← pText r
      let (n, r) ← pNat r
      let (vs, r) ← pVals k n r
      pure (.inst c vs, r)
    | _ + 1, _ => none
  def pVals : Nat → Nat → P Vals
    | _, 0, r => some (.nil, r)
    | 0, _ + 1, _ => none
    | k + 1, n + 1, r => do
      let (v, r) ← pVal k r
      let (vs, r) ← pVals k n r
      pure (.cons v vs, r)
end

def tokens (s : String) : List String := s.splitOn ","

/-- parse a whole argument (no trailing tokens) -/
def whole {α} (p : P α) (s : String) : Option α :=
  match p (tokens s) with
  | some (a, []) => some a
  | _ => none

def decMM (s : String) : Option MM := whole pMM s
def decVal (s : String) : Option Val := whole (fun r => pVal (r.length + 1) r) s
def decTy (s : String) : Option Ty := whole (fun r => pTy (r.length + 1) r) s

mutual
  def encVal : Val → List String
    | .none => ["N"]
    | .bool b => ["b", if b then "1" else "0"]
    | .int i => ["i", toString i]
    | .float t => ["f", Text.enc t]
    | .str t => ["s", Text.enc t]
    | .bytes t => ["y", Text.enc t]
    | .enum e l => ["E", Text.enc e, Text.enc l]
    | .list vs => "L" :: toString vs.length :: encVals vs
    | .inst c vs => "I" :: Text.enc c :: toString vs.length :: encVals vs
  def encVals : Vals → List String
    | .nil => []
    | .cons v vs => encVal v ++ encVals vs
end

def showVal (v : Val) : String := ",".intercalate (encVal v)

/-- a sequence of yielded values: `;`-separated, `[]` when empty -/
def showVals (vs : List Val) : String :=
  if vs.isEmpty then "[]" else ";".intercalate (vs.map showVal)

def showErr : Err → String
  | .genAssert => "crash:AssertionError"
  | .illTyped => "ill-typed"

def showOut : Out → String
  | .ok vs => showVals vs
  | .error e => showErr e

mutual
  def encNode : Node → List String
    | .yieldIt => ["Y"]
    | .yieldFromDescend => ["D"]
    | .yieldFromIt => ["F"]
    | .forEach body => "L" :: toString body.length :: encNodes body
    | .ifNotNone body => "O" :: toString body.length :: encNodes body
  def encNodes : List Node → List String
    | [] => []
    | n :: ns => encNode n ++ encNodes ns
end

def showNodes (ns : List Node) : String :=
  if ns.isEmpty then "[]" else ",".intercalate (encNodes ns)

end AasVerif.SdkDescend.Wire
