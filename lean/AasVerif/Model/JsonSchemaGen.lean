import AasVerif.Model.JsonSchema
import AasVerif.Model.Retree.Parse
import AasVerif.Model.Retree.Render
import AasVerif.Gen.Retree
import AasVerif.Gen.JsonSchema
/-!
# Model of `aas_core_codegen/jsonschema/main.py`

Input (`MM`): what the generator reads from the symbol table, with
* JSON names already computed by the real `naming.json_model_type` / `naming.json_property`
  (naming is C21's subject),
* the **inferred constraints as input** (`infer_for_schema.infer_constraints_by_class` is C15's
  subject): every node of a property's type annotation carries the entry of
  `constraints_by_class[cls]` for that very annotation object (`Option Cons`); an inherited property
  additionally carries `constraints_by_class[parent].get(type_anno)` for every direct parent,
* the lists the intermediate layer computed (`inheritances`, `concrete_descendants`).

Only the constraint kinds the generator translates are carried (`len_constraint`, `patterns`); the
set constraints are ignored by `_translate_constraints`.

Crash sites (explicit outcomes):
* `patternValueError` — `fix_pattern_for_utf16` raises `ValueError` when the pattern does not parse,
* `parseCrash`/`fixCrash` — a crash inside `retree.parse` / `fix_for_utf16_regex_in_place`,
* `renderFormattedValue` — `assert isinstance(part, str)` in `fix_pattern_for_utf16`,
* `translateAssert` — the `assert` of `_translate_constraints` (proved unreachable),
* `relaxedLen`, `relaxedPatterns`, `fewerPatterns` — the three `assert`s of
  `tightening_steps_from_other_to_that_constraints` on `len_constraint`/`patterns`
  (those on the set constraints are outside the model),
* `modelTypeProperty` — `assert "modelType" not in properties` in `_generate_inheritable_definition`,
* `descendantsWithoutModelType` — a class with concrete descendants but without model type: an
  `AssertionError` on the pinned tree, an `Error` returned by `_generate_concrete_definition` since
  builder c02's `fix:` (then `generate` = `Res.err`; `Crash.isError`),
* `primitiveMap` — `_PRIMITIVE_MAP[primitive_type]` without an entry (`KeyError`; the module-level
  `assert` makes the import fail first).
Not expressible in `TA` (preconditions of the wire form): a list of optionals (`assert` in
`_define_type`), implementation-specific classes.

`generate` returns `Res.err` when `Definitions.update_for` reports a duplicate key.
-/
namespace AasVerif.JsonSchema
open AasVerif AasVerif.Retree

/-! ## Input -/

structure LenC where
  min : Option Int
  max : Option Int
  deriving DecidableEq, Repr, Inhabited

/-- `infer_for_schema.Constraints` restricted to what the generator reads;
`pats = some l` has `l ≠ []` (the `@require` of `Constraints`). -/
structure Cons where
  len : Option LenC
  pats : Option (List Text)
  deriving DecidableEq, Repr, Inhabited

inductive Prim where
  | bool | int | float | str | bytes
  deriving DecidableEq, Repr, Inhabited

/-- type annotation beneath `Optional`, each node with its entry in `constraints_by_value` -/
inductive TA where
  | prim (p : Prim) (cs : Option Cons)          -- primitive or constrained primitive (`try_primitive_type`)
  | enum (mt : Text)
  | cls (mt : Text) (choice : Bool)             -- `choice` = `len(our_type.concrete_descendants) > 0`
  | list (items : TA) (cs : Option Cons)
  deriving Repr, Inhabited

structure Prp where
  name : Text                      -- `naming.json_property(prop.name)`
  optional : Bool
  own : Bool                       -- `prop.specified_for is cls`
  ty : TA
  parents : List (Option Cons)     -- for inherited properties: one entry per direct parent
  deriving Repr, Inhabited

structure Inh where
  mt : Text
  concrete : Bool
  withModelType : Bool
  deriving Repr, Inhabited

structure Cls where
  mt : Text                        -- `naming.json_model_type(cls.name)`
  abstract : Bool
  withModelType : Bool
  inh : List Inh
  props : List Prp
  cdesc : List Text                -- model types of `cls.concrete_descendants`
  deriving Repr, Inhabited

inductive OurType where
  | enum (mt : Text) (values : List Text)
  | cprim
  | cls (c : Cls)
  deriving Repr, Inhabited

structure MM where
  types : List OurType
  deriving Repr, Inhabited

/-! ## Outcomes -/

inductive Crash where
  | patternValueError
  | parseCrash
  | fixCrash (c : Fix16.Crash)
  | renderFormattedValue
  | translateAssert
  | relaxedLen | relaxedPatterns | fewerPatterns
  | modelTypeProperty
  | descendantsWithoutModelType
  | primitiveMap
  deriving DecidableEq, Repr, Inhabited

/-- `descendantsWithoutModelType` is not a raise (any more): `_generate_concrete_definition` returns an
`Error` and `generate` reports it; it is kept in the `Except` channel of the model and turned into
`Res.err` by `collect`. -/
def Crash.isError : Crash → Bool
  | .descendantsWithoutModelType => true
  | _ => false

def Crash.pyName : Crash → String
  | .patternValueError => "ValueError"
  | .parseCrash => "retree.parse"
  | .fixCrash c => c.pyName
  | .primitiveMap => "KeyError"
  | _ => "AssertionError"

inductive Res (α : Type) where
  | ok (a : α)
  | err               -- `Definitions.update_for` reported a duplicate definition
  | crash (c : Crash)
  deriving Repr

/-! ## `fix_pattern_for_utf16` -/

def partsText : List Part → Option Text
  | [] => some []
  | .str t :: ps => (partsText ps).map (t ++ ·)
  | .fv _ :: _ => none

/-- the tree the generator renders into the schema -/
def fixPattern (p : Text) : Except Crash Regex :=
  match Retree.parse [.str p] with
  | .err _ => .error .patternValueError
  | .crash _ => .error .parseCrash
  | .ok r =>
    match Fix16.fix r with
    | .error c => .error (.fixCrash c)
    | .ok r' =>
      match partsText (render Gen.Retree.escLiteral Gen.Retree.escRange r') with
      | none => .error .renderFormattedValue
      | some _ => .ok r'

/-- the text written to `schema.json` -/
def patternText (r : Regex) : Text :=
  (partsText (render Gen.Retree.escLiteral Gen.Retree.escRange r)).getD []

/-! ## `_translate_constraints`, `_all_of_as_jsonable_mapping` -/

def mapM' {α β : Type} (f : α → Except Crash β) : List α → Except Crash (List β)
  | [] => .ok []
  | x :: xs => match f x with
    | .error c => .error c
    | .ok y => match mapM' f xs with
      | .error c => .error c
      | .ok ys => .ok (y :: ys)

def optKw (f : Int → Kw) : Option Int → List Kw
  | none => []
  | some n => [f n]

/-- which node of the type annotation the constraints are translated for -/
inductive Shape where
  | prim (p : Prim) | list | other
  deriving DecidableEq, Repr

def TA.shape : TA → Shape
  | .prim p _ => .prim p
  | .list _ _ => .list
  | _ => .other

/-- the bound of a byte array expressed on its base64 text: `4 * ceil(n / 3)` -/
def base64Len (n : Int) : Int := 4 * ((n + 2) / 3)

/-- keywords for the length of a string-like primitive; the bounds of a byte array are scaled to
its base64 text (the `fix:` commit; before it the bounds on the bytes were emitted unchanged) -/
def lenKws (p : Prim) (l : LenC) : List Kw :=
  let f : Int → Int := if p = .bytes then base64Len else id
  optKw .minLength (l.min.map f) ++ optKw .maxLength (l.max.map f)

/-- `minLength`/`maxLength` of `_translate_constraints` -/
def lenPart (sh : Shape) (cs : Cons) : List Kw :=
  match sh, cs.len with
  | .prim .str, some l => lenKws .str l
  | .prim .bytes, some l => lenKws .bytes l
  | _, _ => []

/-- the patterns `_translate_constraints` renders, each through `fix_pattern` -/
def patsOf (sh : Shape) (cs : Cons) : Except Crash (List Regex) :=
  match sh, cs.pats with
  | .prim .str, some ps => mapM' fixPattern ps
  | _, _ => .ok []

/-- `minItems`/`maxItems` of `_translate_constraints` -/
def itemsPart (sh : Shape) (cs : Cons) : List Kw :=
  match sh, cs.len with
  | .list, some l => optKw .minItems l.min ++ optKw .maxItems l.max
  | _, _ => []

def patPart : List Regex → List Kw
  | [] => []
  | r :: _ => [.pattern r]

def additionalOf (pats : List Regex) : List Schema := (pats.drop 1).map fun r => .mk [.pattern r]

/-- `_translate_constraints`: `none`, or the base sub-schema and the additional ones (`_AllOf`) -/
def translate (sh : Shape) (cs : Cons) : Except Crash (Option (List Kw × List Schema)) :=
  match patsOf sh cs with
  | .error c => .error c
  | .ok pats =>
    let base := lenPart sh cs ++ patPart pats ++ itemsPart sh cs
    let additional := additionalOf pats
    if base.isEmpty ∧ !additional.isEmpty then .error .translateAssert
    else if base.isEmpty then .ok none
    else .ok (some (base, additional))

/-- `_all_of_as_jsonable_mapping` -/
def allOfMapping (base : List Kw) (additional : List Schema) : Schema :=
  if additional.isEmpty then .mk base else .mk (base ++ [.allOf additional])

def refTo (name : Text) : Schema := .mk [.ref name]

def Prim.pyName : Prim → String
  | .bool => "BOOL" | .int => "INT" | .float => "FLOAT" | .str => "STR" | .bytes => "BYTEARRAY"

def jtypeOfName : String → Option JType
  | "object" => some .object | "array" => some .array | "string" => some .string
  | "integer" => some .integer | "number" => some .number | "boolean" => some .boolean
  | _ => none

/-- `_PRIMITIVE_MAP[primitive_type]` (the table is regenerated from the source) -/
def primType (p : Prim) : Option JType :=
  match Gen.JsonSchema.primitiveMap.find? (·.1 == p.pyName) with
  | none => none
  | some (_, n) => jtypeOfName n

def sfx (mt : Text) (s : String) : Text := mt ++ ascii s

/-- `_define_type` -/
def defineType : TA → Except Crash Schema
  | .enum mt => .ok (refTo mt)
  | .cls mt choice => .ok (refTo (if choice then sfx mt "_choice" else mt))
  | .prim p cs =>
    match primType p with
    | none => .error .primitiveMap
    | some jt =>
    let definition : List Kw :=
      .type jt :: (if p = .bytes then [.contentEncoding (ascii "base64")] else [])
    match cs with
    | none => .ok (.mk definition)
    | some cs =>
      match translate (.prim p) cs with
      | .error c => .error c
      | .ok none => .ok (.mk definition)
      | .ok (some (base, additional)) => .ok (allOfMapping (definition ++ base) additional)
  | .list items cs =>
    match defineType items with
    | .error c => .error c
    | .ok itemsDef =>
      let definition : List Kw := [.type .array, .items itemsDef]
      match cs with
      | none => .ok (.mk definition)
      | some cs =>
        match translate .list cs with
        | .error c => .error c
        | .ok none => .ok (.mk definition)
        | .ok (some (base, additional)) => .ok (allOfMapping (definition ++ base) additional)

def TA.cons : TA → Option Cons
  | .prim _ cs => cs
  | .list _ cs => cs
  | _ => none

/-! ## `tightening_steps_from_other_to_that_constraints` (length and patterns) -/

/-- the length part: `none` if the parent's constraint is the same -/
def tightenLen (that other : Cons) : Except Crash (Option LenC) :=
  match other.len with
  | some ol =>
    match that.len with
    | none => .error .relaxedLen
    | some tl => .ok (if tl = ol then none else some tl)
  | none => .ok that.len

/-- the pattern part: only the patterns the parent does not have -/
def tightenPats (that other : Cons) : Except Crash (Option (List Text)) :=
  match other.pats with
  | some ops =>
    match that.pats with
    | none => .error .relaxedPatterns
    | some tps =>
      if ops.all (tps.contains ·) then
        let rest := tps.filter (fun p => !ops.contains p)
        .ok (if rest.isEmpty then none else some rest)
      else .error .fewerPatterns
  | none => .ok that.pats

def tightening (that : Cons) : Option Cons → Except Crash Cons
  | none => .ok that
  | some other =>
    match tightenLen that other with
    | .error c => .error c
    | .ok l => match tightenPats that other with
      | .error c => .error c
      | .ok ps => .ok ⟨l, ps⟩

/-- `_common_tightening_steps`: the steps which are both in `this` and in `that` -/
def commonSteps (this that : Cons) : Cons :=
  ⟨if that.len.isSome then this.len else none,
   match this.pats, that.pats with
   | some tp, some op =>
     let r := tp.filter (op.contains ·)
     if r.isEmpty then none else some r
   | _, _ => none⟩

/-- the loop over `cls.inheritances` in `_define_properties`: the steps from every constraining
parent are computed against the COMPLETE constraints `full` of the class, and only the steps common
to all of them are kept (`steps` starts as `full`) -/
def tightenLoop (full : Cons) : Cons → List (Option Cons) → Except Crash Cons
  | steps, [] => .ok steps
  | steps, none :: ps => tightenLoop full steps ps
  | steps, some pc :: ps =>
    match tightening full (some pc) with
    | .error c => .error c
    | .ok fromParent => tightenLoop full (commonSteps steps fromParent) ps

def tightenAll (full : Cons) (parents : List (Option Cons)) : Except Crash Cons :=
  tightenLoop full full parents

/-! ## `_define_properties`, `_list_required_properties` -/

/-- the definition of one property (`none`: nothing is emitted for it) -/
def defineProp (p : Prp) : Except Crash (Option Schema) :=
  if p.own then
    match defineType p.ty with
    | .error c => .error c
    | .ok s => .ok (if s.kws.isEmpty then none else some s)
  else
    match p.ty.cons with
    | none => .ok none
    | some cs =>
      match tightenAll cs p.parents with
      | .error c => .error c
      | .ok t =>
        match translate p.ty.shape t with
        | .error c => .error c
        | .ok none => .ok none
        | .ok (some (base, additional)) => .ok (some (allOfMapping base additional))

def defineProps : List Prp → List (Text × Schema) → Except Crash (List (Text × Schema))
  | [], acc => .ok acc
  | p :: ps, acc =>
    match defineProp p with
    | .error c => .error c
    | .ok none => defineProps ps acc
    | .ok (some s) => defineProps ps (setKey p.name s acc)

def defineProperties (c : Cls) : Except Crash (List (Text × Schema)) := defineProps c.props []

def requiredProps (c : Cls) : List Text :=
  (c.props.filter fun p => p.own && !p.optional).map (·.name)

/-! ## definitions of a class -/

def modelTypeKey : Text := ascii "modelType"

/-- `_define_all_of_for_inheritance` -/
def inheritanceRefs (c : Cls) : List Schema :=
  c.inh.map fun i => refTo (if i.concrete then sfx i.mt "_abstract" else i.mt)

def wrapAllOf (allOf : List Schema) : Schema :=
  match allOf with
  | [] => .mk [.type .object]
  | [s] => s
  | ss => .mk [.allOf ss]

/-- `type` / `properties` / `required` of the class body -/
def bodyKws (c : Cls) (properties : List (Text × Schema)) (required : List Text) : List Kw :=
  (if c.inh.isEmpty then [.type .object] else []) ++
  (if properties.isEmpty then [] else
    .properties properties :: (if required.isEmpty then [] else [.required required]))

/-- `_generate_inheritable_definition` -/
def inheritableDefinition (c : Cls) : Except Crash (Text × Schema) :=
  match defineProperties c with
  | .error e => .error e
  | .ok properties =>
    let required := requiredProps c
    let withMT := c.withModelType && !(c.inh.any (·.withModelType))
    if withMT ∧ hasKey modelTypeKey properties then .error .modelTypeProperty
    else
      let properties := if withMT then setKey modelTypeKey (refTo (ascii "ModelType")) properties else properties
      let required := if withMT then required ++ [modelTypeKey] else required
      let definition := bodyKws c properties required
      let allOf := inheritanceRefs c ++ (if definition.isEmpty then [] else [.mk definition])
      .ok (if c.abstract then c.mt else sfx c.mt "_abstract", wrapAllOf allOf)

/-- `_generate_choice_definition` -/
def choiceDefinition (c : Cls) : Text × Schema :=
  (sfx c.mt "_choice",
    .mk [.oneOf ((if c.abstract then [] else [refTo c.mt]) ++ c.cdesc.map refTo)])

def modelTypeConst (mt : Text) : Schema := .mk [.const mt]

/-- `_generate_concrete_definition` -/
def concreteDefinition (c : Cls) : Except Crash (Text × Schema) :=
  if !c.cdesc.isEmpty then
    if !c.withModelType then .error .descendantsWithoutModelType  -- reported as an `Error` (see `Crash.isError`)
    else .ok (c.mt, .mk [.allOf [refTo (sfx c.mt "_abstract"),
                                 .mk [.properties [(modelTypeKey, modelTypeConst c.mt)]]]])
  else
    match defineProperties c with
    | .error e => .error e
    | .ok properties =>
      let required0 := requiredProps c
      let properties :=
        if c.withModelType then setKey modelTypeKey (modelTypeConst c.mt) properties else properties
      let required :=
        if c.withModelType ∧ !(c.inh.any (·.withModelType))
        then required0 ++ [modelTypeKey] else required0
      let definition := bodyKws c properties required
      .ok (c.mt, wrapAllOf (inheritanceRefs c ++ [.mk definition]))

/-! ## `generate` -/

def TA.classRef : TA → Option Text
  | .cls mt _ => some mt
  | .list items _ => TA.classRef items
  | _ => none

/-- `collect_ids_of_our_types_in_properties` restricted to classes (by model type) -/
def classesInProperties (mm : MM) : List Text :=
  mm.types.flatMap fun
    | .cls c => c.props.filterMap fun p => p.ty.classRef
    | _ => []

/-- `Definitions.update_for`: `none` on a duplicate key -/
def addDefs : Defs → List (Text × Schema) → Option Defs
  | defs, [] => some defs
  | defs, (k, s) :: r => if hasKey k defs then none else addDefs (defs ++ [(k, s)]) r

/-- the definitions one class contributes, in the order of `generate` -/
def classDefinitions (inProps : List Text) (c : Cls) : Except Crash (List (Text × Schema)) :=
  let inhE : Except Crash (List (Text × Schema)) :=
    if !c.cdesc.isEmpty then
      match inheritableDefinition c with
      | .error e => .error e
      | .ok d =>
        .ok (d :: (if !c.abstract || inProps.contains c.mt then [choiceDefinition c] else []))
    else .ok []
  match inhE with
  | .error e => .error e
  | .ok ds =>
    if c.abstract then .ok ds
    else match concreteDefinition c with
      | .error e => .error e
      | .ok d => .ok (ds ++ [d])

def typeDefinitions (inProps : List Text) : OurType → Except Crash (List (Text × Schema))
  | .enum mt values => .ok [(mt, .mk [.type .string, .enum (sortTexts values)])]
  | .cprim => .ok []
  | .cls c => classDefinitions inProps c

/-- the loop over `symbol_table.our_types`; Python keeps going after an `update_for` error and
reports all of them, the verdict is the same: `dup` remembers that an error was recorded. -/
def collect (inProps : List Text) : List OurType → Defs → Bool → Res (Defs × Bool)
  | [], defs, dup => .ok (defs, dup)
  | t :: ts, defs, dup =>
    match typeDefinitions inProps t with
    | .error c => if c.isError then collect inProps ts defs true else .crash c
    | .ok ds =>
      match addDefs defs ds with
      | none =>
        -- the keys before the duplicate are kept, as in `update_for`; irrelevant once an error is recorded
        collect inProps ts defs true
      | some defs' => collect inProps ts defs' dup

def modelTypes (mm : MM) : List Text :=
  sortTexts (mm.types.filterMap fun
    | .cls c => if !c.abstract && c.withModelType then some c.mt else none
    | _ => none)

def sortDefs (defs : Defs) : Defs := sortBy (fun a b => ltText a.1 b.1) defs

/-- `generate`: the value of `schema["definitions"]` (sorted by name). -/
def generate (mm : MM) : Res Defs :=
  match collect (classesInProperties mm) mm.types [] false with
  | .crash c => .crash c
  | .err => .err
  | .ok (_, true) => .err
  | .ok (defs, false) =>
    let mtKey := ascii "ModelType"
    -- `definitions.update({"ModelType": …})`: on the pinned tree the returned error is dropped
    -- and an existing definition of that name stays (builder c21 repairs that)
    let defs := if hasKey mtKey defs then defs
      else defs ++ [(mtKey, .mk [.type .string, .enum (modelTypes mm)])]
    .ok (sortDefs defs)

/-! ## Rendering to JSON (for the correspondence with `schema.json`) -/

def jtypeName : JType → Text
  | .object => ascii "object" | .array => ascii "array" | .string => ascii "string"
  | .integer => ascii "integer" | .number => ascii "number" | .boolean => ascii "boolean"

mutual
  def Schema.toJson : Schema → Json
    | .mk ks => .obj (kwsToJson ks)
  def kwsToJson : List Kw → List (Text × Json)
    | [] => []
    | k :: ks => kwToJson k :: kwsToJson ks
  def kwToJson : Kw → Text × Json
    | .type t => (ascii "type", .str (jtypeName t))
    | .properties ps => (ascii "properties", .obj (propsToJson ps))
    | .required rs => (ascii "required", .arr (rs.map .str))
    | .items s => (ascii "items", Schema.toJson s)
    | .allOf ss => (ascii "allOf", .arr (schemasToJson ss))
    | .oneOf ss => (ascii "oneOf", .arr (schemasToJson ss))
    | .ref name => (ascii "$ref", .str (ascii "#/definitions/" ++ name))
    | .const c => (ascii "const", .str c)
    | .enum vs => (ascii "enum", .arr (vs.map .str))
    | .minLength n => (ascii "minLength", .int n)
    | .maxLength n => (ascii "maxLength", .int n)
    | .minItems n => (ascii "minItems", .int n)
    | .maxItems n => (ascii "maxItems", .int n)
    | .pattern r => (ascii "pattern", .str (patternText r))
    | .contentEncoding e => (ascii "contentEncoding", .str e)
  def schemasToJson : List Schema → List Json
    | [] => []
    | s :: ss => Schema.toJson s :: schemasToJson ss
  def propsToJson : List (Text × Schema) → List (Text × Json)
    | [] => []
    | (k, s) :: ps => (k, Schema.toJson s) :: propsToJson ps
end

def defsToJson (defs : Defs) : Json := .obj (propsToJson defs)

end AasVerif.JsonSchema
