import AasVerif.Model.Infer
/-!
Python semantics of the invariant expressions (the fragment the recognisers talk about) and the
meaning of a recognised constraint.  `eval … = none` stands for "raises / outside the fragment";
nothing is claimed about such evaluations.
-/
namespace AasVerif.Infer
open AasVerif.Len

inductive Val where
  | none
  | bool (b : Bool)
  | int (i : Int)
  /-- a string, byte array or list: only its content as a list matters -/
  | data (t : List Nat)
  /-- the instance `self` of a class -/
  | inst
  deriving DecidableEq, Repr

structure Env where
  /-- value of `self`: `.inst` in a class invariant, the data itself in an invariant of a constrained primitive -/
  selfVal : Val
  /-- value of `self.p` -/
  props : Ident → Option Val
  /-- value of any other name -/
  names : Ident → Option Val
  /-- value of an opaque leaf (string constants …) -/
  others : Nat → Option Val
  /-- any function other than `len` -/
  fn : Ident → List Val → Option Val
  /-- constant sets by name -/
  sets : Ident → Option (List (List Nat))
  /-- does a text match the pattern with this id -/
  matchesPat : Nat → List Nat → Bool

def cmpInt (op : Op) (l r : Int) : Bool :=
  match op with
  | .lt => decide (l < r)
  | .le => decide (l ≤ r)
  | .gt => decide (l > r)
  | .ge => decide (l ≥ r)
  | .eq => decide (l = r)
  | .ne => decide (l ≠ r)

mutual
/-- Python evaluation with short-circuiting `and` / `or`. -/
def eval (env : Env) : Expr → Option Val
  | .name x => if x = idSelf then some env.selfVal else env.names x
  | .member e p =>
    match eval env e with
    | some .inst => env.props p
    | _ => none
  | .const c => some (.int c)
  | .other t => env.others t
  | .isNone e =>
    match eval env e with
    | some v => some (.bool (decide (v = .none)))
    | none => none
  | .isNotNone e =>
    match eval env e with
    | some v => some (.bool (decide (v ≠ .none)))
    | none => none
  | .not e =>
    match eval env e with
    | some (.bool b) => some (.bool (!b))
    | _ => none
  | .and es => evalAnd env es
  | .or es => evalOr env es
  | .implies a c =>
    match eval env a with
    | some (.bool true) => eval env c
    | some (.bool false) => some (.bool true)
    | _ => none
  | .cmp op l r =>
    match eval env l, eval env r with
    | some (.int a), some (.int b) => some (.bool (cmpInt op a b))
    | _, _ => none
  | .call f args =>
    match evalArgs env args with
    | none => none
    | some vs =>
      if f = idLen then
        match vs with
        | [.data t] => some (.int t.length)
        | _ => none
      else env.fn f vs
  | .isIn m c =>
    match eval env m, c with
    | some (.data t), .name x =>
      match env.sets x with
      | some ms => some (.bool (decide (t ∈ ms)))
      | none => none
    | _, _ => none

def evalAnd (env : Env) : List Expr → Option Val
  | [] => some (.bool true)
  | e :: es =>
    match eval env e with
    | some (.bool true) => evalAnd env es
    | some (.bool false) => some (.bool false)
    | _ => none

def evalOr (env : Env) : List Expr → Option Val
  | [] => some (.bool false)
  | e :: es =>
    match eval env e with
    | some (.bool true) => some (.bool true)
    | some (.bool false) => evalOr env es
    | _ => none

def evalArgs (env : Env) : List Expr → Option (List Val)
  | [] => some []
  | e :: es =>
    match eval env e, evalArgs env es with
    | some v, some vs => some (v :: vs)
    | _, _ => none
end

/-- A recognised constraint on a property. -/
inductive K where
  | len (b : Bound)
  | pat (k : Nat)
  | inSet (x : Ident)
  deriving Repr

def K.holds (env : Env) : K → List Nat → Prop
  | .len b, t => b.holds t.length
  | .pat k, t => env.matchesPat k t = true
  | .inSet x, t => ∃ ms, env.sets x = some ms ∧ t ∈ ms

/-- Everything the three recognisers infer from one class invariant. -/
def recognise (pats : List (Ident × Nat)) (inv : Expr) : List (Ident × K) :=
  (match recogLen inv with
    | .ok (some (p, b)) => [(p, K.len b)]
    | _ => [])
  ++ (recogPat pats inv).map (fun pk => (pk.1, K.pat pk.2))
  ++ (recogSet inv).map (fun px => (px.1, K.inSet px.2))

/-- Everything inferred from one invariant of a constrained primitive (`infer_len_constraint_of_self`,
`infer_patterns_on_self`). -/
def recogniseSelf (pats : List (Ident × Nat)) (inv : Expr) : List K :=
  (match recogLenSelf inv with
    | .ok (some b) => [K.len b]
    | _ => [])
  ++ (recogPatSelf pats inv).map K.pat

/-- Assumptions on the environment: `self` is an instance, properties hold `None` or data; a pattern verification function
returns whether its argument matches its pattern. -/
structure Env.OK (env : Env) (pats : List (Ident × Nat)) : Prop where
  selfInst : env.selfVal = .inst
  propsTyped : ∀ p v, env.props p = some v → v = .none ∨ ∃ t, v = .data t
  patFns : ∀ f k t, lookupId f pats = some k → env.fn f [.data t] = some (.bool (env.matchesPat k t))

end AasVerif.Infer
