import AasVerif.Model.PyEmit
import AasVerif.Model.Expr.Ty
import AasVerif.Gen.TargetEmit
/-!
Models of the three transpilers of C09, restricted to invariant expressions:

* `Ts.transpile`   — `aas_core_codegen/typescript/transpilation.py` (+ `_InvariantTranspiler.transform_name`)
* `Java.transpile` — `aas_core_codegen/java/transpilation.py`
* `Cpp.transpile`  — `aas_core_codegen/cpp/transpilation.py`

into one small target expression AST `TExpr` **with explicit `paren` nodes**.  The constructs the
transpilers emit that have a language-specific meaning (optional unwrapping, length, containment,
null tests, index access, string interpolation, quantifiers) are kept as tagged nodes; the tag
(`UnwrapKind`, `LenKind`, …) says which text is emitted (`.get()`, `.length`, `common::Contains`, …)
and selects the semantics in `Model/TargetEval.lean`.

Every "parentheses or not" decision is a membership test of the child's node class in a tuple; the
tuples and the comparison maps are `Gen.TargetEmit` data, regenerated from the sources on every run.

What the transpilers read from outside the expression (symbol table, inferred `type_map`,
`is_optional_map` of the Java/C++ optional inferrers) is the configuration `TCfg`, an input: the
inferrers themselves are not modelled here (C07 models the type inference).

References to things defined elsewhere in the generated module stay symbolic (the naming functions
are C21's subject); literals are `lit c` (their text is C19's subject).
Line-breaking heuristics that depend on the *length* of the emitted text are not modelled (they do not
change the token sequence).
-/
namespace AasVerif.TargetEmit
open AasVerif AasVerif.Expr
open AasVerif.PyEmit (Res AttrKind NameKind FunKind Cfg hasFv litsOf)

/-- how an optional is unwrapped: Java `.get()`, Java `.orElse(null)`, C++ `*x`, C++ `(*(x))` -/
inductive UnwrapKind where
  | javaGet | javaOrElseNull | cppDeref | cppDerefParen
  deriving DecidableEq, Repr, Inhabited

/-- `.length` / `.size` (TypeScript), `.length()` / `.size()` (Java), `.size()` (C++) -/
inductive LenKind where
  | tsLength | tsSize | javaLength | javaSize | cppSize
  deriving DecidableEq, Repr, Inhabited

/-- `c.includes(m)` / `c.has(m)` (TypeScript), `c.contains(m)` (Java), `common::Contains(c, m)` (C++) -/
inductive ContainsKind where
  | tsIncludes | tsHas | javaContains | cppContains
  deriving DecidableEq, Repr, Inhabited

/-- `x === null` / `x !== null` (TypeScript), `x == null` / `x != null` (Java), `x.isPresent()`
(Java), `x.has_value()` (C++) -/
inductive NullTest where
  | tsStrict | javaNull | javaPresent | cppHasValue
  deriving DecidableEq, Repr, Inhabited

/-- `AasCommon.at(c, i)` (TypeScript), `c.get(i)` (Java), `c.at(i)` / `c.back()` (C++) -/
inductive IndexKind where
  | tsAt | javaGet | cppAt | cppBack
  deriving DecidableEq, Repr, Inhabited

inductive Lang where
  | ts | java | cpp
  deriving DecidableEq, Repr, Inhabited

/-- how a formatted value is converted in C++ `common::Concat(…)` -/
inductive Conv where
  | asIs | stdToWstring | base64 | wstringify
  deriving DecidableEq, Repr, Inhabited

mutual
  inductive TExpr where
    | that
    | var (x : Text)
    | constRef (c : Text)
    | enumRef (e : Text)
    | funRef (f : Text)
    | lit (c : Const)
    /-- `e.prop` / `e.getProp()` / `e->prop()`; enumeration literal of an enumeration value or
    type (TypeScript, Java); method reference -/
    | attr (e : TExpr) (k : AttrKind) (n : Text)
    /-- C++: `types::Enum::kLiteral` (no instance expression is emitted) -/
    | enumLit (enum : Text) (lit : Text)
    | unwrap (k : UnwrapKind) (e : TExpr)
    | index (k : IndexKind) (c : TExpr) (i : TExpr)
    /-- `c.size() - n` (index from the end, Java and C++) -/
    | sizeMinus (c : TExpr) (n : Nat)
    | len (k : LenKind) (e : TExpr)
    | contains (k : ContainsKind) (c : TExpr) (m : TExpr)
    /-- `isNone = true`: the test for null (`=== null`, `== null`); `false`: the test for a value
    (`!== null`, `!= null`, `.isPresent()`, `.has_value()`) -/
    | isNull (k : NullTest) (isNone : Bool) (e : TExpr)
    /-- Java: `e.stream()` -/
    | stream (e : TExpr)
    | callMethod (e : TExpr) (m : Text) (args : List TExpr)
    | callFun (f : Text) (args : List TExpr)
    | compare (l : TExpr) (op : Cmp) (r : TExpr)
    | not (e : TExpr)
    | boolop (isAnd : Bool) (vals : List TExpr)
    | binop (isAdd : Bool) (l : TExpr) (r : TExpr)
    /-- template literal (TypeScript), `+` concatenation (Java), `common::Concat(…)` (C++) -/
    | interp (l : Lang) (parts : List TPart)
    /-- `AasCommon.some(AasCommon.map(src, x => cond))`, `src.anyMatch(x -> cond)`,
    `common::Some([&](T x) -> bool { return cond; }, src)` -/
    | quant (l : Lang) (isAny : Bool) (cond : TExpr) (x : Text) (src : TIter)
    | paren (e : TExpr)
  inductive TPart where
    | lit (s : Text)
    | fv (conv : Conv) (e : TExpr)
  inductive TIter where
    | each (e : TExpr)
    | range (a : TExpr) (b : TExpr)
end

instance : Inhabited TExpr := ⟨.that⟩

/-! ## Configuration -/

/-- classification of an inferred type (`beneath_optional(type_map[node])`) as far as the
transpilers look at it -/
inductive TTag where
  | prim (p : Prim)
  /-- constrained primitive with its constrainee -/
  | cprim (p : Prim)
  | list | set
  /-- `OurTypeAnnotation` of an enumeration -/
  | enumOur (name : Text)
  /-- `EnumerationAsTypeTypeAnnotation` -/
  | enumType (name : Text)
  | cls
  | other
  deriving DecidableEq, Repr, Inhabited

structure Ann where
  /-- `beneath_optional(type_map[node])` -/
  tag : TTag
  /-- `isinstance(type_map[node], OptionalTypeAnnotation)` -/
  rawOpt : Bool
  /-- `is_optional_map[node]` (Java, C++) -/
  declOpt : Bool
  deriving DecidableEq, Repr, Inhabited

structure TCfg where
  base : Cfg
  /-- keyed by the sub-expression (a missing entry is the `KeyError` of the mapping) -/
  ann : Expr → Option Ann

/-- `try_primitive_type` -/
def TTag.primitive? : TTag → Option Prim
  | .prim p => some p
  | .cprim p => some p
  | _ => none

def selfName : Text := [115, 101, 108, 102]
def lenName : Text := [108, 101, 110]

/-- `transform_name` of the three `_InvariantTranspiler`s (same decision chain; the texts differ) -/
def transpileName (cfg : TCfg) (vs : List Text) (x : Text) : Res TExpr :=
  if x ∈ vs then .ok (.var x)
  else if x = selfName then .ok .that
  else match cfg.base.nameKind x with
    | some .const => .ok (.constRef x)
    | some .fn => .ok (.funRef x)
    | some .enum => .ok (.enumRef x)
    | none => .err

def lookupCmp (op : Cmp) : List (Cmp × String) → Option String
  | [] => none
  | (c, s) :: r => if c = op then some s else lookupCmp op r

/-- the meaning of the operator strings in TypeScript, Java and C++ (on operands where the
operator is defined at all; see `Model/TargetEval.lean`) -/
def opOfString : String → Option Cmp
  | "<" => some .lt | "<=" => some .le | ">" => some .gt | ">=" => some .ge
  | "==" => some .eq | "!=" => some .ne | _ => none

/-- `Transpiler._<LANG>_COMPARISON_MAP[node.op]` read back as an operator (`KeyError` → crash) -/
def emitCmp (tbl : List (Cmp × String)) (op : Cmp) : Res Cmp :=
  match (lookupCmp op tbl).bind opOfString with
  | some c => .ok c
  | none => .crash

def parenUnless (tbl : List Kind) (child : Expr) (x : TExpr) : TExpr :=
  if child.kind ∈ tbl then x else .paren x

/-- the emitted code certainly contains a line break (the length-dependent re-flows are not modelled) -/
def multiline : TExpr → Bool
  | .boolop _ (_ :: _ :: _) => true
  | .quant _ _ _ _ _ => true
  | .paren (.boolop _ (_ :: _ :: _)) => true
  | _ => false

/-- `int(index) < 0` for the emitted text of an index: only integer constants are such texts -/
def negIndex : Expr → Option Nat
  | .const (.int i) => if i < 0 then some i.natAbs else none
  | _ => none

/-! ## TypeScript -/
namespace Ts
open Gen.TargetEmit.Ts

/-- `typescript_common.representable_as_number`: `float(value) == value`
(`float(value)` itself raises `OverflowError` from 2¹⁰²⁴ on — modelled at that power of two). -/
def representable (i : Int) : Option Bool :=
  let n := i.natAbs
  if n = 0 then some true
  else if 1024 ≤ n.log2 then none
  else if n.log2 < 53 then some true
  else some (n % 2 ^ (n.log2 - 52) == 0)  -- only the 53 leading bits are set

def transpileConst (c : Const) : Res TExpr :=
  match c with
  | .int i =>
    match representable i with
    | none => .crash
    | some true => .ok (.lit c)
    | some false => .err
  | c => .ok (.lit c)

mutual
  def transpile (cfg : TCfg) (vs : List Text) : Expr → Res TExpr
    | .name x => transpileName cfg vs x
    | .const c => transpileConst c
    | .member inst n =>
      (transpile cfg vs inst).bind fun x =>
        match cfg.base.memberKind inst n with
        | some k => .ok (.attr x k n)
        | none => .err
    | .index c i =>
      (transpile cfg vs c).bind fun c' =>
      (transpile cfg vs i).bind fun i' =>
        .ok (.index .tsAt (parenUnless index c c') i')
    | .cmp l op r =>
      (emitCmp comparisonMap op).bind fun o =>
      (transpile cfg vs l).bind fun l' =>
      (transpile cfg vs r).bind fun r' =>
        if l.kind ∈ comparison ∧ r.kind ∈ comparison then .ok (.compare l' o r')
        else .ok (.compare (.paren l') o (.paren r'))
    | .isIn m c =>
      (transpile cfg vs m).bind fun m' =>
      (transpile cfg vs c).bind fun c' =>
        match cfg.ann c with
        | none => .crash
        | some a =>
          if a.rawOpt then .err
          else match a.tag with
            | .list => .ok (.contains .tsIncludes (parenUnless isIn c c') m')
            | .set => .ok (.contains .tsHas (parenUnless isIn c c') m')
            | .prim .str => .ok (.contains .tsIncludes (parenUnless isIn c c') m')
            | _ => .err
    | .impl a c =>
      (transpile cfg vs a).bind fun a' =>
      (transpile cfg vs c).bind fun c' =>
        .ok (.boolop false [.not (parenUnless implication a a'), parenUnless implication c c'])
    | .methodCall inst n args =>
      (transpile cfg vs inst).bind fun inst' =>
      (transpileArgs cfg vs args).bind fun args' =>
        .ok (.callMethod (parenUnless methodCall inst inst') n args')
    | .funCall n args =>
      match cfg.base.funKind n with
      | .notFunction => .err
      | .verification =>
        (transpileArgs cfg vs args).bind fun args' => .ok (.callFun n args')
      | .builtinLen =>
        if n = lenName then
          match args with
          | [a] =>
            (transpile cfg vs a).bind fun a' =>
              match cfg.ann a with
              | none => .crash
              | some an =>
                match an.tag.primitive? with
                | some .str | some .bytearray => .ok (.len .tsLength (parenUnless len a a'))
                | _ =>
                  match an.tag with
                  | .list => .ok (.len .tsLength (parenUnless len a a'))
                  | .set => .ok (.len .tsSize (parenUnless len a a'))
                  | _ => .err
          | _ => .crash
        else .err
      | .builtinOther => .err
    | .isNone e =>
      (transpile cfg vs e).bind fun e' => .ok (.isNull .tsStrict true (parenUnless isNone e e'))
    | .isNotNone e =>
      (transpile cfg vs e).bind fun e' => .ok (.isNull .tsStrict false (parenUnless isNotNone e e'))
    | .not e =>
      (transpile cfg vs e).bind fun e' => .ok (.not (parenUnless notOp e e'))
    | .and es =>
      (transpileVals cfg vs es).bind fun vals =>
        match vals with
        | [] => .crash
        | [v] => .ok v
        | vals => .ok (.paren (.boolop true vals))
    | .or es =>
      (transpileVals cfg vs es).bind fun vals =>
        match vals with
        | [] => .crash
        | [v] => .ok v
        | vals => .ok (.paren (.boolop false vals))
    | .add l r =>
      (transpile cfg vs l).bind fun l' =>
      (transpile cfg vs r).bind fun r' =>
        .ok (.binop true (parenUnless addSub l l') (parenUnless addSub r r'))
    | .sub l r =>
      (transpile cfg vs l).bind fun l' =>
      (transpile cfg vs r).bind fun r' =>
        .ok (.binop false (parenUnless addSub l l') (parenUnless addSub r r'))
    | .joinedStr parts =>
      if hasFv parts then (transpileParts cfg vs parts).bind fun ps => .ok (.interp .ts ps)
      else .ok (.lit (.str (litsOf parts)))
    | .any g c =>
      (transpileGen cfg vs g).bind fun (x, it) =>
      (transpile cfg (x :: vs) c).bind fun c' => .ok (.quant .ts true c' x it)
    | .all g c =>
      (transpileGen cfg vs g).bind fun (x, it) =>
      (transpile cfg (x :: vs) c).bind fun c' => .ok (.quant .ts false c' x it)
  def transpileGen (cfg : TCfg) (vs : List Text) : Gen → Res (Text × TIter)
    | .forEach x it =>
      (transpile cfg vs it).bind fun it' => .ok (x, .each (parenUnless forEach it it'))
    | .forRange x a b =>
      (transpile cfg vs a).bind fun a' =>
      (transpile cfg vs b).bind fun b' => .ok (x, .range a' b')
  def transpileArgs (cfg : TCfg) (vs : List Text) : List Expr → Res (List TExpr)
    | [] => .ok []
    | e :: es =>
      (transpile cfg vs e).bind fun e' =>
      (transpileArgs cfg vs es).bind fun es' => .ok (e' :: es')
  def transpileVals (cfg : TCfg) (vs : List Text) : List Expr → Res (List TExpr)
    | [] => .ok []
    | e :: es =>
      (transpile cfg vs e).bind fun e' =>
      (transpileVals cfg vs es).bind fun es' => .ok (parenUnless andOr e e' :: es')
  def transpileParts (cfg : TCfg) (vs : List Text) : List JPart → Res (List TPart)
    | [] => .ok []
    | .lit s :: ps => (transpileParts cfg vs ps).bind fun ps' => .ok (.lit s :: ps')
    | .fv e :: ps =>
      (transpile cfg vs e).bind fun e' =>
        if multiline e' then .crash
        else (transpileParts cfg vs ps).bind fun ps' => .ok (.fv .asIs e' :: ps')
end

/-- the condition of `if (…) { yield new VerificationError(…) }` in `_transpile_invariant`;
`long` = "the emitted expression is longer than 50 characters or spans several lines" -/
def transpileInvariant (cfg : TCfg) (long : Bool) (body : Expr) : Res TExpr :=
  (transpile cfg [] body).bind fun x =>
    if long then .ok (.not (.paren x)) else .ok (.not (parenUnless invariantTop body x))

end Ts

/-! ## Java -/
namespace Java
open Gen.TargetEmit.Java

/-- `node in self._beneath_none_check` / `node in self._beneath_call` -/
inductive Ctx where
  | plain | noneCheck | call
  deriving DecidableEq, Repr, Inhabited

/-- `value.replace("{", "{{").replace("}", "}}")` -/
def doubleBraces (s : Text) : Text :=
  s.flatMap fun c => if c = 123 ∨ c = 125 then [c, c] else [c]

mutual
  def transpile (cfg : TCfg) (vs : List Text) (ctx : Ctx) : Expr → Res TExpr
    | .name x => transpileName cfg vs x
    | .const c => .ok (.lit c)
    | .member inst n =>
      (transpile cfg vs .plain inst).bind fun x =>
        match cfg.base.memberKind inst n with
        | some .prop =>
          match cfg.ann (.member inst n) with
          | none => .crash
          | some a =>
            if a.declOpt then
              match ctx with
              | .noneCheck => .ok (.attr x .prop n)
              | .call => .ok (.unwrap .javaOrElseNull (.attr x .prop n))
              | .plain => .ok (.unwrap .javaGet (.attr x .prop n))
            else .ok (.attr x .prop n)
        | some k => .ok (.attr x k n)
        | none => .err
    | .index c i =>
      (transpile cfg vs .plain c).bind fun c' =>
      (transpile cfg vs .plain i).bind fun i' =>
        let idx := match negIndex i with
          | some n => .sizeMinus c' n
          | none => i'
        .ok (.index .javaGet (parenUnless index c c') idx)
    | .cmp l op r =>
      (emitCmp comparisonMap op).bind fun o =>
      (transpile cfg vs .plain l).bind fun l' =>
      (transpile cfg vs .plain r).bind fun r' =>
        if l.kind ∈ comparison ∧ r.kind ∈ comparison then .ok (.compare l' o r')
        else .ok (.compare (.paren l') o (.paren r'))
    | .isIn m c =>
      (transpile cfg vs .plain m).bind fun m' =>
      (transpile cfg vs .plain c).bind fun c' =>
        .ok (.contains .javaContains (parenUnless isIn c c') m')
    | .impl a c =>
      (transpile cfg vs .plain a).bind fun a' =>
      (transpile cfg vs .plain c).bind fun c' =>
        .ok (.boolop false [.not (parenUnless implication a a'), parenUnless implication c c'])
    | .methodCall inst n args =>
      (transpile cfg vs .plain inst).bind fun inst' =>
      (transpileArgs cfg vs .plain args).bind fun args' =>
        .ok (.callMethod (parenUnless methodCall inst inst') n args')
    | .funCall n args =>
      match cfg.base.funKind n with
      | .notFunction => .err
      | .verification =>
        (transpileArgs cfg vs .call args).bind fun args' => .ok (.callFun n args')
      | .builtinLen =>
        (transpileArgs cfg vs .plain args).bind fun args' =>
          if n = lenName then
            match args, args' with
            | [a], [a'] =>
              match cfg.ann a with
              | none => .crash
              | some an =>
                match an.tag with
                | .prim .str | .cprim .str => .ok (.len .javaLength (parenUnless len a a'))
                | .list => .ok (.len .javaSize (parenUnless len a a'))
                | _ => .err
            | _, _ => .crash
          else .err
      | .builtinOther => (transpileArgs cfg vs .plain args).bind fun _ => .err
    | .isNone e =>
      (transpile cfg vs .noneCheck e).bind fun e' =>
        match cfg.ann e with
        | none => .crash
        | some a =>
          let v := parenUnless isNone e e'
          if a.declOpt then .ok (.not (.isNull .javaPresent false v))
          else .ok (.isNull .javaNull true v)
    | .isNotNone e =>
      (transpile cfg vs .noneCheck e).bind fun e' =>
        match cfg.ann e with
        | none => .crash
        | some a =>
          let v := parenUnless isNotNone e e'
          if a.declOpt then .ok (.isNull .javaPresent false v)
          else .ok (.isNull .javaNull false v)
    | .not e =>
      (transpile cfg vs .plain e).bind fun e' => .ok (.not (parenUnless notOp e e'))
    | .and es =>
      (transpileVals cfg vs andOp es).bind fun vals =>
        match vals with
        | [] => .crash  -- (an empty text is emitted; the parser never yields an empty `And`)
        | [v] => .ok v
        | vals => .ok (.boolop true vals)
    | .or es =>
      (transpileVals cfg vs orOp es).bind fun vals =>
        match vals with
        | [] => .crash
        | [v] => .ok v
        | vals => .ok (.boolop false vals)
    | .add l r =>
      (transpile cfg vs .plain l).bind fun l' =>
      (transpile cfg vs .plain r).bind fun r' =>
        .ok (.binop true (parenUnless addSub l l') (parenUnless addSub r r'))
    | .sub l r =>
      (transpile cfg vs .plain l).bind fun l' =>
      (transpile cfg vs .plain r).bind fun r' =>
        .ok (.binop false (parenUnless addSub l l') (parenUnless addSub r r'))
    | .joinedStr parts =>
      (transpileParts cfg vs parts).bind fun ps => .ok (.interp .java ps)
    | .any g c =>
      (transpileGen cfg vs g).bind fun (x, it) =>
      (transpile cfg (x :: vs) .plain c).bind fun c' => .ok (.quant .java true c' x it)
    | .all g c =>
      (transpileGen cfg vs g).bind fun (x, it) =>
      (transpile cfg (x :: vs) .plain c).bind fun c' => .ok (.quant .java false c' x it)
  def transpileGen (cfg : TCfg) (vs : List Text) : Gen → Res (Text × TIter)
    | .forEach x it =>
      (transpile cfg vs .plain it).bind fun it' =>
        .ok (x, .each (if it.kind ∈ forEach then .stream it' else .paren (.stream it')))
    | .forRange x a b =>
      (transpile cfg vs .plain a).bind fun a' =>
      (transpile cfg vs .plain b).bind fun b' => .ok (x, .range a' b')
  def transpileArgs (cfg : TCfg) (vs : List Text) (ctx : Ctx) : List Expr → Res (List TExpr)
    | [] => .ok []
    | e :: es =>
      (transpile cfg vs ctx e).bind fun e' =>
      (transpileArgs cfg vs ctx es).bind fun es' => .ok (e' :: es')
  def transpileVals (cfg : TCfg) (vs : List Text) (tbl : List Kind) : List Expr → Res (List TExpr)
    | [] => .ok []
    | e :: es =>
      (transpile cfg vs .plain e).bind fun e' =>
      (transpileVals cfg vs tbl es).bind fun es' => .ok (parenUnless tbl e e' :: es')
  /-- the literal parts have their braces doubled; a formatted value is always parenthesised
  (`isinstance(code, no_parentheses)` tests the emitted *text* against node classes) -/
  def transpileParts (cfg : TCfg) (vs : List Text) : List JPart → Res (List TPart)
    | [] => .ok []
    | .lit s :: ps => (transpileParts cfg vs ps).bind fun ps' => .ok (.lit (doubleBraces s) :: ps')
    | .fv e :: ps =>
      (transpile cfg vs .plain e).bind fun e' =>
        if multiline e' then .crash
        else (transpileParts cfg vs ps).bind fun ps' => .ok (.fv .asIs (.paren e') :: ps')
end

/-- the condition of `if (…) { errorStream = … }` in `_transpile_invariant` -/
def transpileInvariant (cfg : TCfg) (long : Bool) (body : Expr) : Res TExpr :=
  (transpile cfg [] .plain body).bind fun x =>
    if long then .ok (.not (.paren x)) else .ok (.not (parenUnless invariantTop body x))

end Java

/-! ## C++ -/
namespace Cpp
open Gen.TargetEmit.Cpp

/-- `_determine_which_to_wstring` (`none`: the transpiler reports an error before calling it) -/
def toWstring (a : Ann) : Option Conv :=
  if a.rawOpt then none
  else match a.tag with
    | .prim .str | .cprim .str => some .asIs
    | .prim .int | .prim .float | .cprim .int | .cprim .float => some .stdToWstring
    | .prim .bytearray | .cprim .bytearray => some .base64
    | .prim _ | .cprim _ => some .wstringify
    | _ => none

/-- the tail of `_transform_and_value_if_necessary` -/
def deref (cfg : TCfg) (e : Expr) (x : TExpr) : Res TExpr :=
  match cfg.ann e with
  | none => .crash
  | some a =>
    if a.declOpt then
      (if e.kind ∈ derefTbl then .ok (.unwrap .cppDeref x) else .ok (.unwrap .cppDerefParen x))
    else .ok x

mutual
  def transpile (cfg : TCfg) (vs : List Text) : Expr → Res TExpr
    | .name x => transpileName cfg vs x
    | .const c => .ok (.lit c)
    | .member inst n =>
      (transpile cfg vs inst).bind fun x0 =>
      (deref cfg inst x0).bind fun x =>
        match cfg.ann inst with
        | none => .crash
        | some a =>
          match a.tag with
          | .enumOur en => .ok (.enumLit en n)
          | tag =>
            match cfg.base.memberKind inst n with
            | some .method => if tag = .cls then .ok (.attr x .method n) else .crash
            | some .prop => .ok (.attr x .prop n)
            | some .enumLit =>
              match tag with
              | .enumType en => .ok (.enumLit en n)
              | _ => .crash
            | none => .err
    | .index c i =>
      (transpile cfg vs c).bind fun c0 =>
      (deref cfg c c0).bind fun c' =>
      (transpile cfg vs i).bind fun i0 =>
      (deref cfg i i0).bind fun i' =>
        match negIndex i with
        | some 1 => .ok (.index .cppBack c' i')
        | some n => .ok (.index .cppAt c' (.sizeMinus c' n))
        | none => .ok (.index .cppAt c' i')
    | .cmp l op r =>
      (emitCmp comparisonMap op).bind fun o =>
      (transpile cfg vs l).bind fun l0 =>
      (deref cfg l l0).bind fun l' =>
      (transpile cfg vs r).bind fun r0 =>
      (deref cfg r r0).bind fun r' =>
        if l.kind ∈ comparison ∧ r.kind ∈ comparison then .ok (.compare l' o r')
        else .ok (.compare (.paren l') o (.paren r'))
    | .isIn m c =>
      (transpile cfg vs m).bind fun m0 =>
      (deref cfg m m0).bind fun m' =>
      (transpile cfg vs c).bind fun c0 =>
      (deref cfg c c0).bind fun c' =>
        .ok (.contains .cppContains c' m')
    | .impl a c =>
      (transpile cfg vs a).bind fun a0 =>
      (deref cfg a a0).bind fun a' =>
      (transpile cfg vs c).bind fun c0 =>
      (deref cfg c c0).bind fun c' =>
        .ok (.boolop false [.not (parenUnless implication a a'), parenUnless implication c c'])
    | .methodCall inst n args =>
      -- `transform_member` of the `Member` node of the call (a method is never optional)
      (transpile cfg vs inst).bind fun x0 =>
      (deref cfg inst x0).bind fun x =>
      (transpileArgs cfg vs args).bind fun args' =>
        .ok (.callMethod x n args')
    | .funCall n args =>
      (transpileArgs cfg vs args).bind fun args' =>
        match cfg.base.funKind n with
        | .notFunction => .err
        | .verification => .ok (.callFun n args')
        | .builtinLen =>
          if n = lenName then
            match args with
            | [a] =>
              (transpile cfg vs a).bind fun a0 =>
              (deref cfg a a0).bind fun a' => .ok (.len .cppSize (parenUnless len a a'))
            | _ => .crash
          else .err
        | .builtinOther => .err
    | .isNone e =>
      (transpile cfg vs e).bind fun e' =>
        .ok (.not (.paren (.isNull .cppHasValue false (parenUnless isNone e e'))))
    | .isNotNone e =>
      (transpile cfg vs e).bind fun e' =>
        .ok (.isNull .cppHasValue false (parenUnless isNotNone e e'))
    | .not e =>
      (transpile cfg vs e).bind fun e0 =>
      (deref cfg e e0).bind fun e' => .ok (.not (parenUnless notOp e e'))
    | .and es =>
      (transpileVals cfg vs es).bind fun vals =>
        match vals with
        | [] => .crash
        | [v] => .ok v
        | vals => .ok (.paren (.boolop true vals))
    | .or es =>
      (transpileVals cfg vs es).bind fun vals =>
        match vals with
        | [] => .crash
        | [v] => .ok v
        | vals => .ok (.paren (.boolop false vals))
    | .add l r =>
      (transpile cfg vs l).bind fun l0 =>
      (deref cfg l l0).bind fun l' =>
      (transpile cfg vs r).bind fun r0 =>
      (deref cfg r r0).bind fun r' =>
        .ok (.binop true (parenUnless addSub l l') (parenUnless addSub r r'))
    | .sub l r =>
      (transpile cfg vs l).bind fun l0 =>
      (deref cfg l l0).bind fun l' =>
      (transpile cfg vs r).bind fun r0 =>
      (deref cfg r r0).bind fun r' =>
        .ok (.binop false (parenUnless addSub l l') (parenUnless addSub r r'))
    | .joinedStr parts =>
      if hasFv parts then (transpileParts cfg vs parts).bind fun ps => .ok (.interp .cpp ps)
      else .ok (.lit (.str (litsOf parts)))
    | .any g c =>
      (transpileGen cfg vs g).bind fun (x, it) =>
      (transpile cfg (x :: vs) c).bind fun c0 =>
      (deref cfg c c0).bind fun c' => .ok (.quant .cpp true c' x it)
    | .all g c =>
      (transpileGen cfg vs g).bind fun (x, it) =>
      (transpile cfg (x :: vs) c).bind fun c0 =>
      (deref cfg c c0).bind fun c' => .ok (.quant .cpp false c' x it)
  def transpileGen (cfg : TCfg) (vs : List Text) : Gen → Res (Text × TIter)
    | .forEach x it =>
      (transpile cfg vs it).bind fun it0 =>
      (deref cfg it it0).bind fun it' => .ok (x, .each (parenUnless forEach it it'))
    | .forRange x a b =>
      (transpile cfg vs a).bind fun a0 =>
      (deref cfg a a0).bind fun a' =>
      (transpile cfg vs b).bind fun b0 =>
      (deref cfg b b0).bind fun b' => .ok (x, .range a' b')
  /-- an argument whose *inferred* type is optional is passed as the optional, otherwise de-referenced
  if it is declared optional -/
  def transpileArgs (cfg : TCfg) (vs : List Text) : List Expr → Res (List TExpr)
    | [] => .ok []
    | e :: es =>
      (transpile cfg vs e).bind fun e0 =>
        match cfg.ann e with
        | none => .crash
        | some a =>
          (if a.rawOpt then .ok e0 else deref cfg e e0).bind fun e' =>
          (transpileArgs cfg vs es).bind fun es' => .ok (e' :: es')
  def transpileVals (cfg : TCfg) (vs : List Text) : List Expr → Res (List TExpr)
    | [] => .ok []
    | e :: es =>
      (transpile cfg vs e).bind fun e0 =>
      (deref cfg e e0).bind fun e' =>
      (transpileVals cfg vs es).bind fun es' => .ok (parenUnless andOr e e' :: es')
  def transpileParts (cfg : TCfg) (vs : List Text) : List JPart → Res (List TPart)
    | [] => .ok []
    | .lit s :: ps => (transpileParts cfg vs ps).bind fun ps' => .ok (.lit s :: ps')
    | .fv e :: ps =>
      (transpile cfg vs e).bind fun e0 =>
      (deref cfg e e0).bind fun e' =>
        match cfg.ann e with
        | none => .crash
        | some a =>
          match toWstring a with
          | none => .err
          | some conv => (transpileParts cfg vs ps).bind fun ps' => .ok (.fv conv e' :: ps')
end

end Cpp

/-! ## Parentheses removed -/

mutual
  def strip : TExpr → TExpr
    | .attr e k n => .attr (strip e) k n
    | .unwrap k e => .unwrap k (strip e)
    | .index k c i => .index k (strip c) (strip i)
    | .sizeMinus c n => .sizeMinus (strip c) n
    | .len k e => .len k (strip e)
    | .contains k c m => .contains k (strip c) (strip m)
    | .isNull k b e => .isNull k b (strip e)
    | .stream e => .stream (strip e)
    | .callMethod e m args => .callMethod (strip e) m (stripList args)
    | .callFun f args => .callFun f (stripList args)
    | .compare l op r => .compare (strip l) op (strip r)
    | .not e => .not (strip e)
    | .boolop a vals => .boolop a (stripList vals)
    | .binop a l r => .binop a (strip l) (strip r)
    | .interp l ps => .interp l (stripParts ps)
    | .quant l a c x it => .quant l a (strip c) x (stripIter it)
    | .paren e => strip e
    | e => e
  def stripList : List TExpr → List TExpr
    | [] => []
    | e :: es => strip e :: stripList es
  def stripParts : List TPart → List TPart
    | [] => []
    | .lit s :: ps => .lit s :: stripParts ps
    | .fv c e :: ps => .fv c (strip e) :: stripParts ps
  def stripIter : TIter → TIter
    | .each e => .each (strip e)
    | .range a b => .range (strip a) (strip b)
end

end AasVerif.TargetEmit
