import AasVerif.Model.Retree.Sem
/-!
Executable backtracking matcher over `Retree.Regex` (used by `JsonSchema.validates` for the
`pattern` keyword and run by the driver).

It follows the clauses of the denotational semantics `Retree.Sem` (`MValue`, `MRep`, `MTerm`,
`MTerms`, `MUnion`) in continuation-passing style: `mX fuel x pre rest k` tries every way node `x`
can match a prefix `s` of `rest` in the context `pre … rest` and calls `k (pre ++ s) rest'`.
Fuel decreases at every call; running out of fuel is the explicit third answer `R.out`, never a
silent "no match".  Iterations of a quantifier beyond its minimum must consume input (an empty
optional iteration adds nothing to the language), which bounds the search.

PROVED (`Lemmas/JsonSchemaSearchB.lean`, `Props.C11.searchB_is_semantics`): for every tree and text
`searchB r s = .yes ↔ ∃ a b c, s = a ++ b ++ c ∧ MUnion r a b c`, `searchB r s = .no` iff there is no
such match, and `searchB r s ≠ .out` (the fuel `fuelFor` is sufficient).  The C11/C12 correspondence
compares the matcher with Python's `re.search` (every `pattern` verdict of the `jsonschema` library on
SDK documents and their mutants, and the `pat` stream), which ties the SEMANTICS to CPython.
-/
namespace AasVerif.JsonSchema
open AasVerif AasVerif.Retree

/-- answer of the matcher: `out` = fuel exhausted -/
inductive R where
  | yes | no | out
  deriving DecidableEq, Repr, Inhabited

/-- lazy disjunction: a found match wins; otherwise an exhausted branch taints the answer -/
@[inline] def R.orElse (a : R) (b : Unit → R) : R :=
  match a with
  | .yes => .yes
  | .no => b ()
  | .out => match b () with
    | .yes => .yes
    | _ => .out

abbrev K := Text → Text → R

mutual
  def mValue : Nat → Value → Text → Text → K → R
    | 0, _, _, _, _ => .out
    | _ + 1, .char c, pre, rest, k =>
      match rest with
      | x :: r => if x = c.code then k (pre ++ [x]) r else .no
      | [] => .no
    | _ + 1, .set compl rs, pre, rest, k =>
      match rest with
      | x :: r => if setAccepts compl rs x then k (pre ++ [x]) r else .no
      | [] => .no
    | _ + 1, .sym .dot, pre, rest, k =>
      match rest with
      | x :: r => if x ≠ 10 then k (pre ++ [x]) r else .no
      | [] => .no
    | _ + 1, .sym .start, pre, rest, k => if pre.isEmpty then k pre rest else .no
    | _ + 1, .sym .stop, pre, rest, k => if rest.isEmpty || rest == [10] then k pre rest else .no
    | _ + 1, .fv _, _, _, _ => .no
    | n + 1, .group u, pre, rest, k => mUnion n u pre rest k
  def mRep : Nat → Value → Nat → Option Nat → Text → Text → K → R
    | 0, _, _, _, _, _, _ => .out
    | n + 1, v, min, max, pre, rest, k =>
      R.orElse
        (if max = some 0 then .no
         else mValue n v pre rest (fun pre' rest' =>
          if min = 0 ∧ rest'.length = rest.length then .no
          else mRep n v (min - 1) (decMax max) pre' rest' k))
        (fun _ => if min = 0 then k pre rest else .no)
  def mTerm : Nat → Term → Text → Text → K → R
    | 0, _, _, _, _ => .out
    | n + 1, .mk v none, pre, rest, k => mValue n v pre rest k
    | n + 1, .mk v (some q), pre, rest, k => mRep n v q.min q.max pre rest k
  def mTerms : Nat → List Term → Text → Text → K → R
    | 0, _, _, _, _ => .out
    | _ + 1, [], pre, rest, k => k pre rest
    | n + 1, t :: ts, pre, rest, k => mTerm n t pre rest (fun p r => mTerms n ts p r k)
  def mAlts : Nat → List Concat → Text → Text → K → R
    | 0, _, _, _, _ => .out
    | _ + 1, [], _, _, _ => .no
    | n + 1, .mk ts :: cs, pre, rest, k =>
      R.orElse (mTerms n ts pre rest k) (fun _ => mAlts n cs pre rest k)
  def mUnion : Nat → Union → Text → Text → K → R
    | 0, _, _, _, _ => .out
    | n + 1, .mk us, pre, rest, k => mAlts n us pre rest k
end

/-- try every start position (JSON Schema's `pattern` is not anchored: `re.search`) -/
def searchFrom (fuel : Nat) (r : Regex) : Text → Text → R
  | pre, [] => mUnion fuel r pre [] (fun _ _ => .yes)
  | pre, x :: rest =>
    R.orElse (mUnion fuel r pre (x :: rest) (fun _ _ => .yes))
      (fun _ => searchFrom fuel r (pre ++ [x]) rest)

mutual
  def sizeValue : Value → Nat
    | .group u => 1 + sizeUnion u
    | _ => 1
  def sizeTerm : Term → Nat
    | .mk v none => 1 + sizeValue v
    | .mk v (some q) => 2 + q.min + sizeValue v
  def sizeTerms : List Term → Nat
    | [] => 1
    | t :: ts => sizeTerm t + sizeTerms ts
  def sizeConcats : List Concat → Nat
    | [] => 1
    | .mk ts :: cs => 1 + sizeTerms ts + sizeConcats cs
  def sizeUnion : Union → Nat
    | .mk us => 1 + sizeConcats us
end

/-- fuel the driver (and `validates`) supplies: generous for the nesting depth of the search -/
def fuelFor (r : Regex) (s : Text) : Nat := 64 + 6 * (sizeUnion r + 1) * (s.length + 2)

/-- `re.search(pattern, s) is not None` on the units of `s` -/
def searchB (r : Regex) (s : Text) : R := searchFrom (fuelFor r s) r [] s

end AasVerif.JsonSchema
