import AasVerif.Model.SdkData
/-!
# Traversal, dispatch and accessors of the generated Python SDK (C29)

Model of `aas_core_codegen/python/lib/_generate_types.py`:

* `descendable`   = `intermediate.map_descendability` (per type annotation);
* `unroll`        = `_DescendBodyUnroller` (one method per kind of type annotation) — it produces
  the *statement tree* (`Node` = `python_unrolling.Node`, specialised to the five statement forms the
  unroller emits; the unrollee expression is implicit: `forEach` re-binds it to the loop variable);
* `propBlock`     = the body of the `for prop in cls.properties` loop of `_generate_descend_body`
  (the descendability guard and the `assert len(roots) > 0`, an explicit crash outcome);
* `execNode(s)`   = CPython's meaning of those statements (generator `yield`s become a list) with
  the `.descend()` call of a nested instance as a call-back `cb`;
* `methodBody`    = the generated `descend_once` / `descend` method of the CONCRETE class of the
  instance (attribute look-up positionally, `ClassDecl.props` = `cls.properties`);
* `descendOnce`   = `methodBody … recurse := false`;
* `descend`       = the recursive method.  It is defined by structural recursion on the value
  (`descend / descendFields / descendVal / descendItems`); `Props/C29.lean` proves that it satisfies
  the equation of the generated code, `descend mm i = methodBody mm true (descend mm) i`
  (`descend_is_generated_code`), i.e. it *is* the recursive generated method on finite trees.
* `dispatch`      = `accept`, `accept_with_context`, `transform`, `transform_with_context`:
  every CONCRETE class defines all four (the `if isinstance(cls, ConcreteClass)` block of
  `_generate_class`), Python resolves the call along the MRO of the instance's class;
* `hasOverOrEmpty`, `overOrEmpty` = the `over_X_or_empty` accessor and the condition under which it is generated;
* `orDefault`     = the shape of every `X_or_default` method (implementation-specific snippet:
  `return self.X if self.X is not None else <default>`).

Outcomes: `Except Err (List Val)`.  `Err.genAssert` = the generator's assertion fires;
`Err.illTyped` = the instance does not fit the meta-model (CPython would raise `TypeError` /
`AttributeError`, or silently yield a non-instance): outside the property's quantifier
("instance of the generated SDK"), never hidden: all theorems carry `Conforms`.

Only core Lean.
-/
namespace AasVerif.SdkDescend
open AasVerif AasVerif.Sdk

inductive Err
  | genAssert
  | illTyped
  deriving DecidableEq, Repr, Inhabited

abbrev Out := Except Err (List Val)

/-- `python_unrolling.Node` restricted to what `_DescendBodyUnroller` writes.
`e` is the unrollee expression. -/
inductive Node where
  /-- `yield e` -/
  | yieldIt
  /-- `yield from e.descend()` -/
  | yieldFromDescend
  /-- `yield from e` -/
  | yieldFromIt
  /-- `for v in e:` + children over `v` -/
  | forEach (body : List Node)
  /-- `if e is not None:` + children over `e` -/
  | ifNotNone (body : List Node)
  deriving Repr, Inhabited

/-- `intermediate.map_descendability(type_annotation)[type_annotation]` -/
def descendable : Ty → Bool
  | .prim _ => false
  | .enum _ => false
  | .cls _ => true
  | .list t => descendable t
  | .opt t => descendable t

/-- `isinstance(items, OurTypeAnnotation) and isinstance(items.our_type, (AbstractClass, ConcreteClass))` -/
def isCls : Ty → Bool
  | .cls _ => true
  | _ => false

/-- `_DescendBodyUnroller(recurse, …).unroll(unrollee_expr, type_annotation, …)` -/
def unroll (recurse : Bool) : Ty → List Node
  | .prim _ => []
  | .enum _ => []
  | .cls _ => if recurse then [.yieldIt, .yieldFromDescend] else [.yieldIt]
  | .list t =>
    if !recurse && isCls t then [.yieldFromIt]
    else
      let children := unroll recurse t
      if children.isEmpty then [] else [.forEach children]
  | .opt t =>
    let children := unroll recurse t
    if children.isEmpty then [] else [.ifNotNone children]

/-- one round of the `for prop in cls.properties` loop of `_generate_descend_body` -/
def propBlock (recurse : Bool) (ty : Ty) : Except Err (List Node) :=
  if !descendable ty then .ok []
  else
    let roots := unroll recurse ty
    if roots.isEmpty then .error .genAssert else .ok roots

/-- the `for v in items:` loop around a body -/
def forItems (f : Val → Out) : List Val → Out
  | [] => .ok []
  | v :: vs => do
    let a ← f v
    let b ← forItems f vs
    pure (a ++ b)

mutual
  /-- one generated statement, the unrollee bound to `v`; `cb` is `.descend()` of a nested object -/
  def execNode (cb : Val → Out) : Node → Val → Out
    | .yieldIt, v => .ok [v]
    | .yieldFromDescend, v => cb v
    | .yieldFromIt, .list vs => .ok vs.toList
    | .yieldFromIt, _ => .error .illTyped
    | .forEach body, .list vs => forItems (fun v => execNodes cb body v) vs.toList
    | .forEach _, _ => .error .illTyped
    | .ifNotNone _, .none => .ok []
    | .ifNotNone body, v => execNodes cb body v
  def execNodes (cb : Val → Out) : List Node → Val → Out
    | [], _ => .ok []
    | n :: ns, v => do
      let a ← execNode cb n v
      let b ← execNodes cb ns v
      pure (a ++ b)
end

/-- the blocks of all properties, each run on its attribute value -/
def execProps (recurse : Bool) (cb : Val → Out) : List PropDecl → Vals → Out
  | [], .nil => .ok []
  | p :: ps, .cons f fs => do
    let nodes ← propBlock recurse p.ty
    let a ← execNodes cb nodes f
    let b ← execProps recurse cb ps fs
    pure (a ++ b)
  | _, _ => .error .illTyped

/-- the generated `descend_once` (`recurse = false`) / `descend` (`recurse = true`) method that
Python finds on the instance: the one of its concrete class -/
def methodBody (mm : MM) (recurse : Bool) (cb : Val → Out) : Val → Out
  | .inst c fs =>
    match mm.findClass c with
    | some cd => if cd.abstract then .error .illTyped else execProps recurse cb cd.props fs
    | none => .error .illTyped
  | _ => .error .illTyped

/-- `instance.descend_once()` (no `.descend()` call is generated when `recurse` is off) -/
def descendOnce (mm : MM) (v : Val) : Out := methodBody mm false (fun _ => .error .illTyped) v

/-- strip every leading `Optional` -/
def strip : Ty → Ty
  | .opt t => strip t
  | t => t

mutual
  /-- `instance.descend()` -/
  def descend (mm : MM) : Val → Out
    | .inst c fs =>
      match mm.findClass c with
      | some cd => if cd.abstract then .error .illTyped else descendFields mm cd.props fs
      | none => .error .illTyped
    | _ => .error .illTyped
  def descendFields (mm : MM) : List PropDecl → Vals → Out
    | [], .nil => .ok []
    | p :: ps, .cons f fs => do
      let a ← descendVal mm p.ty f
      let b ← descendFields mm ps fs
      pure (a ++ b)
    | _, _ => .error .illTyped
  /-- what the block of a property (or the body of a loop) of type `ty` yields on the value -/
  def descendVal (mm : MM) (ty : Ty) : Val → Out
    | .none => if ty.isOpt || !descendable ty then .ok [] else .error .illTyped
    | .inst c fs =>
      match strip ty with
      | .cls _ =>
        (match mm.findClass c with
          | some cd =>
            if cd.abstract then .error .illTyped
            else do
              let l ← descendFields mm cd.props fs
              pure (Val.inst c fs :: l)
          | none => .error .illTyped)
      | .list t => if descendable t then .error .illTyped else .ok []
      | _ => .ok []
    | .list vs =>
      match strip ty with
      | .cls _ => .error .illTyped
      | .list t => if descendable t then descendItems mm t vs else .ok []
      | _ => .ok []
    | _ =>
      match strip ty with
      | .cls _ => .error .illTyped
      | .list t => if descendable t then .error .illTyped else .ok []
      | _ => .ok []
  def descendItems (mm : MM) (t : Ty) : Vals → Out
    | .nil => .ok []
    | .cons v vs => do
      let a ← descendVal mm t v
      let b ← descendItems mm t vs
      pure (a ++ b)
end

/-- the yields of `descend` as a plain list (empty where the model has no answer) -/
def descendL (mm : MM) (v : Val) : List Val :=
  match descend mm v with
  | .ok l => l
  | .error _ => []

/-! ## Declarative reading of the property text (no type annotation involved) -/

mutual
  /-- class instances directly nested in a property value, in list order -/
  def direct : Val → List Val
    | .inst c fs => [.inst c fs]
    | .list vs => directAll vs
    | _ => []
  def directAll : Vals → List Val
    | .nil => []
    | .cons v vs => direct v ++ directAll vs
end

/-- directly nested instances of an instance: properties in order, lists in order -/
def children : Val → List Val
  | .inst _ fs => directAll fs
  | _ => []

mutual
  /-- all class instances inside a value in pre-order (an instance before what it contains) -/
  def pre : Val → List Val
    | .inst c fs => .inst c fs :: preAll fs
    | .list vs => preAll vs
    | _ => []
  def preAll : Vals → List Val
    | .nil => []
    | .cons v vs => pre v ++ preAll vs
end

/-- the containment tree below an instance in pre-order, without the root -/
def below : Val → List Val
  | .inst _ fs => preAll fs
  | _ => []

/-! ## Dispatch -/

inductive Kind
  | accept
  | acceptWithContext
  | transform
  | transformWithContext
  deriving DecidableEq, Repr, Inhabited

/-- name of the visitor / transformer method the generated `accept…` / `transform…` of class `c` calls,
at the level of meta-model identifiers (`visit_{cls.name}`, `visit_{cls.name}_with_context`, …) -/
def methodName (k : Kind) (c : Name) : Name :=
  match k with
  | .accept => Text.ofString "visit_" ++ c
  | .acceptWithContext => Text.ofString "visit_" ++ c ++ Text.ofString "_with_context"
  | .transform => Text.ofString "transform_" ++ c
  | .transformWithContext => Text.ofString "transform_" ++ c ++ Text.ofString "_with_context"

/-- `_generate_class` writes the four dispatch methods iff `isinstance(cls, ConcreteClass)` -/
def definesDispatch (mm : MM) (c : Name) : Bool :=
  match mm.findClass c with
  | some cd => !cd.abstract
  | none => false

/-- Python's attribute look-up along the MRO of the instance's class (`mro` = the linearisation of the
proper ancestors, any order): the first class that defines the method, and the visitor method it calls -/
def dispatch (mm : MM) (k : Kind) (c : Name) (mro : List Name) : Option Name :=
  ((c :: mro).find? (definesDispatch mm)).map (methodName k)

/-! ## Accessors -/

/-- `_generate_class`: `over_X_or_empty` is generated iff the property is `Optional[List[...]]` -/
def hasOverOrEmpty : Ty → Bool
  | .opt (.list _) => true
  | _ => false

/-- `if self.X is not None: yield from self.X` -/
def overOrEmpty : Val → Out
  | .none => .ok []
  | .list vs => .ok vs.toList
  | _ => .error .illTyped

/-- `return self.X if self.X is not None else <default>` -/
def orDefault (default : Val) : Val → Val
  | .none => default
  | v => v

end AasVerif.SdkDescend
