import AasVerif.Model.XsdPattern
/-!
Value-level model of the schema generator (`xsd/main.py`): what `_translate_to_simple_type` /
`_value_to_type_element_or_type_identifier` write for one constrained value, given the constraints
`infer_for_schema` inferred for it (the *input* of this model), and when an XSD processor accepts
a value against it.

* `simpleType` — the `type=` attribute or the `xs:restriction` with its facets, in the order the
  generator writes them (pattern, minLength, maxLength).  The XML-character pattern is skipped;
  two or more patterns go through the external `greenery` intersection, whose result is not modelled
  (`SimpleOut.greenery`: ONE `xs:pattern` facet with an unknown text — assumed contract
  `L(a & b) = L(a) ∩ L(b)` — followed by the same length facets as in the single-pattern case).
* `listOccurs` — `minOccurs`/`maxOccurs` of the item element of a list.
* `FacetsValid`, `occursValid` — the validity of a text / an item count as XSD defines the facets
  (`length` of `xs:string` counts characters; `pattern` is `XsdRe.Matches`).
The element-tree level (groups, choices, references) is *not* modelled in Lean; it is covered by
the direct oracle with the independent validator.
-/
namespace AasVerif.Xsd
open AasVerif AasVerif.Retree AasVerif.XsdPattern

inductive SimpleOut where
  | plain (ty : String)
  | restricted (ty : String) (pattern : Option Text) (minLength maxLength : Option Nat)
  | error
  | greenery (ty : String) (minLength maxLength : Option Nat)
  | unknownPrimitive
  deriving DecidableEq, Repr

def lookupS (k : String) : List (String × String) → Option String
  | [] => none
  | (a, b) :: r => if a = k then some b else lookupS k r

/-- `_translate_to_simple_type` + the facet part of `_value_to_type_element_or_type_identifier` -/
def simpleType (lit rng : EscTable) (prims : List (String × String)) (xmlPattern : Text)
    (prim : String) (mn mx : Option Nat) (patterns : List Text) : SimpleOut :=
  match lookupS prim prims with
  | none => .unknownPrimitive
  | some ty =>
    match patterns.filter (· != xmlPattern) with
    | [] => if mn.isNone && mx.isNone then .plain ty else .restricted ty none mn mx
    | [p] =>
      (match translate lit rng p with
       | .ok t => .restricted ty (some t) mn mx
       | _ => .error)
    | _ :: _ :: _ => .greenery ty mn mx

/-- `minOccurs` / `maxOccurs` of the items of a list (`none`: `unbounded`) -/
def listOccurs (mn mx : Option Nat) : Nat × Option Nat := (mn.getD 0, mx)

def lengthOk (mn mx : Option Nat) (n : Nat) : Bool :=
  (match mn with | some a => decide (a ≤ n) | none => true) && (match mx with | some b => decide (n ≤ b) | none => true)

/-- an XSD processor accepts the text against the facets -/
def FacetsValid (pattern : Option Text) (mn mx : Option Nat) (s : Text) : Prop :=
  lengthOk mn mx s.length = true ∧ ∀ t, pattern = some t → ∃ x, XsdRe.read t = .ok x ∧ XsdRe.Matches x s

/-- an XSD processor accepts `n` occurrences -/
def occursValid (o : Nat × Option Nat) (n : Nat) : Bool :=
  decide (o.1 ≤ n) && (match o.2 with | some b => decide (n ≤ b) | none => true)

end AasVerif.Xsd
