import AasVerif.Model.RevmCompile
import AasVerif.Model.Retree.Sem
/-!
What "a pattern accepted by the front end" means for C18/C02, as a decidable predicate on the
regex tree (the driver evaluates it on every correspondence input):

* the tree is what `retree.parse` can return and the node constructors allow: no quantifier on
  `^`/`$` (`Term.__init__` `@require`), `minimum ≤ maximum` (`Quantifier.__init__`), every character-set
  range has `start ≤ end` and the ranges sorted by start do not overlap (checked by `_parse_char_set`);
  no formatted value (`_verify_patterns_anchored_at_start_and_end` parses the evaluated pattern *string*);
* `_verify_patterns_anchored_at_start_and_end`: exactly one uniate, first term `^`, last term `$`,
  and — since the `fix:` commits of C18 — no further `^` anywhere and no non-greedy quantifier.
-/
namespace AasVerif.Revm
open AasVerif.Retree

/-- Condition under which `transform_char_set` does not violate a precondition. -/
def setOk (rs : List Rng) : Bool :=
  (rs.all fun r => match r.stop with | none => true | some e => r.start.code ≤ e.code)
    && rangesOk (sortRanges (rs.map pureRange))

def quantOk (q : Quant) : Bool :=
  !q.nonGreedy && (match q.max with | none => true | some m => q.min ≤ m)

mutual
  /-- Inner part of an accepted pattern. -/
  def okV : Value → Bool
    | .group u => okU u
    | .char _ => true
    | .set _ rs => setOk rs
    | .fv _ => false
    | .sym .start => false
    | .sym .stop => true
    | .sym .dot => true
  def okT : Term → Bool
    | .mk v none => okV v
    | .mk (.sym .stop) (some _) => false
    | .mk v (some q) => okV v && quantOk q
  def okTs : List Term → Bool
    | [] => true
    | t :: ts => okT t && okTs ts
  def okC : Concat → Bool
    | .mk ts => okTs ts
  def okCs : List Concat → Bool
    | [] => true
    | c :: cs => okC c && okCs cs
  def okU : Union → Bool
    | .mk us => !us.isEmpty && okCs us  -- `retree.parse` never returns a union without uniates
end

def isStartTerm : Term → Bool
  | .mk (.sym .start) none => true
  | _ => false

def isStopTerm : Term → Bool
  | .mk (.sym .stop) none => true
  | _ => false

/-- The pattern is accepted by the front end (see the module comment). -/
def acceptedB : Regex → Bool
  | .mk [.mk (t :: ts)] =>
    isStartTerm t && (match ts.getLast? with | some l => isStopTerm l | none => false) && okTs ts
  | _ => false

def Accepted (r : Regex) : Prop := acceptedB r = true

/-- Strings without line breaks (`\n`; the statement of C18 excludes them because `.`/`$` of
Python's `re` treat `\n` specially while the VM's `any`/`end` do not). -/
def NoLineBreak (s : Text) : Prop := ∀ c ∈ s, c ≠ 10

end AasVerif.Revm
