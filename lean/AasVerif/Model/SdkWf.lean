import AasVerif.Model.SdkJson
/-!
# Decidable well-formedness of an abstract meta-model, as far as JSON (de)serialization needs it

Every clause is a rule the project itself enforces on accepted meta-models (or that its
generator asserts); the correspondence harness evaluates `MM.wf` through the driver on every
meta-model it generates, so a clause that an accepted meta-model violates is visible.

* class names unique; `json_model_type` injective on class names (C21);
* per class: property names unique, their JSON names unique and different from `modelType`
  (C21); property types are `T`, `Optional[T]`, `List[A]`, `Optional[List[A]]` with `A` atomic
  (`_verify_only_simple_type_patterns` + the assertions in the generator); every referenced
  class/enumeration exists; a class is not its own concrete descendant
  (`_assert_self_not_in_concrete_descendants`); concrete descendants exist and are concrete;
  an abstract class has a concrete descendant (the Python generator asserts it);
* `dispatchOkFor c` for every class `c` used in a property: a class with concrete descendants
  and all those descendants carry `with_model_type`
  (`_verify_with_model_type_for_classes_with_at_least_one_concrete_descendant`).  For the class
  a document is read through AT TOP LEVEL the project does not enforce this: it is the explicit
  hypothesis of the round-trip theorems (finding C10-F1);
* enumerations: names unique, literal names unique, literal values unique.
-/
namespace AasVerif.Sdk

def nodupB : List Text → Bool
  | [] => true
  | x :: xs => !xs.contains x && nodupB xs

def Ty.atomic : Ty → Bool
  | .prim _ => true
  | .enum _ => true
  | .cls _ => true
  | _ => false

/-- the class `c` can be told apart on `modelType` wherever that is needed -/
def MM.dispatchOkFor (mm : MM) (c : Name) : Bool :=
  match mm.findClass c with
  | none => false
  | some cd =>
    cd.concreteDescendants.isEmpty ||
      ((cd.abstract || cd.withModelType) &&
        cd.concreteDescendants.all (fun d => match mm.findClass d with
          | some dd => dd.withModelType
          | none => false))

/-- a (non-optional) type for which the generator emits a reader and that reader can work -/
def MM.tyReadable (mm : MM) : Ty → Bool
  | .prim _ => true
  | .enum e => (mm.findEnum e).isSome
  | .cls c => mm.dispatchOkFor c
  | .list t => t.atomic && (match t with
      | .prim _ => true
      | .enum e => (mm.findEnum e).isSome
      | .cls c => mm.dispatchOkFor c
      | _ => false)
  | .opt _ => false

def ClassDecl.okIn (mm : MM) (cd : ClassDecl) : Bool :=
  nodupB (cd.props.map (fun p => p.name))
  && nodupB (cd.props.map (fun p => jsonProperty p.name))
  && !(cd.props.map (fun p => jsonProperty p.name)).contains modelTypeKey
  && cd.props.all (fun p => mm.tyReadable p.ty.beneathOpt)
  && !cd.concreteDescendants.contains cd.name
  && cd.concreteDescendants.all (fun d => match mm.findClass d with
      | some dd => !dd.abstract
      | none => false)
  && (!cd.abstract || !cd.concreteDescendants.isEmpty)

def EnumDecl.ok (ed : EnumDecl) : Bool :=
  nodupB (ed.literals.map (fun p => p.1)) && nodupB (ed.literals.map (fun p => p.2))

def MM.wf (mm : MM) : Bool :=
  nodupB (mm.classes.map (fun c => c.name))
  && nodupB (mm.classes.map (fun c => jsonModelType c.name))
  && mm.classes.all (fun c => c.okIn mm)
  && nodupB (mm.enums.map (fun e => e.name))
  && mm.enums.all (fun e => e.ok)

end AasVerif.Sdk
