import AasVerif.Model.Text
/-!
Model of `aas_core_codegen.specific_implementations.read_from_directory` (as repaired by the
three `fix:` commits of C25/C22) together with the pieces of CPython it relies on:

* `Node` / `glob`  — a directory tree as `os.scandir` lists it and the enumeration order of
  `pathlib.Path.glob("**/*")` of CPython 3.12 (`_RecursiveWildcardSelector` over `Path.walk`,
  symbolic links to directories are listed but not descended, hidden names are matched);
* `relLe` / `sortEntries` — `sorted(paths)`: `PurePath.__lt__` compares the lists of path
  components, each component as a `str` (code point order);
* `hidden`, `Kind` — `part.startswith(".")` on every component of the relative path;
  `is_dir()`, `is_file()` (both follow symbolic links) and whether `open()`/`read()` raise `OSError`;
* `validKey` — `IMPLEMENTATION_KEY_RE.fullmatch` as a hand-written matcher (the pattern text is
  pinned by `Gen.Snippets.keyPattern`, see `Props.C25.keyPattern_pinned`);
* `utf8Decode` — strict UTF-8 (`bytes.decode("utf-8")`): no overlongs, no surrogates, ≤ U+10FFFF;
* `universalNewlines` — text mode `newline=None` of `Path.read_text`: `\r\n` and `\r` become `\n`;
* `strip` — `str.strip()` with CPython's `Py_UNICODE_ISSPACE` set (`isSpace`);
* crash sites: the icontract preconditions of `ImplementationKey.__new__` and `Stripped.__new__`.

Bytes are `List Nat`; the decoder rejects everything that is not a byte (`≥ 256`).
-/
namespace AasVerif.Snippets

/-! ## Directory trees and `glob("**/*")` -/

/-- What `Path.is_dir()`, `Path.is_file()` and reading say about a path (symbolic links followed):
`file` is a readable regular file, `dir` a directory, `other` neither (FIFO, socket, device,
dangling or looping symbolic link), `unreadable` a regular file whose `open`/`read` raises `OSError`. -/
inductive Kind where
  | file | dir | other | unreadable
  deriving DecidableEq, Repr, Inhabited

/-- One path produced by the glob: relative components, kind, content (of files). -/
structure Entry where
  rel : List Text
  kind : Kind
  bytes : List Nat
  deriving DecidableEq, Repr, Inhabited

/-- A directory entry as listed by `os.scandir`, children in listing order.
A `leaf` of kind `dir` is a symbolic link to a directory: listed, `is_dir()` holds, never descended. -/
inductive Node where
  | leaf (name : Text) (kind : Kind) (bytes : List Nat)
  | dir (name : Text) (children : List Node)
  deriving Repr, Inhabited

def Node.entry (p : List Text) : Node → Entry
  | .leaf n k b => ⟨p ++ [n], k, b⟩
  | .dir n _ => ⟨p ++ [n], .dir, []⟩

/-- `_WildcardSelector("*")._select_from(dir)`: every name matches, also hidden ones. -/
def listing (p : List Text) (ch : List Node) : List Entry := ch.map (Node.entry p)

mutual
  /-- `Path.walk(top_down=True, follow_symlinks=False)` below one node: visited real directories, pre-order. -/
  def walk (p : List Text) : Node → List (List Text × List Node)
    | .leaf _ _ _ => []
    | .dir n ch => (p ++ [n], ch) :: walkList (p ++ [n]) ch
  def walkList (p : List Text) : List Node → List (List Text × List Node)
    | [] => []
    | nd :: rest => walk p nd ++ walkList p rest
end

/-- `dirnames` of one visited directory, as paths. -/
def subdirs (p : List Text) (ch : List Node) : List (List Text × List Node) :=
  ch.filterMap fun
    | .dir n c => some (p ++ [n], c)
    | .leaf _ _ _ => none

/-- `snippets_dir.glob("**/*")` in CPython 3.12 order: the starting points are the root and then, for
every directory visited by `walk`, its sub-directories; every starting point contributes its listing. -/
def glob (root : List Node) : List Entry :=
  let visited := ([], root) :: walkList [] root
  listing [] root ++
    visited.flatMap fun (dp, ch) => (subdirs dp ch).flatMap fun (sp, sch) => listing sp sch

/-! ## `sorted(...)` of paths -/

/-- Lexicographic `≤` on lists from a strict order on the elements (Python sequence comparison). -/
def lexLe {α : Type} [DecidableEq α] (lt : α → α → Bool) : List α → List α → Bool
  | [], _ => true
  | _ :: _, [] => false
  | a :: as, b :: bs => lt a b || (decide (a = b) && lexLe lt as bs)

def natLt (a b : Nat) : Bool := decide (a < b)

/-- `str.__lt__`: code point order. -/
def textLt (a b : Text) : Bool := lexLe natLt a b && !decide (a = b)

/-- `PurePath.__le__` on relative paths: component lists compared lexicographically. -/
def relLe (a b : List Text) : Bool := lexLe textLt a b

def entryLe (a b : Entry) : Bool := relLe a.rel b.rel

def sortEntries (es : List Entry) : List Entry := es.mergeSort entryLe

/-! ## hidden names, keys -/

/-- `part.startswith(".")` -/
def hiddenName (n : Text) : Bool := n.head? == some 46

/-- `any(part.startswith(".") for part in relative.parts)` -/
def hidden (rel : List Text) : Bool := rel.any hiddenName

/-- `"/".join(parts)` — `PurePath.as_posix()` of a relative path with at least one component. -/
def posix : List Text → Text
  | [] => []
  | [p] => p
  | p :: ps => p ++ 47 :: posix ps

/-- `[a-zA-Z_]` -/
def isHead (c : Nat) : Bool := (97 ≤ c && c ≤ 122) || (65 ≤ c && c ≤ 90) || c == 95

/-- `[a-zA-Z_0-9.]` -/
def isTail (c : Nat) : Bool := (97 ≤ c && c ≤ 122) || (65 ≤ c && c ≤ 90) || c == 95 || (48 ≤ c && c ≤ 57) || c == 46

/-- `[a-zA-Z_][a-zA-Z_0-9.]*` -/
def validSegment : Text → Bool
  | [] => false
  | c :: cs => isHead c && cs.all isTail

/-- `key.split("/")`; always at least one part. -/
def splitSlash : Text → List Text
  | [] => [[]]
  | c :: cs =>
    if c = 47 then [] :: splitSlash cs
    else match splitSlash cs with
      | [] => [[c]]
      | p :: ps => (c :: p) :: ps

/-- `IMPLEMENTATION_KEY_RE.fullmatch(key) is not None` for the pattern
`[a-zA-Z_][a-zA-Z_0-9.]*(/[a-zA-Z_][a-zA-Z_0-9.]*)*`. -/
def validKey (k : Text) : Bool := (splitSlash k).all validSegment

/-! ## strict UTF-8 -/

def isCont (b : Nat) : Bool := 0x80 ≤ b && b ≤ 0xBF

/-- `bytes.decode("utf-8")` (strict): `none` is `UnicodeDecodeError`. -/
def utf8Decode : List Nat → Option Text
  | [] => some []
  | b0 :: bs =>
    if b0 < 0x80 then (utf8Decode bs).map (b0 :: ·)
    else if 0xC2 ≤ b0 ∧ b0 ≤ 0xDF then
      match bs with
      | b1 :: r =>
        if isCont b1 then (utf8Decode r).map (((b0 - 0xC0) * 64 + (b1 - 0x80)) :: ·) else none
      | _ => none
    else if 0xE0 ≤ b0 ∧ b0 ≤ 0xEF then
      match bs with
      | b1 :: b2 :: r =>
        if isCont b1 ∧ isCont b2 ∧ (b0 = 0xE0 → 0xA0 ≤ b1) ∧ (b0 = 0xED → b1 ≤ 0x9F) then
          (utf8Decode r).map (((b0 - 0xE0) * 4096 + (b1 - 0x80) * 64 + (b2 - 0x80)) :: ·)
        else none
      | _ => none
    else if 0xF0 ≤ b0 ∧ b0 ≤ 0xF4 then
      match bs with
      | b1 :: b2 :: b3 :: r =>
        if isCont b1 ∧ isCont b2 ∧ isCont b3 ∧ (b0 = 0xF0 → 0x90 ≤ b1) ∧ (b0 = 0xF4 → b1 ≤ 0x8F) then
          (utf8Decode r).map
            (((b0 - 0xF0) * 262144 + (b1 - 0x80) * 4096 + (b2 - 0x80) * 64 + (b3 - 0x80)) :: ·)
        else none
      | _ => none
    else none

/-- A Unicode scalar value (what strict UTF-8 can carry). -/
def isScalar (c : Nat) : Bool := c < 0xD800 || (0xE000 ≤ c && c < 0x110000)

/-- `chr(c).encode("utf-8")` for a scalar value. -/
def utf8EncodeChar (c : Nat) : List Nat :=
  if c < 0x80 then [c]
  else if c < 0x800 then [0xC0 + c / 64, 0x80 + c % 64]
  else if c < 0x10000 then [0xE0 + c / 4096, 0x80 + c / 64 % 64, 0x80 + c % 64]
  else [0xF0 + c / 262144, 0x80 + c / 4096 % 64, 0x80 + c / 64 % 64, 0x80 + c % 64]

def utf8Encode (t : Text) : List Nat := t.flatMap utf8EncodeChar

/-! ## text mode, `str.strip()` -/

/-- Universal newlines of text mode (`newline=None`): `\r\n` → `\n`, lone `\r` → `\n`. -/
def universalNewlines : Text → Text
  | [] => []
  | 13 :: 10 :: r => 10 :: universalNewlines r
  | 13 :: r => 10 :: universalNewlines r
  | c :: r => c :: universalNewlines r

/-- `Py_UNICODE_ISSPACE` of CPython 3.12 (validated against `str.isspace`/`str.strip` for every
code point U+0000–U+10FFFF on every run). -/
def isSpace (c : Nat) : Bool :=
  (9 ≤ c && c ≤ 13) || (28 ≤ c && c ≤ 32) || c == 0x85 || c == 0xA0 || c == 0x1680 ||
  (0x2000 ≤ c && c ≤ 0x200A) || c == 0x2028 || c == 0x2029 || c == 0x202F || c == 0x205F || c == 0x3000

/-- `str.strip()` -/
def strip (t : Text) : Text := ((t.dropWhile isSpace).reverse.dropWhile isSpace).reverse

/-- `common.is_stripped`, the precondition of `Stripped.__new__`. -/
def isStripped (t : Text) : Bool :=
  !(t.head? == some 10 || t.head? == some 32 || t.head? == some 9) &&
  !(t.getLast? == some 10 || t.getLast? == some 32 || t.getLast? == some 9)

/-! ## the loop of `read_from_directory` -/

inductive ErrKind where
  | notFile   -- "The snippet is not a regular file"
  | key       -- "The snippet key is not valid according to …"
  | io        -- "The snippet file could not be read" (OSError)
  | utf8      -- "The snippet file is not a valid UTF-8"
  deriving DecidableEq, Repr, Inhabited

/-- An error message, reduced to its kind and the file it names. -/
structure Err where
  kind : ErrKind
  rel : List Text
  deriving DecidableEq, Repr, Inhabited

inductive Res where
  | ok (mapping : List (Text × Text))   -- the dict in insertion order
  | err (errors : List Err)
  | crash (site : String)
  deriving DecidableEq, Repr, Inhabited

/-- What one iteration of the loop body does. -/
inductive Step where
  | skip
  | error (e : Err)
  | put (k v : Text)
  | crash (site : String)
  deriving DecidableEq, Repr, Inhabited

def step (e : Entry) : Step :=
  if hidden e.rel then .skip                              -- hidden file or inside a hidden directory
  else if e.kind = .dir then .skip                        -- pth.is_dir()
  else if e.kind = .other then .error ⟨.notFile, e.rel⟩   -- not pth.is_file()
  else
    let key := posix e.rel
    if !validKey key then .error ⟨.key, e.rel⟩
    else if !validKey key then .crash "ImplementationKey.require"   -- ImplementationKey(maybe_key)
    else if e.kind = .unreadable then .error ⟨.io, e.rel⟩           -- except OSError
    else match utf8Decode e.bytes with
      | none => .error ⟨.utf8, e.rel⟩                               -- except UnicodeDecodeError
      | some t =>
        let v := strip (universalNewlines t)
        if !isStripped v then .crash "Stripped.require"             -- Stripped(...)
        else .put key v

/-- `mapping[key] = value` on a dict kept as an association list in insertion order. -/
def dictSet (m : List (Text × Text)) (k v : Text) : List (Text × Text) :=
  if m.any (fun p => p.1 == k) then m.map (fun p => if p.1 == k then (k, v) else p)
  else m ++ [(k, v)]

/-- The `for` loop with its two accumulators and the final `if errors:`. -/
def loop : List Entry → List (Text × Text) → List Err → Res
  | [], m, errs => if errs.isEmpty then .ok m else .err errs
  | e :: es, m, errs =>
    match step e with
    | .skip => loop es m errs
    | .error x => loop es m (errs ++ [x])
    | .put k v => loop es (dictSet m k v) errs
    | .crash s => .crash s

/-- `read_from_directory` on the paths the glob produced (in any order). -/
def read (es : List Entry) : Res := loop (sortEntries es) [] []

/-- `read_from_directory(snippets_dir)` for a directory tree. -/
def readTree (root : List Node) : Res := read (glob root)

end AasVerif.Snippets
