import AasVerif.Model.JsonSchemaGen
/-!
Input-side bookkeeping for C11a: which definition names a class contributes (`clsKeys`) and which
names its definitions reference (`clsRefs`), computed from the INPUT of the generator, and the
decidable hypothesis `refsClosed` of `Props.C11.refs_resolve` (evaluated by the driver on every
correspondence input).
-/
namespace AasVerif.JsonSchema
open AasVerif AasVerif.Retree

/-- names a type annotation references -/
def taRefs : TA → List Text
  | .prim _ _ => []
  | .enum mt => [mt]
  | .cls mt ch => [if ch then sfx mt "_choice" else mt]
  | .list items _ => taRefs items

def propRefs (ps : List Prp) : List Text := ps.flatMap fun p => if p.own then taRefs p.ty else []

def modelTypeName : Text := ascii "ModelType"

def inhNames (c : Cls) : List Text := c.inh.map fun i => if i.concrete then sfx i.mt "_abstract" else i.mt

/-- names referenced by a class body (`_define_all_of_for_inheritance` + its own properties) -/
def bodyRefs (c : Cls) : List Text := inhNames c ++ propRefs c.props

def hasChoice (inProps : List Text) (c : Cls) : Bool := !c.abstract || inProps.contains c.mt

/-- names the definitions of class `c` reference -/
def clsRefs (inProps : List Text) (c : Cls) : List Text :=
  (if !c.cdesc.isEmpty then
      bodyRefs c ++ [modelTypeName] ++
      (if hasChoice inProps c then (if c.abstract then [] else [c.mt]) ++ c.cdesc else [])
    else []) ++
  (if c.abstract then [] else if !c.cdesc.isEmpty then [sfx c.mt "_abstract"] else bodyRefs c)

/-- names of the definitions class `c` contributes -/
def clsKeys (inProps : List Text) (c : Cls) : List Text :=
  (if !c.cdesc.isEmpty then
      [if c.abstract then c.mt else sfx c.mt "_abstract"] ++
      (if hasChoice inProps c then [sfx c.mt "_choice"] else [])
    else []) ++
  (if c.abstract then [] else [c.mt])

def typeKeys (inProps : List Text) : OurType → List Text
  | .enum mt _ => [mt]
  | .cprim => []
  | .cls c => clsKeys inProps c

def typeRefs (inProps : List Text) : OurType → List Text
  | .cls c => clsRefs inProps c
  | _ => []

/-- names of all definitions `generate` writes (computed from the input) -/
def allKeys (mm : MM) : List Text :=
  mm.types.flatMap (typeKeys (classesInProperties mm)) ++ [modelTypeName]

/-- names all definitions reference (computed from the input) -/
def allRefs (mm : MM) : List Text := mm.types.flatMap (typeRefs (classesInProperties mm))

/-- On the input: every referenced name is the name of a contributed definition.  This is what the
intermediate representation guarantees for resolved, instantiable classes (a property type names an
existing enumeration / a class that is concrete or has concrete descendants; parents of classes
with concrete descendants have concrete descendants; concrete descendants are concrete). -/
def refsClosed (mm : MM) : Bool := (allRefs mm).all fun r => (allKeys mm).contains r

end AasVerif.JsonSchema
