import AasVerif.Model.Retree.Render
import AasVerif.Model.Retree.Sem
/-!
Model of the pattern pipeline of `aas_core_codegen/xsd/main.py` (after the `fix:` commits of
branch `verif-c13`) and a reader for the regular expressions of XML Schema.

* `undoX` — `_undo_escaping_backslash_x_in_pattern`: the *textual* replacement of `\xHH`
  driven by the character class of the regular expression as it is written in the source
  (`Gen.Xsd.hexClassX`).  `int(…, 16)` and `chr(…)` are crash sites.  Since the fix it is no
  longer a part of `_translate_pattern` (a public helper with pinned tests).  Its sibling for
  `\x`/`\u`/`\U`, which prepared the patterns for the external intersection, was removed by the
  repair of finding C13-F1.
* `renderForGreenery` — `_render_pattern_for_greenery`: `retree.parse` → `_AnchorRemover` →
  `retree.render` with `_GreeneryRenderer` (tables `Gen.Xsd.grnLiteral`/`grnRange`), and
  `escAnchors` — `_escape_carets_and_dollars_rendered_by_greenery`, applied to the text of the
  intersection before `_translate_pattern`.  The intersection itself (the external library
  `greenery`) is not modelled.
* `translate` — `_translate_pattern`: `retree.parse` → `_NonXmlCharacterFinder` →
  `_AnchorRemover` → `retree.render` with `_XsdRenderer` (its two escaping tables are
  parameters, `Gen.Xsd.xsdLiteral`/`xsdRange` are the ones of the source).
* `XsdRe.read` — a reader for the XSD flavour as the W3C recommendation defines it
  (XSD 1.1 grammar, which is the stricter one where 1.0 and 1.1 differ): a deterministic
  push-down automaton that consumes one character per step (`XsdRe.step`), so that reading a
  concatenation is the composition of the readings (`feed_append`).
  It returns a `Retree.Union` over the fragment {`char` (not encoded), `set`, `group`,
  greedy quantifiers}; the wildcard `.` is the complemented set `[^\n\r]`.  Its meaning is
  the shared denotational semantics `Retree.MUnion` (`XsdRe.Matches`).
  Multi-character escapes (`\d \w \s \i \c \p{…}` and their complements) and character class
  subtraction are legal XSD but **not modelled**: the reader answers `unsupported`.
-/
namespace AasVerif.XsdPattern
open AasVerif AasVerif.Retree

/-! ## The textual un-escaping -/

/-- `c` is in the character class given as a list of inclusive ranges. -/
def inClass (cls : List (Nat × Nat)) (c : Nat) : Bool := cls.any fun p => p.1 ≤ c && c ≤ p.2

/-- the next `n` characters if they all belong to the class -/
def takeClass (cls : List (Nat × Nat)) : Nat → Text → Option Text
  | 0, _ => some []
  | n + 1, c :: r =>
    if inClass cls c then
      match takeClass cls n r with
      | some ds => some (c :: ds)
      | none => none
    else none
  | _ + 1, [] => none

inductive Undo where
  | ok (t : Text)
  /-- `int(s, base=16)` or `chr(code)` raised a `ValueError` -/
  | valueError
  deriving DecidableEq, Repr

def Undo.cons (c : Nat) : Undo → Undo
  | .ok t => .ok (c :: t)
  | .valueError => .valueError

/-- The `re.finditer` loop: `kinds` maps the letter after the backslash to the number of
digits (`[(120, 2)]` or `[(120, 2), (117, 4), (85, 8)]`); the first argument counts the
characters of a match that are still to be skipped.  The alternative `\\\\` of the regular
expression comes first: an escaped backslash is copied and nothing after it is an escape. -/
def undoGo (cls : List (Nat × Nat)) (kinds : List (Nat × Nat)) : Bool → Nat → Text → Undo
  | _, _, [] => .ok []
  | true, _, c :: r => (undoGo cls kinds false 0 r).cons c      -- the second backslash of `\\\\`
  | false, skip + 1, _ :: r => undoGo cls kinds false skip r
  | false, 0, c :: r =>
    if c = 92 then
      match r with
      | l :: r' =>
        if l = 92 then (undoGo cls kinds true 0 r).cons 92   -- an escaped backslash is copied
        else
        match lookup l kinds with
        | some n =>
          match takeClass cls n r' with
          | some ds =>
            match hexVal ds with
            | some v => if v < 0x110000 then (undoGo cls kinds false (n + 1) r).cons v else .valueError
            | none => .valueError
          | none => (undoGo cls kinds false 0 r).cons c
        | none => (undoGo cls kinds false 0 r).cons c
      | [] => .ok [c]
    else (undoGo cls kinds false 0 r).cons c

/-- `_undo_escaping_backslash_x_in_pattern` -/
def undoX (cls : List (Nat × Nat)) (t : Text) : Undo := undoGo cls [(120, 2)] false 0 t

/-! ## `_translate_pattern` -/

/-- `_is_xml_character`: the `Char` production of XML 1.0 -/
def isXmlChar (c : Nat) : Bool :=
  c == 9 || c == 10 || c == 13 || (0x20 ≤ c && c ≤ 0xD7FF) || (0xE000 ≤ c && c ≤ 0xFFFD) ||
    (0x10000 ≤ c && c ≤ 0x10FFFF)

def orElse (a b : Option Nat) : Option Nat := match a with | some x => some x | none => b

def nxChr (c : Chr) : Option Nat := if isXmlChar c.code then none else some c.code

def nxRng (r : Rng) : Option Nat :=
  orElse (nxChr r.start) (match r.stop with | some e => nxChr e | none => none)

def nxRngs : List Rng → Option Nat
  | [] => none
  | r :: rs => orElse (nxRng r) (nxRngs rs)

mutual
  /-- `_NonXmlCharacterFinder`: the first character (in the order of writing) that is not an
  XML character -/
  def nxValue : Value → Option Nat
    | .group u => nxUnion u
    | .char c => nxChr c
    | .set _ rs => nxRngs rs
    | .fv _ => none
    | .sym _ => none
  def nxTerms : List Term → Option Nat
    | [] => none
    | .mk v _ :: ts => orElse (nxValue v) (nxTerms ts)
  def nxConcats : List Concat → Option Nat
    | [] => none
    | .mk ts :: cs => orElse (nxTerms ts) (nxConcats cs)
  def nxUnion : Union → Option Nat
    | .mk us => nxConcats us
end

mutual
  def fvValue : Value → Bool
    | .group u => fvUnion u
    | .fv _ => true
    | _ => false
  def fvTerms : List Term → Bool
    | [] => false
    | .mk v _ :: ts => fvValue v || fvTerms ts
  def fvConcats : List Concat → Bool
    | [] => false
    | .mk ts :: cs => fvTerms ts || fvConcats cs
  /-- the tree holds a formatted value -/
  def fvUnion : Union → Bool
    | .mk us => fvConcats us
end

mutual
  /-- `_AnchorRemover`: the terms `^` and `$` are dropped from every concatenation -/
  def raValue : Value → Value
    | .group u => .group (raUnion u)
    | v => v
  def raTerms : List Term → List Term
    | [] => []
    | .mk v q :: ts => if isAnchor v then raTerms ts else .mk (raValue v) q :: raTerms ts
  def raConcats : List Concat → List Concat
    | [] => []
    | .mk ts :: cs => .mk (raTerms ts) :: raConcats cs
  def raUnion : Union → Union
    | .mk us => .mk (raConcats us)
end

/-- `_XsdRenderer.char_to_str_and_escape_or_encode_if_necessary`: an encoded caret is always
escaped, otherwise the table decides; the character itself is written verbatim. -/
def xsdChr (tbl : EscTable) (c : Chr) : Text :=
  if c.enc && c.code == 94 then [92, 94]
  else
    match escLookup c.code tbl with
    | some t => t
    | none => [c.code]

/-- `_XsdRenderer.transform_quantifier`: the rendering of the base class without the `?` of a
non-greedy quantifier -/
def xsdQuant (q : Quant) : Text := renderQuant ⟨false, q.min, q.max⟩

/-- One range of the inherited `transform_char_set` (see `Retree.renderRng`). -/
def xsdRng (tbl : EscTable) (first last fresh : Bool) (r : Rng) : Text :=
  if (first || last) && isRawDash r then [45]
  else
    (if first && r.start.code == 94 && !r.start.enc && fresh then [92, 94] else xsdChr tbl r.start)
    ++ (match r.stop with
        | some e => [45] ++ xsdChr tbl e
        | none => [])

def xsdRngs (tbl : EscTable) (fresh : Bool) : Bool → List Rng → Text
  | _, [] => []
  | first, [r] => xsdRng tbl first true fresh r
  | first, r :: r' :: rs => xsdRng tbl first false fresh r ++ xsdRngs tbl fresh false (r' :: rs)

def xsdSet (tbl : EscTable) (compl : Bool) (rs : List Rng) : Text :=
  [91] ++ (if compl then [94] else []) ++ xsdRngs tbl (!compl) true rs ++ [93]

mutual
  def xsdValue (lit rng : EscTable) : Value → Text
    | .group u => 40 :: (xsdUnion lit rng u ++ [41])
    | .char c => xsdChr lit c
    | .set compl rs => xsdSet rng compl rs
    | .fv _ => []
    | .sym .start => [94]
    | .sym .stop => [36]
    | .sym .dot => [46]
  def xsdTerms (lit rng : EscTable) : List Term → Text
    | [] => []
    | .mk v q :: ts =>
      xsdValue lit rng v ++ ((match q with | some q => xsdQuant q | none => []) ++ xsdTerms lit rng ts)
  /-- the uniates after the first one, each preceded by `|` -/
  def xsdAlts (lit rng : EscTable) : List Concat → Text
    | [] => []
    | .mk ts :: cs => 124 :: (xsdTerms lit rng ts ++ xsdAlts lit rng cs)
  def xsdUnion (lit rng : EscTable) : Union → Text
    | .mk [] => []
    | .mk (.mk ts :: cs) => xsdTerms lit rng ts ++ xsdAlts lit rng cs
end

inductive TrOut where
  | ok (t : Text)
  /-- `retree.parse` returned an error: the error text is returned -/
  | parseErr (e : Err)
  /-- a character that XML can not represent: the error text is returned -/
  | nonXml (code : Nat)
  /-- `retree.parse` raised -/
  | crashParse (s : Site)
  /-- `assert isinstance(value, str)` on the rendered values -/
  | crashFormattedValue
  deriving DecidableEq, Repr

/-- `_translate_pattern` after parsing -/
def translateTree (lit rng : EscTable) (r : Regex) : TrOut :=
  match nxUnion r with
  | some c => .nonXml c
  | none => if fvUnion r then .crashFormattedValue else .ok (xsdUnion lit rng (raUnion r))

/-- `_translate_pattern(pattern)` -/
def translate (lit rng : EscTable) (p : Text) : TrOut :=
  match parse [.str p] with
  | .ok r => translateTree lit rng r
  | .err e => .parseErr e
  | .crash s => .crashParse s

/-! ## The preparation of the patterns for the intersection (`greenery`) -/

/-- `_GreeneryRenderer.char_to_str_and_escape_or_encode_if_necessary`: the table decides, every other
character is written verbatim (encoded or not). -/
def grnChr (tbl : EscTable) (c : Chr) : Text :=
  match escLookup c.code tbl with
  | some t => t
  | none => [c.code]

/-- one range of `_GreeneryRenderer.transform_char_set`: no position is special -/
def grnRng (tbl : EscTable) (r : Rng) : Text :=
  grnChr tbl r.start ++ (match r.stop with
    | some e => [45] ++ grnChr tbl e
    | none => [])

def grnRngs (tbl : EscTable) : List Rng → Text
  | [] => []
  | r :: rs => grnRng tbl r ++ grnRngs tbl rs

/-- `_GreeneryRenderer.transform_char_set` -/
def grnSet (tbl : EscTable) (compl : Bool) (rs : List Rng) : Text :=
  [91] ++ (if compl then [94] else []) ++ grnRngs tbl rs ++ [93]

mutual
  def grnValue (lit rng : EscTable) : Value → Text
    | .group u => 40 :: (grnUnion lit rng u ++ [41])
    | .char c => grnChr lit c
    | .set compl rs => grnSet rng compl rs
    | .fv _ => []
    | .sym .start => [94]
    | .sym .stop => [36]
    | .sym .dot => [46]
  def grnTerms (lit rng : EscTable) : List Term → Text
    | [] => []
    | .mk v q :: ts =>
      grnValue lit rng v ++ ((match q with | some q => xsdQuant q | none => []) ++ grnTerms lit rng ts)
  def grnAlts (lit rng : EscTable) : List Concat → Text
    | [] => []
    | .mk ts :: cs => 124 :: (grnTerms lit rng ts ++ grnAlts lit rng cs)
  /-- the inherited `Renderer` with the two overrides of `_GreeneryRenderer` (and the greedy quantifiers of
  `_XsdRenderer`, its base class) -/
  def grnUnion (lit rng : EscTable) : Union → Text
    | .mk [] => []
    | .mk (.mk ts :: cs) => grnTerms lit rng ts ++ grnAlts lit rng cs
end

/-- `_render_pattern_for_greenery(pattern)` -/
def renderForGreenery (lit rng : EscTable) (p : Text) : TrOut :=
  match parse [.str p] with
  | .ok r => if fvUnion r then .crashFormattedValue else .ok (grnUnion lit rng (raUnion r))
  | .err e => .parseErr e
  | .crash s => .crashParse s

/-- `_escape_carets_and_dollars_rendered_by_greenery`: the `while` loop; `inSet` is `in_character_set`.
A backslash takes the next character along (`text[i : i + 2]`). -/
def escAnchors : Bool → Text → Text
  | _, [] => []
  | inSet, c :: r =>
    if c = 92 then
      match r with
      | d :: r' => 92 :: d :: escAnchors inSet r'
      | [] => [92]
    else if inSet then c :: escAnchors (c != 93) r
    else if c = 91 then c :: escAnchors true r
    else if c = 94 ∨ c = 36 then 92 :: c :: escAnchors false r
    else c :: escAnchors false r

/-- a `^` or `$` outside of the character sets that no backslash precedes (what `_translate_pattern` would
read as an anchor), scanning like `escAnchors` -/
def liveAnchor : Bool → Text → Bool
  | _, [] => false
  | inSet, c :: r =>
    if c = 92 then
      match r with
      | _ :: r' => liveAnchor inSet r'
      | [] => false
    else if inSet then liveAnchor (c != 93) r
    else if c = 91 then liveAnchor true r
    else if c = 94 ∨ c = 36 then true
    else liveAnchor false r

/-- The characters `greenery` reads as special outside of a character set (`Charclass.allSpecial`). -/
def grnMetaLit : List Nat := [92, 91, 93, 124, 40, 41, 46, 63, 42, 43, 123, 125]

/-- The characters `greenery` reads as special inside a character set (`Charclass.classSpecial`). -/
def grnMetaRng : List Nat := [92, 91, 93, 94, 45]

/-- `greenery`'s mnemonic escapes `\t \n \v \f \r`: (character after the backslash, denoted character) -/
def grnMnemonic : List (Nat × Nat) := [(116, 9), (110, 10), (118, 11), (102, 12), (114, 13)]

/-- An entry of a table for `greenery` is `\c` for a special character `c` (of the position), or a mnemonic
escape of the key; every special character has an entry; no other key has one (in particular `^` and `$`
outside of a set are written verbatim: `greenery` would refuse `\^`). -/
def grnTableOk (metas : List Nat) (tbl : EscTable) : Bool :=
  metas.all (fun m => escLookup m tbl == some [92, m]) &&
  tbl.all (fun e =>
    (metas.contains e.1 && e.2 == [92, e.1]) ||
    (grnMnemonic.any fun mn => mn.2 == e.1 && e.2 == [92, mn.1]))

/-! ## The reader for XSD regular expressions -/

namespace XsdRe

inductive Err where
  | quantWithoutAtom      -- `? * + {` without an atom, or a second quantifier
  | badEscape             -- `\c` with `c` outside the closed list of escapes
  | rawMeta               -- unescaped `}` or `]` outside, `[` inside a character class
  | unbalanced            -- `)` without `(`, or `(` without `)`
  | emptyClass            -- `[]`, `[^]`
  | badDash               -- `-` in a class that is neither first, last, nor a range separator
  | reversedRange         -- `[b-a]`
  | badQuant              -- malformed `{…}`
  | quantMinMax           -- `{2,1}`
  | unfinished            -- the text ends inside an escape, a class or a quantifier
  | unsupported           -- legal XSD which is not modelled: multi-character escapes, subtraction
  deriving DecidableEq, Repr

/-- A group under construction: the finished branches and the pieces of the current one. -/
structure Frame where
  alts : List Concat
  pieces : List Term

/-- the character read last in a class -/
inductive Cur where
  | none
  | one (c : Nat)       -- a character that may still become the start of a range
  | dash (c : Nat)      -- `c-` was read
  | trailing            -- a `-` after a complete member: it has to be the last one
  deriving DecidableEq, Repr

structure Cls where
  neg : Bool
  /-- directly after `[`: a `^` complements -/
  start : Bool
  items : List Rng
  cur : Cur
  esc : Bool
  deriving DecidableEq, Repr

inductive Mode where
  | normal
  | esc
  | qmin (acc : Option Nat)
  | qmax (mn : Nat) (acc : Option Nat)
  | cls (k : Cls)

structure St where
  mode : Mode
  /-- the atom read last; it still may get a quantifier -/
  pend : Option Value
  cur : Frame
  stack : List Frame

def init : St := ⟨.normal, none, ⟨[], []⟩, []⟩

/-- `SingleCharEsc ::= '\' [nrt\|.?*+(){}\-\[\]^]`: the character after the backslash and the
character it denotes. -/
def singleEsc : List (Nat × Nat) :=
  [(110, 10), (114, 13), (116, 9), (92, 92), (124, 124), (46, 46), (63, 63), (42, 42), (43, 43),
   (40, 40), (41, 41), (123, 123), (125, 125), (45, 45), (91, 91), (93, 93), (94, 94)]

/-- `\s \S \i \I \c \C \d \D \w \W \p \P`: legal, not modelled -/
def multiEsc : List Nat := [115, 83, 105, 73, 99, 67, 100, 68, 119, 87, 112, 80]

def unesc (c : Nat) : Except Err Nat :=
  match lookup c singleEsc with
  | some v => .ok v
  | none => if multiEsc.contains c then .error .unsupported else .error .badEscape

/-- the wildcard: every character except `\n` and `\r` -/
def dotSet : Value := .set true [⟨⟨10, false⟩, none⟩, ⟨⟨13, false⟩, none⟩]

def flush (pend : Option Value) (f : Frame) : Frame :=
  match pend with
  | some v => ⟨f.alts, f.pieces ++ [.mk v none]⟩
  | none => f

def Frame.union (f : Frame) : Union := .mk (f.alts ++ [.mk f.pieces])

def single (c : Nat) : Rng := ⟨⟨c, false⟩, none⟩

/-- a (possibly escaped) character as a member of a class -/
def clsChar (k : Cls) (x : Nat) : Except Err Cls :=
  match k.cur with
  | .none => .ok { k with cur := .one x, start := false, esc := false }
  | .one c => .ok { k with items := k.items ++ [single c], cur := .one x, start := false, esc := false }
  | .dash c =>
    if c ≤ x then
      .ok { k with items := k.items ++ [⟨⟨c, false⟩, some ⟨x, false⟩⟩], cur := .none, start := false, esc := false }
    else .error .reversedRange
  | .trailing => .error .badDash

/-- `]`: the members of the class -/
def clsClose (k : Cls) : Except Err Value :=
  let items :=
    match k.cur with
    | .none => k.items
    | .one c => k.items ++ [single c]
    | .dash c => k.items ++ [single c, single 45]
    | .trailing => k.items ++ [single 45]
  if items.isEmpty then .error .emptyClass else .ok (.set k.neg items)

/-- one character inside `[…]`: the new class state, or the finished set -/
def clsStep (k : Cls) (c : Nat) : Except Err (Cls ⊕ Value) :=
  if k.esc then
    match unesc c with
    | .ok x => (clsChar k x).map .inl
    | .error e => .error e
  else if c = 92 then .ok (.inl { k with esc := true, start := false })
  else if c = 94 ∧ k.start = true then .ok (.inl { k with neg := true, start := false })
  else if c = 93 then (clsClose k).map .inr
  else if c = 91 then
    (match k.cur with
     | .dash _ => .error .unsupported
     | .trailing => .error .unsupported
     | _ => .error .rawMeta)
  else if c = 45 then
    match k.cur with
    | .none =>
      if k.items.isEmpty then .ok (.inl { k with items := [single 45], start := false })
      else .ok (.inl { k with cur := .trailing, start := false })
    | .one x => .ok (.inl { k with cur := .dash x, start := false })
    | .dash _ => .error .badDash
    | .trailing => .error .badDash
  else (clsChar k c).map .inl

def isDigit (c : Nat) : Bool := 48 ≤ c && c ≤ 57

def pushDigit (acc : Option Nat) (c : Nat) : Option Nat := some (acc.getD 0 * 10 + (c - 48))

/-- the pending atom gets the quantifier -/
def applyQuant (st : St) (q : Quant) : Except Err St :=
  match st.pend with
  | some v => .ok ⟨.normal, none, ⟨st.cur.alts, st.cur.pieces ++ [.mk v (some q)]⟩, st.stack⟩
  | none => .error .quantWithoutAtom

/-- a complete atom: the previous one is final now -/
def atom (st : St) (v : Value) : St := ⟨.normal, some v, flush st.pend st.cur, st.stack⟩

/-- One step of the reader. -/
def step (st : St) (c : Nat) : Except Err St :=
  match st.mode with
  | .normal =>
    if c = 92 then .ok ⟨.esc, none, flush st.pend st.cur, st.stack⟩
    else if c = 40 then .ok ⟨.normal, none, ⟨[], []⟩, flush st.pend st.cur :: st.stack⟩
    else if c = 41 then
      (match st.stack with
       | [] => .error .unbalanced
       | p :: ps => .ok ⟨.normal, some (.group (flush st.pend st.cur).union), p, ps⟩)
    else if c = 124 then
      .ok ⟨.normal, none, ⟨(flush st.pend st.cur).alts ++ [.mk (flush st.pend st.cur).pieces], []⟩, st.stack⟩
    else if c = 46 then .ok (atom st dotSet)
    else if c = 91 then .ok ⟨.cls ⟨false, true, [], .none, false⟩, none, flush st.pend st.cur, st.stack⟩
    else if c = 63 then applyQuant st ⟨false, 0, some 1⟩
    else if c = 42 then applyQuant st ⟨false, 0, none⟩
    else if c = 43 then applyQuant st ⟨false, 1, none⟩
    else if c = 123 then
      (if st.pend.isSome then .ok { st with mode := .qmin none } else .error .quantWithoutAtom)
    else if c = 125 ∨ c = 93 then .error .rawMeta
    else .ok (atom st (.char ⟨c, false⟩))
  | .esc =>
    (match unesc c with
     | .ok x => .ok (atom st (.char ⟨x, false⟩))
     | .error e => .error e)
  | .qmin acc =>
    if isDigit c then .ok { st with mode := .qmin (pushDigit acc c) }
    else if c = 44 then
      (match acc with
       | some n => .ok { st with mode := .qmax n none }
       | none => .error .badQuant)
    else if c = 125 then
      (match acc with
       | some n => applyQuant st ⟨false, n, some n⟩
       | none => .error .badQuant)
    else .error .badQuant
  | .qmax mn acc =>
    if isDigit c then .ok { st with mode := .qmax mn (pushDigit acc c) }
    else if c = 125 then
      (match acc with
       | none => applyQuant st ⟨false, mn, none⟩
       | some m => if mn ≤ m then applyQuant st ⟨false, mn, some m⟩ else .error .quantMinMax)
    else .error .badQuant
  | .cls k =>
    (match clsStep k c with
     | .ok (.inl k') => .ok { st with mode := .cls k' }
     | .ok (.inr v) => .ok (atom st v)
     | .error e => .error e)

def feed (st : St) : Text → Except Err St
  | [] => .ok st
  | c :: t =>
    match step st c with
    | .ok st' => feed st' t
    | .error e => .error e

def finish (st : St) : Except Err Union :=
  match st.mode with
  | .normal =>
    (match st.stack with
     | [] => .ok (flush st.pend st.cur).union
     | _ :: _ => .error .unbalanced)
  | _ => .error .unfinished

/-- Read a regular expression in the syntax of XML Schema. -/
def read (t : Text) : Except Err Union :=
  match feed init t with
  | .ok st => finish st
  | .error e => .error e

/-- The text `s` matches the XSD regular expression `x` (XSD patterns are implicitly anchored). -/
def Matches (x : Union) (s : Text) : Prop := MUnion x [] s []

/-! ### An executable matcher (used by the driver) -/

def dedup (l : List Text) : List Text := l.foldr (fun x acc => if acc.contains x then acc else x :: acc) []

/-- apply a matcher to every remainder -/
def thenAll (f : Text → List Text) (rs : List Text) : List Text := dedup (rs.flatMap f)

/-- between `mn` and `mx` repetitions of `f`, with `fuel` bounding the number of rounds -/
def repAll (f : Text → List Text) : Nat → Nat → Option Nat → List Text → List Text
  | 0, mn, _, rs => if mn = 0 then rs else []
  | fuel + 1, mn, mx, rs =>
    if mx = some 0 then (if mn = 0 then rs else [])
    else
      let next := thenAll f rs
      -- progress only: remainders that did not shrink cannot add new results
      (if mn = 0 then rs else []) ++ repAll f fuel (mn - 1) (decMax mx) next

mutual
  /-- the remainders of `s` after a match of the value at its beginning -/
  def remValue : Value → Text → List Text
    | .group u, s => remUnion u s
    | .char c, s => (match s with | x :: r => if x = c.code then [r] else [] | [] => [])
    | .set compl rs, s => (match s with | x :: r => if setAccepts compl rs x then [r] else [] | [] => [])
    | .fv _, _ => []
    | .sym _, _ => []
  def remTerms : List Term → Text → List Text
    | [], s => [s]
    | .mk v none :: ts, s => thenAll (remTerms ts) (remValue v s)
    | .mk v (some q) :: ts, s =>
      thenAll (remTerms ts) (dedup (repAll (remValue v) (s.length + q.min + 1) q.min q.max [s]))
  def remConcats : List Concat → Text → List Text
    | [], _ => []
    | .mk ts :: cs, s => remTerms ts s ++ remConcats cs s
  def remUnion : Union → Text → List Text
    | .mk us, s => dedup (remConcats us s)
end

/-- executable acceptance -/
def matchB (x : Union) (s : Text) : Bool := (remUnion x s).contains []

end XsdRe

end AasVerif.XsdPattern
