import AasVerif.Model.Naming
import AasVerif.Gen.Naming
/-!
Model of the naming-collision checks of the eight targets:

* six SDK targets: `<target>/lib/_generate_types.py` —
  `verify` → `_verify_structure_name_collisions` (inter-structure dictionary, then
  `_verify_intra_structure_collisions` per our type);
* `jsonschema/main.py:generate` — `Definitions.update_for` per definition key, then
  `definitions.update({"ModelType": …})`;
* `xsd/main.py:_generate` — `observed_definitions` per tag of the root's children.

All of them have the same skeleton: walk a list of generated names, keep a dictionary of the
names observed so far, and record an error when a name is already there (`dups`).  What differs is
the *scope table*: which entities go into which dictionary under which naming function
(`checkedScopes`).  The part of the table that lives in the `for … in our_type.literals /
properties / methods` loops and the "is the error actually returned" flags are regenerated from
the source (`Gen.Naming`); the structure-name part is written by hand from the code.

The other dictionaries of the SDK checks (`_verify_constant_name_collisions`, …) are interpreted from their
regenerated description (`Gen.Naming.globalChecks`: loops over collections of the symbol table + naming function).

`emittedScopes` additionally lists scopes that the generators emit into but no check looks at
(`uncheckedScopes`): the generator side (`sdkFamilies`) is hand-written from the generators and cross-checked by the
direct oracle; whether a family is covered is decided from the regenerated description of the checks.
-/
namespace AasVerif.Collide
open AasVerif AasVerif.Naming

inductive Res (ε α : Type) where
  | ok (a : α)
  | err (e : ε)
  | crash (site : String)
deriving Repr, DecidableEq

/-! ### Meta-model (the part the checks look at) -/

structure EnumT where
  name : Text
  /-- referenced by a property (`ids_of_our_types_in_properties`) -/
  used : Bool
  literals : List Text
deriving Repr, DecidableEq

structure ClsT where
  name : Text
  abstract : Bool
  /-- `len(cls.concrete_descendants) > 0` -/
  hasDesc : Bool
  used : Bool
  /-- `cls.properties` (inherited ones included) -/
  props : List Text
  /-- properties with `specified_for is cls` -/
  ownProps : List Text
  /-- `cls.methods` (inherited ones included) -/
  methods : List Text
deriving Repr, DecidableEq

inductive OurType where
  | enum (e : EnumT)
  | cprim (name : Text)
  | cls (c : ClsT)
deriving Repr, DecidableEq

structure MM where
  /-- `symbol_table.our_types`, definition order -/
  types : List OurType
  consts : List Text
  /-- `symbol_table.verification_functions`; all of them pattern verifications (`match(pattern, text) is not None`) -/
  funcs : List Text
deriving Repr, DecidableEq

def MM.enums (mm : MM) : List EnumT := mm.types.filterMap fun | .enum e => some e | _ => none
def MM.classes (mm : MM) : List ClsT := mm.types.filterMap fun | .cls c => some c | _ => none

/-! ### Scopes -/

/-- One entity put into a scope: naming function, meta-model identifier, context (the enumeration
name for golang literals). -/
structure Ent where
  fn : String
  ident : Text
  ctx : Text := []
  /-- fixed text the generator puts around the converted name (`Verify{class_name(…)}`) -/
  opre : Text := []
  opost : Text := []
deriving Repr, DecidableEq

structure Scope where
  /-- scope kind, e.g. `structures`, `members`, `literals`, `definitions`, `xs:group` -/
  kind : String
  /-- name of the enclosing our type (`[]` for global scopes) -/
  owner : Text
  ents : List Ent
  /-- whether a collision found in this scope reaches the caller of the check -/
  reported : Bool
deriving Repr, DecidableEq

structure Collision where
  kind : String
  owner : Text
  name : Text
deriving Repr, DecidableEq

abbrev table := Gen.Naming.convTable

def convEnt (e : Ent) : Except String Text :=
  match conv table e.fn e.ctx e.ident with
  | .error s => .error s
  | .ok r => if e.opre = [] ∧ e.opost = [] then .ok r else identR (e.opre ++ r ++ e.opost)

def convAll : List Ent → Except String (List Text)
  | [] => .ok []
  | e :: es =>
    match convEnt e with
    | .error s => .error s
    | .ok n =>
      match convAll es with
      | .error s => .error s
      | .ok ns => .ok (n :: ns)

def scopeNames (s : Scope) : Except String (List Text) := convAll s.ents

/-- The dictionary loop: `if name in observed: errors.append(…) else: observed[name] = …`. -/
def dupsAux (seen : List Text) : List Text → List Text
  | [] => []
  | n :: ns => if n ∈ seen then n :: dupsAux seen ns else dupsAux (n :: seen) ns

def dups (ns : List Text) : List Text := dupsAux [] ns

/-! ### The scope tables of the checks -/

def lookupLoops (t : String) : List (String × String) := (Gen.Naming.intraLoops.lookup t).getD []
def intraReported (t : String) : Bool := (Gen.Naming.intraReturnsError.lookup t).getD false

def fnsOf (t kind : String) : List String := (lookupLoops t).filterMap fun (k, f) => if k = kind then some f else none

/-- The member dictionary of a class: per property all the property naming functions, then the methods. -/
def memberEnts (t : String) (c : ClsT) : List Ent :=
  (c.props.flatMap fun p => (fnsOf t "prop").map fun f => { fn := f, ident := p })
  ++ (c.methods.flatMap fun m => (fnsOf t "method").map fun f => { fn := f, ident := m })

def literalEnts (t : String) (e : EnumT) : List Ent :=
  e.literals.flatMap fun l => (fnsOf t "literal").map fun f => { fn := f, ident := l }

/-- Names DERIVED from the property names inside the property loop (`Identifier(f"set_{prop.name}_from_jsonable")`),
each kept in a dictionary of its own (regenerated: `Gen.Naming.intraDerived`). -/
def derivedLoops (t : String) : List (String × CheckLoop) := (Gen.Naming.intraDerived.lookup t).getD []

def derivedPropScopes (t : String) (c : ClsT) (reported : Bool) : List Scope :=
  ((derivedLoops t).filter fun kl => kl.1 = "prop").map fun kl =>
    { kind := "members-derived", owner := c.name,
      ents := c.props.map fun p =>
        { fn := kl.2.fn, ident := kl.2.pre ++ p ++ kl.2.post, opre := kl.2.opre, opost := kl.2.opost },
      reported := reported }

/-- `_verify_intra_structure_collisions` for every our type (one dictionary per type, plus one per derived name). -/
def intraScopes (t : String) (mm : MM) : List Scope :=
  mm.types.flatMap fun
    | .enum e =>
      if (fnsOf t "literal").isEmpty then []
      else [{ kind := "literals", owner := e.name, ents := literalEnts t e, reported := intraReported t }]
    | .cprim _ => []
    | .cls c =>
      { kind := "members", owner := c.name, ents := memberEnts t c, reported := intraReported t }
        :: derivedPropScopes t c (intraReported t)

/-- The inter-structure dictionary, hand-written per target from `_verify_structure_name_collisions`. -/
def structureEnts (t : String) (mm : MM) : List Ent :=
  if t = "python" then
    -- itertools.chain(enumerations, classes), python_naming.name_of
    (mm.enums.map fun e => { fn := "python.enum_name", ident := e.name })
    ++ (mm.classes.map fun c => { fn := "python.class_name", ident := c.name })
  else if t = "typescript" then
    mm.types.filterMap fun
      | .enum e => some { fn := "typescript.enum_name", ident := e.name }
      | .cprim _ => none
      | .cls c => some { fn := "typescript.class_name", ident := c.name }
  else if t = "csharp" ∨ t = "java" then
    mm.types.flatMap fun
      | .enum e => [{ fn := t ++ ".enum_name", ident := e.name }]
      | .cprim _ => []
      | .cls c =>
        { fn := t ++ ".interface_name", ident := c.name }
          :: (if c.abstract then [] else [{ fn := t ++ ".class_name", ident := c.name }])
  else if t = "cpp" then
    (mm.enums.map fun e => { fn := "cpp.enum_name", ident := e.name })
    ++ (mm.classes.flatMap fun c =>
        { fn := "cpp.interface_name", ident := c.name }
          :: (if c.abstract then [] else [{ fn := "cpp.class_name", ident := c.name }]))
  else if t = "golang" then
    (mm.enums.map fun e => { fn := "golang.enum_name", ident := e.name })
    ++ (mm.classes.flatMap fun c =>
        { fn := "golang.interface_name", ident := c.name }
          :: (if c.abstract then [] else [{ fn := "golang.struct_name", ident := c.name }]))
    -- enumeration literals are global constants in Go
    ++ (mm.enums.flatMap fun e => e.literals.map fun l =>
        { fn := "golang.enum_literal_name", ident := l, ctx := e.name })
  else []

/-- The name of the generated `ModelType` enumeration (cpp, golang, typescript), looked up in the dictionary of the
structure names after all of them are registered — when the check does so (`Gen.Naming.modelTypeReserved`). -/
def modelTypeEnumEnt (t : String) : Ent :=
  { fn := t ++ ".enum_name", ident := "Model_type".toList.map (·.toNat) }

def emitsModelTypeEnum (t : String) : Bool := t = "cpp" ∨ t = "golang" ∨ t = "typescript"

def modelTypeReserved (t : String) : Bool := (Gen.Naming.modelTypeReserved.lookup t).getD false

/-- Golang: the literals of the `ModelType` enumeration are global constants, one per concrete class; the check
registers them after the lookup of `ModelType` itself (`Gen.Naming.modelTypeLiteralsReserved`). -/
def modelTypeLiteralEnts (mm : MM) : List Ent :=
  (mm.classes.filter fun c => !c.abstract).map fun c =>
    { fn := "golang.enum_literal_name", ident := c.name, ctx := "Model_type".toList.map (·.toNat) }

def reservedEnts (t : String) (mm : MM) : List Ent :=
  (if modelTypeReserved t then [modelTypeEnumEnt t] else [])
  ++ (if t = "golang" ∧ Gen.Naming.modelTypeLiteralsReserved then modelTypeLiteralEnts mm else [])

/-- Keys handed to `Definitions.update_for`, in order (jsonschema/main.py:generate). -/
def jsonDefinitionEnts (mm : MM) : List Ent :=
  mm.types.flatMap fun
    | .enum e => [{ fn := "jsonschema.def", ident := e.name }]
    | .cprim _ => []
    | .cls c =>
      (if c.hasDesc then
        [{ fn := if c.abstract then "jsonschema.def" else "jsonschema.def_abstract", ident := c.name }]
        ++ (if !c.abstract || c.used then [{ fn := "jsonschema.def_choice", ident := c.name }] else [])
      else [])
      ++ (if c.abstract then [] else [{ fn := "jsonschema.def", ident := c.name }])

def modelTypeEnt : Ent := { fn := "literal", ident := [77, 111, 100, 101, 108, 84, 121, 112, 101] }

def xsdEnts (tag : String) (mm : MM) : List Ent :=
  mm.types.flatMap fun
    | .enum e =>
      if tag = "xs:simpleType" ∧ e.used then [{ fn := "xsd.type_name", ident := e.name }] else []
    | .cprim _ => []
    | .cls c =>
      if tag = "xs:complexType" then [{ fn := "xsd.type_name", ident := c.name }]
      else if tag = "xs:group" then
        { fn := "xsd.group_name", ident := c.name }
          :: (if c.hasDesc then [{ fn := "xsd.choice_group_name", ident := c.name }] else [])
      else []

def sdkTargets : List String := ["cpp", "csharp", "golang", "java", "python", "typescript"]
def targets : List String := sdkTargets ++ ["jsonschema", "xsd"]

/-! ### The other dictionaries of the SDK checks (`_verify_<kind>_collisions(symbol_table)`), regenerated from the source -/

/-- `symbol_table.<coll>` as a list of names. -/
def collNames (mm : MM) (coll : String) : List Text :=
  if coll = "constants" then mm.consts
  else if coll = "verification_functions" then mm.funcs
  -- `if isinstance(verification, intermediate.PatternVerification)`: every function of the modelled meta-models
  -- is a pattern verification (`MM.funcs`)
  else if coll = "pattern_verification_functions" then mm.funcs
  else if coll = "constrained_primitives" then mm.types.filterMap fun | .cprim n => some n | _ => none
  else if coll = "enumerations" then mm.enums.map (·.name)
  else if coll = "classes" then mm.classes.map (·.name)
  else if coll = "concrete_classes" then (mm.classes.filter fun c => !c.abstract).map (·.name)
  -- `for cls in symbol_table.classes: if len(cls.concrete_descendants) == 0: continue`
  else if coll = "classes_with_descendants" then (mm.classes.filter fun c => c.hasDesc).map (·.name)
  else []

def loopEnts (mm : MM) (l : CheckLoop) : List Ent :=
  (collNames mm l.coll).map fun n => { fn := l.fn, ident := l.pre ++ n ++ l.post, opre := l.opre, opost := l.opost }

/-- One dictionary fed by several loops, in source order. -/
def dictEnts (mm : MM) (ls : List CheckLoop) : List Ent := ls.flatMap (loopEnts mm)

def globalChecksOf (t : String) : List (String × List CheckLoop) := (Gen.Naming.globalChecks.lookup t).getD []

def globalScopes (t : String) (mm : MM) : List Scope :=
  (globalChecksOf t).map fun (k, ls) => { kind := k, owner := [], ents := dictEnts mm ls, reported := true }

/-! ### What the generators emit into (hand-written from the generators, cross-checked by the oracle)

A `Family` is a group of scopes that a generator fills with generated names, together with the condition under which
the target's check (as regenerated from the source: `Gen.Naming.globalChecks`, `intraLoops`) looks at exactly these
names: every loop of the family is one of the loops of one dictionary of the check, with the SAME naming function. A
covered family is part of a checked scope; an uncovered one is an unchecked scope. -/

structure Family where
  covered : Bool
  scopes : MM → List Scope

def loopsCovered (t : String) (ls : List CheckLoop) : Bool :=
  (globalChecksOf t).any fun (_, cl) => ls.all fun l => cl.contains l

def globalFamily (t kind : String) (ls : List CheckLoop) : Family :=
  { covered := loopsCovered t ls,
    scopes := fun mm => [{ kind := kind, owner := [], ents := dictEnts mm ls, reported := false }] }

def intraCovered (t k fn : String) : Bool := (lookupLoops t).contains (k, fn)

def constFn (t : String) : String :=
  if t = "csharp" ∨ t = "java" then t ++ ".property_name" else t ++ ".constant_name"

def funcFn (t : String) : String :=
  if t = "csharp" ∨ t = "java" then t ++ ".method_name" else t ++ ".function_name"

def verifyPre : Text := "verify_".toList.map (·.toNat)

/-- `Verify<Name>` of a constrained primitive as the verification generator of the target names it: C# and Java put
`class_name(name)` behind a fixed `Verify` / `verify`, the others convert `verify_<name>` as a function name. -/
def cprimVerifyLoop (t : String) : CheckLoop :=
  if t = "csharp" then ⟨"constrained_primitives", "csharp.class_name", [], [], "Verify".toList.map (·.toNat), []⟩
  else if t = "java" then ⟨"constrained_primitives", "java.class_name", [], [], "verify".toList.map (·.toNat), []⟩
  else ⟨"constrained_primitives", funcFn t, verifyPre, [], [], []⟩

def constructPre : Text := "construct_".toList.map (·.toNat)

def fromJsonablePost : Text := "_from_jsonable".toList.map (·.toNat)

def tsSetterLoop : CheckLoop :=
  ⟨"members", "typescript.method_name", "set_".toList.map (·.toNat), fromJsonablePost, [], []⟩

def sdkFamilies (t : String) : List Family :=
  [ globalFamily t "constants" [⟨"constants", constFn t, [], [], [], []⟩],
    globalFamily t "functions" [⟨"verification_functions", funcFn t, [], [], [], []⟩] ]
  ++ (if t = "csharp" ∨ t = "java" then
        [ { covered := intraCovered t "literal" (t ++ ".enum_literal_name"),
            scopes := fun mm => mm.enums.map fun e =>
              { kind := "literals", owner := e.name,
                ents := e.literals.map fun l => { fn := t ++ ".enum_literal_name", ident := l }, reported := false } } ]
      else [])
  -- `verify_<Name>` of the verification module for every constrained primitive (golang: part of
  -- `derived-structures` below, together with the other types)
  ++ (if t = "golang" then []
      else [ globalFamily t "derived-cprims" [cprimVerifyLoop t] ])
  -- Java: the generated members are `get…`/`set…` (`getter_name`)
  ++ (if t = "java" then
        [ { covered := intraCovered t "prop" "java.getter_name",
            scopes := fun mm => mm.classes.map fun c =>
              { kind := "accessors", owner := c.name,
                ents := c.props.map fun p => { fn := "java.getter_name", ident := p }, reported := false } } ]
      else [])
  -- Java, TypeScript: `construct<Name>` beside every pattern verification function (a prefix before the name, so
  -- that the first part of the name is capitalised like the others)
  ++ (if t = "java" then
        [ globalFamily t "derived-functions"
            [⟨"pattern_verification_functions", "java.private_method_name", constructPre, [], [], []⟩] ]
      else if t = "typescript" then
        [ globalFamily t "derived-functions"
            [⟨"pattern_verification_functions", "typescript.function_name", constructPre, [], [], []⟩] ]
      -- Golang: the private `<name>Re` of the compiled pattern (private names lower-case the first part)
      else if t = "golang" then
        [ globalFamily t "derived-functions"
            [⟨"pattern_verification_functions", "golang.private_constant_name", [], "_re".toList.map (·.toNat), [], []⟩] ]
      else [])
  -- TypeScript: `set<Property>FromJsonable` of the setter class, `over<Property>OrEmpty` … (a prefix before the
  -- property name, so that the first part of the name is capitalised like the others)
  ++ (if t = "typescript" then
        [ { covered := (derivedLoops t).contains ("prop", tsSetterLoop),
            scopes := fun mm => mm.classes.flatMap fun c =>
              [{ kind := "setters", owner := c.name,
                 ents := c.props.map fun p =>
                   { fn := tsSetterLoop.fn, ident := tsSetterLoop.pre ++ p ++ tsSetterLoop.post },
                 reported := false }] } ]
      else [])
  -- the generated `ModelType` enumeration among the types (golang: with its literals as global constants)
  ++ (if emitsModelTypeEnum t then
        [ { covered := modelTypeReserved t && (t != "golang" || Gen.Naming.modelTypeLiteralsReserved),
            scopes := fun mm =>
              [{ kind := "structures+ModelType", owner := [],
                 ents := structureEnts t mm ++ [modelTypeEnumEnt t] ++ (if t = "golang" then modelTypeLiteralEnts mm else []),
                 reported := false }] } ]
      else [])
  -- names derived from the structure names with a *coarser* conversion than the structure name itself
  ++ (if t = "python" then
        -- `<name>_from_jsonable`, `visit_<name>`, … (lower snake) while class names keep abbreviations
        [ globalFamily t "derived-structures"
            [⟨"enumerations", "python.function_name", [], fromJsonablePost, [], []⟩,
             ⟨"classes", "python.function_name", [], fromJsonablePost, [], []⟩] ]
      else if t = "golang" then
        [ -- `Verify<Name>` for every enumeration, constrained primitive and CONCRETE class
          -- (`for cls in symbol_table.concrete_classes`: an abstract class gets none)
          globalFamily t "derived-structures"
            [⟨"enumerations", "golang.function_name", verifyPre, [], [], []⟩,
             ⟨"constrained_primitives", "golang.function_name", verifyPre, [], [], []⟩,
             ⟨"concrete_classes", "golang.function_name", verifyPre, [], [], []⟩],
          -- stringification: `<name>FromStringMap` … private names lower-case the first part
          globalFamily t "derived-enums-private"
            [⟨"enumerations", "golang.private_constant_name", [], "_from_string_map".toList.map (·.toNat), [], []⟩],
          -- jsonization: `<Name>FromJsonable` for every enumeration and class (an abstract class is otherwise only
          -- checked as `I<Name>`), private `<name>ToMap` (concrete) / `<name>FromMap` (classes with descendants)
          globalFamily t "derived-jsonization"
            [⟨"enumerations", "golang.function_name", [], fromJsonablePost, [], []⟩,
             ⟨"classes", "golang.function_name", [], fromJsonablePost, [], []⟩,
             ⟨"concrete_classes", "golang.private_function_name", [], "_to_map".toList.map (·.toNat), [], []⟩,
             ⟨"classes_with_descendants", "golang.private_function_name", [], "_from_map".toList.map (·.toNat), [], []⟩],
          -- private struct fields
          { covered := intraCovered t "prop" "golang.private_property_name",
            scopes := fun mm => mm.classes.filterMap fun c =>
              if c.abstract then none else
              some { kind := "private-members", owner := c.name,
                     ents := c.props.map fun p => { fn := "golang.private_property_name", ident := p }, reported := false } } ]
      else [])

/-- The property scopes of the schema generators: the check (when present) walks ALL `cls.properties`, the emitted
`properties` / `xs:sequence` of a class hold its own ones. -/
def jsonPropertyScopes (checked : Bool) (mm : MM) : List Scope :=
  mm.classes.map fun c =>
    { kind := "properties", owner := c.name,
      ents := (if checked then c.props else c.ownProps).map fun p => { fn := "naming.json_property", ident := p },
      reported := checked }

def xsdTypesScope (checked : Bool) (mm : MM) : Scope :=
  { kind := "types", owner := [], ents := xsdEnts "xs:simpleType" mm ++ xsdEnts "xs:complexType" mm,
    reported := checked && Gen.Naming.xsdObservedChecked }

def xsdSequenceScopes (checked : Bool) (mm : MM) : List Scope :=
  mm.classes.map fun c =>
    { kind := "sequence", owner := c.name,
      ents := (if checked then c.props else c.ownProps).map fun p => { fn := "naming.xml_property", ident := p },
      reported := checked }

/-- The scopes a target's check looks at. -/
def checkedScopes (t : String) (mm : MM) : List Scope :=
  if t = "jsonschema" then
    [ { kind := "definitions", owner := [], ents := jsonDefinitionEnts mm,
        reported := Gen.Naming.jsonDefinitionsChecked },
      { kind := "definitions+ModelType", owner := [], ents := jsonDefinitionEnts mm ++ [modelTypeEnt],
        reported := Gen.Naming.jsonDefinitionsChecked && Gen.Naming.modelTypeChecked } ]
    ++ (if Gen.Naming.jsonPropertiesChecked then jsonPropertyScopes true mm else [])
  else if t = "xsd" then
    -- `observed_definitions`: one dictionary per symbol space of the root's children (`xs:simpleType` and
    -- `xs:complexType` share one when `Gen.Naming.xsdTypesShared`)
    ((if Gen.Naming.xsdTypesShared then [xsdTypesScope true mm]
      else ["xs:simpleType", "xs:complexType"].map fun tag =>
        { kind := tag, owner := [], ents := xsdEnts tag mm, reported := Gen.Naming.xsdObservedChecked })
     ++ [{ kind := "xs:group", owner := [], ents := xsdEnts "xs:group" mm, reported := Gen.Naming.xsdObservedChecked }])
    ++ (if Gen.Naming.xsdSequenceChecked then xsdSequenceScopes true mm else [])
  else if t ∈ sdkTargets then
    { kind := "structures", owner := [], ents := structureEnts t mm ++ reservedEnts t mm, reported := true }
      :: (intraScopes t mm ++ globalScopes t mm)
  else []

/-- Scopes the generators emit into but no check covers. -/
def uncheckedScopes (t : String) (mm : MM) : List Scope :=
  if t ∈ sdkTargets then
    (sdkFamilies t).flatMap fun f => if f.covered then [] else f.scopes mm
  else if t = "jsonschema" then
    (if Gen.Naming.jsonPropertiesChecked then [] else jsonPropertyScopes false mm)
  else if t = "xsd" then
    (if Gen.Naming.xsdTypesShared then [] else [xsdTypesScope false mm])
    ++ (if Gen.Naming.xsdSequenceChecked then [] else xsdSequenceScopes false mm)
  else []

def emittedScopes (t : String) (mm : MM) : List Scope := checkedScopes t mm ++ uncheckedScopes t mm

/-! ### The check -/

def resolve : List Scope → Except String (List (Scope × List Text))
  | [] => .ok []
  | s :: ss =>
    match scopeNames s with
    | .error e => .error e
    | .ok ns =>
      match resolve ss with
      | .error e => .error e
      | .ok r => .ok ((s, ns) :: r)

def collisionsOf (l : List (Scope × List Text)) : List Collision :=
  l.flatMap fun (s, ns) => if s.reported then (dups ns).map fun n => ⟨s.kind, s.owner, n⟩ else []

/-- `<target>.verify` / schema generation, at the level of the verdict and the collisions found.
A crashing naming function (an `@require`) crashes the whole check. -/
def verify (t : String) (mm : MM) : Res (List Collision) Unit :=
  match resolve (checkedScopes t mm) with
  | .error site => .crash site
  | .ok l => if collisionsOf l = [] then .ok () else .err (collisionsOf l)

/-- Collisions in the scopes nobody checks (used by the oracle cross-check and by `C21_partial`). -/
def uncheckedCollisions (t : String) (mm : MM) : Res (List Collision) Unit :=
  match resolve (uncheckedScopes t mm) with
  | .error site => .crash site
  | .ok l =>
    let cs := l.flatMap fun (s, ns) => (dups ns).map fun n => (⟨s.kind, s.owner, n⟩ : Collision)
    if cs = [] then .ok () else .err cs

end AasVerif.Collide
