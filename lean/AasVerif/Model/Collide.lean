import AasVerif.Model.Naming
import AasVerif.Gen.Naming
/-!
Model of the naming-collision checks of the eight targets:

* six SDK targets: `<target>/lib/_generate_types.py` —
  `verify` → `_verify_structure_name_collisions` (inter-structure dictionary, then
  `_verify_intra_structure_collisions` per our type);
* `jsonschema/main.py:generate` — `Definitions.update_for` per definition key, then
  `definitions.update({"ModelType": …})`;
* `xsd/main.py:_generate` — `observed_definitions` per tag of the root's children.

All of them have the same skeleton: walk a list of generated names, keep a dictionary of the
names observed so far, and record an error when a name is already there (`dups`).  What differs is
the *scope table*: which entities go into which dictionary under which naming function
(`checkedScopes`).  The part of the table that lives in the `for … in our_type.literals /
properties / methods` loops and the "is the error actually returned" flags are regenerated from
the source (`Gen.Naming`); the structure-name part is written by hand from the code.

`emittedScopes` additionally lists scopes that the generators emit into but no check looks at
(`uncheckedScopes`), hand-written from the generators and cross-checked by the direct oracle.
-/
namespace AasVerif.Collide
open AasVerif AasVerif.Naming

inductive Res (ε α : Type) where
  | ok (a : α)
  | err (e : ε)
  | crash (site : String)
deriving Repr, DecidableEq

/-! ### Meta-model (the part the checks look at) -/

structure EnumT where
  name : Text
  /-- referenced by a property (`ids_of_our_types_in_properties`) -/
  used : Bool
  literals : List Text
deriving Repr, DecidableEq

structure ClsT where
  name : Text
  abstract : Bool
  /-- `len(cls.concrete_descendants) > 0` -/
  hasDesc : Bool
  used : Bool
  /-- `cls.properties` (inherited ones included) -/
  props : List Text
  /-- properties with `specified_for is cls` -/
  ownProps : List Text
  /-- `cls.methods` (inherited ones included) -/
  methods : List Text
deriving Repr, DecidableEq

inductive OurType where
  | enum (e : EnumT)
  | cprim (name : Text)
  | cls (c : ClsT)
deriving Repr, DecidableEq

structure MM where
  /-- `symbol_table.our_types`, definition order -/
  types : List OurType
  consts : List Text
  funcs : List Text
deriving Repr, DecidableEq

def MM.enums (mm : MM) : List EnumT := mm.types.filterMap fun | .enum e => some e | _ => none
def MM.classes (mm : MM) : List ClsT := mm.types.filterMap fun | .cls c => some c | _ => none

/-! ### Scopes -/

/-- One entity put into a scope: naming function, meta-model identifier, context (the enumeration
name for golang literals). -/
structure Ent where
  fn : String
  ident : Text
  ctx : Text := []
deriving Repr, DecidableEq

structure Scope where
  /-- scope kind, e.g. `structures`, `members`, `literals`, `definitions`, `xs:group` -/
  kind : String
  /-- name of the enclosing our type (`[]` for global scopes) -/
  owner : Text
  ents : List Ent
  /-- whether a collision found in this scope reaches the caller of the check -/
  reported : Bool
deriving Repr, DecidableEq

structure Collision where
  kind : String
  owner : Text
  name : Text
deriving Repr, DecidableEq

abbrev table := Gen.Naming.convTable

def convEnt (e : Ent) : Except String Text := conv table e.fn e.ctx e.ident

def convAll : List Ent → Except String (List Text)
  | [] => .ok []
  | e :: es =>
    match convEnt e with
    | .error s => .error s
    | .ok n =>
      match convAll es with
      | .error s => .error s
      | .ok ns => .ok (n :: ns)

def scopeNames (s : Scope) : Except String (List Text) := convAll s.ents

/-- The dictionary loop: `if name in observed: errors.append(…) else: observed[name] = …`. -/
def dupsAux (seen : List Text) : List Text → List Text
  | [] => []
  | n :: ns => if n ∈ seen then n :: dupsAux seen ns else dupsAux (n :: seen) ns

def dups (ns : List Text) : List Text := dupsAux [] ns

/-! ### The scope tables of the checks -/

def lookupLoops (t : String) : List (String × String) := (Gen.Naming.intraLoops.lookup t).getD []
def intraReported (t : String) : Bool := (Gen.Naming.intraReturnsError.lookup t).getD false

def fnsOf (t kind : String) : List String := (lookupLoops t).filterMap fun (k, f) => if k = kind then some f else none

/-- The member dictionary of a class: per property all the property naming functions, then the methods. -/
def memberEnts (t : String) (c : ClsT) : List Ent :=
  (c.props.flatMap fun p => (fnsOf t "prop").map fun f => { fn := f, ident := p })
  ++ (c.methods.flatMap fun m => (fnsOf t "method").map fun f => { fn := f, ident := m })

def literalEnts (t : String) (e : EnumT) : List Ent :=
  e.literals.flatMap fun l => (fnsOf t "literal").map fun f => { fn := f, ident := l }

/-- `_verify_intra_structure_collisions` for every our type (one dictionary per type). -/
def intraScopes (t : String) (mm : MM) : List Scope :=
  mm.types.filterMap fun
    | .enum e =>
      if (fnsOf t "literal").isEmpty then none
      else some { kind := "literals", owner := e.name, ents := literalEnts t e, reported := intraReported t }
    | .cprim _ => none
    | .cls c => some { kind := "members", owner := c.name, ents := memberEnts t c, reported := intraReported t }

/-- The inter-structure dictionary, hand-written per target from `_verify_structure_name_collisions`. -/
def structureEnts (t : String) (mm : MM) : List Ent :=
  if t = "python" then
    -- itertools.chain(enumerations, classes), python_naming.name_of
    (mm.enums.map fun e => { fn := "python.enum_name", ident := e.name })
    ++ (mm.classes.map fun c => { fn := "python.class_name", ident := c.name })
  else if t = "typescript" then
    mm.types.filterMap fun
      | .enum e => some { fn := "typescript.enum_name", ident := e.name }
      | .cprim _ => none
      | .cls c => some { fn := "typescript.class_name", ident := c.name }
  else if t = "csharp" ∨ t = "java" then
    mm.types.flatMap fun
      | .enum e => [{ fn := t ++ ".enum_name", ident := e.name }]
      | .cprim _ => []
      | .cls c =>
        { fn := t ++ ".interface_name", ident := c.name }
          :: (if c.abstract then [] else [{ fn := t ++ ".class_name", ident := c.name }])
  else if t = "cpp" then
    (mm.enums.map fun e => { fn := "cpp.enum_name", ident := e.name })
    ++ (mm.classes.flatMap fun c =>
        { fn := "cpp.interface_name", ident := c.name }
          :: (if c.abstract then [] else [{ fn := "cpp.class_name", ident := c.name }]))
  else if t = "golang" then
    (mm.enums.map fun e => { fn := "golang.enum_name", ident := e.name })
    ++ (mm.classes.flatMap fun c =>
        { fn := "golang.interface_name", ident := c.name }
          :: (if c.abstract then [] else [{ fn := "golang.struct_name", ident := c.name }]))
    -- enumeration literals are global constants in Go
    ++ (mm.enums.flatMap fun e => e.literals.map fun l =>
        { fn := "golang.enum_literal_name", ident := l, ctx := e.name })
  else []

/-- Keys handed to `Definitions.update_for`, in order (jsonschema/main.py:generate). -/
def jsonDefinitionEnts (mm : MM) : List Ent :=
  mm.types.flatMap fun
    | .enum e => [{ fn := "jsonschema.def", ident := e.name }]
    | .cprim _ => []
    | .cls c =>
      (if c.hasDesc then
        [{ fn := if c.abstract then "jsonschema.def" else "jsonschema.def_abstract", ident := c.name }]
        ++ (if !c.abstract || c.used then [{ fn := "jsonschema.def_choice", ident := c.name }] else [])
      else [])
      ++ (if c.abstract then [] else [{ fn := "jsonschema.def", ident := c.name }])

def modelTypeEnt : Ent := { fn := "literal", ident := [77, 111, 100, 101, 108, 84, 121, 112, 101] }

def xsdEnts (tag : String) (mm : MM) : List Ent :=
  mm.types.flatMap fun
    | .enum e =>
      if tag = "xs:simpleType" ∧ e.used then [{ fn := "xsd.type_name", ident := e.name }] else []
    | .cprim _ => []
    | .cls c =>
      if tag = "xs:complexType" then [{ fn := "xsd.type_name", ident := c.name }]
      else if tag = "xs:group" then
        { fn := "xsd.group_name", ident := c.name }
          :: (if c.hasDesc then [{ fn := "xsd.choice_group_name", ident := c.name }] else [])
      else []

def sdkTargets : List String := ["cpp", "csharp", "golang", "java", "python", "typescript"]
def targets : List String := sdkTargets ++ ["jsonschema", "xsd"]

/-- The scopes a target's check looks at. -/
def checkedScopes (t : String) (mm : MM) : List Scope :=
  if t = "jsonschema" then
    [ { kind := "definitions", owner := [], ents := jsonDefinitionEnts mm,
        reported := Gen.Naming.jsonDefinitionsChecked },
      { kind := "definitions+ModelType", owner := [], ents := jsonDefinitionEnts mm ++ [modelTypeEnt],
        reported := Gen.Naming.jsonDefinitionsChecked && Gen.Naming.modelTypeChecked } ]
  else if t = "xsd" then
    ["xs:simpleType", "xs:complexType", "xs:group"].map fun tag =>
      { kind := tag, owner := [], ents := xsdEnts tag mm, reported := Gen.Naming.xsdObservedChecked }
  else if t ∈ sdkTargets then
    { kind := "structures", owner := [], ents := structureEnts t mm, reported := true } :: intraScopes t mm
  else []

/-! ### Scopes the generators emit into but no check covers (hand-written, cross-checked by the oracle) -/

def constFn (t : String) : String :=
  if t = "csharp" ∨ t = "java" then t ++ ".property_name" else t ++ ".constant_name"

def funcFn (t : String) : String :=
  if t = "csharp" ∨ t = "java" then t ++ ".method_name" else t ++ ".function_name"

def uncheckedScopes (t : String) (mm : MM) : List Scope :=
  if t ∈ sdkTargets then
    [ { kind := "constants", owner := [], ents := mm.consts.map fun c => { fn := constFn t, ident := c }, reported := false },
      { kind := "functions", owner := [], ents := mm.funcs.map fun f => { fn := funcFn t, ident := f }, reported := false } ]
    ++ (if t = "csharp" ∨ t = "java" then
          mm.enums.map fun e =>
            { kind := "literals", owner := e.name,
              ents := e.literals.map fun l => { fn := t ++ ".enum_literal_name", ident := l }, reported := false }
        else [])
    -- `verify_<Name>` of the verification module for every constrained primitive: no structure check looks at
    -- constrained primitives (golang: part of `derived-structures` below, together with the other types)
    ++ (if t = "golang" then []
        else
          [ { kind := "derived-cprims", owner := [],
              ents := mm.types.filterMap fun
                | .cprim n => some { fn := funcFn t, ident := "verify_".toList.map (·.toNat) ++ n }
                | _ => none,
              reported := false } ])
    -- Java: the check compares `property_name`s, the generated members are `get…`/`set…` (`getter_name`)
    ++ (if t = "java" then
          mm.classes.map fun c =>
            { kind := "accessors", owner := c.name,
              ents := c.props.map fun p => { fn := "java.getter_name", ident := p }, reported := false }
        else [])
    -- names derived from the structure names with a *coarser* conversion than the structure name itself
    ++ (if t = "python" then
          -- `<name>_from_jsonable`, `visit_<name>`, … (lower snake) while class names keep abbreviations
          [ { kind := "derived-structures", owner := [],
              ents := (mm.enums.map fun e => { fn := "python.function_name", ident := e.name })
                ++ (mm.classes.map fun c => { fn := "python.function_name", ident := c.name }), reported := false } ]
        else if t = "golang" then
          [ -- `Verify<Name>` for every enumeration, constrained primitive and CONCRETE class
            -- (`for cls in symbol_table.concrete_classes`: an abstract class gets none)
            { kind := "derived-structures", owner := [],
              ents := mm.types.filterMap fun
                | .enum e => some { fn := "golang.function_name", ident := e.name }
                | .cprim n => some { fn := "golang.function_name", ident := n }
                | .cls c => if c.abstract then none else some { fn := "golang.function_name", ident := c.name },
              reported := false },
            -- `<name>FromStringMap` … private names lower-case the first part
            { kind := "derived-enums-private", owner := [],
              ents := mm.enums.map fun e => { fn := "golang.private_function_name", ident := e.name }, reported := false } ]
          -- private struct fields
          ++ (mm.classes.filterMap fun c =>
                if c.abstract then none else
                some { kind := "private-members", owner := c.name,
                       ents := c.props.map fun p => { fn := "golang.private_property_name", ident := p }, reported := false })
        else [])
  else if t = "jsonschema" then
    mm.classes.map fun c =>
      { kind := "properties", owner := c.name,
        ents := c.ownProps.map fun p => { fn := "naming.json_property", ident := p }, reported := false }
  else if t = "xsd" then
    { kind := "types", owner := [], ents := xsdEnts "xs:simpleType" mm ++ xsdEnts "xs:complexType" mm, reported := false }
    :: (mm.classes.map fun c =>
      { kind := "sequence", owner := c.name,
        ents := c.ownProps.map fun p => { fn := "naming.xml_property", ident := p }, reported := false })
  else []

def emittedScopes (t : String) (mm : MM) : List Scope := checkedScopes t mm ++ uncheckedScopes t mm

/-! ### The check -/

def resolve : List Scope → Except String (List (Scope × List Text))
  | [] => .ok []
  | s :: ss =>
    match scopeNames s with
    | .error e => .error e
    | .ok ns =>
      match resolve ss with
      | .error e => .error e
      | .ok r => .ok ((s, ns) :: r)

def collisionsOf (l : List (Scope × List Text)) : List Collision :=
  l.flatMap fun (s, ns) => if s.reported then (dups ns).map fun n => ⟨s.kind, s.owner, n⟩ else []

/-- `<target>.verify` / schema generation, at the level of the verdict and the collisions found.
A crashing naming function (an `@require`) crashes the whole check. -/
def verify (t : String) (mm : MM) : Res (List Collision) Unit :=
  match resolve (checkedScopes t mm) with
  | .error site => .crash site
  | .ok l => if collisionsOf l = [] then .ok () else .err (collisionsOf l)

/-- Collisions in the scopes nobody checks (used by the oracle cross-check and by `C21_partial`). -/
def uncheckedCollisions (t : String) (mm : MM) : Res (List Collision) Unit :=
  match resolve (uncheckedScopes t mm) with
  | .error site => .crash site
  | .ok l =>
    let cs := l.flatMap fun (s, ns) => (dups ns).map fun n => (⟨s.kind, s.owner, n⟩ : Collision)
    if cs = [] then .ok () else .err cs

end AasVerif.Collide
