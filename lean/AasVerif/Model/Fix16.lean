import AasVerif.Model.Retree.Types
import AasVerif.Gen.Fix16
/-!
Model of `aas_core_codegen/parse/retree/_fix.py` (`_FixForUTF16Regex`, `fix_for_utf16_regex_in_place`).

The Python visitor rewrites the tree in place; here `fix` returns the new tree.
Crash sites (explicit outcomes, never hidden by totality):

* `surrogatesPre`  – `@require` of `_convert_to_surrogates` (code in U+10000..U+10FFFF) → `ViolationError`
* `surrogatesPost` – `@ensure` of `_convert_to_surrogates` (proved unreachable: `Props.C17.surrogates_post_never`)
* `complementAstral` – `assert not term.value.complementing` → `AssertionError`
* `rangeOrder` – `assert ord(start) < ord(end)` → `AssertionError`

`visit_concatenation` works in two phases: (1) every `Char`/`CharSet` concatenant is expanded, in
order; (2) every *new* concatenant is visited.  Phase 2 on the nodes created in phase 1 changes
nothing (they hold BMP code units only — `Lemmas.Fix16.fix_idem`), so the model recurses only
into the original groups, but it keeps the order of the crash sites: a crash of phase 1 anywhere
in the concatenation wins over a crash inside a group (`expandCrash`).

The model is the code *after* the `fix:` commit that splits a range straddling U+FFFF/U+10000
into its BMP part `[start-￿]` and its astral part `[\U00010000-end]` (before that commit such
a range raised `ViolationError` from `_convert_to_surrogates(start)`).
-/
namespace AasVerif.Fix16
open AasVerif.Retree

inductive Crash where
  | surrogatesPre | surrogatesPost | complementAstral | rangeOrder
  deriving DecidableEq, Repr, Inhabited

/-- Python exception type raised at the crash site. -/
def Crash.pyName : Crash → String
  | .surrogatesPre => "ViolationError"
  | .surrogatesPost => "ViolationError"
  | .complementAstral => "AssertionError"
  | .rangeOrder => "AssertionError"

/-- The numeric constants come from the source (`Gen/Fix16.lean`, regenerated on every run). -/
abbrev planeStart : Nat := Gen.Fix16.planeStart
abbrev planeEnd : Nat := Gen.Fix16.planeEnd

/-- `_convert_to_surrogates` without its contracts. -/
def surrogates (c : Nat) : Nat × Nat :=
  ((c - Gen.Fix16.hiSub) / Gen.Fix16.hiDiv + Gen.Fix16.hiBase,
   (c - Gen.Fix16.loSub) % Gen.Fix16.loMod + Gen.Fix16.loBase)

/-- `_convert_to_surrogates` with `@require` and `@ensure`. -/
def convert (c : Nat) : Except Crash (Nat × Nat) :=
  if planeStart ≤ c ∧ c ≤ planeEnd then
    let r := surrogates c
    if Gen.Fix16.ensHiMin ≤ r.1 ∧ r.1 ≤ Gen.Fix16.ensHiMax ∧
        Gen.Fix16.ensLoMin ≤ r.2 ∧ r.2 ≤ Gen.Fix16.ensLoMax then .ok r
    else .error .surrogatesPost
  else .error .surrogatesPre

/-- explicitly encoded character literal without quantifier -/
def ch (c : Nat) : Term := .mk (.char ⟨c, true⟩) none

/-- `[\u{a}-\u{b}]` without quantifier, both ends explicitly encoded -/
def st (a b : Nat) : Term := .mk (.set false [⟨⟨a, true⟩, some ⟨b, true⟩⟩]) none

/-- `_produce_char_char` -/
def charChar (h l : Nat) : Concat := .mk [ch h, ch l]
/-- `_produce_char_char_set` -/
def charSet (h a b : Nat) : Concat := .mk [ch h, st a b]
/-- `_produce_char_set_char_set` -/
def setSet (a b c d : Nat) : Concat := .mk [st a b, st c d]

/-- `_character_literal_to_surrogates_if_necessary` -/
def fixChar (c : Chr) (q : Option Quant) : Except Crash (List Term) :=
  if c.code < planeStart then .ok [.mk (.char c) q]
  else
    match convert c.code with
    | .error e => .error e
    | .ok (h, l) =>
      match q with
      | some q => .ok [.mk (.group (.mk [.mk [ch h, ch l]])) (some q)]
      | none => .ok [ch h, ch l]

/-- Both ends of the range are below U+10000 (the range goes to `ranges_wo_utf32` unchanged). -/
def isBmpRange (r : Rng) : Bool :=
  decide (r.start.code < planeStart) &&
    (match r.stop with
     | none => true
     | some e => decide (e.code < planeStart))

/-- Start below U+10000, end at or above: split by the `fix:` commit. -/
def isStraddling (r : Rng) : Bool :=
  decide (r.start.code < planeStart) &&
    (match r.stop with
     | none => false
     | some e => decide (planeStart ≤ e.code))

/-- `ranges_wo_utf32` -/
def woRanges : List Rng → List Rng
  | [] => []
  | r :: rs =>
    if isBmpRange r then r :: woRanges rs
    else if isStraddling r then ⟨r.start, some ⟨0xFFFF, true⟩⟩ :: woRanges rs
    else woRanges rs

/-- `ranges_w_utf32` -/
def wRanges : List Rng → List Rng
  | [] => []
  | r :: rs =>
    if isBmpRange r then wRanges rs
    else if isStraddling r then ⟨⟨planeStart, true⟩, r.stop⟩ :: wRanges rs
    else r :: wRanges rs

/-- The uniates emitted for the range `a..b` whose ends have the surrogates `(hs, ls)`, `(he, le)`
and `a < b`. -/
def splitPieces (hs ls he le : Nat) : List Concat :=
  if hs = he then
    [charSet hs ls le]
  else
    [charSet hs ls 0xDFFF]
    ++ (if he - hs > 1 then
          (if hs + 1 = he - 1 then [charSet (hs + 1) 0xDC00 0xDFFF]
           else [setSet (hs + 1) (he - 1) 0xDC00 0xDFFF])
        else [])
    ++ [charSet he 0xDC00 le]

/-- The body of `for a_range in ranges_w_utf32` for one range. -/
def rangePieces (r : Rng) : Except Crash (List Concat) :=
  match convert r.start.code with
  | .error e => .error e
  | .ok (hs, ls) =>
    match r.stop with
    | none => .ok [charChar hs ls]
    | some e =>
      if r.start.code = e.code then .ok [charChar hs ls]
      else if ¬ r.start.code < e.code then .error .rangeOrder
      else
        match convert e.code with
        | .error e => .error e
        | .ok (he, le) => .ok (splitPieces hs ls he le)

def allPieces : List Rng → Except Crash (List Concat)
  | [] => .ok []
  | r :: rs =>
    match rangePieces r with
    | .error e => .error e
    | .ok ps =>
      match allPieces rs with
      | .error e => .error e
      | .ok qs => .ok (ps ++ qs)

/-- The uniate holding the BMP part of the set, if there is one. -/
def bmpUniate (rs : List Rng) : List Concat :=
  if (woRanges rs).isEmpty then [] else [.mk [.mk (.set false (woRanges rs)) none]]

/-- `_expand_char_set_to_surrogates_if_necessary` -/
def fixSet (compl : Bool) (rs : List Rng) (q : Option Quant) : Except Crash (List Term) :=
  if (wRanges rs).isEmpty then .ok [.mk (.set compl rs) q]
  else if compl then .error .complementAstral
  else
    match allPieces (wRanges rs) with
    | .error e => .error e
    | .ok ps => .ok [.mk (.group (.mk (bmpUniate rs ++ ps))) q]

/-- Phase 1 of `visit_concatenation` for one concatenant (groups, symbols, formatted values pass). -/
def expand1 : Term → Except Crash (List Term)
  | .mk (.char c) q => fixChar c q
  | .mk (.set compl rs) q => fixSet compl rs q
  | t => .ok [t]

/-- The first crash of phase 1 over the concatenants, in order. -/
def expandCrash : List Term → Option Crash
  | [] => none
  | t :: ts =>
    match expand1 t with
    | .error e => some e
    | .ok _ => expandCrash ts

mutual
  def fixUnion : Union → Except Crash Union
    | .mk us =>
      match fixConcats us with
      | .error e => .error e
      | .ok us' => .ok (.mk us')
  def fixConcats : List Concat → Except Crash (List Concat)
    | [] => .ok []
    | c :: cs =>
      match fixConcat c with
      | .error e => .error e
      | .ok c' =>
        match fixConcats cs with
        | .error e => .error e
        | .ok cs' => .ok (c' :: cs')
  def fixConcat : Concat → Except Crash Concat
    | .mk ts =>
      match expandCrash ts with
      | some e => .error e
      | none =>
        match fixTerms ts with
        | .error e => .error e
        | .ok ts' => .ok (.mk ts')
  def fixTerms : List Term → Except Crash (List Term)
    | [] => .ok []
    | t :: ts =>
      match fixTerm t with
      | .error e => .error e
      | .ok t' =>
        match fixTerms ts with
        | .error e => .error e
        | .ok ts' => .ok (t' ++ ts')
  def fixTerm : Term → Except Crash (List Term)
    | .mk (.group u) q =>
      match fixUnion u with
      | .error e => .error e
      | .ok u' => .ok [.mk (.group u') q]
    | .mk (.char c) q => fixChar c q
    | .mk (.set compl rs) q => fixSet compl rs q
    | .mk (.fv i) q => .ok [.mk (.fv i) q]
    | .mk (.sym k) q => .ok [.mk (.sym k) q]
end

/-- `fix_for_utf16_regex_in_place` as a function. -/
def fix (r : Regex) : Except Crash Regex := fixUnion r

/-! ### UTF-16 encoding of text -/

/-- UTF-16 code units of one code point.  Code points below U+10000 — *including lone
surrogates* U+D800..U+DFFF — are one unit equal to the code point (this is what Python's
`encode('utf-16-le', 'surrogatepass')` does); the others are a surrogate pair. -/
def enc1 (c : Nat) : List Nat :=
  if c < planeStart then [c] else [(surrogates c).1, (surrogates c).2]

/-- `Text.utf16`: code points → UTF-16 code units. -/
def utf16 : Text → List Nat
  | [] => []
  | c :: cs => enc1 c ++ utf16 cs

def isSurrogate (c : Nat) : Bool := decide (0xD800 ≤ c) && decide (c ≤ 0xDFFF)

/-- Well-formed scalar text: Unicode scalar values only (no surrogate code points). -/
def Scalar (s : Text) : Prop := ∀ c ∈ s, c ≤ planeEnd ∧ isSurrogate c = false

/-- Text of the Basic Multilingual Plane only. -/
def BmpOnly (s : Text) : Prop := ∀ c ∈ s, c < planeStart

instance (s : Text) : Decidable (Scalar s) := by unfold Scalar; infer_instance
instance (s : Text) : Decidable (BmpOnly s) := by unfold BmpOnly; infer_instance

/-! ### Decidable hypotheses of the partial theorem -/

/-- The range covers no surrogate code point below U+10000.  (A straddling range is cut at
U+FFFF, so it is the start that matters for it.) -/
def rngNoSurrogate (r : Rng) : Bool :=
  match r.stop with
  | none => !isSurrogate r.start.code
  | some e => decide (e.code < 0xD800) || decide (0xDFFF < r.start.code)

mutual
  /-- No `.` and no complemented character set anywhere. -/
  def ndcValue : Value → Bool
    | .group u => ndcUnion u
    | .char _ => true
    | .set compl _ => !compl
    | .fv _ => true
    | .sym k => k != .dot
  def ndcTerm : Term → Bool
    | .mk v _ => ndcValue v
  def ndcTerms : List Term → Bool
    | [] => true
    | t :: ts => ndcTerm t && ndcTerms ts
  def ndcConcat : Concat → Bool
    | .mk ts => ndcTerms ts
  def ndcConcats : List Concat → Bool
    | [] => true
    | c :: cs => ndcConcat c && ndcConcats cs
  def ndcUnion : Union → Bool
    | .mk us => ndcConcats us
end

mutual
  /-- No literal and no range of a (non-complemented or complemented) set covers a surrogate
  code point U+D800..U+DFFF. -/
  def nslValue : Value → Bool
    | .group u => nslUnion u
    | .char c => !isSurrogate c.code
    | .set _ rs => rs.all rngNoSurrogate
    | .fv _ => true
    | .sym _ => true
  def nslTerm : Term → Bool
    | .mk v _ => nslValue v
  def nslTerms : List Term → Bool
    | [] => true
    | t :: ts => nslTerm t && nslTerms ts
  def nslConcat : Concat → Bool
    | .mk ts => nslTerms ts
  def nslConcats : List Concat → Bool
    | [] => true
    | c :: cs => nslConcat c && nslConcats cs
  def nslUnion : Union → Bool
    | .mk us => nslConcats us
end

def NoDotNoComplement (r : Regex) : Prop := ndcUnion r = true
def NoSurrogateLiterals (r : Regex) : Prop := nslUnion r = true

instance (r : Regex) : Decidable (NoDotNoComplement r) := by unfold NoDotNoComplement; infer_instance
instance (r : Regex) : Decidable (NoSurrogateLiterals r) := by unfold NoSurrogateLiterals; infer_instance

/-! ### What the parser guarantees about a tree (hypothesis of `fix_never_crashes`) -/

/-- Code points are at most U+10FFFF (Python `chr`), a range is ordered. -/
def rngWF (r : Rng) : Bool :=
  decide (r.start.code ≤ planeEnd) &&
    (match r.stop with
     | none => true
     | some e => decide (e.code ≤ planeEnd) && decide (r.start.code ≤ e.code))

mutual
  /-- Code points ≤ U+10FFFF, ordered ranges, complemented sets with BMP ranges only. -/
  def wfValue : Value → Bool
    | .group u => wfUnion u
    | .char c => decide (c.code ≤ planeEnd)
    | .set compl rs => rs.all rngWF && (!compl || rs.all isBmpRange)
    | .fv _ => true
    | .sym _ => true
  def wfTerm : Term → Bool
    | .mk v _ => wfValue v
  def wfTerms : List Term → Bool
    | [] => true
    | t :: ts => wfTerm t && wfTerms ts
  def wfConcat : Concat → Bool
    | .mk ts => wfTerms ts
  def wfConcats : List Concat → Bool
    | [] => true
    | c :: cs => wfConcat c && wfConcats cs
  def wfUnion : Union → Bool
    | .mk us => wfConcats us
end

def FixWF (r : Regex) : Prop := wfUnion r = true
instance (r : Regex) : Decidable (FixWF r) := by unfold FixWF; infer_instance

end AasVerif.Fix16

/-- The name used in DESIGN.md. -/
abbrev AasVerif.Text.utf16 : AasVerif.Text → List Nat := AasVerif.Fix16.utf16
