import AasVerif.Model.Text
/-!
# Pickling of the symbol-table classes (`intermediate/_types.py`, `__getstate__`/`__setstate__`)

The classes keep *derived id-sets* (`frozenset(id(x) for x in …)`) beside their core fields.  `id()`s
do not survive pickling, so `__getstate__` drops them and `__setstate__` recomputes them from the
core fields.  `PickleHook` is the extracted shape of one class; `Obj`/`pickle`/`unpickle` the abstract
model: an object is its core plus derived fields that are a function of the core.
-/
namespace AasVerif.CachePickle

structure PickleHook where
  cls : Text
  popped : List Text                 -- state.pop("<attr>", None) in __getstate__, in order
  -- A recomputation is named `<fn><-<src>`: the `_compute_*` function AND the attribute of `self` it is fed with
  -- (`self.<src>` directly, or the parameter the same function stores as `self.<src>`).  The same function fed with
  -- another list (seeded change C23-1: `_compute_descendant_id_set(self._concrete_descendants)`) is a different name.
  recomputed : List (Text × Text)    -- setattr(self, "<attr>", <X>.<fn>(self.<src>)) in __setstate__, in order
  assigned : List (Text × Text)      -- self.<attr> = <X>.<fn>(<src>) anywhere else in the class (constructor/setters)
  idSetFields : List Text            -- every attribute named *_id_set assigned in the class
  deriving Repr

/-- what a class must satisfy so that unpickling restores the object: everything dropped is
recomputed, by the same function as on the constructor path, and every id-set is dropped -/
def PickleHook.ok (h : PickleHook) : Bool :=
  h.popped == h.recomputed.map (·.1) &&
  h.recomputed.all (fun r => h.assigned.contains r) &&
  h.idSetFields.all (fun f => h.popped.contains f)

/-- abstract object: core fields, and derived fields -/
structure Obj where
  core : List Nat
  derived : List Nat
  deriving DecidableEq, Repr

/-- constructor path: the derived fields are `f core` -/
def Obj.WF (f : List Nat → List Nat) (o : Obj) : Prop := o.derived = f o.core

def pickle (o : Obj) : List Nat := o.core
def unpickle (f : List Nat → List Nat) (state : List Nat) : Obj := ⟨state, f state⟩

end AasVerif.CachePickle
