import AasVerif.Model.Text
import AasVerif.Gen.XmlText
/-!
# Character data of the generated XML serializer and of an XML 1.0 parser

* `escape`  = `_Serializer._escape_and_write_text`: the chain of `str.replace(<one character>, <text>)`
  calls regenerated into `Gen.XmlText.escapeSteps`, applied one after the other.
* `content` = what an XML 1.0 parser (expat behind `xml.etree`) hands out as the text of an element
  whose content is character data only: end-of-line normalisation of the RAW input (`\r\n` and a
  lone `\r` become `\n`, XML 1.0 §2.11), the five predefined entities and decimal / hexadecimal
  character references (§4.1, §4.6; the referenced character must be a legal `Char`), a raw `<`
  ends the character data (`none`: not text-only), a raw `]]>` is not allowed in content (§2.4),
  a raw `&` that does not start a well-formed
  reference and a character outside `Char` are not well-formed (`none`).
  The parser is TRUSTED code; this model of it is validated by correspondence.
-/
namespace AasVerif.XmlText

/-- `str.replace(c, r)` for a one-character `c` -/
def replaceChar (c : Nat) (r : Text) : Text → Text
  | [] => []
  | x :: xs => if x = c then r ++ replaceChar c r xs else x :: replaceChar c r xs

def escapeWith (steps : List (Nat × Text)) (s : Text) : Text :=
  steps.foldl (fun acc st => replaceChar st.1 st.2 acc) s

def escape (s : Text) : Text := escapeWith Gen.XmlText.escapeSteps s

/-- XML 1.0 `Char` -/
def isChar (c : Nat) : Bool :=
  c = 9 || c = 10 || c = 13 || (32 ≤ c && c ≤ 0xD7FF) || (0xE000 ≤ c && c ≤ 0xFFFD)
    || (0x10000 ≤ c && c ≤ 0x10FFFF)

def decDigits : Text → Option Nat
  | [] => none
  | ds => ds.foldl (fun acc d => match acc with
      | none => none
      | some n => if 48 ≤ d ∧ d ≤ 57 then some (n * 10 + (d - 48)) else none) (some 0)

def hexDigits : Text → Option Nat
  | [] => none
  | ds => ds.foldl (fun acc d => match acc with
      | none => none
      | some n =>
        if 48 ≤ d ∧ d ≤ 57 then some (n * 16 + (d - 48))
        else if 97 ≤ d ∧ d ≤ 102 then some (n * 16 + (d - 87))
        else if 65 ≤ d ∧ d ≤ 70 then some (n * 16 + (d - 55))
        else none) (some 0)

/-- the text between `&` and `;` → the character -/
def decodeRef (name : Text) : Option Nat :=
  if name = [97, 109, 112] then some 38
  else if name = [108, 116] then some 60
  else if name = [103, 116] then some 62
  else if name = [97, 112, 111, 115] then some 39
  else if name = [113, 117, 111, 116] then some 34
  else match name with
    | 35 :: 120 :: hs => match hexDigits hs with
      | some n => if isChar n then some n else none
      | none => none
    | 35 :: ds => match decDigits ds with
      | some n => if isChar n then some n else none
      | none => none
    | _ => none

def consSome (c : Nat) : Option Text → Option Text
  | some t => some (c :: t)
  | none => none

inductive St
  /-- in character data; `k` = number of raw `]` right before (capped at 2) -/
  | data (k : Nat)
  /-- in character data, right after a raw carriage return (a following line feed is swallowed) -/
  | cr
  /-- inside a reference; `acc` = the name so far, reversed -/
  | ref (acc : Text)

/-- the `]` counter after the raw character `c` -/
def nextK (k c : Nat) : Nat := if c = 93 then (if k = 0 then 1 else 2) else 0

def contentAux : St → Text → Option Text
  | .data _, [] => some []
  | .cr, [] => some []
  | .ref _, [] => none
  | .data k, c :: cs =>
    if c = 38 then contentAux (.ref []) cs
    else if c = 60 then none
    else if c = 62 ∧ 2 ≤ k then none
    else if c = 13 then consSome 10 (contentAux .cr cs)
    else if isChar c then consSome c (contentAux (.data (nextK k c)) cs)
    else none
  | .cr, c :: cs =>
    if c = 10 then contentAux (.data 0) cs
    else if c = 38 then contentAux (.ref []) cs
    else if c = 60 then none
    else if c = 13 then consSome 10 (contentAux .cr cs)
    else if isChar c then consSome c (contentAux (.data (nextK 0 c)) cs)
    else none
  | .ref acc, c :: cs =>
    if c = 59 then
      match decodeRef acc.reverse with
      | some ch => consSome ch (contentAux (.data 0) cs)
      | none => none
    else contentAux (.ref (c :: acc)) cs

/-- text of `<a>raw</a>` as the parser reports it (`none`: not well-formed or not text only) -/
def content (raw : Text) : Option Text := contentAux (.data 0) raw

end AasVerif.XmlText
