import AasVerif.Model.LinenoTpl
/-!
Model of `aas_core_codegen.common.LinenoColumner` (the code after the two `fix:` commits of C04):

* `positions`  — the table built by `__init__`: one `(lineno, column)` per character of the
  whole source text; the loop keeps `lineno`/`column` exactly like the Python loop
  (`column += 1; append; if character == "\n": lineno += 1; column = 0`).
* `errorMessage` — `error_message`: the location prefix looked up at `start`
  (`start, _ = atok.get_text_range(node)`, an *input* of the model: asttokens is not modelled),
  the message, and the nested `underlying` errors indented with `textwrap.indent`.
  `self.positions[start]` raising `IndexError` is the explicit outcome `Res.crash`.

The newline character, the prefix template and the indentation come from `Gen.Lineno`
and are parameters here.
-/
namespace AasVerif.Lineno

/-- The loop of `__init__`; `lineno`, `column` are the loop variables *before* the character. -/
def positionsAux (nl : Nat) : Nat → Nat → Text → List (Nat × Nat)
  | _, _, [] => []
  | lineno, column, c :: cs =>
    (lineno, column + 1) ::
      (if c = nl then positionsAux nl (lineno + 1) 0 cs
       else positionsAux nl lineno (column + 1) cs)

/-- `LinenoColumner(atok).positions` for `atok.text = t`. -/
def positions (nl : Nat) (t : Text) : List (Nat × Nat) := positionsAux nl 1 0 t

inductive Res where
  | ok (t : Text)
  | crash (site : String)
  deriving DecidableEq, Repr

/-- Python `str(n)` for a non-negative integer. -/
def decimal (n : Nat) : Text := (Nat.toDigits 10 n).map Char.toNat

/-- The f-string of the prefix. -/
def renderTemplate (tpl : List Piece) (lineno column : Nat) : Text :=
  tpl.flatMap fun
    | .lit t => t
    | .line => decimal lineno
    | .col => decimal column

/-- `prefix` of `error_message`: empty without a node, otherwise `self.positions[start]`
(Python list indexing with a non-negative index: `IndexError` beyond the end). -/
def locPrefix (tpl : List Piece) (pos : List (Nat × Nat)) : Option Nat → Res
  | none => .ok []
  | some start =>
    match pos[start]? with
    | none => .crash "IndexError"
    | some (l, c) => .ok (renderTemplate tpl l c)

/-! ### `textwrap.indent(text, prefix)` (CPython 3.12, default predicate `line.strip()`) -/

/-- Line boundaries of `str.splitlines`. -/
def isLineBreak (c : Nat) : Bool :=
  c = 10 || c = 11 || c = 12 || c = 13 || c = 28 || c = 29 || c = 30 || c = 133 || c = 8232 || c = 8233

/-- `str.isspace` of one character (what `str.strip()` removes). -/
def isSpace (c : Nat) : Bool :=
  (9 ≤ c && c ≤ 13) || (28 ≤ c && c ≤ 32) || c = 133 || c = 160 || c = 5760 ||
  (8192 ≤ c && c ≤ 8202) || c = 8232 || c = 8233 || c = 8239 || c = 8287 || c = 12288

/-- `text.splitlines(True)`; `cur` is the current line, reversed. -/
def splitLinesAux : Text → Text → List Text
  | cur, [] => if cur.isEmpty then [] else [cur.reverse]
  | cur, 13 :: 10 :: cs => (cur.reverse ++ [13, 10]) :: splitLinesAux [] cs
  | cur, c :: cs =>
    if isLineBreak c then (cur.reverse ++ [c]) :: splitLinesAux [] cs
    else splitLinesAux (c :: cur) cs

def splitLines (t : Text) : List Text := splitLinesAux [] t

def indent (pfx : Text) (t : Text) : Text :=
  ((splitLines t).map fun line => if line.all isSpace then line else pfx ++ line).flatten

/-- The error tree: `start` is `atok.get_text_range(node)[0]` (or `none` when `error.node is None`);
`underlying` is `[]` both for `None` and for an empty list (the code treats them alike). -/
inductive Err where
  | mk (start : Option Nat) (message : Text) (underlying : List Err)

def Res.bind (r : Res) (f : Text → Res) : Res :=
  match r with
  | .ok t => f t
  | .crash s => .crash s

mutual
/-- `LinenoColumner.error_message`. -/
def errorMessage (tpl : List Piece) (ind : Text) (pos : List (Nat × Nat)) : Err → Res
  | .mk start msg und =>
    (locPrefix tpl pos start).bind fun pfx =>
      match und with
      | [] => .ok (pfx ++ msg)
      | u :: us => (underlyingText tpl ind pos (u :: us)).bind fun body => .ok (pfx ++ msg ++ 10 :: body)
/-- The loop over `error.underlying`: the indented messages separated by `"\n"`. -/
def underlyingText (tpl : List Piece) (ind : Text) (pos : List (Nat × Nat)) : List Err → Res
  | [] => .ok []
  | u :: us =>
    (errorMessage tpl ind pos u).bind fun m =>
      match us with
      | [] => .ok (indent ind m)
      | _ :: _ => (underlyingText tpl ind pos us).bind fun rest => .ok (indent ind m ++ 10 :: rest)
end

end AasVerif.Lineno
