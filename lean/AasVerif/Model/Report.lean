import AasVerif.Model.PyStr
/-!
Model of `aas_core_codegen.run.write_error_report`.
The four `@require`s are explicit: a violated one is `Res.crash`.
-/
namespace AasVerif.Report
open AasVerif.PyStr

inductive Res where
  | ok (out : Text)
  | crash (site : String)
  deriving DecidableEq, Repr

def endsWith (t : Text) (c : Nat) : Bool := t.getLast? == some c
def startsWith (t : Text) (c : Nat) : Bool := t.head? == some c

/-- The `@require` on `errors`. -/
def errorOk (e : Text) : Bool :=
  !e.isEmpty && !startsWith e 10 && !startsWith e 42 && !endsWith e 10

/-- The three `@require`s on `message`. -/
def messageOk (m : Text) : Bool :=
  !endsWith m 58 && !endsWith m 10 && !startsWith m 10 && !startsWith m 42

/-- `"* " + textwrap.indent(error, "  ")[2:] + "\n"` -/
def bullet (e : Text) : Text := [42, 32] ++ (indent [32, 32] e).drop 2 ++ [10]

def body (message : Text) (errors : List Text) : Text :=
  message ++ [58, 10] ++ (errors.map bullet).flatten

def write (message : Text) (errors : List Text) : Res :=
  if !messageOk message then .crash "require-message"
  else if !errors.all errorOk then .crash "require-errors"
  else .ok (body message errors)

end AasVerif.Report
