/-!
The fixed skeleton of `yielding/linear.py` / `cpp/yielding.py` that the hand-written model
`Model/Yielding.lean` was written against (compared with the regenerated `Gen/Yielding.lean`
by `Props.C26.source_skeleton`).

* `linearizeShapes`: `linNode` emits, per node kind, exactly these statements in this order
  (`extend:x` = the linearization of a sub-sequence; the second group of `_linearize_if_*` is the
  branch without `or_else`, with its dead `Noop` for an empty body).
* `emitTransfers` / `endOfRoutineAfter` / `caseBlocksBreak` / `defaultThrows`: what `subStep`
  assumes about the emitted C++: `If`/`Jump` blocks `continue`, `Yield` blocks `return`, plain
  statements fall through to the next statement, `case` blocks have no `break`, the routine
  returns cleanly only after a final `Command`, `default:` throws.
-/
namespace AasVerif.Yielding.Skeleton

def linearizeShapes : List (String × List String) := [
  ("_linearize_command", ["Command"]),
  ("_linearize_if_true",
    ["If", "extend:body", "Jump", "extend:or_else", "Noop", "Noop", "extend:body", "Noop"]),
  ("_linearize_if_false",
    ["If", "extend:body", "Jump", "extend:or_else", "Noop", "Noop", "extend:body", "Noop"]),
  ("_linearize_for", ["Command", "If", "extend:body", "Command", "Jump", "Noop"]),
  ("_linearize_while", ["If", "extend:body", "Jump", "Noop"]),
  ("_linearize_yield", ["Yield"])]

def pipelineCalls : List String :=
  ["_linearize_control_flow", "_compress_in_place", "_fix_labels_in_place", "_split_in_subroutines"]

def compressCalls : List String :=
  ["_remove_redundant_labels_in_place", "_remove_noops_in_place"]

def emitTransfers : List (String × List String) := [
  ("Command", []), ("If", ["continue"]), ("Jump", ["continue"]), ("Yield", ["return"]), ("Noop", [])]

def endOfRoutineAfter : List String := ["Command"]
def caseBlocksBreak : Bool := false
def defaultThrows : Bool := true

end AasVerif.Yielding.Skeleton
