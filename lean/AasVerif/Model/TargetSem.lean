import AasVerif.Model.TargetEval
/-!
Java and C++ semantics of the constructs the transpilers emit (`Sem` of `Model/TargetEval.lean`),
on the domain where they are modelled *and* agree with Python; everything else is `none`
(`off`).  What is excluded because the language is known to differ from Python is listed with
each primitive and witnessed by the `*_differs` theorems of `Props/C09.lean`.

Java (the generated SDK uses `String`, boxed `Long` / `Float` / `Boolean`, `Optional<T>` getters,
`List<T>`, `Set<T>`, enumerations as Java enums):
* `==` / `!=` on two operands of reference type compares references: modelled for enumeration
  literals and class instances (identity *is* their equality), `null`; **not** for two `String`s
  or two boxed numbers (two equal values need not be the same object — C09-F1);
  a boxed number against a primitive (a literal, a `length()` / `size()`, an arithmetic result) is
  unboxed and compared numerically;
* conditions are `boolean`s; `length()` counts UTF-16 code units; `List.get` / `Optional.get`
  throw where Python raises / where Python would go on with `None`.

C++ (`std::wstring`, `int64_t`, `double`, `bool`, `common::optional<T>`, `std::vector<T>`,
`std::shared_ptr` to instances, `enum class`):
* `==` compares values (strings, numbers, enumeration literals) and pointers (instances);
* `size()` is a `size_t`: comparing it (or a `size_t` loop variable) with a *negative* `int64_t`
  converts the latter to a huge unsigned number — integer comparisons are modelled for
  non-negative operands only;
* de-referencing an empty optional, `back()` of an empty vector are undefined behaviour (`none`);
  `at()` throws where Python raises for an index beyond the end;
* `wchar_t` is assumed to hold a code point (32 bit, as with g++ on Linux).
-/
namespace AasVerif.TargetEmit
open AasVerif AasVerif.Expr

/-- fits a Java `long` / C++ `int64_t` -/
def fitsLong (i : Int) : Bool := decide (-(2 : Int) ^ 63 ≤ i) && decide (i < (2 : Int) ^ 63)

/-- Java `List.get(i)` / C++ `vector::at(i)` for a non-negative index: the element or an exception -/
def getAt (l : List Val) (i : Int) : Option Out :=
  if 0 ≤ i then
    some (match l[i.toNat]? with
      | some x => .val x
      | none => .indexError)
  else none

def javaSem : Sem where
  truthy _ v := match v with
    | .bool b => some b
    | _ => none
  lastOperand _ v := match v with
    | .bool _ => some v
    | _ => none
  cmp _ op lb rb a b := match a, b with
    | .int x, .int y =>
      if fitsLong x && fitsLong y then
        (match op with
         | .eq | .ne => if lb && rb then none else some (.ofBool (cmpOrd op (x < y) (x == y)))
         | _ => some (.ofBool (cmpOrd op (x < y) (x == y))))
      else none
    | .bool x, .bool y =>
      (match op with
       | .eq => if lb && rb then none else some (.ofBool (x == y))
       | .ne => if lb && rb then none else some (.ofBool (!(x == y)))
       | _ => none)
    | .none, .none => jsCmp op a b
    | .none, x => (match x with | .str _ | .int _ | .bool _ | .enumLit _ _ | .inst _ _ _ | .list _ => jsCmpNull op x | _ => none)
    | x, .none => (match x with | .str _ | .int _ | .bool _ | .enumLit _ _ | .inst _ _ _ | .list _ => jsCmpNull op x | _ => none)
    | .enumLit _ _, .enumLit _ _ => jsCmp op a b
    | .inst _ _ _, .inst _ _ _ => jsCmp op a b
    | _, _ => none
  arith _ add a b := match a, b with
    | .int x, .int y =>
      if fitsLong x && fitsLong y && fitsLong (if add then x + y else x - y)
      then some (.val (.int (if add then x + y else x - y))) else none
    | .str x, .str y => if add then some (.val (.str (x ++ y))) else none
    | _, _ => none
  len k v := match k, v with
    | .javaLength, .str s => if bmp s then some (.val (.int (utf16 s).length)) else none
    | .javaSize, .list l => some (.val (.int l.length))
    | _, _ => none
  contains _ k c m := match k, c with
    | .javaContains, .list items =>
      if simpleVal m && items.all simpleVal then (anySVZ m items).map Out.ofBool else none
    | .javaContains, .set items =>
      if simpleVal m && items.all simpleVal then (anySVZ m items).map Out.ofBool else none
    | .javaContains, .str s =>
      (match m with
       | .str a => if bmp a && bmp s then some (.ofBool (isInfix a s)) else none
       | _ => none)
    | _, _ => none
  index k c i := match k, c, i with
    | .javaGet, .list l, .int i => getAt l i
    | _, _, _ => none
  size v := match v with
    | .list l => some l.length
    | _ => none
  unwrap k v := match k, v with
    | .javaOrElseNull, v => some (.val v)
    | .javaGet, .none => none  -- `NoSuchElementException`, where Python goes on with `None`
    | .javaGet, v => some (.val v)
    | _, _ => none
  isNull k v := match k with
    | .javaNull | .javaPresent => (match v with | .none => some true | _ => some false)
    | _ => none
  iter v := match v with
    | .list l => some l
    | .set l => some l
    | _ => none
  fmt l _ _ v := match l with
    | .java => (match v with
      | .str s => some (.val (.str s))
      | .int i => if fitsLong i then some (.val (.str (intText i))) else none
      | _ => none)
    | _ => none

def nonNeg (i : Int) : Bool := decide (0 ≤ i)

def cppSem : Sem where
  truthy _ v := match v with
    | .bool b => some b
    | _ => none
  lastOperand _ v := match v with
    | .bool _ => some v
    | _ => none
  cmp _ op _ _ a b := match a, b with
    | .int x, .int y =>
      if fitsLong x && fitsLong y && nonNeg x && nonNeg y then some (.ofBool (cmpOrd op (x < y) (x == y))) else none
    | .str x, .str y => some (.ofBool (cmpOrd op (ltNats x y) (x == y)))
    | .bool x, .bool y =>
      (match op with
       | .eq => some (.ofBool (x == y))
       | .ne => some (.ofBool (!(x == y)))
       | _ => none)
    | .enumLit _ _, .enumLit _ _ => jsCmp op a b
    | .inst _ _ _, .inst _ _ _ => jsCmp op a b
    | _, _ => none
  arith _ add a b := match a, b with
    | .int x, .int y =>
      if fitsLong x && fitsLong y && nonNeg x && nonNeg y && nonNeg (if add then x + y else x - y)
        && fitsLong (if add then x + y else x - y)
      then some (.val (.int (if add then x + y else x - y))) else none
    | .str x, .str y => if add then some (.val (.str (x ++ y))) else none
    | _, _ => none
  len k v := match k, v with
    | .cppSize, .str s => some (.val (.int s.length))
    | .cppSize, .list l => some (.val (.int l.length))
    | .cppSize, .bytes b => some (.val (.int b.length))
    | _, _ => none
  contains _ k c m := match k, c with
    | .cppContains, .set items =>
      if simpleVal m && items.all simpleVal then (anySVZ m items).map Out.ofBool else none
    | .cppContains, .list items =>
      if simpleVal m && items.all simpleVal then (anySVZ m items).map Out.ofBool else none
    | _, _ => none
  index k c i := match k, c, i with
    | .cppAt, .list l, .int i => getAt l i
    | .cppBack, .list l, .int i =>
      if i = -1 then (match l.getLast? with | some x => some (.val x) | none => none) else none
    | _, _, _ => none
  size v := match v with
    | .list l => some l.length
    | _ => none
  unwrap k v := match k, v with
    | .cppDeref, .none => none  -- undefined behaviour
    | .cppDerefParen, .none => none
    | .cppDeref, v => some (.val v)
    | .cppDerefParen, v => some (.val v)
    | _, _ => none
  isNull k v := match k with
    | .cppHasValue => (match v with | .none => some true | _ => some false)
    | _ => none
  iter v := match v with
    | .list l => some l
    | .set l => some l
    | _ => none
  fmt l conv _ v := match l, conv, v with
    | .cpp, .asIs, .str s => some (.val (.str s))
    | .cpp, .stdToWstring, .int i => if fitsLong i then some (.val (.str (intText i))) else none
    | _, _, _ => none

end AasVerif.TargetEmit
